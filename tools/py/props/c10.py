"""C10 — Ethereum client: rule-abiding headers only; forks never wedge it.
Model: coq/theories/Model/Eth.v (+ EthCheck.v); harness: harness/cmd/c10."""
import json
import os
from collections import Counter

import vlib
from vlib import coq_bool, coq_list, coq_option

HEADER = ('From Teleport Require Import Base.Bytes Base.Outcome Model.Eth Model.EthCheck.\n'
          'Local Open Scope N_scope.\n')
SHARD_STEPS = 400   # submissions per Coq file

KINDS = {
    1: 'model and code disagree on accept / reject / panic of a submitted header',
    2: 'model and code disagree on the client state / client store after an accepted header',
    3: 'model and code disagree on the state after CreateClient',
    12: 'the model consulted a seal verdict the harness did not tabulate (model and code disagree on the checks before the seal)',
    13: 'a submitted header is missing from the hash table',
    16: 'a refused update changed the observed state (the harness observes the unchanged branch: harness defect)',
    15: 'the case does not decode (harness output / encoder out of step with Model/EthCheck.v)',
    14: 'tabulated hash oracle violates the hypotheses (32 bytes, different numbers => different hashes)',
    21: 'header accepted although no stored header is its rule-abiding parent (parent lookup, parent hash, timestamp, gas limit, '
        'base fee, difficulty / extra data / seal outside Rinkeby)',
    23: 'accepted header did not become the head',
    25: 'WEDGE: a rule-abiding child of a stored header was refused although no header of the two branches above the fork point '
        'was pruned (every hypothesis of no_wedge holds)',
    26: 'after an accepted header a consensus state kept for a height on the head\'s ancestry is not that ancestor\'s (time, height, root)',
    27: 'the observed store contains entries outside the header table of the case',
    28: 'the update panicked',
    31: 'function level: the difficulty calculator of the code and calc_difficulty of the model disagree',
    32: 'function level: CalcBaseFee of the code and calc_base_fee of the model disagree (value or panic)',
    33: 'function level: VerifyGaslimit of the code and verify_gaslimit of the model disagree',
    35: 'the difficulty the code computes from a real main-net parent is not the real child\'s: the client refuses a rule-abiding child',
    36: 'the base fee the code computes from a real main-net parent is not the real child\'s: the client refuses a rule-abiding child',
    37: 'the code refuses the gas limit of a real main-net child',
    41: 'rule-abiding child of a stored header refused: the fork point lies below the pruned prefix (the sibling on the main branch was pruned)',
    42: 'the accepted header left the client Expired at the very block time of the update (its timestamp is older than the trusting period): every later update is refused',
    43: 'after a header whose state root equals a stored sibling\'s: consensus states no longer follow the head\'s ancestry / valid child refused',
    44: 'after a header with another revision number: consensus states no longer follow the head\'s ancestry / valid child refused',
}
# monitor kinds that are hypotheses of the theorems shown necessary by Refuted/C10_*.v: reported as KNOWN-FINDING when listed
KEYS = {41: 'eth-fork-below-pruned-prefix', 42: 'eth-reorg-to-expired-branch', 43: 'eth-sibling-same-root',
        44: 'eth-revision-number'}


class Enc:
    """binary case format decoded by Model/EthCheck.v: pcase"""

    def __init__(self):
        self.out = bytearray()

    def u(self, k, x):
        self.out += int(x).to_bytes(k, 'big')

    def var(self, x):
        x = int(x)
        k = (x.bit_length() + 7) // 8
        self.u(1, k)
        self.out += x.to_bytes(k, 'big')

    def bytes_(self, hexs):
        raw = bytes.fromhex(hexs)
        self.u(2, len(raw))
        self.out += raw


def hexok(h):
    return all(ch in '0123456789abcdefABCDEF' for ch in h) and len(h) % 2 == 0


def enc_cstate(e, t, rev, num, root):
    e.var(t); e.var(rev); e.var(num); e.bytes_(root if hexok(root) else 'ff')


def ix(i, n):
    return i if 0 <= i < n else 65535


def store_of(o, nh):
    """observation -> (cons dict key -> entry, idx list, rmain list) with table indices"""
    cons = {}
    for c in o['cons'] or []:
        if 0 <= c['id'] < nh:
            v = ('h', c['id'])
        elif c['id'] == -2:
            v = ('c0',)
        else:
            v = ('x', c['time'], c['crev'], c['cnum'], c['root'])
        cons[(c['rev'], c['num'])] = v
    return cons, [ix(i, nh) for i in o['idx'] or []], [(ix(a, nh), ix(b, nh)) for a, b in o['rmain'] or []]


def multiset_diff(old, new):
    """(removed, added) such that removing ALL occurrences of `removed` values from old and appending `added` gives new (as a multiset)"""
    from collections import Counter
    co, cn = Counter(old), Counter(new)
    removed = [x for x in co if co[x] != cn.get(x, 0)]
    added = []
    for x in cn:
        if co.get(x, 0) != cn[x]:
            added += [x] * cn[x]
    return removed, added


def enc_obs(e, nh, o, ref):
    """ref = (head, rest_same, other, cons, idx, rmain) of the state the step started from; returns the tuple of o"""
    e.u(1, o['class'])
    if o['class'] != 0:
        return ref
    cons, idx, rm = store_of(o, nh)
    e.u(2, ix(o['head'], nh)); e.u(1, 1 if o['rest_same'] else 0); e.u(2, min(o['other'], 65535))
    rcons, ridx, rrm = ref[3], ref[4], ref[5]
    cdel = [k for k in rcons if k not in cons]
    cadd = [(k, v) for k, v in cons.items() if rcons.get(k) != v]
    e.u(2, len(cdel))
    for r, n in cdel:
        e.var(r); e.var(n)
    e.u(2, len(cadd))
    for (r, n), v in cadd:
        e.var(r); e.var(n)
        if v[0] == 'h':
            e.u(2, v[1])
        elif v[0] == 'c0':
            e.u(2, 65534)
        else:
            e.u(2, 65535)
            enc_cstate(e, v[1], v[2], v[3], v[4])
    idel, iadd = multiset_diff(ridx, idx)
    e.u(2, len(idel))
    for i in idel:
        e.u(2, i)
    e.u(2, len(iadd))
    for i in iadd:
        e.u(2, i)
    rdel, radd = multiset_diff(rrm, rm)
    e.u(2, len(rdel))
    for a, b in rdel:
        e.u(2, a); e.u(2, b)
    e.u(2, len(radd))
    for a, b in radd:
        e.u(2, a); e.u(2, b)
    return (ix(o['head'], nh), o['rest_same'], o['other'], cons, idx, rm)


def same_obs(nh, o, ref):
    cons, idx, rm = store_of(o, nh)
    return (ix(o['head'], nh), o['rest_same'], o['other']) == ref[:3] and cons == ref[3] and sorted(idx) == sorted(ref[4]) \
        and sorted(rm) == sorted(ref[5])


def enc_case(r):
    """returns (bytes, list of steps (1-based) at which a refused update changed the observed state)"""
    sp = r['spec']
    e = Enc()
    e.u(1, 1 if sp['mode'] == 'raw' else 0); e.var(sp['chain_id']); e.var(sp['trust'])
    c = sp['cons']
    enc_cstate(e, c['time'], c['rev'], c['num'], c['root'])
    pool, pix = [], {}

    def ref(h):
        h = h.lower()
        if h not in pix:
            pix[h] = len(pool)
            pool.append(h)
        return pix[h]
    hdrs = []
    for j, n in enumerate(sp['nodes']):
        refs = [ref(x) for x in (r['parents'][j], n['uncle'], n['coinbase'], n['root'], n['tx'], n['receipt'], n['bloom'],
                                 n['diff'], n['extra'], n['mix'], n['basefee'])]
        hdrs.append((refs, [n['rev'], n['num'], n['gaslimit'], n['gasused'], n['time'], n['nonce']],
                     ref(r['oracle'][j]['hash']), r['oracle'][j]['ethash']))
    e.u(2, len(pool))
    for h in pool:
        e.bytes_(h)
    e.u(2, len(hdrs))
    for refs, nums, hr, seal in hdrs:
        for x in refs:
            e.u(2, x)
        for x in nums:
            e.var(x)
        e.u(2, hr); e.u(1, seal)
    nh = len(hdrs)
    cur = enc_obs(e, nh, r['create'], (65535, False, 0, {}, [], []))
    steps = list(zip(sp['steps'] or [], r['obs'] or []))
    e.u(2, len(steps))
    dirty = []
    for j, (st, o) in enumerate(steps):
        e.var(st['bt']); e.u(2, ix(st['n'], nh)); e.u(1, 1 if st['probe'] else 0)
        nxt = enc_obs(e, nh, o, cur)
        if o['class'] != 0 and not same_obs(nh, o, cur):
            dirty.append(j + 1)
        if o['class'] == 0 and not st['probe']:
            cur = nxt
    return bytes(e.out), dirty


def coq_bytes(raw):
    chunks = [raw[p:p + 1500] for p in range(0, len(raw), 1500)]
    return 'List.concat [%s]' % ';\n'.join('[%s]' % ';'.join('x%02x' % c for c in ch) for ch in chunks)


def shards_of(results):
    shards, cur, n = [], [], 0
    for i, r in enumerate(results):
        k = len(r['spec']['steps'] or []) + 1
        if cur and n + k > SHARD_STEPS:
            shards.append(cur)
            cur, n = [], 0
        cur.append(i)
        n += k
    if cur:
        shards.append(cur)
    return shards


def evaluate(workdir, results, tag='cases'):
    """returns (mismatches, monitor_failures) as lists of (case, step, kind); (None, log) on a Coq failure.
    step 0 = creation, step i = i-th submission (1-based)."""
    shards = shards_of(results)

    def one(ix):
        i, members = ix
        defs, names, dirty = '', [], []
        for j, ci in enumerate(members):
            raw, d = enc_case(results[ci])
            dirty += [(ci, st, 16) for st in d]
            defs += 'Definition c%d : bytes := %s.\n' % (j, coq_bytes(raw))
            names.append('c%d' % j)
        defs += 'Definition cases : list bytes := %s.\n' % coq_list(names)
        res = vlib.coq_eval_lists(workdir, '%s_%d.v' % (tag, i), HEADER, defs,
                                  [('R', 'report cases'), ('M', 'fst (fst R)'), ('F', 'snd (fst R)'), ('O', 'snd R')])
        m = vlib.parse_nat_tuples(res.get('M'), 3)
        f = vlib.parse_nat_tuples(res.get('F'), 3)
        o = vlib.parse_nat_tuples(res.get('O'), 1)
        if res['_rc'] != 0 or m is None or f is None or o is None:
            return ('error', res['_out'][-3000:])
        return ([(members[h], s, k) for h, s, k in m] + [(members[h], 0, 14) for (h,) in o] + dirty,
                [(members[h], s, k) for h, s, k in f])

    outs = vlib.parallel(one, list(enumerate(shards)), workers=10)
    mm, ff = [], []
    for o in outs:
        if o[0] == 'error':
            return None, o[1]
        mm += o[0]
        ff += o[1]
    return mm, ff


def q_term(c):
    def hx(h):
        return '0x' + (h or '0')
    diff = ('(-%s)%%Z' if c['diff_neg'] else '%s%%Z') % hx(c['diff'])
    bf = '(Some %s)' % hx(c['bf']) if c['bf_class'] == 0 else 'None'
    child = '(Some (%s, %s))' % (hx(c['cdiff']), hx(c['cbf'])) if c['has_child'] else 'None'
    return '(mkq %d %d %d %d "%s" "%s" "%s" %d %d %s %s %s %s)' % (
        c['ptime'], c['pnum'], c['pgaslimit'], c['pgasused'], c['puncle'].lower(), c['pdiff'].lower(), c['pbasefee'].lower(),
        c['time'], c['hgaslimit'], diff, bf, coq_bool(c['gl_ok']), child)


def evaluate_calc(workdir, cases, tag='calc', shard=800):
    """returns (mismatches, monitor failures) as lists of (case index, kind); (None, log) on a Coq failure"""
    if not cases:
        return [], []

    def one(k):
        part = cases[k:k + shard]
        defs = 'Definition qs : list qcase := %s.\n' % coq_list([q_term(c) for c in part])
        res = vlib.coq_eval_lists(workdir, '%s_cases_%d.v' % (tag, k // shard), HEADER, defs,
                                  [('CR', 'calc_report qs'), ('CM', 'fst CR'), ('CF', 'snd CR')])
        m = vlib.parse_nat_tuples(res.get('CM'), 2)
        f = vlib.parse_nat_tuples(res.get('CF'), 2)
        if res['_rc'] != 0 or m is None or f is None:
            return ('error', res['_out'][-3000:])
        return ([(k + i, kd) for i, kd in m], [(k + i, kd) for i, kd in f])

    outs = vlib.parallel(one, list(range(0, len(cases), shard)), workers=4)
    mm, ff = [], []
    for o in outs:
        if o[0] == 'error':
            return None, o[1]
        mm += o[0]
        ff += o[1]
    return mm, ff


def run_specs(workdir, specs, tag):
    inp = os.path.join(workdir, tag + '_in.jsonl')
    out = os.path.join(workdir, tag + '_out.jsonl')
    vlib.write_jsonl(inp, specs)
    rc, o = vlib.run_harness('c10', ['-in', inp, '-out', out])
    if rc != 0:
        return None
    return vlib.read_jsonl(out)


def shrink(workdir, spec, step, kind, budget=40):
    """keep the prefix up to the failing submission, then drop single submissions (from the front) while the same
    failure kind is still reported -- re-running the real code each time.  Nodes stay (a dropped step's header simply
    is not submitted)."""
    best = dict(spec)
    best['steps'] = list(spec['steps'][:step])   # step is 1-based

    def fails(sp):
        rs = run_specs(workdir, [sp], 'shrink')
        if not rs:
            return False
        mm, ff = evaluate(workdir, rs, 'shrink_cases')
        if mm is None:
            return False
        return any(k == kind for _, _, k in (ff + mm))
    changed = True
    while changed and budget > 0:
        changed = False
        for i in range(len(best['steps']) - 1):
            cand = dict(best)
            cand['steps'] = best['steps'][:i] + best['steps'][i + 1:]
            budget -= 1
            if fails(cand):
                best, changed = cand, True
                break
            if budget <= 0:
                break
    # drop the nodes no remaining step needs
    need = set()
    for st in best['steps']:
        n = st['n']
        while n >= 0 and n not in need:
            need.add(n)
            n = best['nodes'][n]['p'] if n < len(best['nodes']) else -1
    need.add(0)
    order = sorted(need)
    remap = {old: new for new, old in enumerate(order)}
    nodes = []
    for old in order:
        nd = dict(best['nodes'][old])
        if nd['p'] >= 0:
            nd['p'] = remap.get(nd['p'], -1)
        nodes.append(nd)
    cand = dict(best, nodes=nodes, steps=[dict(st, n=remap[st['n']]) for st in best['steps']])
    if budget > -5 and fails(cand):
        best = cand
    return best


def coverage(run, results, mm, ff):
    dist = Counter()
    nontrivial = set()
    steps = 0
    tags = Counter()
    muts = Counter()
    shapes = Counter()
    for r in results:
        sp = r['spec']
        tag = sp['tag'].split(':')[0]
        tags[sp['tag'] if sp['tag'].startswith(('corpus', 'witness')) else tag] += 1
        dist['mode_' + sp['mode']] += 1
        dist['chain_rinkeby' if sp['chain_id'] == 4 else 'chain_pow'] += 1
        nodes = sp['nodes']
        kids = Counter(n['p'] for n in nodes[1:] if n['p'] >= 0)
        submitted = set(st['n'] for st in sp['steps'] if not st['probe'])
        depth = max([n['num'] for i, n in enumerate(nodes) if i in submitted] + [nodes[0]['num']]) - nodes[0]['num']
        shapes['depth_%d' % min(depth, 13)] += 1
        shapes['max_branching_%d' % min(max(kids.values() or [0]), 4)] += 1
        seen = set()
        head = 0
        for st, o in zip(sp['steps'] or [], r['obs'] or []):
            steps += 1
            n = nodes[st['n']]
            lab = n.get('label', '')
            cls = {0: 'accepted', 1: 'rejected', 2: 'panic'}[o['class']]
            dist['step_' + cls] += 1
            if st['probe']:
                dist['probe_' + cls] += 1
            if '~' in lab:
                muts[lab.split('~', 1)[1] + ':' + cls] += 1
            if st['n'] in seen and not st['probe']:
                dist['resubmission_' + cls] += 1
            if o['class'] == 0:
                kind = 'extends_head' if n['p'] == head else ('resubmit' if st['n'] in seen else 'reorg')
                if kind == 'reorg':
                    d = 'down' if n['num'] <= nodes[head]['num'] else 'up'
                    dist['reorg_head_moves_' + d] += 1
                dist['accepted_' + kind] += 1
                if not st['probe']:
                    head = st['n']
                    seen.add(st['n'])
            nontrivial.add((o['class'], tag, lab.split('~', 1)[1] if '~' in lab else '', st['probe'], n['num'] - nodes[0]['num'],
                            len(o['cons']), len(o['idx']), o['head'] == st['n']))
        # pruning activity: header-index entries disappearing
        ids = [set(o['idx']) for o in r['obs'] or [] if o['class'] == 0]
        for a, b in zip(ids, ids[1:]):
            if a - b:
                dist['updates_that_pruned'] += 1
    run.coverage.update(dict(
        evaluations=steps, cases=len(results), distinct_nontrivial=len(nontrivial),
        rule='every submission of a header to the real client (ClientKeeper.UpdateClient, or CheckHeaderAndUpdateState + the '
             'keeper\'s writes in raw mode) is one evaluation (model step compared on result class + full client state/store, '
             'plus the monitors); distinct = distinct (result class, scenario, mutation, probe, depth, #consensus states, '
             '#stored headers, became head)',
        distribution=dict(dist), scenarios=dict(tags), mutations=dict(muts), tree_shapes=dict(shapes),
        model_mismatches=len(mm), monitor_failures=len(ff),
        samples=[dict(results[2]['spec'])] if len(results) > 2 else []))
    run.coverage['trusted_base'] += [
        'hand-written model Model/Eth.v tied to x/xibc/clients/light-clients/eth and keeper.UpdateClient by this differential run '
        '(the generator bounds what it sees); oracles: Header.Hash() and the ethash seal check are recorded from the real code per header',
        'go-ethereum rlp / keccak (header hash), the ethash implementation copied into the client (seal oracle), the protobuf codec of '
        'the stored values (the harness matches stored bytes against the marshalled headers of the case)',
        'store key formats (hash/root + decimal height, big-endian revision/height) are modelled structurally as pairs (see C19)']
    run.assumptions += [
        'a rejected UpdateClient message leaves no writes (BaseApp discards the state branch of a failed transaction); the harness '
        'executes every submission on a branch written back only on success',
        'theorems: block numbers below 2^63 (above, rlp refuses the number and all headers hash alike); the hash oracle returns 32 '
        'bytes and maps headers with different numbers to different hashes (checked on every tabulated table)',
        'theorems no_wedge / main_chain_roots: the creation proposal\'s consensus state is the installed header\'s; all accepted '
        'headers carry the client\'s revision number; no two stored headers of one height share a state root; the fork point is '
        'not below the pruned prefix; the client is active -- each is shown necessary by a Refuted/C10_*.v witness that also runs '
        'on the real code (corpus scenarios witness:*)',
        'the model is parametrised by three candidate repairs (Model/Eth.v: fix_rev, fix_exp, fix_root, all false = the code as '
        'it is); the proofs hold for every value; a constant is flipped when its patch is committed to /repo']


def report(run, results, mm, ff):
    reported = set()
    for h, s, k in ff:  # property failed on the real code
        if (h, k) in reported:
            continue
        reported.add((h, k))
        key = KEYS.get(k, 'kind-%d' % k)
        if k in KEYS and run.known_finding(key, 'key=%s %s' % (key, KINDS.get(k))):
            continue
        if len(run.violations) >= 3:
            continue
        small = shrink(run.work, results[h]['spec'], s, k)
        run.violation(dict(kind='monitor', code=k, key=key, what=KINDS.get(k), spec=small, failing_step=s,
                           labels=[n.get('label', '') for n in small['nodes']],
                           observed=(results[h]['obs'][s - 1] if s >= 1 else results[h]['create'])),
                      name='replay_c%d_k%d.json' % (h, k))
    if not run.violations:
        for h, s, k in mm[:1]:  # model and code disagree, property monitor silent
            small = shrink(run.work, results[h]['spec'], s, k) if s >= 1 else dict(results[h]['spec'], steps=[])
            run.violation(dict(kind='correspondence', code=k, what=KINDS.get(k), spec=small, failing_step=s,
                               explanation='Model/Eth.v no longer describes the Ethereum client of /repo; the theorems of '
                                           'Props/C10.v are about the model, so the property is no longer shown to hold',
                               broken='correspondence Model.Eth <-> x/xibc/clients/light-clients/eth/types'),
                          name='replay_corr_c%d.json' % h, no_input=True)


def check(run):
    pr = run.proof_stage()
    if not run.quick() and pr['build_ok']:
        run.coqchk_stage()
    ok, out = vlib.build_harness(['c10'])
    if not ok:
        run.violation(dict(kind='harness-build-failed', log=out[-3000:],
                           explanation='the correspondence harness no longer builds against /repo'), no_input=True)
        return run.finish()
    outp = os.path.join(run.work, 'out.jsonl')
    fixture = os.path.join(vlib.REPO, 'x/xibc/clients/light-clients/eth/types/testdata/update_headers.json')
    calcp = os.path.join(run.work, 'calc.jsonl')
    args = ['-seed', run.seed, '-n', run.budget(150, 1500), '-perms', run.budget(4, 5), '-muts', run.budget(4, 40), '-out', outp,
            '-calc', run.budget(1000, 8000), '-calcout', calcp, '-calcfixture', fixture]
    if not run.quick():
        args += ['-fixture', fixture]
    rc, o = vlib.run_harness('c10', args, timeout=3000)
    if rc != 0:
        run.violation(dict(kind='harness-crashed', log=o[-3000:]), no_input=True)
        return run.finish()
    results = vlib.read_jsonl(outp)
    calc = vlib.read_jsonl(calcp)
    import concurrent.futures
    with concurrent.futures.ThreadPoolExecutor(max_workers=1) as ex:   # the function-level file is evaluated alongside the shards
        fut = ex.submit(evaluate_calc, run.work, calc)
        mm, ff = evaluate(run.work, results)
        cm, cf = fut.result()
    if mm is None:
        run.violation(dict(kind='coq-evaluation-failed', log=ff), no_input=True)
        return run.finish()
    if cm is None:
        run.violation(dict(kind='coq-evaluation-failed', log=cf), no_input=True)
        return run.finish()
    coverage(run, results, mm, ff)
    run.coverage['evaluations'] += len(calc)
    run.coverage['function_level'] = dict(
        triples=len(calc), mainnet_pairs=len([c for c in calc if c['has_child']]), mismatches=len(cm), monitor_failures=len(cf),
        base_fee_panics=len([c for c in calc if c['bf_class'] == 2]), gas_limit_accepted=len([c for c in calc if c['gl_ok']]),
        bomb_active=len([c for c in calc if 9899999 <= c['pnum'] < 2 ** 63]),
        rule='difficulty calculator (hook VerifCalcDifficulty), CalcBaseFee, VerifyGaslimit of the code vs the model on generated '
             'triples with boundary values; on consecutive main-net headers additionally the code\'s values vs the real child\'s')
    report(run, results, mm, ff)
    for i, k in cf[:2]:   # the code does not reproduce real main-net data: concrete failing input
        run.violation(dict(kind='monitor', code=k, what=KINDS.get(k), calc=calc[i]), name='replay_calc_%d_k%d.json' % (i, k))
    if not run.violations and cm:
        i, k = cm[0]
        run.violation(dict(kind='correspondence', code=k, what=KINDS.get(k), calc=calc[i],
                           explanation='Model/Eth.v no longer describes the arithmetic of the header rules of /repo; the theorems of '
                                       'Props/C10.v are about the model, so the property is no longer shown to hold',
                           broken='correspondence Model.Eth <-> x/xibc/clients/light-clients/eth/types/verify_header.go'),
                      name='replay_corr_calc_%d.json' % i, no_input=True)
    if not run.violations and not run.proof_ok():
        run.proof_violation()
    return run.finish()


def replay(path):
    rp = json.load(open(path))
    work = os.path.join(vlib.ROOT, 'work', 'C10_replay')
    os.makedirs(work, exist_ok=True)
    ok, out = vlib.build_harness(['c10'])
    if ok and 'calc' in rp:
        inp, outp = os.path.join(work, 'calc_in.jsonl'), os.path.join(work, 'calc_out.jsonl')
        vlib.write_jsonl(inp, [rp['calc']])
        rc, o = vlib.run_harness('c10', ['-calcin', inp, '-calcout', outp, '-out', os.path.join(work, 'unused.jsonl')])
        cs = vlib.read_jsonl(outp) if rc == 0 else []
        cm, cf = evaluate_calc(work, cs, 'replay_calc')
        for c in cs:
            print('parent number %d time %d -> difficulty 0x%s base fee %s gas limit %s; real child: %s' % (
                c['pnum'], c['ptime'], c['diff'], ('0x' + c['bf']) if c['bf_class'] == 0 else 'PANIC', c['gl_ok'],
                ('difficulty 0x%s base fee 0x%s' % (c['cdiff'], c['cbf'])) if c['has_child'] else 'n/a'))
        print('model mismatches:', cm, ' monitor failures:', [(i, k, KINDS.get(k, '')[:60]) for i, k in (cf or [])])
        if cm or cf or not cs:
            print('VIOLATION property=C10 replay=%s' % path)
            return 1
        print('replay passes on the current tree')
        return 0
    if not ok or 'spec' not in rp:
        print('cannot replay: %s' % (out[-500:] if not ok else 'no spec in replay file (%s)' % rp.get('kind')))
        return 2
    rs = run_specs(work, [rp['spec']], 'replay')
    mm, ff = evaluate(work, rs, 'replay_cases')
    for st, o in zip(rs[0]['spec']['steps'], rs[0]['obs']):
        print('submit %-22s bt=%d probe=%s -> class=%d head=%s %s' % (
            rs[0]['spec']['nodes'][st['n']].get('label', st['n']), st['bt'], st['probe'], o['class'], o['head'], o.get('err', '')[:90]))
    print('model mismatches:', mm, ' monitor failures:', [(c, s, k, KINDS.get(k, '')[:60]) for c, s, k in (ff or [])])
    known = vlib.known_findings('C10')
    bad = [(c, s, k) for c, s, k in (ff or []) if not (k in KEYS and any(f['kind'] == 'finding' and f['key'] == KEYS[k] for f in known))]
    if bad or mm:
        print('VIOLATION property=C10 replay=%s' % path)
        return 1
    print('replay passes on the current tree' + (' (known findings only)' if ff else ''))
    return 0
