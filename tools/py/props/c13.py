"""C13 — genesis export/import round trip of xibc, aggregate, rvesting.
Model: coq/theories/Model/Genesis.v (+ GenesisCheck.v); harness: harness/cmd/c13."""
import hashlib
import json
import os
from collections import Counter

import vlib
from vlib import coq_literal_bytes as cb, coq_bool, coq_list

HEADER = ('From Teleport Require Import Base.Bytes Base.Outcome Model.Keys Model.Genesis Model.GenesisCheck.\n'
          'From Teleport Require Model.Rvesting.\nLocal Open Scope N_scope.\n')

SHARD = 12

KINDS = {
    1: 'model and code disagree on whether ExportGenesis returns or panics',
    2: 'the model\'s export of the dumped state differs from the real exported genesis',
    31: 'model and code disagree on the xibc genesis validation of the export',
    32: 'model and code disagree on the aggregate genesis validation of the export',
    33: 'model and code disagree on the rvesting genesis validation of the export',
    34: 'valid_xibc of the dumped state differs from the real xibc validation result (theorem C13_export_validates_iff)',
    35: 'validate_agg of the pairs of the dumped state differs from the real aggregate validation result (theorem C13_export_validates_iff)',
    36: 'validate_rv of the dumped parameters differs from the real rvesting validation result (theorem C13_export_validates_iff)',
    41: 'model and code disagree on whether InitGenesis returns or panics',
    42: 'the model\'s import of the real export differs from the real xibc store after InitGenesis',
    43: 'the model\'s import of the real export differs from the real aggregate store after InitGenesis',
    44: 'parameters after InitGenesis differ between model and code',
    51: 'model and code disagree on the xibc validation of a generated genesis',
    52: 'model and code disagree on the aggregate validation of a generated genesis (e.g. duplicated denomination / two spellings of one contract accepted)',
    53: 'model and code disagree on the rvesting validation of a generated genesis',
    54: 'the model\'s import of a generated genesis differs from the real state after InitGenesis',
    55: 'model and code disagree on whether InitGenesis of a generated genesis panics',
    71: 'the real xibc store is outside wf_xibc: it holds an entry no export covers (the round-trip theorem does not apply)',
    72: 'the real aggregate store is outside wf_agg: index entries do not match the token pairs (the round-trip theorem does not apply)',
    81: 'host.ClientIdentifierValidator differs from the model\'s valid_chain_name',
    82: 'common.IsHexAddress differs from the model\'s is_hex_address',
    83: 'sdk.ValidateDenom differs from the model\'s valid_denom',
    84: 'a client / consensus state value reports (ClientType()) another client type than that of its own light client package',
    91: 'an operation of a corpus history (the witness of a repaired defect) is no longer executed by the real code',
    11: 'ExportGenesis panicked',
    12: 'the exported xibc genesis is rejected by the module\'s own validation',
    13: 'the exported aggregate genesis is rejected by the module\'s own validation',
    14: 'the exported rvesting genesis is rejected by the module\'s own validation',
    15: 'genesis validation panicked on an exported genesis',
    16: 'InitGenesis of the exported genesis panicked',
    17: 'the xibc store is not reproduced by export -> import (key-by-key comparison)',
    18: 'the aggregate store is not reproduced by export -> import',
    19: 'module parameters are not reproduced by export -> import',
    20: 'exporting the re-imported state does not give the same genesis again',
    21: 'app/export.go (ExportAppStateAndValidators) gives other JSON than the modules\' ExportGenesis',
    22: 'a genesis accepted by the modules\' validation made InitGenesis panic',
}

CTYPE = {'07-tendermint': 'TM', 'bsc': 'BSC', 'eth': 'ETH', 'tss': 'TSS'}

FINDING_KEYS = {1: 'genesis-zero-height-consensus-state', 2: 'genesis-toggle-mixed-types',
                3: 'genesis-bsc-empty-pending-validators', 4: 'genesis-toggle-mixed-types'}


def iv(h):
    """projection of a stored VALUE: long values (client / consensus states, headers, relayer and pair records)
    are replaced by a digest — only their identity matters; short values (sequences, receipts, ids, hashes,
    chain name, emptiness) are kept as they are."""
    b = bytes.fromhex(h)
    if len(b) > 40:
        return b'\xfe' + hashlib.sha256(b).digest()[:19]
    return b


def cv(h):
    return cb(iv(h))


def ck(h):
    return cb(bytes.fromhex(h))


def cN(s):
    return '%d' % int(s)


CHAIN_NAME_KEY = b'chainName'.hex()


def store_term(kvs):
    # the value under "chainName" is read as text by the model (NativeChainName), it is never replaced by a digest
    return coq_list(['(%s, %s)' % (ck(k), ck(v) if k == CHAIN_NAME_KEY else cv(v)) for k, v in kvs])


def rv_term(rv):
    rew = coq_list(['(%s, (%d)%%Z)' % (ck(d), int(a) if a != 'nil' else 0) for d, a in rv['rewards']])
    return '{| Rvesting.enable := %s; Rvesting.rewards := %s |}' % (coq_bool(rv['enable']), rew)


def bb(p):
    return '(%s, %s)' % (coq_bool(p[0]), coq_bool(p[1]))


def state_term(d):
    return '{| st_xibc := %s; st_agg := %s; st_agg_params := %s; st_rv_params := %s |}' % (
        store_term(d['xibc']), store_term(d['agg']), bb(d['agg_params']), rv_term(d['rv']))


def rel_term(r):
    return '{| r_address := %s; r_chains := %s; r_addresses := %s |}' % (
        ck(r['address']), coq_list([ck(c) for c in r['chains']]), coq_list([ck(c) for c in r['addresses']]))


def pair_term(p):
    return '{| tp_erc20 := %s; tp_denoms := %s; tp_enabled := %s; tp_owner := %d |}' % (
        ck(p['erc20']), coq_list([ck(c) for c in p['denoms']]), coq_bool(p['enabled']), p['owner'])


def pkt_term(p):
    return '{| ps_src := %s; ps_dst := %s; ps_seq := %s; ps_data := %s |}' % (ck(p['src']), ck(p['dst']), cN(p['seq']), cv(p['data']))


def gen_term(g):
    cons = coq_list(['(%s, %s)' % (ck(c['name']), coq_list(
        ['({| rev_number := %s; rev_height := %s |}, %s)' % (cN(s[0]), cN(s[1]), cv(s[2])) for s in c['states']]))
        for c in g['consensus']])
    meta = coq_list(['(%s, %s)' % (ck(m['name']), coq_list(['(%s, %s)' % (ck(k), cv(v)) for k, v in m['kvs']])) for m in g['metadata']])
    cg = '{| g_clients := %s; g_consensus := %s; g_metadata := %s; g_native := %s; g_relayers := %s |}' % (
        coq_list(['(%s, %s)' % (ck(n), cv(v)) for n, v in g['clients']]), cons, meta, ck(g['native']),
        coq_list([rel_term(r) for r in g['relayers']]))
    pg = '{| g_acks := %s; g_commitments := %s; g_receipts := %s; g_send_seqs := %s |}' % (
        coq_list([pkt_term(p) for p in g['acks']]), coq_list([pkt_term(p) for p in g['commitments']]),
        coq_list([pkt_term(p) for p in g['receipts']]),
        coq_list(['((%s, %s), %s)' % (ck(p['src']), ck(p['dst']), cN(p['seq'])) for p in g['send_seqs']]))
    return '{| g_client := %s; g_packet := %s; g_agg_params := %s; g_pairs := %s; g_rv_params := %s |}' % (
        cg, pg, bb(g['agg_params']), coq_list([pair_term(p) for p in g['pairs']]), rv_term(g['rv']))


def tables_term(t):
    def rows(rs):
        return coq_list(['(%s, (%s, (%s, %s)))' % (cv(r['v']), CTYPE.get(r.get('c'), 'TM'), CTYPE.get(r['t'], 'TM'), coq_bool(r['ok'])) for r in rs])
    return '{| t_cs := %s; t_cons := %s; t_rel := %s; t_tp := %s; t_sha := %s; t_addr := %s; t_acc := %s |}' % (
        rows(t['cs']), rows(t['cons']),
        coq_list(['(%s, %s)' % (cv(r['v']), rel_term(r['r'])) for r in t['rel']]),
        coq_list(['(%s, %s)' % (cv(r['v']), pair_term(r['p'])) for r in t['tp']]),
        coq_list(['(%s, %s)' % (ck(a), ck(b)) for a, b in t['sha']]),
        coq_list(['(%s, %s)' % (ck(a), ck(b)) for a, b in t['addr']]),
        coq_list(['(%s, %s)' % (ck(a), coq_bool(b == '1')) for a, b in (t.get('acc') or [])]))


def texts_term(t):
    hexa = dict(t.get('hexaddr') or [])
    den = dict(t.get('denom') or [])
    out = []
    for k, v in (t.get('name') or []):
        out.append('(%s, (%s, (%s, %s)))' % (ck(k), coq_bool(v == '1'), coq_bool(hexa.get(k) == '1'), coq_bool(den.get(k) == '1')))
    return coq_list(out)


def triple(v):
    return '(%d, (%d, %d))%%nat' % (v['xibc'], v['agg'], v['rv']) if v else '(0, (0, 0))%nat'


def case_defs(i, r):
    """Coq definitions of case i; returns (text, name of the gcase)"""
    t = r.get('tables') or dict(cs=[], cons=[], rel=[], tp=[], sha=[], addr=[], acc=[])
    defs = []
    pre = r.get('pre')
    has_pre = pre is not None
    defs.append('Definition pre_%d : mstate := %s.' % (i, state_term(pre) if has_pre else 'empty_state'))
    exp = r.get('export')
    defs.append('Definition exp_%d : genesis bytes bytes := %s.' % (i, gen_term(exp) if exp else 'empty_genesis'))
    post = r.get('post')
    if post is None:
        post_name = 'empty_state'
    elif post == pre:
        post_name = 'pre_%d' % i
    else:
        defs.append('Definition post_%d : mstate := %s.' % (i, state_term(post)))
        post_name = 'post_%d' % i
    exp2 = r.get('export2')
    if exp2 is None:
        exp2_name = 'empty_genesis'
    elif exp2 == exp:
        exp2_name = 'exp_%d' % i
    else:
        defs.append('Definition exp2_%d : genesis bytes bytes := %s.' % (i, gen_term(exp2)))
        exp2_name = 'exp2_%d' % i
    ing = r.get('in_genesis')
    defs.append('Definition inp_%d : genesis bytes bytes := %s.' % (i, gen_term(ing) if ing else 'empty_genesis'))
    defs.append(
        'Definition case_%d : gcase := {| c_tab := %s; c_has_pre := %s; c_pre := pre_%d; c_export_class := %d; c_export := exp_%d; '
        'c_app_equal := %s; c_validate := %s; c_init_class := %d; c_post := %s; c_export2_class := %d; c_export2 := %s; '
        'c_has_input := %s; c_input := inp_%d; c_in_validate := %s; c_in_init := %d; c_texts := %s |}.' % (
            i, tables_term(t), coq_bool(has_pre), i, r.get('export_class', 0), i, coq_bool(r.get('app_path_equal', True)),
            triple(r.get('validate')), r.get('init_class', 0), post_name, r.get('export2_class', 0), exp2_name,
            coq_bool(ing is not None), i, triple(r.get('in_validate')), r.get('in_init', 9), texts_term(t)))
    return '\n'.join(defs) + '\n', 'case_%d' % i


def evaluate(workdir, results, tag='cases'):
    """returns (mismatches, monitor_failures, diagnoses) as lists of (case, kind); (None, log, None) on a Coq failure"""
    shards = [list(range(i, min(i + SHARD, len(results)))) for i in range(0, len(results), SHARD)]

    def one(ix):
        si, idxs = ix
        text = ''
        names = []
        for i in idxs:
            d, n = case_defs(i, results[i])
            text += d
            names.append(n)
        text += 'Definition cases : list gcase := %s.\n' % coq_list(names)
        res = vlib.coq_eval_lists(workdir, '%s_%d.v' % (tag, si), HEADER, text,
                                  [('M', 'mismatches cases'), ('F', 'monitor_failures cases'), ('D', 'diagnoses cases')])
        m = vlib.parse_nat_tuples(res.get('M'), 2)
        f = vlib.parse_nat_tuples(res.get('F'), 2)
        d = vlib.parse_nat_tuples(res.get('D'), 2)
        if res['_rc'] != 0 or m is None or f is None or d is None:
            return ('error', res['_out'][-3000:])
        off = idxs[0]
        return ([(c + off, k) for c, k in m], [(c + off, k) for c, k in f], [(c + off, k) for c, k in d])

    outs = vlib.parallel(one, list(enumerate(shards)), workers=8)
    mm, ff, dd = [], [], []
    for o in outs:
        if o[0] == 'error':
            return None, o[1], None
        mm += o[0]
        ff += o[1]
        dd += o[2]
    return mm, ff, dd


def run_specs(workdir, specs, tag):
    inp = os.path.join(workdir, tag + '_in.jsonl')
    out = os.path.join(workdir, tag + '_out.jsonl')
    vlib.write_jsonl(inp, specs)
    rc, o = vlib.run_harness('c13', ['-in', inp, '-out', out])
    if rc != 0:
        return None
    return vlib.read_jsonl(out)


def run_generated(workdir, seed, n, tag, jobs=8):
    """generate + run, sharded over `jobs` processes (each regenerates the same spec list and runs its slice)"""
    total = n + 128  # corpus size is below 128; the harness ignores indices beyond the list
    per = (total + jobs - 1) // jobs

    def one(j):
        out = os.path.join(workdir, '%s_%d.jsonl' % (tag, j))
        rc, o = vlib.run_harness('c13', ['-seed', seed, '-n', n, '-from', j * per, '-to', (j + 1) * per, '-out', out])
        return rc, o, out
    outs = vlib.parallel(one, list(range(jobs)), workers=jobs)
    results = []
    for rc, o, path in outs:
        if rc != 0:
            return None, o
        results += vlib.read_jsonl(path)
    return results, ''


def fails(workdir, spec, want_kinds, klass):
    rs = run_specs(workdir, [spec], 'shrink')
    if not rs or rs[0].get('fatal'):
        return False
    mm, ff, _ = evaluate(workdir, rs, 'shrink_cases')
    if mm is None:
        return False
    got = ff if klass == 'monitor' else mm
    return any(k in want_kinds for _, k in got)


XIBC_LISTS = ('clients', 'consensus', 'metadata', 'relayers', 'acks', 'commitments', 'receipts', 'send_seqs')


def removals(sp):
    """every spec obtained by removing ONE element: an operation of a history; a token pair, or an element of one of the
    lists of a generated xibc genesis (clients, consensus groups and their states, metadata groups and their entries,
    relayers, packet states)"""
    def clone():
        return json.loads(json.dumps(sp))
    if sp['kind'] == 'history':
        for i in range(len(sp['ops']) - 1, -1, -1):
            c = clone()
            del c['ops'][i]
            yield c
        return
    g = sp.get('gen') or {}
    for i in range(len(g.get('pairs') or []) - 1, -1, -1):
        c = clone()
        del c['gen']['pairs'][i]
        yield c
    x = g.get('xibc')
    if not x:
        return
    for key in XIBC_LISTS:
        for i in range(len(x.get(key) or []) - 1, -1, -1):
            c = clone()
            del c['gen']['xibc'][key][i]
            yield c
    for i, grp in enumerate(x.get('consensus') or []):
        for j in range(len(grp.get('states') or []) - 1, -1, -1):
            if len(grp['states']) > 1:
                c = clone()
                del c['gen']['xibc']['consensus'][i]['states'][j]
                yield c
    for i, grp in enumerate(x.get('metadata') or []):
        for j in range(len(grp.get('kvs') or []) - 1, -1, -1):
            if len(grp['kvs']) > 1:
                c = clone()
                del c['gen']['xibc']['metadata'][i]['kvs'][j]
                yield c


def shrink(workdir, spec, want_kinds, klass):
    """greedy one-element removal (history operations / genesis elements), re-running the real code each time"""
    best = json.loads(json.dumps(spec))
    budget = 40
    changed = True
    while changed and budget > 0:
        changed = False
        for cand in removals(best):
            if budget <= 0:
                break
            budget -= 1
            if fails(workdir, cand, want_kinds, klass):
                best = cand
                changed = True
                break
    return best


def has_2f(n):
    return 0x2f in int(n).to_bytes(8, 'big')


def coverage(results):
    dist = Counter()
    nontrivial = set()
    for r in results:
        s = r['spec']
        dist['cases_' + s['kind']] += 1
        if r.get('fatal'):
            dist['harness_fatal'] += 1
            continue
        for o, ob in zip(s.get('ops') or [], r.get('ops') or []):
            dist['op_%s_%s' % (o['k'], {0: 'ok', 1: 'error', 2: 'panic', 3: 'rejected', 4: 'na'}[ob['class']])] += 1
            if o['k'] in ('create', 'upgrade', 'toggle') and ob['class'] == 0:
                dist['%s_%s' % (o['k'], o.get('t'))] += 1
        if s['kind'] == 'genesis':
            v = r.get('in_validate') or {}
            acc = 'accepted' if v.get('agg') == 0 and v.get('xibc') == 0 else 'rejected'
            x = (s.get('gen') or {}).get('xibc')
            if x:
                dist['genesis_input_xibc_' + acc] += 1
                dist['genesis_input_xibc_planted_' + (x.get('defect') or 'nothing').split(' ')[0]] += 1
                if r.get('in_init') == 2:
                    dist['genesis_input_xibc_accepted_but_init_panicked'] += 1
            else:
                dist['genesis_input_aggregate_' + acc] += 1
        exp = r.get('export')
        if exp:
            for c in exp['consensus']:
                for st in c['states']:
                    dist['consensus_states'] += 1
                    if has_2f(st[0]) or has_2f(st[1]):
                        dist['consensus_states_with_0x2f_in_key'] += 1
                    if int(st[0]) > 0:
                        dist['consensus_states_revision_gt_0'] += 1
                    if int(st[0]) == 0 and int(st[1]) == 0:
                        dist['consensus_states_height_zero'] += 1
            dist['clients'] += len(exp['clients'])
            dist['metadata_entries'] += sum(len(m['kvs']) for m in exp['metadata'])
            for m in exp['metadata']:
                for k, _ in m['kvs']:
                    kb = bytes.fromhex(k)
                    for pre, nm in ((b'iterateConsensusStates', 'tm_iteration_key'), (b'consensusStates/', 'tm_processed_time'),
                                    (b'recentSingers', 'bsc_recent_signer'), (b'pendingValidators', 'bsc_pending_validators'),
                                    (b'ethHeaderIndex', 'eth_header_index'), (b'ethRootMain', 'eth_root_main')):
                        if kb.startswith(pre):
                            dist['metadata_' + nm] += 1
                            break
                    else:
                        dist['metadata_other'] += 1
            dist['relayers'] += len(exp['relayers'])
            dist['acks'] += len(exp['acks'])
            dist['commitments'] += len(exp['commitments'])
            dist['receipts'] += len(exp['receipts'])
            dist['send_sequences'] += len(exp['send_seqs'])
            dist['token_pairs'] += len(exp['pairs'])
            dist['token_pairs_multi_denom'] += sum(1 for p in exp['pairs'] if len(p['denoms']) > 1)
            dist['token_pairs_disabled'] += sum(1 for p in exp['pairs'] if not p['enabled'])
            for row in (r.get('tables') or {}).get('cs', []):
                dist['client_state_values_' + row['t']] += 1
        pre = r.get('pre')
        if pre and (len(pre['xibc']) > 1 or pre['agg']):
            nontrivial.add(hashlib.sha256(json.dumps([[k for k, _ in pre['xibc']], [k for k, _ in pre['agg']]]).encode()).hexdigest())
    return dist, nontrivial


def finding_key(kinds, diag):
    """the signature of a failing case: which known cause the Coq diagnosis of its pre-state names"""
    if diag and all(d in FINDING_KEYS for d in diag):
        keys = {FINDING_KEYS[d] for d in diag}
        if len(keys) == 1 and any(k in (12, 17) for k in kinds):
            return keys.pop()
    return None


def check(run):
    run.proof_stage()
    if not run.quick():
        run.coqchk_stage()
    ok, out = vlib.build_harness(['c13'])
    if not ok:
        run.violation(dict(kind='harness-build-failed', log=out[-3000:],
                           explanation='the correspondence harness no longer builds against /repo'), no_input=True)
        return run.finish()
    n = run.budget(160, 3000)
    results, log = run_generated(run.work, run.seed, n, 'out')
    if results is None:
        run.violation(dict(kind='harness-crashed', log=log[-3000:]), no_input=True)
        return run.finish()
    results.sort(key=lambda r: r['spec']['id'])
    mm, ff, dd = evaluate(run.work, results)
    if mm is None:
        run.violation(dict(kind='coq-evaluation-failed', log=ff), no_input=True)
        return run.finish()
    fatal = [r for r in results if r.get('fatal')]

    dist, nontrivial = coverage(results)
    run.coverage.update(dict(
        evaluations=len(results), distinct_nontrivial=len(nontrivial),
        rule='one evaluation = one state produced on the real code (history of client / packet / registry / parameter operations, '
             'or import of a generated genesis) taken through export -> JSON -> ValidateGenesis -> InitChain of a fresh app -> dump -> '
             'second export, with the model run on the dumped pre-state; distinct = distinct key sets of non-empty pre-states',
        distribution=dict(dist), model_mismatches=len(mm), monitor_failures=len(ff), harness_fatal=len(fatal),
        samples=[results[0]['spec'], results[-1]['spec']] if results else []))
    run.coverage['trusted_base'] += [
        'hand-written model Model/Genesis.v (key builders / parsers from the regenerated Gen/KeysGen.v via Model/Keys.v) tied to x/xibc, '
        'x/aggregate, x/rvesting genesis code by this differential run (generator bounds what it sees)',
        'oracles: protobuf / Any codecs of client states, consensus states, relayers and token pairs; ClientState.Validate, '
        'ConsensusState.ValidateBasic, ClientType(); sha256; common.HexToAddress — tabulated from the real functions per case',
        'projection: stored values longer than 40 bytes are compared by their SHA-256 digest (tools/py/props/c13.py: iv)',
        'gogoproto JSON codec, module manager InitChain ordering, params subspaces (modelled as plain values)',
        'translators tools/gotocoq/keys (key formats) and tools/gotocoq/genesisschema (GenesisState fields, fields filled / read / '
        'validated, client-store writes and ExportMetadata iterations of the light clients): go/ast inventories, no type checking']
    run.assumptions += [
        'codec round trip: unmarshal (marshal x) = Some x for client / consensus states, relayers and token pairs (Section hypotheses)',
        'chain names of distinct clients are distinct strings, so sort.Sort (unstable) returns the same list as the model\'s insertion sort',
        'the model identifies nil and empty byte slices (PacketState.Data == nil is transcribed as Data = []): genesis travels as JSON, '
        'where both are the omitted field',
        'the guards of step / agg_step (Model/GenesisOps.v) transcribe by hand what the callers of the store writes check; they are tied '
        'to the code by the domain checks on every dumped store (codes 71, 72, 34-36), not by a proof about the callers',
        'sdk.AccAddressFromBech32, ClientState.Validate, ConsensusState.ValidateBasic and ClientType() are oracles of the validation model']

    for r in fatal[:1]:
        run.violation(dict(kind='harness-fatal', spec=r['spec'], log=r['fatal'],
                           explanation='the harness could not produce an observation for this case'), name='replay_fatal.json', no_input=True)

    diag = {}
    for c, k in dd:
        diag.setdefault(c, []).append(k)
    by_case = {}
    for c, k in ff:
        by_case.setdefault(c, []).append(k)
    reported = 0
    seen_keys = set()
    for c in sorted(by_case):
        kinds = by_case[c]
        spec = results[c]['spec']
        key = finding_key(kinds, diag.get(c))
        if key and key in seen_keys:
            continue
        small = shrink(run.work, spec, set(kinds), 'monitor')
        # re-diagnose the minimised case
        rs = run_specs(run.work, [small], 'final')
        k2, d2 = kinds, diag.get(c)
        if rs and not rs[0].get('fatal'):
            m2, f2, dd2 = evaluate(run.work, rs, 'final_cases')
            if m2 is not None and f2:
                k2, d2 = [k for _, k in f2], [k for _, k in dd2]
        key = finding_key(k2, d2)
        what = '; '.join(KINDS.get(k, str(k)) for k in sorted(set(k2)))
        if key:
            seen_keys.add(key)
            if run.known_finding(key, 'key=%s %s' % (key, what)):
                continue
        run.violation(dict(kind='monitor', codes=sorted(set(k2)), what=what, finding_key=key, diagnosis=d2, spec=small,
                           observed=dict(validate=(rs or [results[c]])[0].get('validate'), init_class=(rs or [results[c]])[0].get('init_class'),
                                         panic=(rs or [results[c]])[0].get('panic'))),
                      name='replay_c%d.json' % c)
        reported += 1
        if reported >= 3:
            break

    # corpus histories are witnesses: each of their operations must be executed by the real code
    corpus_bad = []
    for r in results:
        if r['spec'].get('corpus') and not r.get('fatal'):
            for i, (o, ob) in enumerate(zip(r['spec'].get('ops') or [], r.get('ops') or [])):
                if ob['class'] != 0:
                    corpus_bad.append(dict(case=r['spec']['id'], tag=r['spec'].get('tag'), op_index=i, op=o, outcome=ob))
    run.coverage['corpus_ops_not_executed'] = len(corpus_bad)
    if not run.violations and corpus_bad and not mm:
        b = corpus_bad[0]
        spec = [r['spec'] for r in results if r['spec']['id'] == b['case']][0]
        run.violation(dict(kind='correspondence', codes=[91], what=KINDS[91], spec=spec, failing_op=b,
                           explanation='the history that witnesses a repaired defect can no longer be executed on the real code, so the '
                                       'check no longer exercises the state it was recorded for',
                           broken='corpus of harness/cmd/c13/gen.go'), name='replay_corpus_c%d.json' % b['case'], no_input=True)

    if not run.violations and mm:
        # model and code disagree although the property's monitors are silent: look harder for a failing input
        extra, _ = run_generated(run.work, run.seed + 7919, run.budget(150, 600), 'extra')
        found = False
        if extra:
            extra.sort(key=lambda r: r['spec']['id'])
            m3, f3, d3 = evaluate(run.work, extra, 'extra_cases')
            if m3 is not None and f3:
                c, k = f3[0]
                kinds = [kk for cc, kk in f3 if cc == c]
                small = shrink(run.work, extra[c]['spec'], set(kinds), 'monitor')
                run.violation(dict(kind='monitor', codes=sorted(set(kinds)), what='; '.join(KINDS.get(x, str(x)) for x in sorted(set(kinds))),
                                   spec=small), name='replay_extra_c%d.json' % c)
                found = True
        if not found:
            c, k = mm[0]
            kinds = sorted({kk for cc, kk in mm if cc == c})
            small = shrink(run.work, results[c]['spec'], set(kinds), 'model')
            run.violation(dict(kind='correspondence', codes=kinds, what='; '.join(KINDS.get(x, str(x)) for x in kinds), spec=small,
                               explanation='Model/Genesis.v no longer describes the genesis code of /repo (or a real state left the domain '
                                           'of the theorems); the theorems of Props/C13.v are about the model, so the property is no longer '
                                           'shown to hold',
                               broken='correspondence Model.Genesis <-> x/xibc, x/aggregate, x/rvesting genesis'),
                          name='replay_corr_c%d.json' % c, no_input=True)
    if not run.violations and not run.proof_ok():
        run.proof_violation()
    return run.finish()


def replay(path):
    rp = json.load(open(path))
    work = os.path.join(vlib.ROOT, 'work', 'C13_replay')
    os.makedirs(work, exist_ok=True)
    ok, out = vlib.build_harness(['c13'])
    if not ok or 'spec' not in rp:
        print('cannot replay: %s' % (out[-500:] if not ok else 'no spec in replay file (%s)' % rp.get('kind')))
        return 2
    rs = run_specs(work, [rp['spec']], 'replay')
    if not rs:
        print('harness failed')
        return 2
    mm, ff, dd = evaluate(work, rs, 'replay_cases')
    r = rs[0]
    print('ops:', [(o['k'], b['class']) for o, b in zip(r['spec'].get('ops') or [], r.get('ops') or [])])
    print('validate:', r.get('validate'), 'in_validate:', r.get('in_validate'), 'init:', r.get('init_class'), 'panic:', r.get('panic'))
    print('model mismatches:', [(c, k, KINDS.get(k)) for c, k in (mm or [])])
    print('monitor failures:', [(c, k, KINDS.get(k)) for c, k in (ff or [])], 'diagnosis:', dd)
    if mm is None or ff or mm:
        print('VIOLATION property=C13 replay=%s' % path)
        return 1
    print('replay passes on the current tree')
    return 0
