"""C09 — BSC client accepts only the next block sealed by an eligible validator.
Model: coq/theories/Model/Bsc.v (+ BscCheck.v); harness: harness/cmd/c09."""
import json
import os
from collections import Counter

import vlib
from vlib import coq_bool, coq_list, coq_option

HEADER = ('From Coq Require Import Uint63.\nFrom Teleport Require Import Base.Bytes Base.Outcome Model.Bsc Model.BscCheck Model.BscLit.\n'
          'Local Open Scope N_scope.\n')
SHARD = 5    # chains per Coq file

KINDS = {
    1: 'model and code disagree on the result of CreateClient',
    2: 'model and code disagree on the state after CreateClient',
    3: 'model and code disagree on accept / reject / panic of a submitted header',
    4: 'model and code reject a header for different reasons (error code)',
    5: 'model and code disagree on the client state header after a step',
    6: 'model and code disagree on the validator list',
    7: 'model and code disagree on the stored recent signers',
    8: 'model and code disagree on the pending validator set',
    9: 'model and code disagree on the stored consensus states',
    10: 'model and code disagree on the recent signers a rejected raw call left in the uncommitted store',
    11: 'client state fields / foreign store keys changed',
    12: 'oracle table incomplete',
    13: 'model and code disagree on the bytes hashed for the block hash (rlp of ToBscHeader)',
    14: 'model and code disagree on the bytes the sealer signs (encodeSigHeader)',
    15: 'the real block hash / seal hash / recovered sealer is not keccak256 / secp256k1 recovery of the recorded pre-image',
    21: 'accepted header is not the direct child of the head (number + 1, parent hash) or the head did not become it',
    22: 'accepted header is structurally invalid (extra data, gas bounds, mix digest, uncle hash, difficulty 0)',
    23: 'accepted header not sealed by its coinbase or sealer not in the validator set',
    24: 'accepted sealer sealed one of the kept last floor(N/2) blocks',
    25: 'accepted difficulty does not match the turn of the sealer',
    26: 'validator set changed at a wrong height or to a list other than the one of the last epoch header',
    27: 'pending validator set is not the list of the last accepted epoch header',
    28: 'consensus state of the accepted height is not (time, height, state root) of the header, or others changed',
    29: 'a rejected submission changed the state',
    30: 'recent-signer store gained an entry other than (height, sealer) of the accepted header',
    41: 'accepted sealer sealed one of the last floor(N/2) blocks: number < limit makes `number-limit` wrap',
    42: 'accepted sealer sealed one of the last floor(N/2) blocks: its recent-signer entry was deleted with a pruned consensus state',
}
KEYS = {41: 'recents-wrap:number<limit', 42: 'recents-deleted-by-trusting-period-pruning'}
GAS_KEY = 'gas-bound-int64-cast:parent-gaslimit>=2^63'



class Intern:
    """names byte strings (and whole store entries) once per Coq file; bytes are given as hex text"""

    def __init__(self):
        self.names = {}
        self.defs = []

    def b(self, hexs):
        if len(hexs) == 0:
            return '[]'
        n = self.names.get(hexs)
        if n is None:
            n = 'b%d' % len(self.names)
            self.names[hexs] = n
            raw = bytes.fromhex(hexs)
            if len(raw) >= 8 and raw == bytes(len(raw)):
                self.defs.append('Definition %s : bytes := zeros %d.' % (n, len(raw)))
            else:
                words = []
                for i in range(0, len(raw), 7):
                    words.append('0x%s%%uint63' % raw[i:i + 7].ljust(7, b'\0').hex())
                self.defs.append('Definition %s : bytes := unpack %d [%s].' % (n, len(raw), ';'.join(words)))
        return n

    def term(self, typ, text):
        """a named definition for a repeated composite term"""
        n = self.names.get((typ, text))
        if n is None:
            n = 'e%d' % len(self.names)
            self.names[(typ, text)] = n
            self.defs.append('Definition %s : %s := %s.' % (n, typ, text))
        return n


def N(x):
    return '%d' % int(x)


def hdr_term(it, h):
    return ('{| h_rev := %s; h_num := %s; h_parent := %s; h_uncle := %s; h_coinbase := %s; h_root := %s; h_txhash := %s; '
            'h_receipt := %s; h_bloom := %s; h_diff := %s; h_gaslimit := %s; h_gasused := %s; h_time := %s; h_extra := %s; '
            'h_mix := %s; h_nonce := %s |}') % (
        N(h['rev']), N(h['num']), it.b(h['parent']), it.b(h['uncle']), it.b(h['coinbase']), it.b(h['root']), it.b(h['tx']),
        it.b(h['receipt']), it.b(h['bloom']), it.b(h['diff']), N(h['gaslimit']), N(h['gasused']), N(h['time']),
        it.b(h['extra']), it.b(h['mix']), it.b(h['nonce']))


def kv_list(it, kvs):
    return coq_list([it.term('(bytes * bytes)', '(%s, %s)' % (it.b(e['k']), it.b(e['v']))) for e in kvs])


def state_term(it, s):
    head = coq_option('%d%%nat' % s['head'] if s['head'] >= 0 else None)
    pend = coq_option(coq_list([it.b(v) for v in s['pending']]) if s['pending_present'] else None)
    cons = coq_list([it.term('(bytes * (N * height * bytes))', '(%s, (%s, (%s, %s), %s))' % (
        it.b(c['key']), N(c['time']), N(c['rev']), N(c['num']), it.b(c['root']))) for c in s['cons']])
    return ('{| o_exists := %s; o_head := %s; o_vals := %s; o_rest_same := %s; o_recents := %s; o_pending := %s; '
            'o_cons := %s; o_other := %s |}') % (
        coq_bool(s['exists']), head, coq_list([it.b(v) for v in s['vals']]), coq_bool(s['rest_same']),
        kv_list(it, s['recents']), pend, cons, N(s['other']))


def case_defs(it, idx, r):
    """returns (definitions text, name of the ocase)"""
    sp = r['spec']
    out = []
    hn = []
    hdrs = [sp['genesis']] + [st['h'] for st in (sp['steps'] or [])]
    for j, h in enumerate(hdrs):
        n = 'c%d_h%d' % (idx, j)
        out.append('Definition %s : header := %s.' % (n, hdr_term(it, h)))
        hn.append(n)
    cs = ('{| c_header := %s; c_chain := %s; c_epoch := %s; c_interval := %s; c_vals := %s; c_contract := %s; c_trust := %s |}'
          % (hn[0], N(sp['chain_id']), N(sp['epoch']), N(sp['interval']), coq_list([it.b(v) for v in (sp['vals'] or [])]),
             it.b(sp['contract']), N(sp['trust'])))
    cons0 = '{| cs_time := %s; cs_height := (%s, %s); cs_root := %s |}' % (
        N(sp['cons_time']), N(sp['cons_rev']), N(sp['cons_num']), it.b(sp['cons_root']))
    orc = []
    for j, o in enumerate(r['oracle']):
        orc.append('(%s, (%s, %s))' % (hn[j], coq_option(it.b(o['hash']) if o['hash_ok'] else None),
                                       coq_option(it.b(o['sealer']) if o['sealer_ok'] else None)))
    pre = []
    for o in r['oracle']:
        pre.append('(%s, %s, %s)' % (coq_option(it.b(o['block_pre']) if o['block_pre_ok'] else None),
                                     coq_option(it.b(o['seal_pre']) if o['seal_pre_ok'] else None),
                                     coq_bool(o['hash_is_keccak'] and o['seal_is_keccak'])))
    steps = []
    for j, (st, o) in enumerate(zip(sp['steps'] or [], r['obs'])):
        dirty = coq_option(kv_list(it, o['dirty']) if o['has_dirty'] else None)
        n = 'c%d_s%d' % (idx, j)
        out.append('Definition %s : ostep := {| s_bt := %s; s_hdr := %s; s_class := %d; s_kind := %s; s_dirty := %s; s_state := %s |}.'
                   % (n, N(st['bt']), hn[j + 1], o['class'], N(o['kind']), dirty, state_term(it, o['state'])))
        steps.append(n)
    name = 'c%d' % idx
    out.append(('Definition %s : ocase := {| k_keeper := %s; k_cs := %s; k_cons0 := %s; k_create_class := %d; k_create_kind := %s; '
                'k_create_state := %s; k_oracle := %s; k_pre := %s; k_steps := %s |}.') % (
        name, coq_bool(sp['mode'] == 'keeper'), cs, cons0, r['create']['class'], N(r['create']['kind']),
        state_term(it, r['create']['state']), coq_list(orc), coq_list(pre), coq_list(steps)))
    return out, name


def evaluate(workdir, results, tag='cases', shard=SHARD):
    """returns (mismatches, monitor_failures) as lists of (case, step, kind); (None, log) on a Coq failure"""
    shards = [results[i:i + shard] for i in range(0, len(results), shard)]

    def one(ix):
        i, sh = ix
        it = Intern()
        body, names = [], []
        for j, r in enumerate(sh):
            d, n = case_defs(it, j, r)
            body += d
            names.append(n)
        defs = '\n'.join(it.defs) + '\n' + '\n'.join(body) + '\nDefinition cases : list ocase := %s.\n' % coq_list(names)
        res = vlib.coq_eval_lists(workdir, '%s_%d.v' % (tag, i), HEADER, defs,
                                  [('M', 'mismatches cases'), ('F', 'monitor_failures cases')])
        m = vlib.parse_nat_tuples(res.get('M'), 3)
        f = vlib.parse_nat_tuples(res.get('F'), 3)
        if res['_rc'] != 0 or m is None or f is None:
            return ('error', res['_out'][-3000:])
        off = i * shard
        return ([(h + off, s, k) for h, s, k in m], [(h + off, s, k) for h, s, k in f])

    outs = vlib.parallel(one, list(enumerate(shards)), workers=14)
    mm, ff = [], []
    for o in outs:
        if o[0] == 'error':
            return None, o[1]
        mm += o[0]
        ff += o[1]
    return mm, ff


def run_specs(workdir, specs, tag):
    inp = os.path.join(workdir, tag + '_in.jsonl')
    out = os.path.join(workdir, tag + '_out.jsonl')
    vlib.write_jsonl(inp, specs)
    rc, o = vlib.run_harness('c09', ['-in', inp, '-out', out])
    if rc != 0:
        return None
    return vlib.read_jsonl(out)


def shrink(workdir, spec, obs, step, kind):
    """keep the prefix up to the failing submission, then drop rejected submissions (they change nothing) and, from
    the front, whatever else can go while the same failure kind is still reported (re-running the real code)"""
    best = dict(spec)
    best['steps'] = list(spec['steps'][:step])   # step is 1-based; step 0 = creation
    keep = [i for i, o in enumerate(obs[:step]) if o['class'] == 0 or i == step - 1]
    cand = dict(best)
    cand['steps'] = [best['steps'][i] for i in keep]

    def fails(sp):
        rs = run_specs(workdir, [sp], 'shrink')
        if not rs:
            return False
        mm, ff = evaluate(workdir, rs, 'shrink_cases')
        if mm is None:
            return False
        return any(k == kind for _, _, k in (ff + mm))
    if len(cand['steps']) < len(best['steps']) and fails(cand):
        best = cand
    return best


def signature(kind, spec, obs=None, step=0):
    """canonical key of a monitor failure (the keys of KNOWN_FINDINGS.txt)"""
    if kind == 22 and obs is not None and step >= 1:
        head = spec['genesis']
        for st, o in zip(spec['steps'][:step - 1], obs[:step - 1]):
            if o['class'] == 0:
                head = st['h']
        if int(head['gaslimit']) >= 2 ** 63:
            return GAS_KEY
    return KEYS.get(kind, 'kind-%d' % kind)


def coverage(run, results, mm, ff, tags):
    dist = Counter()
    nontrivial = set()
    steps = 0
    sizes = Counter()
    epochs = Counter()
    alltags = Counter()
    pre_cmp = Counter()
    for r in results:
        sp = r['spec']
        for o in r['oracle']:
            pre_cmp['block_preimages_compared'] += 1 if o['block_pre_ok'] else 0
            pre_cmp['seal_preimages_compared'] += 1 if o['seal_pre_ok'] else 0
            pre_cmp['block_preimage_empty_number>=2^63'] += 1 if (o['block_pre_ok'] and o['block_pre'] == '') else 0
        dist['create_class_%d' % r['create']['class']] += 1
        dist['mode_' + sp['mode']] += 1
        sizes[len(sp['vals'] or [])] += 1
        epochs[sp['epoch']] += 1
        pre_vals = sp['vals']
        for st, o in zip(sp['steps'] or [], r['obs']):
            steps += 1
            dist['step_%s' % {0: 'accepted', 1: 'rejected', 2: 'panic'}[o['class']]] += 1
            if o['class'] == 1:
                dist['reject_code_%d' % o['kind']] += 1
            if o['class'] == 0:
                if o['state']['vals'] != pre_vals:
                    dist['validator_set_switches'] += 1
                    if len(o['state']['vals']) < len(pre_vals or []):
                        dist['validator_set_shrinks'] += 1
                    elif len(o['state']['vals']) > len(pre_vals or []):
                        dist['validator_set_grows'] += 1
                pre_vals = o['state']['vals']
                if sp['epoch'] and st['h']['num'] % sp['epoch'] == 0:
                    dist['epoch_headers_accepted'] += 1
                if st['h']['diff'] == '02':
                    dist['accepted_in_turn'] += 1
                else:
                    dist['accepted_out_of_turn'] += 1
            alltags[st['tag']] += 1
            nontrivial.add((o['class'], o['kind'], st['tag'].split('+')[0], len(o['state']['vals']), sp['epoch'],
                            len(o['state']['recents'])))
    run.coverage.update(dict(
        evaluations=steps, chains=len(results), distinct_nontrivial=len(nontrivial),
        rule='every submission of a header to the real client is one evaluation (model step + monitor); distinct = distinct '
             '(result class, error code, generator scenario, validator-set size, epoch length, number of stored recent signers)',
        distribution=dict(dist), scenario_tags=dict(alltags), preimages=dict(pre_cmp),
        validator_set_sizes=dict(sizes), epoch_lengths=dict(epochs),
        model_mismatches=len(mm), monitor_failures=len(ff),
        samples=[dict(results[0]['spec'], steps=(results[0]['spec']['steps'] or [])[:2])] if results else []))
    run.coverage['trusted_base'] += [
        'hand-written model Model/Bsc.v + Model/BscRlp.v tied to x/xibc/clients/light-clients/bsc by this differential run (the '
        'generator bounds what it sees); oracles: keccak256 and secp256k1 recovery (Header.Hash() / sealHash are modelled down '
        'to their RLP pre-images, compared byte for byte with the bytes the real code hashes)',
        'translator tools/gotocoq/bscconsts (constants, error codes, the two hashed field lists regenerated from the Go source; '
        'Props/C09.v C09_source_tie compares them with the model)',
        'go-ethereum crypto (secp256k1 recovery, keccak), rlp encoder; protobuf codec of the stored values (harness decodes them)']
    run.assumptions += [
        'a rejected UpdateClient message leaves no writes (BaseApp discards the cache of a failed transaction); the harness '
        'executes every submission in a cache context written only on success and compares the uncommitted store separately',
        'theorems about the recent-signer window assume heights below 2^64-1 (no wrap of the block number)']


def report(run, results, mm, ff):
    reported = set()
    for h, s, k in ff:  # property failed on the real code
        if (h, k) in reported:
            continue
        reported.add((h, k))
        key = signature(k, results[h]['spec'], results[h]['obs'], s)
        if run.known_finding(key, 'key=%s %s' % (key, KINDS.get(k))):
            continue
        if sum(1 for v in run.violations) >= 3:
            continue
        small = shrink(run.work, results[h]['spec'], results[h]['obs'], s, k)
        run.violation(dict(kind='monitor', code=k, key=key, what=KINDS.get(k), spec=small, failing_step=s,
                           observed=(results[h]['obs'][s - 1] if s >= 1 else results[h]['create'])),
                      name='replay_c%d_k%d.json' % (h, k))
    if not run.violations:
        for h, s, k in mm[:1]:  # model and code disagree, property monitor silent
            small = shrink(run.work, results[h]['spec'], results[h]['obs'], s, k) if s >= 1 else dict(results[h]['spec'], steps=[])
            run.violation(dict(kind='correspondence', code=k, what=KINDS.get(k), spec=small, failing_step=s,
                               explanation='Model/Bsc.v no longer describes the BSC client of /repo; the theorems of '
                                           'Props/C09.v are about the model, so the property is no longer shown to hold',
                               broken='correspondence Model.Bsc <-> x/xibc/clients/light-clients/bsc/types'),
                          name='replay_corr_c%d.json' % h, no_input=True)


def check(run):
    run.proof_stage()
    if not run.quick():
        # independent re-check of the .vo closure of Props/C09 and Refuted/C09_* by coqchk -o (axioms must be <none>)
        run.coqchk_stage()
    ok, out = vlib.build_harness(['c09'])
    if not ok:
        run.violation(dict(kind='harness-build-failed', log=out[-3000:],
                           explanation='the correspondence harness no longer builds against /repo'), no_input=True)
        return run.finish()
    n = run.budget(70, 800)
    outp = os.path.join(run.work, 'out.jsonl')
    rc, o = vlib.run_harness('c09', ['-seed', run.seed, '-n', n, '-steps', run.budget(70, 80), '-out', outp])
    if rc != 0:
        run.violation(dict(kind='harness-crashed', log=o[-3000:]), no_input=True)
        return run.finish()
    tags = {}
    for line in o.splitlines():
        if line.startswith('tags '):
            tags = json.loads(line[5:])
    results = vlib.read_jsonl(outp)
    if not run.quick():
        fx = os.path.join(run.work, 'fixture.jsonl')
        rc, o = vlib.run_harness('c09', ['-fixture', vlib.REPO, '-out', fx])
        if rc != 0:
            run.violation(dict(kind='harness-crashed', log=o[-3000:]), no_input=True)
            return run.finish()
        results += vlib.read_jsonl(fx)
        # set-size sweep: every pair of validator-set sizes from {1,2,3,4,5,7,9} across two epoch boundaries, the sealers
        # of the last blocks probed at every block around both switches
        sw = os.path.join(run.work, 'sweep.jsonl')
        rc, o = vlib.run_harness('c09', ['-sweep', '-out', sw])
        if rc != 0:
            run.violation(dict(kind='harness-crashed', log=o[-3000:]), no_input=True)
            return run.finish()
        results += vlib.read_jsonl(sw)
    mm, ff = evaluate(run.work, results)
    if mm is None:
        run.violation(dict(kind='coq-evaluation-failed', log=ff), no_input=True)
        return run.finish()
    coverage(run, results, mm, ff, tags)
    if mm and not ff:
        # model and code disagree but the property monitor is silent: search harder for an input on which the real
        # code violates the property itself (3x budget, other seeds), before falling back to the correspondence report
        for extra_seed in (run.seed + 1000, run.seed + 2000):
            outp2 = os.path.join(run.work, 'search_%d.jsonl' % extra_seed)
            rc, o = vlib.run_harness('c09', ['-seed', extra_seed, '-n', 3 * run.budget(70, 200) // 2, '-steps', 80, '-out', outp2])
            if rc != 0:
                break
            res2 = vlib.read_jsonl(outp2)
            mm2, ff2 = evaluate(run.work, res2, 'search')
            run.coverage['search_evaluations'] = run.coverage.get('search_evaluations', 0) + sum(len(r['obs']) for r in res2)
            if mm2 is not None and ff2:
                results, mm, ff = res2, mm2, ff2
                break
    report(run, results, mm, ff)
    if not run.violations and not run.proof_ok():
        run.proof_violation()
    return run.finish()


def replay(path):
    rp = json.load(open(path))
    work = os.path.join(vlib.ROOT, 'work', 'C09_replay')
    os.makedirs(work, exist_ok=True)
    ok, out = vlib.build_harness(['c09'])
    if not ok or 'spec' not in rp:
        print('cannot replay: %s' % (out[-500:] if not ok else 'no spec in replay file (%s)' % rp.get('kind')))
        return 2
    rs = run_specs(work, [rp['spec']], 'replay')
    mm, ff = evaluate(work, rs, 'replay_cases')
    last = rs[0]['obs'][-1] if rs[0]['obs'] else rs[0]['create']
    print('observed: class=%d kind=%d head=%s' % (last['class'], last['kind'], last['state']['head']))
    print('model mismatches:', mm, ' monitor failures:', ff)
    for _, s, k in (ff or []) + (mm or []):
        print('  step %d: %s' % (s, KINDS.get(k)))
    if ff or mm or mm is None:
        print('VIOLATION property=C09 replay=%s' % path)
        return 1
    print('replay passes on the current tree')
    return 0
