"""C05 — packet core (shared model / harness, see packet_common.py)."""
from props import packet_common


def check(run):
    return packet_common.check(run, 'C05')


def replay(path):
    return packet_common.replay(path, 'C05')
