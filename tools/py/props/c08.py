"""C08 -- EVM storage proofs (ETH and BSC light clients).
Model: coq/theories/Model/EvmProof.v; harness: harness/cmd/c08."""
import hashlib
import json
import os
from collections import Counter

import vlib
from vlib import coq_N, coq_bool, coq_list, coq_option

HEADER = ('From Teleport Require Import Base.Bytes Base.Outcome Model.EvmProof Model.EvmProofCheck.\n'
          'Local Open Scope N_scope.\n')
SHARD = 50
CORPUS = os.path.join(vlib.ROOT, 'harness', 'cmd', 'c08', 'corpus.jsonl')

KINDS = {1: 'model and code disagree on the outcome class (ok / error / panic) of the verification call',
         3: 'the ETH and BSC copies decode the proof JSON or the stored consensus states differently',
         9: 'the model asked an oracle (keccak / trie.VerifyProof / json) for an argument the real code path does not use',
         21: 'accepted although the proof height is above the head or the confirmation blocks have not passed',
         22: 'accepted although the world committed at the proof height does not hold this value at this slot of the '
             'configured contract',
         23: 'honest proof of a held value (same revision as the head, confirmations passed) not accepted',
         24: 'accepted although the decoded proof record does not carry exactly one storage proof'}
COPY = {0: 'eth', 1: 'bsc'}


def hb(h):
    """hex string -> Coq list byte"""
    return vlib.coq_literal_bytes(bytes.fromhex(h))


def height_term(h):
    return '{| rn := %s; rh := %s |}' % (coq_N(h[0]), coq_N(h[1]))


def proof_token(hexproof):
    """the bytes handed to the json oracle: the proof itself when short, else a digest standing for it"""
    b = bytes.fromhex(hexproof)
    if len(b) <= 200:
        return b
    return b'sha256:' + hashlib.sha256(b).digest()


class Shared:
    """proof nodes occur twice in a case (as hex STRINGS in the decoded record, as bytes in the trie.VerifyProof
    table); each distinct long byte string is emitted once as a Coq definition and referred to by name.  A record
    string that is exactly "0x" + lower-case hex of such a byte string is written (hex0x_lit name)."""

    def __init__(self, prefix):
        self.prefix, self.names, self.defs = prefix, {}, []

    def name(self, raw):
        if len(raw) < 24:
            return None
        n = self.names.get(raw)
        if n is None:
            n = '%s_%d' % (self.prefix, len(self.names))
            self.names[raw] = n
            self.defs.append('Definition %s : bytes := %s.' % (n, vlib.coq_literal_bytes(raw)))
        return n

    def node(self, hexnode):
        raw = bytes.fromhex(hexnode)
        return self.name(raw) or vlib.coq_literal_bytes(raw)

    def string(self, hexstr):
        """a record string (given as hex of its bytes)"""
        sb = bytes.fromhex(hexstr)
        if sb[:2] == b'0x' and len(sb) >= 50 and len(sb) % 2 == 0:
            body = sb[2:]
            try:
                raw = bytes.fromhex(body.decode('ascii'))
            except (ValueError, UnicodeDecodeError):
                raw = None
            if raw is not None and raw.hex().encode() == body and raw in self.names:
                return '(hex0x_lit %s)' % self.names[raw]
        return vlib.coq_literal_bytes(sb)


def rec_term(d, sh=None):
    st = sh.string if sh else hb

    def sr(s):
        if s is None:
            return 'None'
        return '(Some {| sr_key := %s; sr_value := %s; sr_proof := %s |})' % (
            hb(s['key']), hb(s['value']), coq_list([st(x) for x in (s['proof'] or [])]))
    return ('{| p_address := %s; p_balance := %s; p_code_hash := %s; p_nonce := %s; p_storage_hash := %s; '
            'p_account_proof := %s; p_storage_proof := %s |}' % (
                hb(d['address']), hb(d['balance']), hb(d['code_hash']), hb(d['nonce']), hb(d['storage_hash']),
                coq_list([st(x) for x in (d['account_proof'] or [])]),
                coq_list([sr(s) for s in (d['storage_proof'] or [])])))


def case_term(r, sh=None):
    sp = r['spec']
    nd = sh.node if sh else hb
    store = coq_list(['(%s, %s)' % (hb(e['key']), coq_option(None if e['root'] is None else hb(e['root'])))
                      for e in r['store']])
    mpt = coq_list(['(%s, %s, %s, %s)' % (hb(e['root']), hb(e['key']), coq_list([nd(n) for n in e['nodes']]),
                                          coq_option(None if e['res'] is None else hb(e['res'])))
                    for e in r['mpt']])
    kec = coq_list(['(%s, %s)' % (hb(a), hb(b)) for a, b in r['keccak']])
    proof = None if sp['proof'] is None else vlib.coq_literal_bytes(proof_token(sp['proof']))
    gt = r['gt']
    return ('{| c_ack := %s; c_head := %s; c_eth_delay := %s; c_bsc_vals := %s; c_contract := %s; c_store := %s; '
            'c_height := %s; c_proof := %s; c_src := %s; c_dst := %s; c_seq := %s; c_commitment := %s; c_json := %s; '
            'c_keccak := %s; c_mpt := %s; c_copies_agree := %s; c_eth_class := %d; c_bsc_class := %d; c_honest := %s; '
            'c_gt_word := %s |}' % (
                coq_bool(sp['ack']), height_term(sp['head']), coq_N(sp['eth_delay']), coq_N(sp['bsc_vals']),
                hb(sp['contract']), store,
                coq_option(None if sp['height'] is None else height_term(sp['height'])),
                coq_option(proof), hb(sp['src']), hb(sp['dst']), coq_N(sp['seq']), hb(sp['commitment']),
                coq_option(None if r['decoded'] is None else rec_term(r['decoded'], sh)),
                kec, mpt, coq_bool(r['copies_agree']), r['eth_class'], r['bsc_class'], coq_bool(sp['honest']),
                coq_option(None if gt.get('slot_word') is None else hb(gt['slot_word']))))


def coq_eval(workdir, name, defs, queries, timeout=1800):
    """like vlib.coq_eval_lists, but without writing a .glob file (the case literals are large)"""
    import re
    text = HEADER + '\n' + defs + '\n'
    for q, term in queries:
        text += 'Definition %s := Eval vm_compute in (%s).\n' % (q, term)
        text += 'Goal True. idtac "@@BEGIN %s". Abort.\nPrint %s.\nGoal True. idtac "@@END". Abort.\n' % (q, q)
    os.makedirs(workdir, exist_ok=True)
    open(os.path.join(workdir, name), 'w').write(text)
    rc, out = vlib.sh(['coqc', '-noglob', '-Q', vlib.THEORIES, 'Teleport', '-w',
                       '-deprecated-syntactic-definition,-notation-overridden', name], cwd=workdir, timeout=timeout)
    res = {'_rc': rc, '_out': out}
    for q, _ in queries:
        m = re.search(r'@@BEGIN %s\n(.*?)@@END' % re.escape(q), out, flags=re.S)
        if m:
            body = re.sub(r'^\s*%s\s*=\s*' % re.escape(q), '', m.group(1).strip())
            body = re.sub(r'\n\s*:\s[^\n]*(\n\s+[^\n]*)*\s*$', '', body)
            res[q] = ' '.join(body.split())
    for ext in ('.vo', '.vok', '.vos'):
        try:
            os.remove(os.path.join(workdir, name[:-2] + ext))
        except OSError:
            pass
    return res


def evaluate(workdir, results, tag='cases'):
    """returns (mismatches, monitor_failures, model_classes) with case indices into `results`, or (None, log, None)"""
    shards = [results[i:i + SHARD] for i in range(0, len(results), SHARD)]

    def one(ix):
        i, sh = ix
        shd = Shared('n%d' % i)
        terms = [case_term(r, shd) for r in sh]  # mpt tables are rendered before the records: see case_term
        defs = '\n'.join(shd.defs) + '\nDefinition cases : list ecase := %s.\n' % coq_list(terms)
        res = coq_eval(workdir, '%s_%d.v' % (tag, i), defs,
                       [('M', 'mismatches cases'), ('F', 'monitor_failures cases'), ('C', 'model_classes cases')])
        m = vlib.parse_nat_tuples(res.get('M'), 3)
        f = vlib.parse_nat_tuples(res.get('F'), 3)
        c = vlib.parse_nat_tuples(res.get('C'), 2)
        if res['_rc'] != 0 or m is None or f is None or c is None or len(c) != len(sh):
            return ('error', res['_out'][-3000:])
        off = i * SHARD
        return ([(h + off, s, k) for h, s, k in m], [(h + off, s, k) for h, s, k in f], c)

    outs = vlib.parallel(one, list(enumerate(shards)), workers=16)
    mm, ff, cc = [], [], []
    for o in outs:
        if o[0] == 'error':
            return None, o[1], None
        mm += o[0]
        ff += o[1]
        cc += o[2]
    return mm, ff, cc


def run_specs(workdir, specs, tag):
    inp = os.path.join(workdir, tag + '_in.jsonl')
    out = os.path.join(workdir, tag + '_out.jsonl')
    vlib.write_jsonl(inp, specs)
    rc, o = vlib.run_harness('c08', ['-in', inp, '-out', out])
    if rc != 0:
        return None
    return vlib.read_jsonl(out)


def finding_key(r, copy, kind):
    """canonical signature of a monitor failure (the specific failing input class)"""
    sp = r['spec']
    if kind == 21 and sp['height'] is not None:
        h, head = sp['height'], sp['head']
        if h[0] < head[0] and h[1] > head[1]:
            return 'height-gate:proof-revision<head-revision,proof-height>head-height'
        if h[0] < head[0]:
            return 'delay-gate:proof-revision<head-revision'
    return None


def shrink(workdir, spec, pred):
    """simplify a failing single-call case (re-running the real code): drop filler accounts / slots, unused worlds'
    filler and store entries that are not the proof height -- only candidates that keep `pred` true are kept.
    The proof bytes are concrete, so only changes that leave the roots used by the proof intact can succeed."""
    best = spec
    cands = []
    if spec.get('height') is not None:
        s2 = json.loads(json.dumps(spec))
        s2['store'] = [e for e in s2['store'] if [e['rev'], e['h']] == list(s2['height'])]
        cands.append(s2)
    s3 = json.loads(json.dumps(spec))
    if len(s3['worlds']) > 1:
        s3['worlds'][1]['fill_n'] = 0
        for a in s3['worlds'][1]['accounts']:
            a['fill_n'] = 0
        cands.append(s3)
    for cand in cands:
        merged = json.loads(json.dumps(best))
        if cand is cands[0]:
            merged['store'] = cand['store']
        else:
            merged['worlds'] = cand['worlds']
        rs = run_specs(workdir, [merged], 'shrink')
        if rs and pred(rs):
            best = merged
    return best


def distribution(results, cc):
    dist = Counter()
    for r, c in zip(results, cc):
        sp = r['spec']
        dist['eth_' + {0: 'accepted', 1: 'rejected', 2: 'panic'}[r['eth_class']]] += 1
        dist['bsc_' + {0: 'accepted', 1: 'rejected', 2: 'panic'}[r['bsc_class']]] += 1
        for f in sp['family'].split('+'):
            dist['family_' + f] += 1
        dist['kind_ack' if sp['ack'] else 'kind_commitment'] += 1
        if r['decoded'] is not None:
            dist['json_decoded'] += 1
        w = bytes.fromhex(sp['commitment'])
        if len(w) == 32:
            lz = len(w) - len(w.lstrip(b'\0'))
            dist['value_leading_zero_bytes_%s' % ('0' if lz == 0 else '1-7' if lz < 8 else '8-31' if lz < 32 else '32')] += 1
        n = sum(wd.get('fill_n', 0) + len(wd['accounts']) for wd in sp['worlds'][:1])
        dist['accounts_%s' % ('1-3' if n <= 3 else '4-40' if n <= 40 else '41-200')] += 1
        dist['mpt_oracle_entries'] += len(r['mpt'])
        dist['keccak_oracle_entries'] += len(r['keccak'])
    return dict(dist)


def nontrivial_signature(r):
    sp = r['spec']
    return json.dumps([sp['family'], r['eth_class'], r['bsc_class'], sp['ack']])


def check(run):
    import time
    t0 = time.time()
    run.proof_stage()
    vlib.log('[C08] proof stage %.1fs' % (time.time() - t0))
    ok, out = vlib.build_harness(['c08'])
    if not ok:
        run.violation(dict(kind='harness-build-failed', log=out[-3000:],
                           explanation='the correspondence harness no longer builds against the tree'), no_input=True)
        return run.finish()
    n = run.budget(500, 8000)
    outp = os.path.join(run.work, 'out.jsonl')
    rc, o = vlib.run_harness('c08', ['-seed', run.seed, '-n', n, '-out', outp])
    if rc != 0:
        run.violation(dict(kind='harness-crashed', log=o[-3000:]), no_input=True)
        return run.finish()
    results = []
    if os.path.exists(CORPUS):  # witnesses of past / known findings run first
        cs = run_specs(run.work, vlib.read_jsonl(CORPUS), 'corpus')
        if cs is None:
            run.violation(dict(kind='harness-crashed', log='corpus replay failed'), no_input=True)
            return run.finish()
        results += cs
    ncorpus = len(results)
    results += vlib.read_jsonl(outp)
    vlib.log('[C08] harness done at %.1fs (%d cases)' % (time.time() - t0, len(results)))
    mm, ff, cc = evaluate(run.work, results)
    vlib.log('[C08] Coq evaluation done at %.1fs' % (time.time() - t0))
    if mm is None:
        run.violation(dict(kind='coq-evaluation-failed', log=ff), no_input=True)
        return run.finish()

    nontrivial = set(nontrivial_signature(r) for r in results)
    run.coverage.update(dict(
        evaluations=2 * len(results), cases=len(results), corpus_cases=ncorpus, distinct_nontrivial=len(nontrivial),
        rule='one case = one VerifyPacketCommitment / VerifyPacketAcknowledgement call executed on BOTH real copies '
             '(eth, bsc) and on the model (2 evaluations); distinct = distinct (generator family incl. mutations, '
             'outcome classes of both copies, path kind)',
        distribution=distribution(results, cc), model_mismatches=len(mm), monitor_failures=len(ff),
        samples=[dict(results[ncorpus]['spec'], proof='(%d bytes)' % (len(results[ncorpus]['spec']['proof'] or '') // 2),
                      worlds='(omitted)')] if len(results) > ncorpus else []))
    run.coverage['trusted_base'] += [
        'hand-written model Model/EvmProof.v tied to both client_state.go copies by this differential run (generator '
        'bounds what it sees)',
        'oracles tabulated from the real functions: crypto.Keccak256, trie.VerifyProof (go-ethereum v1.10.16), '
        'encoding/json Unmarshal into the Proof struct, protobuf decoding of stored consensus states',
        'ground truth of the monitor: go-ethereum trie.TryGet on the harness-built tries, rlp.Split + Hash.SetBytes '
        '(geth state reader)']
    run.assumptions += [
        'mpt_sound (Section hypothesis of the soundness theorems): a value returned by trie.VerifyProof for (root, key) '
        'is the value of key in every trie committed by root (keccak collision resistance)',
        'callers pass a non-nil clienttypes.Height (a nil interface panics in Height.Compare)',
        'revision numbers: the numeric reading of the head / delay gates needs proof revision = head revision '
        '(see Refuted/C08_refuted.v)']

    reported = set()
    for h, s, k in ff:  # the property failed on the real code
        r = results[h]
        key = finding_key(r, s, k)
        if key and run.known_finding(key, 'key=%s %s' % (key, KINDS[k])):
            continue
        sig = (key, k)
        if sig in reported:
            continue
        reported.add(sig)

        def still(rs, s=s, k=k):
            m2, f2, _ = evaluate(run.work, rs, 'shrink_cases')
            return m2 is not None and any(kk == k and ss == s for _, ss, kk in f2)
        small = shrink(run.work, r['spec'], still)
        run.violation(dict(kind='monitor', code=k, copy=COPY[s], what=KINDS.get(k), key=key, spec=small,
                           observed=dict(eth_class=r['eth_class'], bsc_class=r['bsc_class'], gt=r['gt'])),
                      name='replay_c%d_%s.json' % (h, COPY[s]))
        if len(run.violations) >= 3:
            break
    if not run.violations:
        for h, s, k in mm[:1]:  # model and code disagree, property monitor silent
            r = results[h]

            def still(rs, s=s, k=k):
                m2, f2, _ = evaluate(run.work, rs, 'shrink_cases')
                return m2 is not None and any(kk == k and ss == s for _, ss, kk in m2)
            small = shrink(run.work, r['spec'], still)
            run.violation(dict(kind='correspondence', code=k, copy=COPY[s], what=KINDS.get(k), spec=small,
                               observed=dict(eth_class=r['eth_class'], bsc_class=r['bsc_class'],
                                             eth_err=r.get('eth_err'), bsc_err=r.get('bsc_err')),
                               explanation='Model/EvmProof.v no longer describes client_state.go (%s copy); the theorems '
                                           'of Props/C08.v are about the model, so the property is no longer shown to hold; '
                                           'no input on which the real code accepts a false claim or rejects an honest proof '
                                           'was found' % COPY[s],
                               broken='correspondence Model.EvmProof <-> x/xibc/clients/light-clients/{eth,bsc}/types/client_state.go'),
                          name='replay_corr_c%d.json' % h, no_input=True)
        if not run.proof_ok():
            run.proof_violation()
    if not run.quick() and not run.violations:
        # independent re-check of the compiled proofs (kernel re-typechecking of the .vo closure, axiom summary)
        rc, out = vlib.sh('coqchk -silent -o -Q theories Teleport Teleport.Props.C08 Teleport.Refuted.C08_refuted',
                          cwd=vlib.COQ, timeout=1500)
        okchk = rc == 0 and 'Axioms: <none>' in ' '.join(out.split())
        run.coverage['coqchk'] = 'ok: axioms <none>' if okchk else 'FAILED: ' + out[-600:]
        if not okchk:
            run.violation(dict(kind='coqchk-failed', log=out[-3000:],
                               explanation='coqchk does not validate the compiled proofs of C08 (or reports axioms)'),
                          name='replay_coqchk.json', no_input=True)
    return run.finish()


def replay(path):
    rp = json.load(open(path))
    work = os.path.join(vlib.ROOT, 'work', 'C08_replay')
    os.makedirs(work, exist_ok=True)
    ok, out = vlib.build_harness(['c08'])
    if not ok or 'spec' not in rp:
        print('cannot replay: %s' % (out[-500:] if not ok else 'no spec in replay file (%s)' % rp.get('kind')))
        return 2
    rs = run_specs(work, [rp['spec']], 'replay')
    mm, ff, cc = evaluate(work, rs, 'replay_cases')
    print('observed: eth_class=%s bsc_class=%s gt=%s' % (rs[0]['eth_class'], rs[0]['bsc_class'], json.dumps(rs[0]['gt'])[:400]))
    print('model classes (eth, bsc):', cc, ' model mismatches:', mm, ' monitor failures:', ff)
    if ff or mm:
        print('VIOLATION property=C08 replay=%s' % path)
        return 1
    print('replay passes on the current tree')
    return 0
