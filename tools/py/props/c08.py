"""C08 -- EVM storage proofs (ETH and BSC light clients).
Model: coq/theories/Model/EvmProof.v; harness: harness/cmd/c08."""
import hashlib
import json
import os
from collections import Counter

import vlib
from vlib import coq_N, coq_bool, coq_list, coq_option

HEADER = ('From Teleport Require Import Base.Bytes Base.Outcome Model.EvmProof Model.EvmProofCheck Model.EvmProofMpt '
          'Model.EvmProofTrie Model.EvmProofMptCheck.\n'
          'Local Open Scope N_scope.\n')
SHARD = 50
CORPUS = os.path.join(vlib.ROOT, 'harness', 'cmd', 'c08', 'corpus.jsonl')

KINDS = {1: 'model and code disagree on the outcome class (ok / error / panic) of the verification call',
         3: 'the ETH and BSC copies decode the proof JSON or the stored consensus states differently',
         9: 'the model asked an oracle (keccak / trie.VerifyProof / json) for an argument the real code path does not use',
         21: 'accepted although the proof height is above the head or the confirmation blocks have not passed',
         22: 'accepted although the world committed at the proof height does not hold this value at this slot of the '
             'configured contract',
         23: 'honest proof of a held value (same revision as the head, confirmations passed) not accepted',
         24: 'accepted although the decoded proof record does not carry exactly one storage proof',
         5: 'the Gallina transcription of trie.VerifyProof (Model/EvmProofMpt.v) and go-ethereum disagree on a node list',
         6: 'the model with the Gallina MPT verifier in place of the trie.VerifyProof table disagrees with the outcome class '
            'of the verification call',
         7: 'the Gallina MPT walk ran out of rounds (the Go loop would not have ended)',
         8: 'a proof node has no Keccak entry in the tables',
         10: 'a complete geth node database does not resolve the key (Gallina walk) to what geth\'s Trie.TryGet finds',
         11: 'a node of a complete geth node database is not the re-encoding (Model/EvmProofTrie.v enc_node) of its decoding',
         41: 'BSC GetDelayBlock differs from the model', 42: 'BSC GetDelayTime differs from the model',
         43: 'ETH GetDelayBlock differs from the model', 44: 'ETH GetDelayTime differs from the model',
         45: 'BSC GetDelayBlock is not the least number of blocks exceeding half of the validator count'}
COPY = {0: 'eth', 1: 'bsc', 2: 'mpt-table'}


def hb(h):
    """hex string -> Coq list byte"""
    return vlib.coq_literal_bytes(bytes.fromhex(h))


def height_term(h):
    return '{| rn := %s; rh := %s |}' % (coq_N(h[0]), coq_N(h[1]))


def proof_token(hexproof):
    """the bytes handed to the json oracle: the proof itself when short, else a digest standing for it"""
    b = bytes.fromhex(hexproof)
    if len(b) <= 200:
        return b
    return b'sha256:' + hashlib.sha256(b).digest()


class Shared:
    """proof nodes occur twice in a case (as hex STRINGS in the decoded record, as bytes in the trie.VerifyProof
    table); each distinct long byte string is emitted once as a Coq definition and referred to by name.  A record
    string that is exactly "0x" + lower-case hex of such a byte string is written (hex0x_lit name)."""

    def __init__(self, prefix):
        self.prefix, self.names, self.defs = prefix, {}, []

    def name(self, raw):
        if len(raw) < 24:
            return None
        n = self.names.get(raw)
        if n is None:
            n = '%s_%d' % (self.prefix, len(self.names))
            self.names[raw] = n
            self.defs.append('Definition %s : bytes := %s.' % (n, vlib.coq_literal_bytes(raw)))
        return n

    def node(self, hexnode):
        raw = bytes.fromhex(hexnode)
        return self.name(raw) or vlib.coq_literal_bytes(raw)

    def string(self, hexstr):
        """a record string (given as hex of its bytes)"""
        sb = bytes.fromhex(hexstr)
        if sb[:2] == b'0x' and len(sb) >= 50 and len(sb) % 2 == 0:
            body = sb[2:]
            try:
                raw = bytes.fromhex(body.decode('ascii'))
            except (ValueError, UnicodeDecodeError):
                raw = None
            if raw is not None and raw.hex().encode() == body and raw in self.names:
                return '(hex0x_lit %s)' % self.names[raw]
        return vlib.coq_literal_bytes(sb)


def rec_term(d, sh=None):
    st = sh.string if sh else hb

    def sr(s):
        if s is None:
            return 'None'
        return '(Some {| sr_key := %s; sr_value := %s; sr_proof := %s |})' % (
            hb(s['key']), hb(s['value']), coq_list([st(x) for x in (s['proof'] or [])]))
    return ('{| p_address := %s; p_balance := %s; p_code_hash := %s; p_nonce := %s; p_storage_hash := %s; '
            'p_account_proof := %s; p_storage_proof := %s |}' % (
                hb(d['address']), hb(d['balance']), hb(d['code_hash']), hb(d['nonce']), hb(d['storage_hash']),
                coq_list([st(x) for x in (d['account_proof'] or [])]),
                coq_list([sr(s) for s in (d['storage_proof'] or [])])))


def case_term(r, sh=None):
    sp = r['spec']
    nd = sh.node if sh else hb
    store = coq_list(['(%s, %s)' % (hb(e['key']), coq_option(None if e['root'] is None else hb(e['root'])))
                      for e in r['store']])
    mpt = coq_list(['(%s, %s, %s, %s)' % (hb(e['root']), hb(e['key']), coq_list([nd(n) for n in e['nodes']]),
                                          coq_option(None if e['res'] is None else hb(e['res'])))
                    for e in r['mpt']])
    kec = coq_list(['(%s, %s)' % (nd(a), hb(b)) for a, b in r['keccak']])
    proof = None if sp['proof'] is None else vlib.coq_literal_bytes(proof_token(sp['proof']))
    gt = r['gt']
    return ('{| c_ack := %s; c_head := %s; c_eth_delay := %s; c_bsc_vals := %s; c_contract := %s; c_store := %s; '
            'c_height := %s; c_proof := %s; c_src := %s; c_dst := %s; c_seq := %s; c_commitment := %s; c_json := %s; '
            'c_keccak := %s; c_mpt := %s; c_copies_agree := %s; c_eth_class := %d; c_bsc_class := %d; c_honest := %s; '
            'c_gt_word := %s |}' % (
                coq_bool(sp['ack']), height_term(sp['head']), coq_N(sp['eth_delay']), coq_N(sp['bsc_vals']),
                hb(sp['contract']), store,
                coq_option(None if sp['height'] is None else height_term(sp['height'])),
                coq_option(proof), hb(sp['src']), hb(sp['dst']), coq_N(sp['seq']), hb(sp['commitment']),
                coq_option(None if r['decoded'] is None else rec_term(r['decoded'], sh)),
                kec, mpt, coq_bool(r['copies_agree']), r['eth_class'], r['bsc_class'], coq_bool(sp['honest']),
                coq_option(None if gt.get('slot_word') is None else hb(gt['slot_word']))))


def coq_eval(workdir, name, defs, queries, timeout=1800):
    """like vlib.coq_eval_lists, but without writing a .glob file (the case literals are large)"""
    import re
    text = HEADER + '\n' + defs + '\n'
    for q, term in queries:
        text += 'Definition %s := Eval vm_compute in (%s).\n' % (q, term)
        text += 'Goal True. idtac "@@BEGIN %s". Abort.\nPrint %s.\nGoal True. idtac "@@END". Abort.\n' % (q, q)
    os.makedirs(workdir, exist_ok=True)
    open(os.path.join(workdir, name), 'w').write(text)
    for attempt in range(4):
        rc, out = vlib.sh(['coqc', '-noglob', '-Q', vlib.THEORIES, 'Teleport', '-w',
                           '-deprecated-syntactic-definition,-notation-overridden', name], cwd=workdir, timeout=timeout)
        # a coqc killed from outside (the kernel's OOM killer on a loaded machine: negative return code = signal, no
        # Coq error message) says nothing about the case: run the same file again
        if rc >= 0 or 'Error' in out:
            break
        import time as _t
        vlib.log('[C08] coqc %s killed by signal %d, retrying' % (name, -rc))
        _t.sleep(5 + 10 * attempt)
    res = {'_rc': rc, '_out': out}
    for q, _ in queries:
        m = re.search(r'@@BEGIN %s\n(.*?)@@END' % re.escape(q), out, flags=re.S)
        if m:
            body = re.sub(r'^\s*%s\s*=\s*' % re.escape(q), '', m.group(1).strip())
            body = re.sub(r'\n\s*:\s[^\n]*(\n\s+[^\n]*)*\s*$', '', body)
            res[q] = ' '.join(body.split())
    for ext in ('.vo', '.vok', '.vos'):
        try:
            os.remove(os.path.join(workdir, name[:-2] + ext))
        except OSError:
            pass
    return res


def evaluate(workdir, results, tag='cases'):
    """returns (mismatches, monitor_failures, model_classes) with case indices into `results`, or (None, log, None)"""
    shards = [results[i:i + SHARD] for i in range(0, len(results), SHARD)]

    def one(ix):
        i, sh = ix
        shd = Shared('n%d' % i)
        terms = [case_term(r, shd) for r in sh]  # mpt tables are rendered before the records: see case_term
        defs = '\n'.join(shd.defs) + '\nDefinition cases : list ecase := %s.\n' % coq_list(terms)
        res = coq_eval(workdir, '%s_%d.v' % (tag, i), defs,
                       [('M', 'mismatches cases'), ('F', 'monitor_failures cases'), ('C', 'model_classes cases'),
                        ('T', 'mpt_table_mismatches cases')])
        m = vlib.parse_nat_tuples(res.get('M'), 3)
        f = vlib.parse_nat_tuples(res.get('F'), 3)
        c = vlib.parse_nat_tuples(res.get('C'), 2)
        t = vlib.parse_nat_tuples(res.get('T'), 3)
        if res['_rc'] != 0 or m is None or f is None or c is None or t is None or len(c) != len(sh):
            return ('error', res['_out'][-3000:])
        off = i * SHARD
        return ([(h + off, s, k) for h, s, k in m + t], [(h + off, s, k) for h, s, k in f], c)

    outs = vlib.parallel(one, list(enumerate(shards)), workers=12)
    mm, ff, cc = [], [], []
    for o in outs:
        if o[0] == 'error':
            return None, o[1], None
        mm += o[0]
        ff += o[1]
        cc += o[2]
    return mm, ff, cc


def mcase_term(r):
    return ('{| m_root := %s; m_key := %s; m_nodes := %s; m_res := %s; m_panic := %s; m_keccak := %s; m_tryget := %s |}' % (
        hb(r['root']), hb(r['key']), coq_list([hb(n) for n in r['nodes']]),
        coq_option(None if r['res'] is None else hb(r['res'])), coq_bool(r['panic']),
        coq_list(['(%s, %s)' % (hb(a), hb(b)) for a, b in r['keccak']]),
        coq_option(hb(r['tryget']) if r.get('has_tryget') else None)))


MSHARD = 250


def evaluate_mpt(workdir, mcases, tag='mpt'):
    """trie.VerifyProof called directly vs the Gallina transcription: (mismatches, verdicts) or (None, log)"""
    shards = [mcases[i:i + MSHARD] for i in range(0, len(mcases), MSHARD)]

    def one(ix):
        i, sh = ix
        defs = 'Definition cases : list mcase := %s.\n' % coq_list([mcase_term(r) for r in sh])
        res = coq_eval(workdir, '%s_%d.v' % (tag, i), defs, [('M', 'mpt_mismatches cases'), ('V', 'mpt_verdicts cases')])
        m = vlib.parse_nat_tuples(res.get('M'), 3)
        v = vlib.parse_nat_tuples(res.get('V'), 1)
        if res['_rc'] != 0 or m is None or v is None or len(v) != len(sh):
            return ('error', res['_out'][-3000:])
        return ([(h + i * MSHARD, s, k) for h, s, k in m], [x[0] if isinstance(x, (tuple, list)) else x for x in v])

    outs = vlib.parallel(one, list(enumerate(shards)), workers=4)
    mm, vv = [], []
    for o in outs:
        if o[0] == 'error':
            return None, o[1]
        mm += o[0]
        vv += o[1]
    return mm, vv


DSHARD = 2500


def evaluate_delay(workdir, dcases, tag='delay'):
    mm = []
    for i in range(0, len(dcases), DSHARD):
        m, log = evaluate_delay_shard(workdir, dcases[i:i + DSHARD], '%s_%d' % (tag, i // DSHARD))
        if m is None:
            return None, log
        mm += [(h + i, s, k) for h, s, k in m]
    return mm, None


def evaluate_delay_shard(workdir, dcases, tag):
    terms = ['{| d_nvals := %s; d_block_interval := %s; d_eth_block_delay := %s; d_eth_time_delay := %s; '
             'd_bsc_delay_block := %s; d_bsc_delay_time := %s; d_eth_delay_block_obs := %s; d_eth_delay_time_obs := %s |}' % tuple(
                 coq_N(d[k]) for k in ('nvals', 'block_interval', 'eth_block_delay', 'eth_time_delay', 'bsc_delay_block',
                                       'bsc_delay_time', 'eth_delay_block', 'eth_delay_time')) for d in dcases]
    res = coq_eval(workdir, tag + '.v', 'Definition cases : list dcase := %s.\n' % coq_list(terms),
                   [('M', 'delay_mismatches cases')])
    m = vlib.parse_nat_tuples(res.get('M'), 3)
    if res['_rc'] != 0 or m is None:
        return None, res['_out'][-3000:]
    return m, None


def run_specs(workdir, specs, tag):
    inp = os.path.join(workdir, tag + '_in.jsonl')
    out = os.path.join(workdir, tag + '_out.jsonl')
    vlib.write_jsonl(inp, specs)
    rc, o = vlib.run_harness('c08', ['-in', inp, '-out', out])
    if rc != 0:
        return None
    return vlib.read_jsonl(out)


def finding_key(r, copy, kind):
    """canonical signature of a monitor failure (the specific failing input class)"""
    sp = r['spec']
    if kind == 21 and sp['height'] is not None:
        h, head = sp['height'], sp['head']
        if h[0] < head[0] and h[1] > head[1]:
            return 'height-gate:proof-revision<head-revision,proof-height>head-height'
        if h[0] < head[0]:
            return 'delay-gate:proof-revision<head-revision'
    return None


def shrink(workdir, spec, pred):
    """simplify a failing single-call case (re-running the real code): drop filler accounts / slots, unused worlds'
    filler and store entries that are not the proof height -- only candidates that keep `pred` true are kept.
    The proof bytes are concrete, so only changes that leave the roots used by the proof intact can succeed."""
    best = spec
    cands = []
    if spec.get('height') is not None:
        s2 = json.loads(json.dumps(spec))
        s2['store'] = [e for e in s2['store'] if [e['rev'], e['h']] == list(s2['height'])]
        cands.append(s2)
    s3 = json.loads(json.dumps(spec))
    if len(s3['worlds']) > 1:
        s3['worlds'][1]['fill_n'] = 0
        for a in s3['worlds'][1]['accounts']:
            a['fill_n'] = 0
        cands.append(s3)
    for cand in cands:
        merged = json.loads(json.dumps(best))
        if cand is cands[0]:
            merged['store'] = cand['store']
        else:
            merged['worlds'] = cand['worlds']
        rs = run_specs(workdir, [merged], 'shrink')
        if rs and pred(rs):
            best = merged
    return best


BRANCHES = [('client state height < proof height', 'head_gate'), ('proof height revision', 'revision_gate'),
            ('proof cannot be empty', 'nil_proof'), ('failed to unmarshal proof', 'json_error'),
            ('consensus state does not exist', 'cons_missing'), ('unmarshal error', 'cons_undecodable'),
            ('invalid consensus type', 'cons_other_type'), ('delay block', 'delay_gate'),
            ('verifyMerkleProof, contract address', 'address_mismatch'),
            ('verifyMerkleProof, verify account proof error', 'account_proof_error'),
            ('verifyMerkleProof, verify account proof failed', 'account_rlp_mismatch'),
            ('verifyMerkleProof, invalid storage proof format', 'storage_proof_count'),
            ('verifyMerkleProof, storageKey', 'storage_key_mismatch'),
            ('verifyMerkleProof, verify storage proof error', 'storage_proof_error'),
            ('verifyMerkleProof, verify storage result failed', 'value_mismatch'),
            ('panic: cannot compare against invalid height', 'panic_nil_height'), ('panic: runtime error', 'panic_nil_storage_proof')]


def branch_of(err):
    """which return statement of the real code a case ended in (statistics only: read off the error text, never compared)"""
    if not err:
        return 'accepted'
    for prefix, name in BRANCHES:
        if err.startswith(prefix):
            return name
    return 'other'


def distribution(results, cc):
    dist = Counter()
    for r, c in zip(results, cc):
        sp = r['spec']
        dist['eth_branch_' + branch_of(r.get('eth_err'))] += 1
        dist['bsc_branch_' + branch_of(r.get('bsc_err'))] += 1
        dist['eth_' + {0: 'accepted', 1: 'rejected', 2: 'panic'}[r['eth_class']]] += 1
        dist['bsc_' + {0: 'accepted', 1: 'rejected', 2: 'panic'}[r['bsc_class']]] += 1
        for f in sp['family'].split('+'):
            dist['family_' + f] += 1
        dist['kind_ack' if sp['ack'] else 'kind_commitment'] += 1
        if r['decoded'] is not None:
            dist['json_decoded'] += 1
        w = bytes.fromhex(sp['commitment'])
        if len(w) == 32:
            lz = len(w) - len(w.lstrip(b'\0'))
            dist['value_leading_zero_bytes_%s' % ('0' if lz == 0 else '1-7' if lz < 8 else '8-31' if lz < 32 else '32')] += 1
        n = sum(wd.get('fill_n', 0) + len(wd['accounts']) for wd in sp['worlds'][:1])
        dist['accounts_%s' % ('1-3' if n <= 3 else '4-40' if n <= 40 else '41-200')] += 1
        dist['mpt_oracle_entries'] += len(r['mpt'])
        dist['keccak_oracle_entries'] += len(r['keccak'])
    return dict(dist)


def nontrivial_signature(r):
    sp = r['spec']
    return json.dumps([sp['family'], r['eth_class'], r['bsc_class'], sp['ack']])


def check(run):
    import time
    t0 = time.time()
    # the ties to definitions regenerated from the Go source are separate proof files, one per regenerated item: an item a
    # translator cannot determine breaks only the obligations that read it
    run.proof_stage(extra_modules=['theories/Props/C08_schema_%s.v' % x for x in ('keys', 'json', 'account', 'count', 'consts')])
    if not run.quick():
        run.coqchk_stage()
    vlib.log('[C08] proof stage %.1fs' % (time.time() - t0))
    ok, out = vlib.build_harness(['c08'])
    if not ok:
        run.violation(dict(kind='harness-build-failed', log=out[-3000:],
                           explanation='the correspondence harness no longer builds against the tree'), no_input=True)
        return run.finish()
    n = run.budget(500, 6000)
    outp = os.path.join(run.work, 'out.jsonl')
    rc, o = vlib.run_harness('c08', ['-seed', run.seed, '-n', n, '-out', outp])
    if rc != 0:
        run.violation(dict(kind='harness-crashed', log=o[-3000:]), no_input=True)
        return run.finish()
    # --- go-ethereum's trie.VerifyProof called directly vs its Gallina transcription (directed decoder-quirk corpus
    #     first, then crafted node trees and geth-built tries), and the delay getters of both copies
    mout = os.path.join(run.work, 'mpt.jsonl')
    dout = os.path.join(run.work, 'delay.jsonl')
    rc1, o1 = vlib.run_harness('c08', ['-mode', 'mpt', '-seed', run.seed, '-n', run.budget(900, 20000), '-out', mout])
    rc2, o2 = vlib.run_harness('c08', ['-mode', 'delay', '-seed', run.seed, '-n', run.budget(600, 10000), '-out', dout])
    if rc1 != 0 or rc2 != 0:
        run.violation(dict(kind='harness-crashed', log=(o1 + o2)[-3000:]), no_input=True)
        return run.finish()
    mcases, dcases = vlib.read_jsonl(mout), vlib.read_jsonl(dout)
    from concurrent.futures import ThreadPoolExecutor
    side = ThreadPoolExecutor(max_workers=2)
    fut_m = side.submit(evaluate_mpt, run.work, mcases)
    fut_d = side.submit(evaluate_delay, run.work, dcases)

    results = []
    if os.path.exists(CORPUS):  # witnesses of past / known findings run first
        cs = run_specs(run.work, vlib.read_jsonl(CORPUS), 'corpus')
        if cs is None:
            run.violation(dict(kind='harness-crashed', log='corpus replay failed'), no_input=True)
            return run.finish()
        results += cs
    ncorpus = len(results)
    results += vlib.read_jsonl(outp)
    vlib.log('[C08] harness done at %.1fs (%d cases)' % (time.time() - t0, len(results)))
    mm, ff, cc = evaluate(run.work, results)
    vlib.log('[C08] Coq evaluation done at %.1fs' % (time.time() - t0))
    if mm is None:
        run.violation(dict(kind='coq-evaluation-failed', log=ff), no_input=True)
        return run.finish()
    mpm, mpv = fut_m.result()
    dm, dlog = fut_d.result()
    vlib.log('[C08] MPT / delay evaluation done at %.1fs (%d + %d cases)' % (time.time() - t0, len(mcases), len(dcases)))
    if mpm is None or dm is None:
        run.violation(dict(kind='coq-evaluation-failed', log=mpv if mpm is None else dlog), no_input=True)
        return run.finish()
    mdist = Counter()
    for r, v in zip(mcases, mpv):
        base = r['family'].split('+')[0].split(':')
        fam = base[0] + (':' + base[1] if base[0] == 'geth-trie' else '')
        for mut in r['family'].split('+')[1:]:
            mdist['mpt_listmutation_' + mut] += 1
        mdist['mpt_%s_%s' % (fam, {0: 'value', 1: 'absent', 2: 'error', 3: 'panic', 4: 'loop'}[v])] += 1
        if r['family'].startswith('crafted') or r['family'].startswith('directed'):
            for q in r['family'].split('+')[0].split(':')[1:]:
                mdist['mpt_quirk_' + q] += 1
        if r['panic']:
            mdist['mpt_go_panic'] += 1
    mdist['delay_cases'] = len(dcases)
    mdist['delay_max_validators'] = max([d['nvals'] for d in dcases] or [0])

    nontrivial = set(nontrivial_signature(r) for r in results)
    nontrivial |= set(json.dumps(['mpt', r['family'], v]) for r, v in zip(mcases, mpv))
    dd = distribution(results, cc)
    dd.update(mdist)
    run.coverage.update(dict(
        evaluations=2 * len(results) + len(mcases) + len(dcases), cases=len(results), corpus_cases=ncorpus,
        mpt_cases=len(mcases), delay_cases=len(dcases), distinct_nontrivial=len(nontrivial),
        rule='one verification case = one VerifyPacketCommitment / VerifyPacketAcknowledgement call executed on BOTH real '
             'copies (eth, bsc) and on the model (2 evaluations; the model is evaluated twice more with the Gallina MPT '
             'verifier in place of the trie.VerifyProof table, not counted); one MPT case = one trie.VerifyProof call vs '
             'the Gallina verifier; one delay case = the four getters; distinct = distinct (generator family incl. '
             'mutations, outcome classes of both copies, path kind) + distinct (MPT family incl. quirks, verdict)',
        distribution=dd, model_mismatches=len(mm) + len(mpm) + len([x for x in dm if x[2] != 45]),
        monitor_failures=len(ff) + len([x for x in dm if x[2] == 45]),
        samples=([dict(results[ncorpus]['spec'], proof='(%d bytes)' % (len(results[ncorpus]['spec']['proof'] or '') // 2),
                       worlds='(omitted)')] if len(results) > ncorpus else []) +
                [dict(kind='trie.VerifyProof case', **{k: mc[k] for k in ('id', 'family', 'root', 'key', 'nodes', 'res', 'panic')})
                 for mc in mcases[:1] + mcases[-1:]] +
                [dict(kind='delay getters case', **dc) for dc in dcases[7:8]]))
    run.coverage['trusted_base'] += [
        'hand-written model Model/EvmProof.v tied to both client_state.go copies by this differential run (generator '
        'bounds what it sees)',
        'oracles tabulated from the real functions: crypto.Keccak256, encoding/json Unmarshal into the Proof struct, '
        'protobuf decoding of stored consensus states; trie.VerifyProof (go-ethereum v1.10.16) is BOTH tabulated (model '
        'evaluated on the table) and transcribed (Model/EvmProofMpt.v, evaluated on the same node lists and compared)',
        'ground truth of the monitor: go-ethereum trie.TryGet on the harness-built tries, rlp.Split + Hash.SetBytes '
        '(geth state reader)']
    run.assumptions += [
        'Keccak: no assumption is made -- the *_mpt theorems end in "... or an explicit Keccak collision" (two different '
        'byte strings with the same hash); the older theorems keep the premise mpt_sound for an abstract trie.VerifyProof '
        'oracle, which C08_mpt_sound_of_no_collision discharges for the Gallina verifier when no collision exists',
        'a world is what geth reads (Trie.TryGet) from a node database that resolves every key under the root '
        '(commits_db); that the EVM state trie of the counterparty chain is such a database is not part of the model',
        'callers pass a non-nil clienttypes.Height (a nil interface panics in Height.Compare)',
        'revision numbers: the numeric reading of the head / delay gates needs proof revision = head revision '
        '(see Refuted/C08_refuted.v)']

    reported = set()
    for h, s, k in ff:  # the property failed on the real code
        r = results[h]
        key = finding_key(r, s, k)
        if key and run.known_finding(key, 'key=%s %s' % (key, KINDS[k])):
            continue
        sig = (key, k)
        if sig in reported:
            continue
        reported.add(sig)

        def still(rs, s=s, k=k):
            m2, f2, _ = evaluate(run.work, rs, 'shrink_cases')
            return m2 is not None and any(kk == k and ss == s for _, ss, kk in f2)
        small = shrink(run.work, r['spec'], still)
        run.violation(dict(kind='monitor', code=k, copy=COPY[s], what=KINDS.get(k), key=key, spec=small,
                           observed=dict(eth_class=r['eth_class'], bsc_class=r['bsc_class'], gt=r['gt'])),
                      name='replay_c%d_%s.json' % (h, COPY[s]))
        if len(run.violations) >= 3:
            break
    for h, s, k in [x for x in dm if x[2] == 45][:1]:  # BSC confirmation depth is not a majority of the validators
        run.violation(dict(kind='monitor', code=k, what=KINDS[k], delay_case=dcases[h]), name='replay_delay_%d.json' % h)
    if not run.violations:
        for h, s, k in [x for x in dm if x[2] != 45][:1]:
            run.violation(dict(kind='correspondence', code=k, what=KINDS[k], delay_case=dcases[h],
                               broken='correspondence Model.EvmProof.delay_block / delay_time <-> GetDelayBlock / GetDelayTime'),
                          name='replay_delay_%d.json' % h, no_input=True)
        for h, s, k in mpm[:1]:
            run.violation(dict(kind='correspondence', code=k, what=KINDS[k], mpt_case=mcases[h],
                               broken='correspondence Model.EvmProofMpt.mpt_verify_g <-> go-ethereum trie.VerifyProof',
                               explanation='the *_mpt theorems of Props/C08.v are about the Gallina verifier; it no longer '
                                           'describes the library the clients call'),
                          name='replay_mpt_%d.json' % h, no_input=True)
    if not run.violations:
        for h, s, k in mm[:1]:  # model and code disagree, property monitor silent
            r = results[h]

            def still(rs, s=s, k=k):
                m2, f2, _ = evaluate(run.work, rs, 'shrink_cases')
                return m2 is not None and any(kk == k and ss == s for _, ss, kk in m2)
            small = shrink(run.work, r['spec'], still)
            run.violation(dict(kind='correspondence', code=k, copy=COPY[s], what=KINDS.get(k), spec=small,
                               observed=dict(eth_class=r['eth_class'], bsc_class=r['bsc_class'],
                                             eth_err=r.get('eth_err'), bsc_err=r.get('bsc_err')),
                               explanation='Model/EvmProof.v no longer describes client_state.go (%s copy); the theorems '
                                           'of Props/C08.v are about the model, so the property is no longer shown to hold; '
                                           'no input on which the real code accepts a false claim or rejects an honest proof '
                                           'was found' % COPY[s],
                               broken='correspondence Model.EvmProof <-> x/xibc/clients/light-clients/{eth,bsc}/types/client_state.go'),
                          name='replay_corr_c%d.json' % h, no_input=True)
        if not run.proof_ok():
            run.proof_violation()
    return run.finish()


def gen_witness():
    """regenerates coq/theories/Model/EvmProofMptWitness.v from corpus case 900001 (run on the real code): the honest
    witness WITH the Keccak hashes of its proof nodes, for the non-vacuity example of the *_mpt theorems.
    usage: cd /verif && python3 -c "import sys; sys.path.insert(0,'tools/py'); import props.c08 as m; m.gen_witness()" """
    work = os.path.join(vlib.ROOT, 'work', 'C08_witness')
    os.makedirs(work, exist_ok=True)
    ok, out = vlib.build_harness(['c08'])
    assert ok, out
    spec = [x for x in vlib.read_jsonl(CORPUS) if x['id'] == 900001]
    rs = run_specs(work, spec, 'witness')
    assert rs and rs[0]['eth_class'] == 0 and rs[0]['bsc_class'] == 0
    text = ('(** The honest witness of Model/EvmProofWitness.v (corpus case 900001) recorded again WITH the Keccak hash of every\n'
            '    proof node in [c_keccak], so that the Gallina MPT verifier can be evaluated on it.  Generated by\n'
            '    tools/py/props/c08.py [gen_witness] from a run of the real code; tables = real crypto.Keccak256 /\n'
            '    trie.VerifyProof / encoding/json results. *)\n'
            'From Teleport Require Import Base.Bytes Base.Outcome Model.EvmProof Model.EvmProofCheck.\n'
            'Local Open Scope N_scope.\n\n'
            'Definition witness_honest_mpt : ecase :=\n%s.\n' % case_term(rs[0]))
    import textwrap
    text = '\n'.join(textwrap.fill(l, 118, break_long_words=False, break_on_hyphens=False, subsequent_indent='  ')
                     if len(l) > 118 else l for l in text.split('\n')) + '\n'
    open(os.path.join(vlib.THEORIES, 'Model', 'EvmProofMptWitness.v'), 'w').write(text)
    print('written', len(text))


def replay(path):
    rp = json.load(open(path))
    work = os.path.join(vlib.ROOT, 'work', 'C08_replay')
    os.makedirs(work, exist_ok=True)
    ok, out = vlib.build_harness(['c08'])
    if ok and ('mpt_case' in rp or 'delay_case' in rp):
        mode, key = ('mpt', 'mpt_case') if 'mpt_case' in rp else ('delay', 'delay_case')
        inp, outp = os.path.join(work, 'replay_in.jsonl'), os.path.join(work, 'replay_out.jsonl')
        vlib.write_jsonl(inp, [rp[key]])
        rc, o = vlib.run_harness('c08', ['-mode', mode, '-in', inp, '-out', outp])
        rs = vlib.read_jsonl(outp) if rc == 0 else []
        if not rs:
            print('cannot replay: harness failed')
            return 2
        mm, extra = evaluate_mpt(work, rs, 'replay_mpt') if mode == 'mpt' else evaluate_delay(work, rs, 'replay_delay')
        print('observed:', json.dumps(rs[0])[:600])
        print('mismatches / failures:', mm)
        if mm is None or mm:
            print('VIOLATION property=C08 replay=%s' % path)
            return 1
        print('replay passes on the current tree')
        return 0
    if not ok or 'spec' not in rp:
        print('cannot replay: %s' % (out[-500:] if not ok else 'no spec in replay file (%s)' % rp.get('kind')))
        return 2
    rs = run_specs(work, [rp['spec']], 'replay')
    mm, ff, cc = evaluate(work, rs, 'replay_cases')
    print('observed: eth_class=%s bsc_class=%s gt=%s' % (rs[0]['eth_class'], rs[0]['bsc_class'], json.dumps(rs[0]['gt'])[:400]))
    print('model classes (eth, bsc):', cc, ' model mismatches:', mm, ' monitor failures:', ff)
    if ff or mm:
        print('VIOLATION property=C08 replay=%s' % path)
        return 1
    print('replay passes on the current tree')
    return 0
