"""C03 — cross-chain value conservation: delivered or refunded, never both.
Model: coq/theories/Model/Bridge.v (+ BridgeCheck.v); harness: harness/cmd/c03 (2-3 real chains)."""
import json
import os
from collections import Counter

import vlib
from vlib import coq_list

HEADER = ('From Coq Require Import List NArith.\nImport ListNotations.\n'
          'From Teleport Require Import Base.Outcome Model.Bridge Model.BridgeCheck Model.BridgeGov Model.BridgeGovCheck.\n'
          'Local Open Scope N_scope.\n')

KINDS = {
    1: 'model and code disagree on whether the operation is accepted',
    2: 'model and code disagree on the acknowledgement result code written by the destination',
    4: 'malformed case: bindings of the history are not unique or have scale factor 0',
    6: 'malformed case: the history registers a binding whose slot or trace is already in use (re-binding is outside the property)',
    5: 'decoded initial observation does not project back (harness/decoder layout)',
    31: 'model and code disagree on a balance after the step',
    32: 'model and code disagree on a totalSupply after the step',
    33: 'model and code disagree on endpoint.outTokens after the step',
    34: 'model and code disagree on endpoint.bindings[..].amount after the step',
    35: 'model and code disagree on packet.getNextSequenceSend after the step',
    36: 'model and code disagree on getAckStatus / packetFees of a packet after the step',
    37: 'model and code disagree on the contract effect of call data after the step',
    38: 'observation shape differs',
    11: 'a rejected operation changed an observable',
    12: 'a packet was received twice / acknowledged twice / acknowledged before it was received, or a forged / altered / '
        'misrouted relay message was accepted',
    13: 'an error acknowledgement was written but the callback left effects on the destination',
    14: 'success acknowledgement: the source chain changed beyond ack status and relayer fee (refund of a delivered packet?)',
    15: 'error acknowledgement: the sender did not get back exactly what he had sent',
    16: 'conservation violated: outTokens(source) != bindings(destination) + in flight (value duplicated or lost)',
    17: 'escrow not backed: endpoint holds less than the sum of its outTokens',
    18: 'relayer-fee escrow not backed: packet contract holds less than the unpaid fees',
    19: 'supply accounting: totalSupply != locally issued + minted for bindings, or != sum of balances',
    20: 'success receive: the receiver was not credited exactly the delivered amount',
    21: 'getAckStatus disagrees with the outcome of the packet',
    22: 'a packet was sent with a sequence other than the next one',
    24: 'an error acknowledgement was written but the callback sent a packet on',
    25: 'an accepted acknowledgement did not move the relayer fee of the packet from the packet contract to the relayer',
    26: 'the first registration of a token binding (RegisterERC20Trace) was refused',
    27: 'the registration of a token binding changed a balance / counter of some chain',
}
for _k in (16, 17, 18, 19, 21):
    KINDS[100 + _k] = 'initial state of the history: ' + KINDS[_k]

HOLDERS = {100: 'Endpoint', 101: 'PacketC', 102: 'Execute', 103: 'Agent', 104: 'Relayer'}
CDS = {0: 'CdNone', 2: 'CdRevert', 3: 'CdHookFail'}


def N(x):
    return '%d' % int(x)


def holder_opt(h):
    if h < 0:
        return 'None'
    if h in HOLDERS:
        return '(Some %s)' % HOLDERS[h]
    return '(Some (User %d%%nat))' % h


def nat(x):
    return '%d%%nat' % int(x)


def op_term(o):
    k = o['k']
    if k == 'T':
        if o['cd'] == 1:
            cd = '(CdOk %s)' % nat(o['e'])
        elif o['cd'] in (4, 5):  # agent.send (4: to a chain without client, parameters filled in by the harness)
            cd = '(CdAgent %s %s %s %s)' % (nat(o['aref']), holder_opt(o['arcv']), nat(o['adst']), N(o['afee'] or 0))
        else:
            cd = CDS[o['cd']]
        return '(Transfer %s %s %s %s %s %s %s %s %s %s)' % (
            nat(o['c']), nat(o['u']), nat(o['tok']), N(o['amt']), nat(o['dst']), holder_opt(o['rcv']), cd,
            'true' if o['cb'] else 'false', nat(o['ftok']), N(o['fee']))
    if k == 'R':
        return '(Recv %s %s %s)' % (nat(o['src']), nat(o['dst']), N(o['seq']))
    if k == 'A':
        return '(Ack %s %s %s)' % (nat(o['src']), nat(o['dst']), N(o['seq']))
    if k == 'F':
        return '(AddFee %s %s %s %s %s)' % (nat(o['c']), nat(o['u']), nat(o['dst']), N(o['seq']), N(o['amt']))
    if k == 'X':
        return '(Fault %s %s %s %s)' % (nat(o['fk']), nat(o['src']), nat(o['dst']), N(o['seq']))
    raise ValueError(k)


def onward_term(w):
    if not w:
        return 'None'
    return ('(Some {| p_src := %s; p_dst := %s; p_seq := %s; p_sender := Agent; p_recv := %s; p_token := %s; p_ori := %s; '
            'p_amount := %s; p_cd := CdNone; p_cb := CbAgent %s; p_status := Sent; p_code := 0; p_delivered := 0; '
            'p_refunded := 0; p_feepaid := 0 |})' % (
                nat(w['src']), nat(w['dst']), N(w['seq']), holder_opt(w['rcv']), nat(w['tok']),
                'None' if w['ori'] < 0 else '(Some %s)' % nat(w['ori']), N(w['amt']), nat(w['ref'])))


def nlist(xs):
    return coq_list([N(x) for x in xs])


def cobs_term(o):
    pk = coq_list(['(%s, (%s, %s))' % (N(a), N(b), N(c)) for a, b, c in o['pk']])
    return ('{| o_bal := %s; o_supply := %s; o_out := %s; o_bind := %s; o_next := %s; o_pk := %s; o_eff := %s |}' % (
        nlist(o['bal']), nlist(o['supply']), nlist(o['out']), nlist(o['bind']), nlist(o['next']), pk, nlist(o['eff'])))


def bentry_term(c, loc, src, ori, scale):
    return '(%s, %s, %s, %s, %s)' % (nat(c), nat(loc), nat(src), nat(ori), N(10 ** int(scale or 0)))


def step_term(st):
    o = st['op']
    if o['k'] == 'B':   # RegisterERC20Trace: the operation field of the observed step is a dummy
        bind = '(Some %s)' % bentry_term(o['c'], o['tok'], o['src'], o['ftok'], o['scale'])
        opt = '(AddFee 0%nat 0%nat 0%nat 0 0)'
    else:
        bind, opt = 'None', op_term(o)
    return ('{| gs_bind := %s; gs_step := {| os_op := %s; os_class := %s; os_code := %s; os_onward := %s; os_obs := %s |} |}' % (
        bind, opt, nat(st['class']), N(st['code']), onward_term(st.get('onward')), coq_list([cobs_term(x) for x in st['obs']])))


def hist_term(r):
    s = r['spec']
    U = '{| u_n := %s; u_users := %s; u_ntok := %s |}' % (nat(s['nchains']), nat(s['nusers']), coq_list([nat(x) for x in s['ntok']]))
    binds = coq_list([bentry_term(b['c'], b['loc'], b['src'], b['ori'], b.get('scale', 0)) for b in (s.get('binds') or [])])
    steps = coq_list([step_term(st) for st in (r['steps'] or [])])
    return '{| gh_u := %s; gh_binds := %s; gh_init := %s; gh_steps := %s |}' % (
        U, binds, coq_list([cobs_term(o) for o in r['init']]), steps)


SHARD = 4
NCORPUS = 7   # harness/cmd/c03/gen.go: histories 0..6 are the directed corpus


def evaluate(workdir, results, tag='cases'):
    """returns (mismatches, monitor_failures) as lists of (hist, step, kind); (None, log) on a Coq failure"""
    shards = [results[i:i + SHARD] for i in range(0, len(results), SHARD)]

    def one(ix):
        i, sh = ix
        defs = ''.join('Definition case_%d : ghist := %s.\n' % (j, hist_term(r)) for j, r in enumerate(sh))
        defs += 'Definition cases : list ghist := %s.\n' % coq_list(['case_%d' % j for j in range(len(sh))])
        res = vlib.coq_eval_lists(workdir, '%s_%d.v' % (tag, i), HEADER, defs,
                                  [('M', 'gmismatches cases'), ('F', 'gmonitor_failures cases')])
        m = vlib.parse_nat_tuples(res.get('M'), 3)
        f = vlib.parse_nat_tuples(res.get('F'), 3)
        if res['_rc'] != 0 or m is None or f is None:
            return ('error', res['_out'][-3000:])
        off = i * SHARD
        return ([(h + off, s, k) for h, s, k in m], [(h + off, s, k) for h, s, k in f])

    outs = vlib.parallel(one, list(enumerate(shards)), workers=12)
    mm, ff = [], []
    for o in outs:
        if o[0] == 'error':
            return None, o[1]
        mm += o[0]
        ff += o[1]
    return mm, ff


def run_generated(workdir, seed, n, ops, thorough, procs=12):
    """runs the generator in `procs` processes over disjoint index ranges; returns the results in index order"""
    chunks = []
    per = max(1, (n + procs - 1) // procs)
    for a in range(0, n, per):
        chunks.append((a, min(n, a + per)))

    def one(ab):
        a, b = ab
        outp = os.path.join(workdir, 'out_%d.jsonl' % a)
        args = ['-seed', seed, '-n', n, '-from', a, '-to', b, '-ops', ops, '-out', outp]
        if thorough:
            args.append('-thorough')
        rc, o = vlib.run_harness('c03', args, timeout=6000)
        if rc != 0:
            return ('error', o[-3000:])
        return ('ok', vlib.read_jsonl(outp))

    outs = vlib.parallel(one, chunks, workers=procs)
    results = []
    for st, v in outs:
        if st == 'error':
            return None, v
        results += v
    return results, ''


def run_specs(workdir, specs, tag):
    inp = os.path.join(workdir, tag + '_in.jsonl')
    out = os.path.join(workdir, tag + '_out.jsonl')
    vlib.write_jsonl(inp, specs)
    rc, o = vlib.run_harness('c03', ['-in', inp, '-out', out], timeout=3000)
    if rc != 0:
        return None
    return vlib.read_jsonl(out)


def fails(workdir, spec, which):
    rs = run_specs(workdir, [spec], 'shrink')
    if not rs:
        return False
    mm, ff = evaluate(workdir, rs, 'shrink_cases')
    if mm is None:
        return False
    return len(ff if which == 'monitor' else mm) > 0


def shrink(workdir, spec, which, budget=60):
    """delta-debugging on the op list, re-running the real chains each time (ops referring to a removed transfer
    are skipped by the harness)"""
    best = dict(spec)
    best['nops'] = 0
    n = len(best['ops'])
    chunk = max(1, n // 2)
    while chunk >= 1 and budget > 0:
        i = 0
        progressed = False
        while i < len(best['ops']) and budget > 0:
            cand = dict(best)
            cand['ops'] = best['ops'][:i] + best['ops'][i + chunk:]
            if len(cand['ops']) == len(best['ops']):
                break
            budget -= 1
            if cand['ops'] and fails(workdir, cand, which):
                best = cand
                progressed = True
            else:
                i += chunk
        if chunk == 1 and not progressed:
            break
        chunk = chunk // 2 if chunk > 1 else (1 if progressed else 0)
    return best


def signature(res, step):
    """canonical signature of a failing step: op kind, call-data kind, ack code"""
    st = res['steps'][step]
    return '%s/cd%s/code%s' % (st['op']['k'], st['op'].get('cd', 0), st['code'])


FAULTS = {0: 'recv_altered_packet', 1: 'ack_forged_code', 2: 'recv_misrouted', 3: 'ack_misrouted', 4: 'ack_altered_packet',
          5: 'packet_sent_event_from_a_user_contract'}
CDNAMES = {0: 'none', 1: 'ok', 2: 'revert', 3: 'hookfail', 4: 'onward_unknown', 5: 'agent_multihop'}


def coverage(run, results, mm, ff):
    dist = Counter()
    nontrivial = set()
    steps = 0
    for r in results:
        dist['histories_%d_chains' % r['spec']['nchains']] += 1
        if r['spec']['id'] < NCORPUS:
            dist['histories_directed_corpus'] += 1
        dist['bindings'] += len(r['spec'].get('binds') or [])
        dist['bindings_scaled'] += sum(1 for b in (r['spec'].get('binds') or []) if b.get('scale'))
        bound = {(b['c'], b['loc'], b['src']): b for b in (r['spec'].get('binds') or [])}
        sent = {}
        state = {}
        for st in r['steps']:
            steps += 1
            o = st['op']
            k = o['k']
            acc = 'accepted' if st['class'] == 0 else 'rejected'
            dist['%s_%s' % ({'T': 'transfer', 'R': 'recv', 'A': 'ack', 'F': 'addfee', 'X': 'fault', 'B': 'bind'}[k], acc)] += 1
            if k == 'X':
                dist['fault_%s_%s' % (FAULTS.get(o['fk'], o['fk']), acc)] += 1
            if k == 'B' and st['class'] == 0:
                bound[(o['c'], o['tok'], o['src'])] = dict(c=o['c'], loc=o['tok'], src=o['src'], ori=o['ftok'], scale=o['scale'])
                pend = sum(1 for kk, v in state.items() if v in ('sent', 'recv_err') and kk[0] == o['src'] and kk[1] == o['c']
                           and sent[kk].get('tok') == o['ftok'] and sent[kk].get('path') == 'forward' and int(sent[kk].get('amt') or 0) > 0)
                dist['bind_mid_history_with_%s_packets_of_the_token_in_flight' % ('0' if pend == 0 else '1+')] += 1
                nontrivial.add(json.dumps(['B', o['c'], o['tok'], o['src'], o['ftok'], o['scale']]))
            if k == 'T' and st['class'] == 0:
                ret = (o['c'], o['tok'], o['dst']) in bound and int(o['amt']) > 0
                sent[(o['c'], o['dst'], st['op']['seq'])] = dict(o, path='return' if ret else 'forward',
                                                                 scaled=bool(ret and bound[(o['c'], o['tok'], o['dst'])].get('scale')))
                state[(o['c'], o['dst'], st['op']['seq'])] = 'sent'
                dist['transfer_cd_%s' % CDNAMES[o['cd']]] += 1
                dist['transfer_%s' % ('native' if o['tok'] == 0 else 'erc20')] += 1
                dist['transfer_%s_path' % ('return' if ret else 'forward')] += 1
                if int(o['fee']) > 0:
                    dist['transfer_with_fee'] += 1
                    if o['ftok'] != o['tok']:
                        dist['transfer_fee_in_other_token'] += 1
                if int(o['amt']) == 0:
                    dist['transfer_pure_call'] += 1
                if o['rcv'] < 0:
                    dist['transfer_bad_receiver'] += 1
                elif o['rcv'] >= 100:
                    dist['transfer_receiver_system_contract'] += 1
                if o['cb']:
                    dist['transfer_broken_callback'] += 1
            if k == 'R' and st['class'] == 0:
                dist['recv_code_%d' % st['code']] += 1
                if st.get('onward'):
                    w = st['onward']
                    dist['recv_sending_a_packet_on'] += 1
                    sent[(w['src'], w['dst'], w['seq'])] = dict(tok=w['tok'], amt=w['amt'], cd=0, rcv=w['rcv'], fee='agent',
                                                                path='return' if w['ori'] >= 0 else 'forward', scaled=False)
                    state[(w['src'], w['dst'], w['seq'])] = 'sent'
                    dist['onward_%s' % ('return_path' if w['ori'] >= 0 else 'forward_path')] += 1
            key = (o.get('src'), o.get('dst'), o.get('seq'))
            if k in 'RA':
                t = sent.get(key)
                if st['class'] == 0:
                    if k == 'R':
                        state[key] = 'recv_ok' if st['code'] == 0 else 'recv_err'
                        if t:
                            dist['recv_%s_%s_path%s' % ('delivered' if st['code'] == 0 else 'refused', t['path'],
                                                         '_scaled' if t.get('scaled') else '')] += 1
                            dist['recv_cd_%s_code_%d' % (CDNAMES.get(t['cd'], t['cd']), st['code'])] += 1
                    else:
                        if t:
                            dist['ack_%s_%s_path' % ('success' if state.get(key) == 'recv_ok' else 'refund', t['path'])] += 1
                            if t.get('fee') == 'agent':
                                dist['ack_of_onward_packet_%s' % ('success' if state.get(key) == 'recv_ok' else 'refund_passed_on')] += 1
                        state[key] = 'acked'
                    nontrivial.add(json.dumps([k, st['code'], t and [t['tok'], t['amt'], t['cd'], t['rcv'], t['fee']], o['src'], o['dst']]))
                else:
                    was = state.get(key, 'unknown')
                    if k == 'R':
                        dist['recv_rejected_%s' % ('duplicate' if was != 'sent' else 'other')] += 1
                    else:
                        dist['ack_rejected_%s' % {'sent': 'premature', 'acked': 'duplicate'}.get(was, 'unprocessable_' + was)] += 1
            if k == 'T' and st['class'] == 0:
                nontrivial.add(json.dumps(['T', o['c'], o['dst'], o['tok'], o['amt'], o['cd'], o['rcv'], o['fee'], o['ftok']]))
            if k == 'X':
                nontrivial.add(json.dumps(['X', o['fk'], o['src'], o['dst'], state.get(key, 'unknown')]))
        # in-flight depth
        infl = 0
        mx = 0
        for st in r['steps']:
            if st['class'] == 0 and st['op']['k'] == 'T':
                infl += 1
            if st['class'] == 0 and st['op']['k'] == 'A':
                infl -= 1
            mx = max(mx, infl)
        dist['max_packets_in_flight_%s' % ('1' if mx <= 1 else '2-3' if mx <= 3 else '4+')] += 1
    nobs = sum(sum(len(o['bal']) + len(o['supply']) + len(o['out']) + len(o['bind']) + len(o['next']) + 3 * len(o['pk']) + len(o['eff'])
                   for o in st['obs']) for r in results for st in r['steps'])

    def sample(r, nops):
        return dict(spec={k: v for k, v in r['spec'].items() if k != 'ops'}, first_ops=r['spec']['ops'][:nops],
                    first_steps=[dict(op=st['op'], accepted=st['class'] == 0, ack_code=st['code']) for st in r['steps'][:nops]])

    run.coverage.update(dict(
        evaluations=steps, histories=len(results), observables_compared=nobs, distinct_nontrivial=len(nontrivial),
        rule='one evaluation = one operation (user crossChainCall / addPacketFee transaction, relayed MsgRecvPacket, relayed '
             'MsgAcknowledgement, or a forged / altered / misrouted relay message) executed on 2-3 real chains with ALL observables '
             'of all chains read afterwards and compared with the model inside Coq; the first %d histories are the directed corpus '
             '(same on every run), the others are generated from the seed; non-trivial = accepted transfer / receive / '
             'acknowledgement, or a faulty relay message; distinct = distinct (kind, chains, token, amount, call-data kind, '
             'receiver kind, fee, ack code) resp. (fault kind, chains, state of the packet)' % NCORPUS,
        distribution=dict(sorted(dist.items())), model_mismatches=len(mm), monitor_failures=len(ff),
        samples=([sample(results[3], 12)] if len(results) > 3 else []) + ([sample(results[-1], 8)] if results else [])))


def coqchk_extra(run):
    """thorough tier: the independent checker also re-checks the tie and schema statements (run.coqchk_stage covers
    Props/C03.v and Refuted/C03_*.v)"""
    import re
    mods = ['Teleport.Props.C03_tie', 'Teleport.Props.C03_schema']
    with vlib.Lock('coq'):
        rc, out = vlib.sh(['coqchk', '-silent', '-o', '-Q', vlib.THEORIES, 'Teleport'] + mods, cwd=vlib.COQ, timeout=2400)
    m = re.search(r'\* Axioms:(.*?)\n\s*\n\* Constants', out, flags=re.S)
    axioms = m.group(1).strip() if m else 'unparsed'
    run.coverage['coqchk_tie'] = dict(cmd='coqchk -silent -o -Q theories Teleport ' + ' '.join(mods), rc=rc, axioms=axioms)
    if rc != 0 or axioms != '<none>':
        run.proof['build_ok'] = False
        run.proof['build_log'] += '\n[coqchk tie]\n' + out[-2000:]


EXTRA = ['theories/Props/C03_tie.v', 'theories/Props/C03_schema.v', 'theories/Model/BridgeGovCheck.v']


def check(run):
    run.proof_stage(extra_modules=EXTRA)
    if not run.proof_ok():
        # the Coq build is shared (translators and make run for the whole development under a lock): retry once so
        # that a transient failure outside this property's files is not reported as a broken obligation
        run.proof_stage(extra_modules=EXTRA)
    if not run.quick() and run.proof_ok():
        run.coqchk_stage()
        coqchk_extra(run)
    ok, out = vlib.build_harness(['c03'])
    if not ok:
        run.violation(dict(kind='harness-build-failed', log=out[-3000:],
                           explanation='the correspondence harness no longer builds against /repo'), no_input=True)
        return run.finish()
    n = run.budget(20, 360)
    ops = run.budget(40, 70)
    results, err = run_generated(run.work, run.seed, n, ops, not run.quick())
    if results is None:
        run.violation(dict(kind='harness-crashed', log=err), no_input=True)
        return run.finish()
    mm, ff = evaluate(run.work, results)
    if mm is None:
        run.violation(dict(kind='coq-evaluation-failed', log=ff), no_input=True)
        return run.finish()
    coverage(run, results, mm, ff)
    run.coverage['trusted_base'] += [
        'hand-written model Model/Bridge.v of the byte-code-only packet/endpoint/execute/agent contracts and of '
        'msg_server.RecvPacket/Acknowledgement, tied to the real code by this differential run (the generator bounds what it sees); '
        'the EVM byte code itself is modelled, not verified',
        'packet layer abstract in Model/Bridge.v (exactly-once receive, authentic acknowledgements: properties C01/C02/C05; rules tied by Props/C03_tie.v)',
        'translator tools/gotocoq/abischema (Gen/AbiSchemaGen.v) for the wire-schema obligation Props/C03_schema.v',
        'harness glue: x/xibc/testing chains, observation layout (decoded in Coq, round trip checked per history)']
    run.assumptions += [
        'token bindings: at most one local token per (chain, source chain, origin token) and vice versa, scale factors 10^n, each '
        'slot registered at most once - before or in the middle of the history (no_rebind; a second registration resets '
        'bindings.amount: Refuted/C03_rebind.v; it is a governance action outside the property and the generator never does it)',
        'between the packet layer (Model/Packet.v: C01 C02 C04 C05) and this value layer: light clients are sound and packet / '
        'acknowledgement commitments collision free, so a relayed packet / acknowledgement is the one the counterparty produced '
        '(the receive / acknowledge / at-most-once rules themselves are proved about the transcribed handlers: Props/C03_tie.v)',
        'no ERC-20 transfers directly between users and system contracts other than through crossChainCall / addPacketFee; '
        'tokens are plain ERC-20s (no fee-on-transfer), users approved the endpoint / packet contract',
        'amounts below 2^128 (uint256 overflow of the contracts is not modelled)',
        'time-based supply limits disabled (not enabled by any code path of the repository except a governance proposal)']

    reported = set()
    for h, s, k in ff:  # the property failed on the real code
        if h in reported:
            continue
        reported.add(h)
        spec = dict(results[h]['spec'])
        last_id = results[h]['steps'][s]['op_id']
        spec['ops'] = [o for o in spec['ops'] if o['id'] <= last_id]
        small = shrink(run.work, spec, 'monitor')
        key = signature(results[h], s)
        if run.known_finding(key, KINDS.get(k, str(k))):
            continue
        run.violation(dict(kind='monitor', code=k, what=KINDS.get(k), spec=small, failing_step=s, signature=key,
                           observed_op=results[h]['steps'][s]['op'], observed_code=results[h]['steps'][s]['code']),
                      name='replay_h%d.json' % h)
        if len(run.violations) >= 2:
            break
    if not run.violations:
        for h, s, k in mm[:1]:  # model and code disagree, property monitor silent
            spec = dict(results[h]['spec'])
            last_id = results[h]['steps'][s]['op_id']
            spec['ops'] = [o for o in spec['ops'] if o['id'] <= last_id]
            small = shrink(run.work, spec, 'model', budget=30)
            run.violation(dict(kind='correspondence', code=k, what=KINDS.get(k), spec=small, failing_step=s,
                               observed_op=results[h]['steps'][s]['op'],
                               explanation='Model/Bridge.v no longer describes the code (msg_server / packet keeper / contracts); '
                                           'the theorems of Props/C03.v are about the model, so the property is no longer shown to hold; '
                                           'the conservation monitor did not fail on any generated history',
                               broken='correspondence Model.Bridge <-> x/xibc + system contracts'),
                          name='replay_corr_h%d.json' % h, no_input=True)
        if not run.proof_ok():
            run.proof_violation()
    return run.finish()


def replay(path):
    rp = json.load(open(path))
    work = os.path.join(vlib.ROOT, 'work', 'C03_replay')
    os.makedirs(work, exist_ok=True)
    ok, out = vlib.build_harness(['c03'])
    if not ok or 'spec' not in rp:
        print('cannot replay: %s' % (out[-500:] if not ok else 'no spec in replay file (%s)' % rp.get('kind')))
        return 2
    spec = dict(rp['spec'])
    spec['nops'] = 0
    rs = run_specs(work, [spec], 'replay')
    if not rs:
        print('harness failed')
        return 2
    mm, ff = evaluate(work, rs, 'replay_cases')
    for st in rs[0]['steps']:
        print('step op=%s class=%d code=%d %s' % (json.dumps(st['op']), st['class'], st['code'], st.get('note', '')))
    print('model mismatches:', [(s, KINDS.get(k, k)) for _, s, k in (mm or [])])
    print('monitor failures:', [(s, KINDS.get(k, k)) for _, s, k in (ff or [])])
    if ff or mm or mm is None:
        print('VIOLATION property=C03 replay=%s' % path)
        return 1
    print('replay passes on the current tree')
    return 0
