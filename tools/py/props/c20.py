"""C20 — reward vesting. Model: coq/theories/Model/Rvesting.v; harness: harness/cmd/c20."""
import json
import os
from collections import Counter

import vlib
from vlib import coq_literal_bytes as cb, coq_Z, coq_bool, coq_list, coq_option

HEADER = 'From Teleport Require Import Base.Bytes Base.Outcome Model.Rvesting Model.RvestingCheck.\nLocal Open Scope Z_scope.\n'

KINDS = {1: 'model and code disagree on whether a reward parameter value is accepted',
         2: 'model and code disagree on BeginBlocker returning vs panicking',
         3: 'model and code disagree on pool / fee-collector balances after BeginBlocker',
         11: 'BeginBlocker (or parameter validation) panicked for parameters the code had accepted',
         12: 'BeginBlocker changed a balance other than pool / fee collector, or the supply',
         13: 'BeginBlocker moved an amount different from min(reward, remaining pool)'}


def pairs(ps):
    return coq_list(['(%s, %s)' % (cb(d), coq_Z(a)) for d, a in ps])


def hist_term(r):
    spec = r['spec']
    steps = []
    for ch, o in zip(spec['steps'], r['obs']):
        rew = pairs(ch.get('rewards') or []) if ch.get('has_rewards') else None
        en = coq_bool(ch['enable']) if ch.get('enable') is not None else None
        blk = '{| set_enable := %s; set_rewards := %s |}' % (coq_option(en), coq_option(rew))
        rc = o['rewards_class']
        steps.append('{| os_block := %s; os_rew_class := %d; os_class := %d; os_pool := %s; os_fee := %s; os_rest_same := %s |}' % (
            blk, 9 if rc < 0 else rc, o['class'],
            coq_list([coq_Z(a) for _, a in o['pool']]), coq_list([coq_Z(a) for _, a in o['fee']]),
            coq_bool(o['rest_same'])))
    pos = lambda ps: [(d, a) for d, a in ps if int(a) > 0]
    return '{| h_pool := %s; h_fee := %s; h_denoms := %s; h_steps := %s |}' % (
        pairs(pos(spec['pool'])), pairs(pos(spec['fee'])), coq_list([cb(d) for d in r['denoms']]), coq_list(steps))


def evaluate(workdir, results, tag='cases'):
    """returns (mismatches, monitor_failures) as lists of (hist, step, kind), or None on a Coq failure"""
    shards = [results[i:i + 250] for i in range(0, len(results), 250)]

    def one(ix):
        i, sh = ix
        defs = 'Definition cases : list hist := %s.\n' % coq_list([hist_term(r) for r in sh])
        res = vlib.coq_eval_lists(workdir, '%s_%d.v' % (tag, i), HEADER, defs,
                                  [('M', 'mismatches cases'), ('F', 'monitor_failures cases')])
        m = vlib.parse_nat_tuples(res.get('M'), 3)
        f = vlib.parse_nat_tuples(res.get('F'), 3)
        if res['_rc'] != 0 or m is None or f is None:
            return ('error', res['_out'][-3000:])
        off = i * 250
        return ([(h + off, s, k) for h, s, k in m], [(h + off, s, k) for h, s, k in f])

    outs = vlib.parallel(one, list(enumerate(shards)))
    mm, ff = [], []
    for o in outs:
        if o[0] == 'error':
            return None, o[1]
        mm += o[0]
        ff += o[1]
    return mm, ff


def run_specs(workdir, specs, tag):
    inp = os.path.join(workdir, tag + '_in.jsonl')
    out = os.path.join(workdir, tag + '_out.jsonl')
    vlib.write_jsonl(inp, specs)
    rc, o = vlib.run_harness('c20', ['-in', inp, '-out', out])
    if rc != 0:
        return None
    return vlib.read_jsonl(out)


def shrink(workdir, spec, kind_class):
    """delta-debug the step list of a failing history (re-running the real code each time)"""
    def fails(sp):
        rs = run_specs(workdir, [sp], 'shrink')
        if not rs:
            return False
        mm, ff = evaluate(workdir, rs, 'shrink_cases')
        if mm is None:
            return False
        got = ff if kind_class == 'monitor' else mm
        return len(got) > 0
    best = spec
    budget = 25
    changed = True
    while changed and budget > 0:
        changed = False
        for i in range(len(best['steps'])):
            if len(best['steps']) <= 1:
                break
            cand = dict(best)
            cand['steps'] = best['steps'][:i] + best['steps'][i + 1:]
            budget -= 1
            if fails(cand):
                best = cand
                changed = True
                break
            if budget <= 0:
                break
    return best


def check(run):
    pr = run.proof_stage()
    if not run.quick() and pr['build_ok']:
        run.coqchk_stage()
    ok, out = vlib.build_harness(['c20'])
    if not ok:
        run.violation(dict(kind='harness-build-failed', log=out[-3000:],
                           explanation='the correspondence harness no longer builds against /repo'), no_input=True)
        return run.finish()
    n = run.budget(300, 6000)
    outp = os.path.join(run.work, 'out.jsonl')
    rc, o = vlib.run_harness('c20', ['-seed', run.seed, '-n', n, '-steps', run.budget(8, 14), '-out', outp])
    if rc != 0:
        run.violation(dict(kind='harness-crashed', log=o[-3000:]), no_input=True)
        return run.finish()
    results = vlib.read_jsonl(outp)
    mm, ff = evaluate(run.work, results)
    if mm is None:
        run.violation(dict(kind='coq-evaluation-failed', log=ff), no_input=True)
        return run.finish()

    # coverage statistics (measured)
    steps = sum(len(r['obs']) for r in results)
    dist = Counter()
    nontrivial = set()
    for r in results:
        pre = {d: int(a) for d, a in r['spec']['pool'] if int(a) > 0}
        for ch, o in zip(r['spec']['steps'], r['obs']):
            dist['rewards_change_' + {-1: 'none', 0: 'accepted', 1: 'rejected', 2: 'panic'}[o['rewards_class']]] += 1
            dist['beginblock_' + {0: 'returned', 2: 'panicked'}[o['class']]] += 1
            post = {d: int(a) for d, a in o['pool']}
            moved = {d: pre.get(d, 0) - post.get(d, 0) for d in post}
            if any(v != 0 for v in moved.values()):
                dist['steps_moving_coins'] += 1
                nontrivial.add(json.dumps([sorted(pre.items()), sorted(moved.items())]))
            if any(post.get(d, 0) == 0 and pre.get(d, 0) > 0 for d in post):
                dist['steps_pool_runs_dry'] += 1
            pre = post
    run.coverage.update(dict(
        evaluations=steps, histories=len(results), distinct_nontrivial=len(nontrivial),
        rule='histories of parameter changes (valid / duplicate / invalid-denom / negative / empty reward lists, enable '
             'toggles) and BeginBlocker calls on the real app; a step is non-trivial when coins moved; distinct = distinct '
             '(pool before, amounts moved)',
        distribution=dict(dist), model_mismatches=len(mm), monitor_failures=len(ff),
        samples=[results[0]['spec']] if results else []))
    run.coverage['trusted_base'] += [
        'hand-written model Model/Rvesting.v tied to x/rvesting by this differential run (generator bounds what it sees)',
        'cosmos-sdk bank/params (modelled: Coins.Add, GetBalance, SendCoins, Subspace.Update)']
    run.assumptions += ['bank invariant: no balance is stored for an invalid denomination; pool balances are non-negative',
                        'gov executes parameter changes through params.NewParamChangeProposalHandler']

    reported = set()
    for h, s, k in ff:  # property failed on the real code
        if h in reported:
            continue
        reported.add(h)
        spec = dict(results[h]['spec'])
        spec['steps'] = spec['steps'][:s + 1]
        small = shrink(run.work, spec, 'monitor')
        run.violation(dict(kind='monitor', code=k, what=KINDS.get(k), spec=small, failing_step=s,
                           observed=results[h]['obs'][:s + 1][-1]), name='replay_h%d.json' % h)
        if len(run.violations) >= 3:
            break
    if not run.violations:
        for h, s, k in mm[:1]:  # model and code disagree, property monitor silent
            spec = dict(results[h]['spec'])
            spec['steps'] = spec['steps'][:s + 1]
            small = shrink(run.work, spec, 'model')
            run.violation(dict(kind='correspondence', code=k, what=KINDS.get(k), spec=small,
                               explanation='Model/Rvesting.v no longer describes x/rvesting; the theorems of Props/C20.v '
                                           'are about the model, so the property is no longer shown to hold',
                               broken='correspondence Model.Rvesting <-> x/rvesting'),
                          name='replay_corr_h%d.json' % h, no_input=True)
        if not run.proof_ok():
            run.proof_violation()
    return run.finish()


def replay(path):
    rp = json.load(open(path))
    work = os.path.join(vlib.ROOT, 'work', 'C20_replay')
    os.makedirs(work, exist_ok=True)
    ok, out = vlib.build_harness(['c20'])
    if not ok or 'spec' not in rp:
        print('cannot replay: %s' % (out[-500:] if not ok else 'no spec in replay file (%s)' % rp.get('kind')))
        return 2
    rs = run_specs(work, [rp['spec']], 'replay')
    mm, ff = evaluate(work, rs, 'replay_cases')
    print('observed:', json.dumps(rs[0]['obs'][-1]))
    print('model mismatches:', mm, ' monitor failures:', ff)
    if ff or mm:
        print('VIOLATION property=C20 replay=%s' % path)
        return 1
    print('replay passes on the current tree')
    return 0
