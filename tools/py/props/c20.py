"""C20 — reward vesting. Model: coq/theories/Model/Rvesting.v; harness: harness/cmd/c20."""
import json
import os
import re
from collections import Counter

import vlib
from vlib import coq_literal_bytes as cb, coq_Z, coq_bool, coq_list, coq_option

HEADER = 'From Teleport Require Import Base.Bytes Base.Outcome Model.Rvesting Model.RvestingCheck.\nLocal Open Scope Z_scope.\n'
WHEADER = ('From Teleport Require Import Base.Bytes Base.Outcome Model.Rvesting Model.RvestingCheck Model.RvestingIR '
           'Model.RvestingBank Model.RvestingParams Model.RvestingWorld Model.RvestingCode Model.RvestingWorldCheck.\n'
           'Local Open Scope Z_scope.\n')

KINDS = {1: 'model and code disagree on whether a reward parameter value is accepted',
         2: 'model and code disagree on BeginBlocker returning vs panicking',
         3: 'model and code disagree on pool / fee-collector balances after BeginBlocker',
         11: 'BeginBlocker (or parameter validation) panicked for parameters the code had accepted',
         12: 'BeginBlocker changed a balance other than pool / fee collector, or the supply',
         13: 'BeginBlocker moved an amount different from min(reward, remaining pool)',
         14: 'after BeginBlock the sum of all balances differs from the stored supply',
         20: 'params store of a fresh app differs from the DefaultParams regenerated from the source',
         21: 'model and code disagree on the outcome class of an operation (done / rejected / panic)',
         22: 'model and code disagree on the balances of the tracked accounts',
         23: 'model and code disagree on the stored supply',
         24: 'model and code disagree on the raw content of the params store under rvesting/',
         25: 'model and code disagree on the block height',
         26: 'the regenerated code contains a statement the model cannot interpret on this input',
         31: 'model and code disagree on ValidateGenesis',
         32: 'model and code disagree on InitGenesis returning vs panicking',
         33: 'model and code disagree on balances / supply after InitGenesis',
         34: 'model and code disagree on the params store after InitGenesis',
         35: 'model and code disagree on ExportGenesis',
         36: 'model and code disagree on ValidateGenesis of the export',
         37: 'model and code disagree on importing the export',
         41: 'InitGenesis changed the total supply (or sum of balances differs from it)',
         42: 'InitGenesis did something other than moving InitReward from the funding account to the pool',
         43: 'ExportGenesis does not carry the parameters that were imported (or carries From / InitReward)',
         44: 'the exported genesis fails validation or its import panics',
         45: 'importing the exported genesis moved coins or changed the parameters'}


def pairs(ps):
    return coq_list(['(%s, %s)' % (cb(d), coq_Z(a)) for d, a in ps])


def hist_term(r):
    spec = r['spec']
    steps = []
    for ch, o in zip(spec['steps'], r['obs']):
        rew = pairs(ch.get('rewards') or []) if ch.get('has_rewards') else None
        en = coq_bool(ch['enable']) if ch.get('enable') is not None else None
        blk = '{| set_enable := %s; set_rewards := %s |}' % (coq_option(en), coq_option(rew))
        rc = o['rewards_class']
        steps.append('{| os_block := %s; os_rew_class := %d; os_class := %d; os_pool := %s; os_fee := %s; os_rest_same := %s |}' % (
            blk, 9 if rc < 0 else rc, o['class'],
            coq_list([coq_Z(a) for _, a in o['pool']]), coq_list([coq_Z(a) for _, a in o['fee']]),
            coq_bool(o['rest_same'])))
    pos = lambda ps: [(d, a) for d, a in ps if int(a) > 0]
    return '{| h_pool := %s; h_fee := %s; h_denoms := %s; h_steps := %s |}' % (
        pairs(pos(spec['pool'])), pairs(pos(spec['fee'])), coq_list([cb(d) for d in r['denoms']]), coq_list(steps))


def evaluate(workdir, results, tag='cases'):
    """returns (mismatches, monitor_failures) as lists of (hist, step, kind), or None on a Coq failure"""
    shards = [results[i:i + 250] for i in range(0, len(results), 250)]

    def one(ix):
        i, sh = ix
        defs = 'Definition cases : list hist := %s.\n' % coq_list([hist_term(r) for r in sh])
        res = vlib.coq_eval_lists(workdir, '%s_%d.v' % (tag, i), HEADER, defs,
                                  [('M', 'mismatches cases'), ('F', 'monitor_failures cases')])
        m = vlib.parse_nat_tuples(res.get('M'), 3)
        f = vlib.parse_nat_tuples(res.get('F'), 3)
        if res['_rc'] != 0 or m is None or f is None:
            return ('error', res['_out'][-3000:])
        off = i * 250
        return ([(h + off, s, k) for h, s, k in m], [(h + off, s, k) for h, s, k in f])

    outs = vlib.parallel(one, list(enumerate(shards)))
    mm, ff = [], []
    for o in outs:
        if o[0] == 'error':
            return None, o[1]
        mm += o[0]
        ff += o[1]
    return mm, ff



def rcoins(ps):
    """list of (denom, amount-or-None) -> list rcoin"""
    return coq_list(['(%s, %s)' % (cb(d), coq_option(None if a is None else coq_Z(a))) for d, a in ps])


def pvalue_term(text):
    """the amino-JSON decoder's view of a proposed value (bool / coin list / anything else)"""
    try:
        v = json.loads(text)
    except ValueError:
        return 'JMalformed'
    if v is True or v is False:
        return 'JBool %s' % coq_bool(v)
    if isinstance(v, list):
        out = []
        for c in v:
            if not isinstance(c, dict) or set(c) - {'denom', 'amount'} or not isinstance(c.get('denom'), str):
                return 'JMalformed'
            a = c.get('amount')
            if a is not None:
                if not isinstance(a, str):
                    return 'JMalformed'
                try:
                    a = int(a)
                except ValueError:
                    return 'JMalformed'
                if not re.fullmatch(r'-?[0-9]+', c['amount']):
                    return 'JMalformed'
            out.append((c['denom'], a))
        return 'JCoins %s' % rcoins(out)
    return 'JMalformed'


def wop_term(op):
    k = op['k']
    if k == 'begin':
        return 'WBegin'
    if k == 'block':
        return 'WBlock'
    if k == 'param':
        return 'WParam %s (%s)' % (cb(op['key']), pvalue_term(op.get('value', '')))
    coins = pairs(op.get('coins') or [])
    if k == 'send':
        return 'WSend %d %d %s' % (op.get('i', 0), op.get('j', 0), coins)
    if k == 'mint':
        return 'WMint %d %s' % (op.get('i', 0), coins)
    if k == 'burn':
        return 'WBurn %d %s' % (op.get('i', 0), coins)
    raise ValueError(k)


ROLE = {'': 0, 'enable': 1, 'rewards': 2, 'other': 3}


def wobs_term(o):
    return ('{| wo_class := %d; wo_role := %d; wo_bal := %s; wo_sup := %s; wo_total := %s; wo_rest_same := %s; '
            'wo_store := %s; wo_height := %s |}' % (
                o['class'], ROLE[o.get('role', '')],
                coq_list([coq_list([coq_Z(x) for x in row]) for row in o['bal']]),
                coq_list([coq_Z(x) for x in o['supply']]), coq_list([coq_Z(x) for x in o['total']]),
                coq_bool(o['rest_same']),
                coq_list(['(%s, %s)' % (cb(k), cb(v)) for k, v in o['store']]), coq_Z(o['height'])))


def wcase_term(r):
    steps = ['(%s, %s)' % (wop_term(op), wobs_term(o)) for op, o in zip(r['spec']['ops'], r['obs'])]
    return '{| wc_denoms := %s; wc_init := %s; wc_steps := %s |}' % (
        coq_list([cb(d) for d in r['denoms']]), wobs_term(r['init']), coq_list(steps))


def gcase_term(r):
    sp = r['spec']
    frm = {'': 'FromEmpty', 'bad': 'FromBad', 'acct': 'FromAcct 4'}[sp['from']]
    g = '{| g_enable := %s; g_rewards := %s; g_from := %s; g_init := %s |}' % (
        coq_bool(sp['enable']), rcoins([(c['denom'], c.get('amount')) for c in sp['rewards']]), frm, pairs(sp['init']))
    exp = r.get('exported')
    expt = None if exp is None else '(%s, %s)' % (coq_bool(exp['enable']), pairs(exp['rewards']))
    a2 = r.get('after2')
    return ('{| gc_denoms := %s; gc_gen := %s; gc_validate := %d; gc_before := %s; gc_init := %d; gc_after := %s; '
            'gc_exported := %s; gc_exp_plain := %s; gc_revalidate := %d; gc_reinit := %d; gc_after2 := %s |}' % (
                coq_list([cb(d) for d in r['denoms']]), g, r['validate'], wobs_term(r['before']), r['init'],
                wobs_term(r['after']), coq_option(expt),
                coq_bool(r.get('exported_from', '') == '' and r.get('exported_init', 0) == 0),
                r.get('revalidate', 0), r.get('reinit', 0), coq_option(None if a2 is None else wobs_term(a2))))


def evaluate2(workdir, results, mode, tag):
    """world / genesis cases: returns (mismatches, monitor_failures) as lists of (case, step, kind), or (None, log)"""
    size = 60 if mode == 'world' else 120
    shards = [results[i:i + size] for i in range(0, len(results), size)]
    typ, term, mq, fq = (('wcase', wcase_term, 'w_mismatches', 'w_monitor_failures') if mode == 'world'
                         else ('gcase', gcase_term, 'g_mismatches', 'g_monitor_failures'))

    def one(ix):
        i, sh = ix
        defs = 'Definition cases : list %s := %s.\n' % (typ, coq_list([term(r) for r in sh]))
        res = vlib.coq_eval_lists(workdir, '%s_%d.v' % (tag, i), WHEADER, defs,
                                  [('M', '%s cases' % mq), ('F', '%s cases' % fq)])
        m = vlib.parse_nat_tuples(res.get('M'), 3)
        f = vlib.parse_nat_tuples(res.get('F'), 3)
        if res['_rc'] != 0 or m is None or f is None:
            return ('error', res['_out'][-3000:])
        off = i * size
        return ([(h + off, s_, k) for h, s_, k in m], [(h + off, s_, k) for h, s_, k in f])

    outs = vlib.parallel(one, list(enumerate(shards)))
    mm, ff = [], []
    for o in outs:
        if o[0] == 'error':
            return None, o[1]
        mm += o[0]
        ff += o[1]
    return mm, ff


def run_specs2(workdir, specs, mode, tag):
    inp = os.path.join(workdir, tag + '_in.jsonl')
    out = os.path.join(workdir, tag + '_out.jsonl')
    vlib.write_jsonl(inp, specs)
    rc, o = vlib.run_harness('c20', ['-mode', mode, '-in', inp, '-out', out])
    if rc != 0:
        return None
    return vlib.read_jsonl(out)


def shrink2(workdir, spec, mode, kind_class):
    """world histories: drop operations one at a time while the failure persists (real code re-run each time)"""
    if mode != 'world':
        return spec

    def fails(sp):
        rs = run_specs2(workdir, [sp], mode, 'shrink2')
        if not rs:
            return False
        mm, ff = evaluate2(workdir, rs, mode, 'shrink2_cases')
        if mm is None:
            return False
        return len(ff if kind_class == 'monitor' else mm) > 0
    best, budget, changed = spec, 30, True
    while changed and budget > 0:
        changed = False
        for i in range(len(best['ops']) - 1, -1, -1):
            if len(best['ops']) <= 1:
                break
            cand = dict(best)
            cand['ops'] = best['ops'][:i] + best['ops'][i + 1:]
            budget -= 1
            if fails(cand):
                best, changed = cand, True
                break
            if budget <= 0:
                break
    return best


def run_specs(workdir, specs, tag):
    inp = os.path.join(workdir, tag + '_in.jsonl')
    out = os.path.join(workdir, tag + '_out.jsonl')
    vlib.write_jsonl(inp, specs)
    rc, o = vlib.run_harness('c20', ['-in', inp, '-out', out])
    if rc != 0:
        return None
    return vlib.read_jsonl(out)


def shrink(workdir, spec, kind_class):
    """delta-debug the step list of a failing history (re-running the real code each time)"""
    def fails(sp):
        rs = run_specs(workdir, [sp], 'shrink')
        if not rs:
            return False
        mm, ff = evaluate(workdir, rs, 'shrink_cases')
        if mm is None:
            return False
        got = ff if kind_class == 'monitor' else mm
        return len(got) > 0
    best = spec
    budget = 25
    changed = True
    while changed and budget > 0:
        changed = False
        for i in range(len(best['steps'])):
            if len(best['steps']) <= 1:
                break
            cand = dict(best)
            cand['steps'] = best['steps'][:i] + best['steps'][i + 1:]
            budget -= 1
            if fails(cand):
                best = cand
                changed = True
                break
            if budget <= 0:
                break
    return best


def check(run):
    pr = run.proof_stage()
    if not run.quick() and pr['build_ok']:
        run.coqchk_stage()
    ok, out = vlib.build_harness(['c20'])
    if not ok:
        run.violation(dict(kind='harness-build-failed', log=out[-3000:],
                           explanation='the correspondence harness no longer builds against /repo'), no_input=True)
        return run.finish()
    n = run.budget(300, 6000)
    outp = os.path.join(run.work, 'out.jsonl')
    rc, o = vlib.run_harness('c20', ['-seed', run.seed, '-n', n, '-steps', run.budget(8, 14), '-out', outp])
    if rc != 0:
        run.violation(dict(kind='harness-crashed', log=o[-3000:]), no_input=True)
        return run.finish()
    results = vlib.read_jsonl(outp)
    if results and 'setup_panic' in results[0]:
        # the real application panics while starting from its own default genesis (InitChain + first BeginBlock)
        run.coverage.update(dict(evaluations=1, distinct_nontrivial=0, rule='application start from the default genesis',
                                 distribution={'setup_panicked': 1}, samples=[{'genesis': 'default (app.Setup)'}]))
        run.violation(dict(kind='monitor', mode='setup', code=11,
                           what='the application panics while starting from its default genesis state (InitChain followed by the '
                                'first BeginBlock): ' + KINDS[11],
                           spec={'genesis': 'default genesis of the application (rvesting: DefaultGenesisState)'},
                           observed=results[0]['setup_panic'][:600]), name='replay_setup.json')
        return run.finish()
    mm, ff = evaluate(run.work, results)
    if mm is None:
        run.violation(dict(kind='coq-evaluation-failed', log=ff), no_input=True)
        return run.finish()

    # world and genesis modes (directed corpus first, then generated cases)
    extra = {}
    for mode, nn in (('world', run.budget(150, 1500)), ('genesis', run.budget(150, 3000))):
        outp2 = os.path.join(run.work, mode + '_out.jsonl')
        rc, o = vlib.run_harness('c20', ['-mode', mode, '-seed', run.seed, '-n', nn, '-steps', run.budget(8, 14), '-out', outp2])
        if rc != 0:
            run.violation(dict(kind='harness-crashed', mode=mode, log=o[-3000:]), no_input=True)
            return run.finish()
        res2 = vlib.read_jsonl(outp2)
        mm2, ff2 = evaluate2(run.work, res2, mode, mode + '_cases')
        if mm2 is None:
            run.violation(dict(kind='coq-evaluation-failed', mode=mode, log=ff2), no_input=True)
            return run.finish()
        extra[mode] = (res2, mm2, ff2)

    # coverage statistics (measured)
    steps = sum(len(r['obs']) for r in results)
    dist = Counter()
    nontrivial = set()
    for r in results:
        pre = {d: int(a) for d, a in r['spec']['pool'] if int(a) > 0}
        for ch, o in zip(r['spec']['steps'], r['obs']):
            dist['rewards_change_' + {-1: 'none', 0: 'accepted', 1: 'rejected', 2: 'panic'}[o['rewards_class']]] += 1
            dist['beginblock_' + {0: 'returned', 2: 'panicked'}[o['class']]] += 1
            post = {d: int(a) for d, a in o['pool']}
            moved = {d: pre.get(d, 0) - post.get(d, 0) for d in post}
            if any(v != 0 for v in moved.values()):
                dist['steps_moving_coins'] += 1
                nontrivial.add(json.dumps([sorted(pre.items()), sorted(moved.items())]))
            if any(post.get(d, 0) == 0 and pre.get(d, 0) > 0 for d in post):
                dist['steps_pool_runs_dry'] += 1
            pre = post
    wres, wmm, wff = extra['world']
    gres, gmm, gff = extra['genesis']
    cls = {0: 'done', 1: 'rejected', 2: 'panicked'}
    for r in wres:
        prev = r['init']
        for op, o in zip(r['spec']['ops'], r['obs']):
            k = op['k']
            tag = 'world_%s_%s' % (k if k != 'param' else 'param_' + (o.get('role') or 'other'), cls[o['class']])
            dist[tag] += 1
            if k in ('begin', 'block') and o['class'] == 0:
                moved = [int(a) - int(b) for a, b in zip(prev['bal'][0], o['bal'][0])]
                if any(moved):
                    dist['world_ticks_moving_coins'] += 1
                    nontrivial.add(json.dumps(['w', prev['bal'][0], moved, k]))
                if k == 'block' and any(int(x) for x in prev['bal'][1]) and not any(int(x) for x in o['bal'][1]):
                    dist['world_blocks_sweeping_fee_collector'] += 1
            if k in ('send', 'mint', 'burn') and o['class'] == 0 and (op.get('i') == 0 or op.get('j') == 0) and k == 'send':
                dist['world_sends_touching_pool'] += 1
            prev = o
    for r in gres:
        dist['genesis_validate_%s' % {0: 'ok', 1: 'error', 2: 'panic'}[r['validate']]] += 1
        dist['genesis_init_%s' % {0: 'returned', 2: 'panicked'}[r['init']]] += 1
        if r['init'] == 0:
            moved = [int(a) - int(b) for a, b in zip(r['after']['bal'][0], r['before']['bal'][0])]
            if any(moved):
                dist['genesis_init_funding_pool'] += 1
                nontrivial.add(json.dumps(['g', r['before']['bal'][0], moved]))
            dist['genesis_round_trips'] += 1
        elif r['validate'] == 0:
            dist['genesis_validated_but_init_panicked(unfunded from: C15 known finding)'] += 1
    wsteps = sum(len(r['obs']) for r in wres)
    mm_all = len(mm) + len(wmm) + len(gmm)
    ff_all = len(ff) + len(wff) + len(gff)
    run.coverage.update(dict(
        evaluations=steps + wsteps + len(gres), histories=len(results), world_histories=len(wres), genesis_cases=len(gres),
        distinct_nontrivial=len(nontrivial),
        rule='(hist) parameter changes (valid / duplicate / invalid-denom / negative / empty reward lists, enable toggles) and '
             'BeginBlocker calls on the real app; (world) the same interleaved with other modules\' SendCoins / MintCoins / '
             'BurnCoins, ill-typed and unregistered parameter changes and whole TestChain blocks (distribution sweep), '
             'observing six accounts, stored supply, sum of all balances and the raw params store; (genesis) ValidateGenesis / '
             'InitGenesis / ExportGenesis / re-import.  A step is non-trivial when coins moved between pool and fee collector '
             '(or into the pool at genesis); distinct = distinct (pool before, amounts moved)',
        distribution=dict(dist), model_mismatches=mm_all, monitor_failures=ff_all,
        samples=([results[0]['spec']] if results else []) + ([wres[6]['spec']] if len(wres) > 6 else []) +
                ([gres[5]['spec']] if len(gres) > 5 else [])))
    run.coverage['trusted_base'] += [
        'hand-written model Model/Rvesting.v (BeginBlocker) tied to x/rvesting by this differential run (generator bounds what it sees)',
        'translator tools/gotocoq/rvesting (go/ast): validation guards, ParamSetPairs, keys, DefaultParams, genesis functions, '
        'keeper wiring, app.go tables -> Gen/RvestingGen.v, interpreted by Model/RvestingParams.v / RvestingWorld.v; the '
        'interpretation is cross-checked by the same differential run (outcome classes, balances, supply, raw params store)',
        'cosmos-sdk bank/params/distribution (specified from the library source, validated by the run: Coins.Add, GetBalance, '
        'SendCoins, MintCoins, BurnCoins, Subspace.Update/SetParamSet/GetParamSet, amino JSON of bool and Coins, '
        'AllocateTokens sweeping the fee collector when height > 1)',
        'python glue: JSON text of a proposed parameter value -> JBool / JCoins / JMalformed (tools/py/props/c20.py pvalue_term)']
    run.assumptions += ['bank invariant: no balance is stored for an invalid denomination; balances are non-negative and sum to the stored supply (observed on every step)',
                        'gov executes parameter changes through params.NewParamChangeProposalHandler',
                        'parameter changes name a registered key (Subspace.Update panics otherwise: SDK behaviour, Refuted/C20_unregistered_key_refuted)']

    reported = set()
    for h, s, k in ff:  # property failed on the real code
        if h in reported:
            continue
        reported.add(h)
        spec = dict(results[h]['spec'])
        spec['steps'] = spec['steps'][:s + 1]
        small = shrink(run.work, spec, 'monitor')
        run.violation(dict(kind='monitor', mode='hist', code=k, what=KINDS.get(k), spec=small, failing_step=s,
                           observed=results[h]['obs'][:s + 1][-1]), name='replay_h%d.json' % h)
        if len(run.violations) >= 3:
            break
    for mode, key in (('world', 'ops'), ('genesis', None)):
        res2, mm2, ff2 = extra[mode]
        reported = set()
        for h, s, k in ff2:
            if h in reported or len(run.violations) >= 5:
                continue
            reported.add(h)
            spec = dict(res2[h]['spec'])
            if key:
                spec[key] = spec[key][:s + 1]
            small = shrink2(run.work, spec, mode, 'monitor')
            obs = res2[h]['obs'][s] if key else {kk: res2[h].get(kk) for kk in ('validate', 'init', 'panic', 'exported', 'revalidate', 'reinit')}
            run.violation(dict(kind='monitor', mode=mode, code=k, what=KINDS.get(k), spec=small, failing_step=s, observed=obs),
                          name='replay_%s%d.json' % (mode[0], h))
    if not run.violations:
        for h, s, k in mm[:1]:  # model and code disagree, property monitor silent
            spec = dict(results[h]['spec'])
            spec['steps'] = spec['steps'][:s + 1]
            small = shrink(run.work, spec, 'model')
            run.violation(dict(kind='correspondence', mode='hist', code=k, what=KINDS.get(k), spec=small,
                               explanation='Model/Rvesting.v no longer describes x/rvesting; the theorems of Props/C20.v '
                                           'are about the model, so the property is no longer shown to hold',
                               broken='correspondence Model.Rvesting <-> x/rvesting'),
                          name='replay_corr_h%d.json' % h, no_input=True)
        for mode, key in (('world', 'ops'), ('genesis', None)):
            res2, mm2, ff2 = extra[mode]
            for h, s, k in mm2[:1]:
                spec = dict(res2[h]['spec'])
                if key:
                    spec[key] = spec[key][:s + 1]
                small = shrink2(run.work, spec, mode, 'model')
                run.violation(dict(kind='correspondence', mode=mode, code=k, what=KINDS.get(k), spec=small,
                                   explanation='the regenerated model (Gen/RvestingGen.v interpreted by Model/RvestingParams.v, '
                                               'Model/RvestingWorld.v) no longer describes x/rvesting / its wiring; the theorems of '
                                               'Props/C20.v are about the model, so the property is no longer shown to hold',
                                   broken='correspondence Model.RvestingCode <-> x/rvesting, app/app.go'),
                              name='replay_corr_%s%d.json' % (mode[0], h), no_input=True)
        if not run.proof_ok():
            run.proof_violation()
    return run.finish()


def replay(path):
    rp = json.load(open(path))
    work = os.path.join(vlib.ROOT, 'work', 'C20_replay')
    os.makedirs(work, exist_ok=True)
    ok, out = vlib.build_harness(['c20'])
    if not ok or 'spec' not in rp:
        print('cannot replay: %s' % (out[-500:] if not ok else 'no spec in replay file (%s)' % rp.get('kind')))
        return 2
    mode = rp.get('mode', 'hist')
    if mode == 'setup':
        outp = os.path.join(work, 'setup_out.jsonl')
        rc, o = vlib.run_harness('c20', ['-seed', 1, '-n', 1, '-out', outp])
        rs = vlib.read_jsonl(outp) if rc == 0 else []
        if rc != 0 or (rs and 'setup_panic' in rs[0]):
            print('observed: the application panics while starting from its default genesis')
            print('VIOLATION property=C20 replay=%s' % path)
            return 1
        print('replay passes on the current tree')
        return 0
    if mode == 'hist':
        rs = run_specs(work, [rp['spec']], 'replay')
        mm, ff = evaluate(work, rs, 'replay_cases')
        print('observed:', json.dumps(rs[0]['obs'][-1]))
    else:
        rs = run_specs2(work, [rp['spec']], mode, 'replay')
        mm, ff = evaluate2(work, rs, mode, 'replay_cases')
        last = rs[0]['obs'][-1] if mode == 'world' else {k: rs[0].get(k) for k in ('validate', 'init', 'panic', 'exported', 'revalidate', 'reinit')}
        print('observed:', json.dumps(last))
    print('model mismatches:', mm, ' monitor failures:', ff)
    if mm is None or ff or mm:
        print('VIOLATION property=C20 replay=%s' % path)
        return 1
    print('replay passes on the current tree')
    return 0
