"""C15 — no panic outside transaction recovery. Model: coq/theories/Model/Halt.v, HaltAgg.v (+ Model/Rvesting.v);
harness: harness/cmd/c15; translator: tools/gotocoq/panicsites -> Gen/PanicSitesGen.v."""
import json
import os
from collections import Counter

import vlib
from vlib import coq_literal_bytes as cb, coq_bool, coq_list
from props import c20

HEADER = ('From Teleport Require Import Base.Bytes Base.Outcome Model.Rvesting Model.RvestingCheck Model.Halt Model.HaltAgg '
          'Model.HaltCheck.\nLocal Open Scope N_scope.\n')

KINDS = {1: 'model and code disagree on the outcome class of the stateless validation',
         2: 'model and code disagree on the outcome class of the execution (handler / InitGenesis)',
         3: 'model and code disagree on the client state / consensus states stored by the handler',
         4: 'the harness executed a case that the validation had rejected',
         11: 'a value accepted by the stateless validation made code outside transaction recovery panic',
         21: 'rvesting: model and code disagree on whether a reward parameter value is accepted',
         22: 'rvesting: model and code disagree on BeginBlocker returning vs panicking',
         23: 'rvesting: model and code disagree on the balances after BeginBlocker'}


def hb(h):
    return cb(bytes.fromhex(h or ''))


def root(r):
    """the Root convention of the harness specs: missing / '' = 32 bytes 0x03, 'empty' = no bytes, else hex"""
    if not r:
        return cb(bytes([3]) * 32)
    if r == 'empty':
        return cb(b'')
    return cb(bytes.fromhex(r))


def height(h):
    return '(mkH %d %d)' % (h['rev'], h['h'])


def header(h):
    return ('{| hd_height := %s; hd_extra_len := %d; hd_mix := %s; hd_uncle := %s; hd_root := %s; hd_diff := %s; hd_bloom_len := %d; '
            'hd_nonce_len := %d; hd_gas_limit := %d; hd_gas_used := %d |}' % (
                height(h['height']), h['extra_len'], hb(h['mix']), hb(h['uncle']), root(h.get('root')), hb(h['diff']), h['bloom_len'],
                h.get('nonce_len', 0), h['gas_limit'], h['gas_used']))


def zz(n):
    return '(%d)%%Z' % n


def cs_term(cs, oracle):
    k = cs['kind']
    oracle = oracle or {}
    if k == 'nil':
        return 'AnyNil'
    if k == 'emptyurl':
        return 'AnyEmptyUrl'
    if k == 'wrong':
        return 'AnyWrong'
    if k == 'tm':
        return '(AnyVal (CsTM %s %d %d %s %s %s %s %d))' % (
            hb(cs.get('chain_id')), cs['tl_num'], cs['tl_den'], zz(cs['trusting']), zz(cs['unbonding']), zz(cs['drift']),
            height(cs['latest']), cs['nspecs'])
    if k == 'bsc':
        return '(AnyVal (CsBSC %s %d %d %d %s))' % (header(cs['hdr']), cs['chain_num'], cs['epoch'], cs['trusting_period'],
                                                   coq_bool(oracle.get('seal_ok', False)))
    if k == 'eth':
        h = dict(cs['hdr'])
        h['nonce_len'] = 0
        return '(AnyVal (CsETH %s %d))' % (header(h), cs['trusting_period'])
    if k == 'tss':
        return '(AnyVal (CsTSS %s))' % coq_bool(oracle.get('bech32_ok', False))
    raise ValueError(k)


def cons_term(c):
    k = c['kind']
    if k == 'nil':
        return 'AnyNil'
    if k == 'emptyurl':
        return 'AnyEmptyUrl'
    if k == 'wrong':
        return 'AnyWrong'
    if k == 'tm':
        return '(AnyVal (ConsTM %d))' % (c['ts'] % (1 << 33))
    if k == 'bsc':
        return '(AnyVal (ConsBSC %d))' % c['ts']
    if k == 'eth':
        return '(AnyVal (ConsETH %d %s))' % (c['ts'], root(c.get('root')))
    if k == 'tss':
        return '(AnyVal ConsTSS)'
    raise ValueError(k)


CTYPE = {'none': 'None', 'tendermint': '(Some TTM)', 'bsc': '(Some TBSC)', 'eth': '(Some TETH)', 'tss': '(Some TTSS)'}
CONS_CODE = {'tm': 1, 'bsc': 2, 'eth': 3, 'tss': 4, '?': 5}


def xprop_term(st, o):
    orc = o.get('oracle') or {}
    t, d = hb(st['title']), st['desc_len']
    if st['op'] == 'relayer':
        # the address string itself (it is the store key) + the observed answer of sdk.AccAddressFromBech32 as the
        # decoder oracle (for blank strings the model refuses before it asks the oracle, as the SDK does)
        return '(PRelayer %s %d %s %s %s %d)' % (t, d, hb(st.get('address')), coq_bool(orc.get('bech32_ok', False)),
                                                coq_list([hb(c) for c in st.get('chains') or []]), len(st.get('addresses') or []))
    con = {'create': 'PCreate', 'upgrade': 'PUpgrade', 'toggle': 'PToggle'}[st['op']]
    return '(%s %s %d %s %s %s)' % (con, t, d, hb(st['chain']), cs_term(st['cs'], orc), cons_term(st['cons']))


def xsteps_term(specs, obs):
    steps = []
    for st, o in zip(specs, obs):
        post = 'None'
        p = o.get('post')
        if p is not None:
            if p['type'] not in CTYPE:
                post = 'None'
            else:
                post = '(Some {| xp_type := %s; xp_latest := %s; xp_cons := %s |})' % (
                    CTYPE[p['type']], height(p['latest']),
                    coq_list(['(mkH %d %d, (%d, %d))' % (k['rev'], k['h'], CONS_CODE[k['kind']], k['ts']) for k in p['cons']]))
        steps.append('{| xo_prop := %s; xo_chain := %s; xo_v := %d%%nat; xo_x := %d%%nat; xo_post := %s |}' % (
            xprop_term(st, o), hb(st.get('chain')), o['v'], 9 if o['x'] < 0 else o['x'], post))
    return coq_list(steps)


def xcase_term(c):
    return '(CX {| xc_now := %d; xc_native := %s; xc_steps := %s |})' % (
        c['extra']['now'], hb(c['extra'].get('native')), xsteps_term(c['xibc']['steps'], c['obs']))


def packet(p):
    return '{| gp_src := %s; gp_dst := %s; gp_seq := %d; gp_data_len := %d |}' % (hb(p['src']), hb(p['dst']), p['seq'], p['data_len'])


def obs_vx(o):
    return '%d%%nat %d%%nat' % (o['v'], 9 if o['x'] < 0 else o['x'])


def genx_term(c):
    g, o = c['gen_xibc'], c['obs'][0]
    ors = o.get('client_oracles') or []
    clients = ['(%s, %s)' % (hb(cl['chain']), cs_term(cl['cs'], ors[i] if i < len(ors) else None)) for i, cl in enumerate(g.get('clients') or [])]
    cons = ['(%s, %s)' % (hb(cc['chain']), coq_list(['(%s, %s)' % (height(s['height']), cons_term(s['cons'])) for s in cc['states'] or []]))
            for cc in g.get('consensus') or []]
    meta = ['(%s, %s)' % (hb(m['chain']), coq_list(['(%s, %d)' % (hb(it['key']), it['val_len']) for it in m['items'] or []]))
            for m in g.get('metadata') or []]
    rors = o.get('relayer_oracles') or []
    rel = ['{| rl_addr_len := %d; rl_bech32 := %s; rl_chains := %s; rl_n_addresses := %d |}' % (
        len(bytes.fromhex(r['address'])), coq_bool(rors[i] if i < len(rors) else False),
        coq_list([hb(x) for x in r.get('chains') or []]), len(r.get('addresses') or [])) for i, r in enumerate(g.get('relayers') or [])]
    then = xsteps_term(g.get('then') or [], c['obs'][1:])
    return ('(CGX {| gx_clients := %s; gx_consensus := %s; gx_metadata := %s; gx_relayers := %s; gx_native := %s; gx_acks := %s; '
            'gx_commitments := %s; gx_receipts := %s; gx_seqs := %s |} %s %d %s)' % (
                coq_list(clients), coq_list(cons), coq_list(meta), coq_list(rel), hb(g['native']),
                coq_list([packet(p) for p in g.get('acks') or []]), coq_list([packet(p) for p in g.get('commitments') or []]),
                coq_list([packet(p) for p in g.get('receipts') or []]), coq_list([packet(p) for p in g.get('seqs') or []]), obs_vx(o),
                c['extra']['now'], then))


def gena_term(c):
    g, o = c['gen_agg'], c['obs'][0]
    pairs = ['{| gp_erc20 := %s; gp_denoms := %s |}' % (hb(p['erc20']), coq_list([hb(d) for d in p.get('denoms') or []])) for p in g.get('pairs') or []]
    return '(CGA %s %s)' % (coq_list(pairs), obs_vx(o))


def zpairs(ps):
    return coq_list(['(%s, %s)' % (cb(d), zz(int(a))) for d, a in ps or []])


def genr_term(c):
    g, o = c['gen_rv'], c['obs'][0]
    orc = o.get('oracle') or {}
    bal = [(d, a) for d, a in g.get('from_bal') or [] if int(a) > 0]
    return '(CGR {| gr_rewards := %s; gr_from_empty := %s; gr_from_ok := %s; gr_init := %s; gr_from_bal := %s |} %s)' % (
        zpairs(g.get('rewards')), coq_bool(len(g.get('from') or '') == 0), coq_bool(orc.get('from_ok', False)),
        zpairs(g.get('init_reward')), zpairs(bal), obs_vx(o))


def rv_term(c):
    spec = dict(c['rv'])
    for k in ('pool', 'fee', 'other', 'steps'):
        spec[k] = spec.get(k) or []
    r = {'spec': spec, 'obs': c['rv_obs']['obs'], 'denoms': c['rv_obs']['denoms']}
    return '(CRV (%s)%%Z)' % c20.hist_term(r)


def meta_term(m):
    units = ['{| du_denom := %s; du_exp := %d; du_aliases := %s |}' % (hb(u['denom']), u['exponent'], coq_list([hb(a) for a in u.get('aliases') or []]))
             for u in m.get('units') or []]
    return '{| md_name := %s; md_symbol := %s; md_base := %s; md_display := %s; md_units := %s |}' % (
        hb(m['name']), hb(m['symbol']), hb(m['base']), hb(m['display']), coq_list(units))


def aprop_term(st, o):
    t, d = hb(st['title']), st['desc_len']
    res = o.get('res') or {}
    con, new = hb(res.get('contract', '')), hb(res.get('new_contract', ''))
    op = st['op']
    nums = [hb(x) for x in (st.get('nums') or [])] + ['[]'] * 4
    if op == 'register_coin':
        return '(ARegisterCoin %s %d %s)' % (t, d, meta_term(st['meta']))
    if op == 'add_coin':
        return '(AAddCoin %s %d %s %s)' % (t, d, meta_term(st['meta']), con)
    if op == 'register_erc20':
        return '(ARegisterERC20 %s %d %s)' % (t, d, con)
    if op == 'toggle':
        return '(AToggle %s %d %s)' % (t, d, con)
    if op == 'update_erc20':
        return '(AUpdate %s %d %s %s)' % (t, d, con, new)
    if op == 'trace':
        return '(ATrace %s %d %s %s %s %d)' % (t, d, con, hb(st.get('token')), hb(st.get('chain')), st['scale'])
    if op == 'enable_limit':
        return '(AEnableLimit %s %d %s %s %s %s %s)' % (t, d, con, nums[0], nums[1], nums[2], nums[3])
    if op == 'disable_limit':
        return '(ADisableLimit %s %d %s)' % (t, d, con)
    raise ValueError(op)


def agg_term(c):
    steps = []
    for st, o in zip(c['agg']['steps'], c['obs']):
        p = 'None' if st['op'] == 'param' else '(Some %s)' % aprop_term(st, o)
        steps.append('{| ao_prop := %s; ao_v := %d%%nat; ao_x := %d%%nat |}' % (p, o['v'], 9 if o['x'] < 0 else o['x']))
    return '(CAG {| ac_steps := %s |})' % coq_list(steps)


TERM = {'xibc': xcase_term, 'gen_xibc': genx_term, 'gen_agg': gena_term, 'gen_rv': genr_term, 'rv': rv_term, 'agg': agg_term}


def case_term(c):
    return TERM[c['kind']](c)


SHARD = 250


def evaluate(workdir, results, tag='cases'):
    """returns (mismatches, monitor_failures) as lists of (case, step, kind); (None, log) on a Coq failure"""
    shards = [results[i:i + SHARD] for i in range(0, len(results), SHARD)]

    def one(ix):
        i, sh = ix
        defs = 'Definition cases : list hcase := %s.\n' % coq_list([case_term(r) for r in sh])
        res = vlib.coq_eval_lists(workdir, '%s_%d.v' % (tag, i), HEADER, defs,
                                  [('M', 'mismatches cases'), ('F', 'monitor_failures cases')])
        m = vlib.parse_nat_tuples(res.get('M'), 3)
        f = vlib.parse_nat_tuples(res.get('F'), 3)
        if res['_rc'] != 0 or m is None or f is None:
            return ('error', res['_out'][-3000:])
        off = i * SHARD
        return ([(h + off, s, k) for h, s, k in m], [(h + off, s, k) for h, s, k in f])

    outs = vlib.parallel(one, list(enumerate(shards)))
    mm, ff = [], []
    for o in outs:
        if o[0] == 'error':
            return None, o[1]
        mm += o[0]
        ff += o[1]
    return mm, ff


def strip(c):
    return {k: v for k, v in c.items() if k not in ('obs', 'rv_obs', 'extra', 'origin')}


def run_cases(workdir, cases, tag):
    inp = os.path.join(workdir, tag + '_in.jsonl')
    out = os.path.join(workdir, tag + '_out.jsonl')
    vlib.write_jsonl(inp, [strip(c) for c in cases])
    rc, o = vlib.run_harness('c15', ['-in', inp, '-out', out])
    if rc != 0:
        return None
    return vlib.read_jsonl(out)


def steps_of(c):
    k = c['kind']
    if k in ('xibc', 'agg'):
        return c[k]['steps']
    if k == 'rv':
        return c['rv']['steps']
    return None


def truncate(c, n):
    """the case cut after step n (inclusive)"""
    c = json.loads(json.dumps(strip(c)))
    k = c['kind']
    if k in ('xibc', 'agg', 'rv'):
        c[k]['steps'] = c[k]['steps'][:n + 1]
    if k == 'gen_xibc' and c[k].get('then'):
        c[k]['then'] = c[k]['then'][:n]  # obs[0] is the genesis itself
    return c


def shrink(workdir, case, which):
    """delta-debug the step list of a failing case (re-running the real code each time)"""
    def fails(cand):
        rs = run_cases(workdir, [cand], 'shrink')
        if not rs:
            return False
        mm, ff = evaluate(workdir, rs, 'shrink_cases')
        if mm is None:
            return False
        return len(ff if which == 'monitor' else mm) > 0
    best = case
    if steps_of(best) is None:
        return best
    budget, changed = 20, True
    while changed and budget > 0:
        changed = False
        st = steps_of(best)
        for i in range(len(st) - 1):  # the last step is the failing one
            cand = json.loads(json.dumps(best))
            del steps_of(cand)[i]
            budget -= 1
            if fails(cand):
                best, changed = cand, True
                break
            if budget <= 0:
                break
    return best


def finding_key(case, step, obs):
    """canonical signature of a monitor failure (KNOWN_FINDINGS.txt key=)"""
    k = case['kind']
    if k == 'gen_xibc':
        then = case['gen_xibc'].get('then') or []
        if (obs or {}).get('x_panic') is not None and step >= 1 and step - 1 < len(then):
            st = then[step - 1]
            if 'index out of range [1] with length 1' in obs['x_panic'] and st['op'] == 'upgrade' and (st.get('cs') or {}).get('kind') == 'bsc':
                return 'bsc-upgrade-malformed-signer-key'
            return 'xibc-proposal-after-genesis:%s:%s' % (st['op'], (st.get('cs') or {}).get('kind'))
        if any(len(r.get('address') or '') == 0 for r in case['gen_xibc'].get('relayers') or []) and (obs or {}).get('x_panic') == 'key is nil':
            return 'xibc-genesis-relayer-empty-address'
        return 'xibc-genesis'
    if k == 'gen_rv':
        txt = (obs or {}).get('x_panic') or ''
        return 'rvesting-genesis-unfunded-from' if 'insufficient funds' in txt else 'rvesting-genesis'
    if k == 'gen_agg':
        return 'aggregate-genesis'
    if k == 'rv':
        return 'rvesting-beginblock'
    if k == 'agg':
        return 'aggregate-proposal:' + case['agg']['steps'][step]['op']
    st = case['xibc']['steps'][step]
    cs = st.get('cs') or {}
    key = 'xibc-proposal:%s:%s' % (st['op'], cs.get('kind'))
    if cs.get('kind') == 'bsc':
        if cs.get('epoch') == 0:
            key += ':epoch-zero'
        elif cs.get('chain_num', 0) >= 1 << 63:
            key += ':chain-id-ge-2^63'
    if cs.get('kind') == 'eth' and cs['hdr']['bloom_len'] > 256:
        key += ':bloom-gt-256'
    return key


FINDING_TEXT = {
    'rvesting-genesis-unfunded-from': 'rvesting InitGenesis panics "insufficient funds" when the genesis `from` account does not hold '
                                      'init_reward; hypothesis `covers` of validated_never_panics_rvesting_genesis',
}


def obs_at(c, s):
    if c['kind'] == 'rv':
        o = c['rv_obs']['obs']
    else:
        o = c['obs']
    return o[s] if s < len(o) else (o[-1] if o else None)


def coverage(results):
    dist = Counter()
    nontrivial = set()
    evals = 0
    samples = {}
    for c in results:
        k = c['kind']
        dist['cases_' + k] += 1
        dist['origin_' + (c.get('origin') or 'replay')] += 1
        samples.setdefault(k, strip(c))
        if k == 'rv':
            for o in c['rv_obs']['obs']:
                evals += 1
                dist['rv_param_change_' + {-1: 'none', 0: 'accepted', 1: 'rejected', 2: 'panic'}[o['rewards_class']]] += 1
                dist['rv_beginblock_' + {0: 'returned', 2: 'panicked'}[o['class']]] += 1
                if o['rewards_class'] == 0:
                    nontrivial.add(('rv', json.dumps(o['pool'])))
            continue
        specs = steps_of(c) or [None]
        for st, o in zip(specs, c['obs']):
            evals += 1
            op = ''
            if k == 'xibc':
                op = st['op'] + ('/' + st['cs']['kind'] if st['op'] != 'relayer' else '')
            elif k == 'agg':
                op = st['op']
            cls = 'validation_%s' % ['ok', 'err', 'panic'][o['v']] if o['v'] else 'executed_%s' % ['ok', 'err', 'panic'][o['x']]
            dist['%s %s %s' % (k, op, cls)] += 1
            if o['v'] == 0:
                nontrivial.add((k, json.dumps(st, sort_keys=True) if st is not None else json.dumps(strip(c), sort_keys=True), o['x']))
    return evals, len(nontrivial), dict(sorted(dist.items())), list(samples.values())


def guard_report(workdir):
    """the regenerated guards (Gen/HaltGuardsGen.v) and the decidable obligations on them, as evaluated on this run"""
    hdr = ('From Coq Require Import String List NArith.\nImport ListNotations.\nFrom Teleport Require Import Model.HaltGuardIR Gen.HaltGuardsGen Model.Halt '
           'Model.HaltCheck.\nLocal Open Scope N_scope.\n')
    res = vlib.coq_eval_lists(workdir, 'guards.v', hdr, '', [
        ('G', '[(N.of_nat (List.length guard_obligations), N.of_nat (List.length failed_guard_obligations), '
              'opaque_count (bsc_client_validate_guards ++ bsc_ecrecover_guards ++ '
              'eth_client_validate_guards ++ genesis_metadata_validate_guards ++ aggregate_genesis_pair_guards ++ '
              'packet_genesis_ack_guards ++ packet_genesis_commitment_guards))]'),
        ('L', '[(N.of_nat (List.length bsc_client_validate_guards), N.of_nat (List.length eth_client_validate_guards), '
              'N.of_nat (List.length (packet_genesis_ack_guards ++ packet_genesis_commitment_guards ++ aggregate_genesis_pair_guards ++ '
              'genesis_metadata_validate_guards ++ bsc_ecrecover_guards)))]'),
        ('F', 'failed_guard_obligations')])
    g = vlib.parse_nat_tuples(res.get('G'), 3)
    l = vlib.parse_nat_tuples(res.get('L'), 3)
    if res['_rc'] != 0 or not g or not l:
        return {'evaluated': False}
    import re
    failed = re.findall(r'"((?:[^"]|"")*)"', res.get('F') or '')
    return {'evaluated': True, 'obligations': g[0][0], 'failed': g[0][1], 'failed_obligations': failed,
            'opaque_guards_left_to_the_hand_model': g[0][2],
            'guards_bsc_client_validate': l[0][0], 'guards_eth_client_validate': l[0][1], 'guards_genesis_and_ecrecover': l[0][2]}


def site_report(workdir):
    """how the regenerated panic-site inventory is covered on this run: hand rows / automatic (dominating guard) / moved"""
    hdr = ('From Coq Require Import String List NArith.\nImport ListNotations.\nFrom Teleport Require Import Gen.PanicSitesGen '
           'Proofs.HaltSites.\nLocal Open Scope N_scope.\n')
    res = vlib.coq_eval_lists(workdir, 'sites.v', hdr, '', [
        ('S', '[(N.of_nat (List.length panic_sites), N.of_nat (List.length uncovered_sites), stale_rows)]'),
        ('C', '[coverage_counts]')])
    a = vlib.parse_nat_tuples(res.get('S'), 3)
    b = vlib.parse_nat_tuples(res.get('C'), 3)
    if res['_rc'] != 0 or not a or not b:
        return {'evaluated': False}
    return {'evaluated': True, 'sites': a[0][0], 'uncovered': a[0][1], 'stale_rows': a[0][2],
            'covered_by_row': b[0][0], 'covered_by_dominating_guard': b[0][1], 'covered_as_moved_or_renamed': b[0][2]}


def check(run):
    run.proof_stage()
    if not run.quick():
        run.coqchk_stage()
    ok, out = vlib.build_harness(['c15'])
    if not ok:
        run.violation(dict(kind='harness-build-failed', log=out[-3000:],
                           explanation='the correspondence harness no longer builds against /repo'), no_input=True)
        return run.finish()
    n = run.budget(250, 20000)   # generated cases; the corpus and the directed tour (harness/cmd/c15/tour.go) always run first
    outp = os.path.join(run.work, 'out.jsonl')
    rc, o = vlib.run_harness('c15', ['-seed', run.seed, '-n', n, '-out', outp])
    if rc != 0:
        run.violation(dict(kind='harness-crashed', log=o[-3000:]), no_input=True)
        return run.finish()
    results = vlib.read_jsonl(outp)
    mm, ff = evaluate(run.work, results)
    if mm is None:
        run.violation(dict(kind='coq-evaluation-failed', log=ff), no_input=True)
        return run.finish()

    evals, distinct, dist, samples = coverage(results)
    run.coverage['regenerated_guards'] = guard_report(run.work)
    run.coverage['panic_site_inventory'] = site_report(run.work)
    run.coverage.update(dict(
        evaluations=evals, cases=len(results), distinct_nontrivial=distinct,
        rule='one evaluation = one proposal / parameter change + BeginBlocker / genesis run on the real code (decode, stateless '
             'validation, execution as gov.EndBlocker / InitChain would); non-trivial = accepted by the stateless validation and '
             'therefore executed; distinct = distinct (input, execution class)',
        distribution=dist, model_mismatches=len(mm), monitor_failures=len(ff), samples=samples[:6]))
    run.coverage['trusted_base'] += [
        'hand-written models Model/Halt.v, Model/HaltAgg.v (+ Model/Rvesting.v) tied to /repo by this differential run',
        'translator tools/gotocoq/panicsites (inventory of potential panic sites) and the site table Proofs/HaltSites.v '
        '(Benign / Unreachable rows are hand arguments)',
        'translator tools/gotocoq/haltguards (rejecting guards + constants of the validation functions; its output is also '
        'exercised by the differential run: the model validates with the regenerated guards)',
        'oracles: secp256k1 recovery, bech32, EVM execution, go-ethereum abi, bank keeper, KV stores (assumed not to panic '
        'on the modelled arguments; the real ones run in the correspondence)']
    run.assumptions += [
        'gov executes a passed proposal through the registered handler on a cache context without recover (cosmos-sdk v0.45.2 x/gov/abci.go)',
        'the chain id of the local chain has a revision number that fits uint64 (clienttypes.ParseChainID panics otherwise)',
        'aggregate: EVM / ABI / bank / store calls return (value or error) on the arguments the handlers pass']

    reported = set()
    known = {}
    for h, s, k in ff:  # the property failed on the real code
        if h in reported:
            continue
        reported.add(h)
        small = shrink(run.work, truncate(results[h], s), 'monitor')
        ob = obs_at(results[h], s)
        # the failing step is the last one of the (shrunk) case
        if steps_of(small):
            key = finding_key(small, len(steps_of(small)) - 1, ob)
        elif small['kind'] == 'gen_xibc':
            key = finding_key(small, len(small['gen_xibc'].get('then') or []) if s >= 1 else 0, ob)
        else:
            key = finding_key(small, 0, ob)
        if run.known_finding(key, 'key=%s (%s)' % (key, FINDING_TEXT.get(key, 'listed in KNOWN_FINDINGS.txt'))):
            known[key] = known.get(key, 0) + 1
            continue
        run.violation(dict(kind='monitor', code=k, what=KINDS.get(k), key=key, case=small, failing_step=s, observed=ob),
                      name='replay_c%d.json' % h)
        if len(run.violations) >= 3:
            break
    run.coverage['known_findings_hit'] = known
    # model and code disagree although the property monitor is silent on that case (reported in addition to monitor
    # failures of OTHER cases: an open finding must not mask a broken correspondence)
    mm = [m for m in mm if m[0] not in reported]
    if len(run.violations) < 3:
        for h, s, k in mm[:1]:
            small = shrink(run.work, truncate(results[h], s), 'model')
            run.violation(dict(kind='correspondence', code=k, what=KINDS.get(k), case=small, failing_step=s, observed=obs_at(results[h], s),
                               explanation='Model/Halt*.v no longer describes the code; the theorems of Props/C15.v are about the '
                                           'model, so the property is no longer shown to hold (a targeted search of the generator '
                                           'around this input found no panic outside recovery)',
                               broken='correspondence Model.Halt <-> x/xibc, x/aggregate, x/rvesting'),
                          name='replay_corr_c%d.json' % h, no_input=True)
    gr = run.coverage.get('regenerated_guards') or {}
    if gr.get('failed'):
        print('C15: guard obligations that no longer hold on the regenerated guards of /repo: %s' % '; '.join(gr.get('failed_obligations') or []))
    if not run.proof_ok() and not any(not sfx for _, sfx in run.violations):
        run.proof_violation()
    elif not run.proof_ok():
        run.proof_violation(found_input=True)
    return run.finish()


def replay(path):
    rp = json.load(open(path))
    work = os.path.join(vlib.ROOT, 'work', 'C15_replay')
    os.makedirs(work, exist_ok=True)
    ok, out = vlib.build_harness(['c15'])
    if not ok or 'case' not in rp:
        print('cannot replay: %s' % (out[-500:] if not ok else 'no case in replay file (%s)' % rp.get('kind')))
        return 2
    rs = run_cases(work, [rp['case']], 'replay')
    mm, ff = evaluate(work, rs, 'replay_cases')
    print('observed:', json.dumps(rs[0].get('obs') or rs[0].get('rv_obs')))
    print('model mismatches:', mm, ' monitor failures:', ff)
    if ff or mm:
        print('VIOLATION property=C15 replay=%s' % path)
        return 1
    print('replay passes on the current tree')
    return 0
