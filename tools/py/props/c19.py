"""C19 — canonical loss-free packet encoding; injective, parseable store keys.
Models: coq/theories/Model/{Keys,Abi,EncodingCheck}.v (+ Gen/KeysGen.v, Gen/AbiSchemaGen.v regenerated from /repo);
harness: harness/cmd/c19."""
import json
import os
from collections import Counter

import threading

import vlib
from vlib import coq_bool, coq_list

# Byte-string literals dominate the cost of a cases file (coqc parses ~25 k literal bytes per second) and an iter case
# repeats every key in the store dump, the iterators' results, the recorded writes and the exports: inside one file every
# distinct byte string of 6+ bytes is defined once (`Definition b_17 : bytes := [...]`) and referred to by name.
_tl = threading.local()


def cb(b):
    t = getattr(_tl, 'intern', None)
    if t is None or len(b) < 6:
        return vlib.coq_literal_bytes(b)
    n = t.get(b)
    if n is None:
        n = 'b_%d' % len(t)
        t[b] = n
    return n


def with_interning(build):
    """build() -> text using cb(); returns the definitions of the interned byte strings followed by that text"""
    _tl.intern = {}
    try:
        body = build()
        defs = ''.join('Definition %s : bytes := %s.\n' % (n, vlib.coq_literal_bytes(b)) for b, n in _tl.intern.items())
    finally:
        _tl.intern = None
    return defs + body

HEADER = ('From Teleport Require Import Base.Bytes Base.Outcome Base.Fmt Base.AbiSchema Gen.KeysGen Gen.AbiSchemaGen '
          'Model.Keys Model.Abi Model.EncodingCheck.\nLocal Open Scope N_scope.\n')

KINDS = {
    1: 'ABIPack: model and code disagree (outcome class or bytes)',
    2: 'ABIDecode of the packed bytes: model and code disagree',
    3: 're-encoding of the decoded value: model and code disagree',
    4: 'ABIDecode of a non-canonical / malformed input: model and code disagree (accept vs reject, or the decoded value)',
    5: 're-encoding of a value decoded from a non-canonical input: model and code disagree',
    6: 'ABIPack of the packets of a commitment pair: model and code disagree',
    7: 'key builder: Go output differs from the rendering of the regenerated format term (or keccak pre-image differs)',
    8: 'chain-name validator: model and code disagree',
    9: 'key parser: model and code disagree',
    10: 'store contents after writing the generated keys: model key builders / ordering and code disagree',
    11: 'IterateConsensusStates: model and code disagree', 12: 'IterateClients: model and code disagree',
    13: 'IterateProcessedTime: model and code disagree', 14: 'tendermint IterateConsensusStateAscending: model and code disagree',
    15: 'bsc IterateConsensusStateAscending: model and code disagree', 16: 'eth IterateConsensusStateAscending: model and code disagree',
    17: 'bsc GetRecentSigners: model and code disagree', 18: 'GetAllPacketCommitments: model and code disagree',
    19: 'GetAllPacketAcks: model and code disagree', 20: 'GetAllPacketReceipts: model and code disagree',
    21: 'GetAllPacketSendSeqs: model and code disagree', 22: 'GetAllRelayers: model and code disagree',
    31: 'a value in the property\'s domain (valid UTF-8 strings, any bytes, uint64) is NOT returned by ABIDecode(ABIPack(v)) — a field is lost or altered, or packing/decoding failed',
    32: 're-encoding the decoded value does not return the same bytes (not canonical)',
    33: 'two different packets have the same commitment, or equal packets different commitments',
    34: 'CommitPacket is not sha256 of ABIPack',
    35: 'the value decoded from an accepted input is not stable under re-encoding and decoding',
    36: 'a chain-name validator accepts a name containing the separator "/" (or the empty name): the key theorems\' hypothesis fails',
    37: 'the bytes emitted by the packet contract (packet, or the transfer / call data inside) are not reproduced by decoding and re-encoding',
    23: 'tendermint ExportMetadata: model and code disagree', 24: 'bsc ExportMetadata: model and code disagree',
    25: 'eth ExportMetadata: model and code disagree', 26: 'GetAllClientMetadata: model and code disagree',
    27: 'GetAllPacketCommitmentsByPath: model and code disagree', 28: 'bsc DeleteAllSigner: model and code disagree',
    41: 'two different argument tuples of one key builder give the same key',
    42: 'keys of two different families of the xibc store collide',
    43: 'a written consensus state is not read back by IterateConsensusStates (or something else is)',
    44: 'a written client state is not read back by IterateClients (or something else is)',
    45: 'IterateProcessedTime does not hand out exactly the written processed-time entries (key and value): one is missing, or '
        'another stored key is read as a processed time',
    46: 'a written iteration key is not read back by tendermint IterateConsensusStateAscending',
    47: 'a written consensus state is not read back by bsc/eth IterateConsensusStateAscending',
    48: 'a written recent signer is not read back by GetRecentSigners',
    49: 'a written packet commitment is not read back', 50: 'a written acknowledgement is not read back',
    51: 'a written receipt is not read back', 52: 'a written next-send sequence is not read back',
    53: 'ExportMetadata of a client type does not return exactly the metadata entries written for that type (an entry is missing, or '
        'another stored key is exported as metadata)',
    54: 'GetAllClientMetadata does not return exactly the metadata of every client under its own chain name',
    55: 'GetAllPacketCommitmentsByPath(src, dst) does not return exactly the commitments written for that source and destination',
    57: 'a packet-relayer entry written by SetPacketRelayer is not read back by GetPacketRelayer under the triple it was written for',
    56: 'bsc DeleteAllSigner leaves a written recent-signer entry behind (or fails): the key is not read back as the height it was written for',
}

# Go key builder -> (id, KeysGen term, hashed?)
KEYFNS = {}
for _i, (_n, _t, _h) in enumerate([
        ('host.FullClientPath', 'host_FullClientPath', False), ('host.FullClientKey', 'host_FullClientKey', False),
        ('host.FullClientStateKey', 'host_FullClientStateKey', False), ('host.ClientStateKey', 'host_ClientStateKey', False),
        ('host.FullConsensusStateKey', 'host_FullConsensusStateKey', False), ('host.ConsensusStatePath', 'host_ConsensusStatePath', False),
        ('host.ConsensusStateKey', 'host_ConsensusStateKey', False), ('host.NextSequenceSendPath', 'host_NextSequenceSendPath', False),
        ('host.NextSequenceSendKey', 'host_NextSequenceSendKey', False),
        ('host.PacketCommitmentPath', 'host_PacketCommitmentPath', False), ('host.PacketCommitmentKey', 'host_PacketCommitmentKey', False),
        ('host.PacketCommitmentPrefixPath', 'host_PacketCommitmentPrefixPath', False),
        ('host.PacketRelayerPath', 'host_PacketRelayerPath', False), ('host.PacketRelayerKey', 'host_PacketRelayerKey', False),
        ('host.PacketRelayerPrefixPath', 'host_PacketRelayerPrefixPath', False),
        ('host.PacketAcknowledgementPath', 'host_PacketAcknowledgementPath', False),
        ('host.PacketAcknowledgementKey', 'host_PacketAcknowledgementKey', False),
        ('host.PacketAcknowledgementPrefixPath', 'host_PacketAcknowledgementPrefixPath', False),
        ('host.PacketReceiptPath', 'host_PacketReceiptPath', False), ('host.PacketReceiptKey', 'host_PacketReceiptKey', False),
        ('host.PacketReceiptPrefixPath', 'host_PacketReceiptPrefixPath', False),
        ('tm.ProcessedTimeKey', 'tm_ProcessedTimeKey', False), ('tm.IterationKey', 'tm_IterationKey', False),
        ('bsc.keyRecentSinger', 'bsc_keyRecentSinger', False),
        ('eth.EthHeaderIndexKey', 'eth_EthHeaderIndexKey', False), ('eth.EthHeaderIndexPath', 'eth_EthHeaderIndexPath', False),
        ('eth.EthRootMainKey', 'eth_EthRootMainKey', False), ('eth.EthRootMainPath', 'eth_EthRootMainPath', False),
        ('bsc.GetPacketCommitmentProofKey', 'bsc_ProofKeyConstructor_GetPacketCommitmentProofKey_preimage', True),
        ('bsc.GetAckProofKey', 'bsc_ProofKeyConstructor_GetAckProofKey_preimage', True),
        ('eth.GetPacketCommitmentProofKey', 'eth_ProofKeyConstructor_GetPacketCommitmentProofKey_preimage', True),
        ('eth.GetAckProofKey', 'eth_ProofKeyConstructor_GetAckProofKey_preimage', True),
        ('clientkeeper.ClientStore', 'clientkeeper_ClientStore_prefix', False),
        ('clientkeeper.RelayerStore', 'clientkeeper_RelayerStore_prefix', False)]):
    KEYFNS[_n] = (_i, _t, _h)
# families living in the same key space (the xibc store): different families must never collide
FULL_FAMILIES = ['host.PacketReceiptKey', 'host.PacketAcknowledgementKey', 'host.PacketCommitmentKey', 'host.PacketRelayerKey',
                 'host.NextSequenceSendKey', 'host.FullClientStateKey', 'host.FullConsensusStateKey']
FULL_IDS = coq_list(['%d%%nat' % KEYFNS[n][0] for n in FULL_FAMILIES])

PARSEFNS = {'host.ParseClientKey': 0, 'host.ParseConsensusStateKey': 1, 'host.ParsePath': 2, 'clienttypes.ParseHeight': 3,
            'tm.GetHeightFromIterationKey': 4, 'bsc.GetHeightFromIterationKey': 5, 'eth.GetHeightFromIterationKey': 6}

# key_states / schema_states order of Model/EncodingCheck.v
KEY_STATE_NAMES = ['host.PacketReceiptKey', 'host.PacketAcknowledgementKey', 'host.PacketCommitmentKey', 'host.PacketRelayerKey',
                   'host.NextSequenceSendKey', 'host.FullClientStateKey', 'host.FullConsensusStateKey', 'host.ConsensusStateKey',
                   'tm.ProcessedTimeKey', 'tm.IterationKey', 'bsc.keyRecentSinger', 'eth.EthHeaderIndexKey', 'eth.EthRootMainKey']
SCHEMA_NAMES = ['packet', 'ack', 'transfer_data', 'call_data', 'result']
SCHEMA_FIELDS = [['s', 's', 'u', 's', 'b', 'b', 's', 'u'], ['u', 'b', 's', 's', 'u'], ['s', 'b', 's', 's'], ['s', 'b'], ['u', 'b', 's']]


def hx(s):
    return bytes.fromhex(s or '')


def fval(f):
    if f['t'] == 'u':
        return '(FU %d)' % int(f['v'])
    return '(%s %s)' % ('FS' if f['t'] == 's' else 'FB', cb(hx(f['v'])))


def fvals(fs):
    return coq_list([fval(f) for f in (fs or [])])


def argval(f):
    if f['t'] == 'u':
        return '(VN %d)' % int(f['v'])
    return '(VS %s)' % cb(hx(f['v']))


def nat(n):
    n = int(n)
    return '%d%%nat' % (9 if n < 0 else n)   # class -1 = step not executed


def height(p):
    return '{| rev_number := %d; rev_height := %d |}' % (int(p[0]), int(p[1]))


def triple(p):
    return '{| t_src := %s; t_dst := %s; t_seq := %d |}' % (cb(hx(p[0])), cb(hx(p[1])), int(p[2]))


def cl_items(o, conv):
    o = o or {}
    return '(%s, %s)' % (nat(o.get('class', 0)), coq_list([conv(x) for x in (o.get('items') or [])]))


def cl_keys(o):
    o = o or {}
    return '(%s, %s)' % (nat(o.get('class', 0)), coq_list([cb(hx(x)) for x in (o.get('keys') or [])]))


def entries(keys, vals):
    keys, vals = keys or [], vals or []
    return coq_list(['(%s, %s)' % (cb(hx(k)), cb(hx(vals[i] if i < len(vals) else ''))) for i, k in enumerate(keys)])


def cl_entries(o):
    o = o or {}
    return '(%s, %s)' % (nat(o.get('class', 0)), entries(o.get('keys'), o.get('vals')))


def case_term(r):
    k, sp, ob = r['kind'], r['spec'], r['obs']
    if k == 'abi':
        return '(CAbi %s %s %s %s %s %s %s %s %s)' % (
            nat(sp['ty']), fvals(sp['fields']), nat(ob['enc_class']), cb(hx(ob.get('enc'))), nat(ob['dec_class']),
            fvals(ob.get('dec')), nat(ob['reenc_class']), cb(hx(ob.get('reenc'))), coq_bool(ob.get('commit_is_sha', True)))
    if k == 'abiraw':
        return '(CAbiRaw %s %s %s %s %s %s %s %s)' % (
            nat(sp['ty']), cb(hx(sp['input'])), nat(ob['dec_class']), fvals(ob.get('dec')), nat(ob.get('reenc_class', 0)),
            cb(hx(ob.get('reenc'))), nat(ob.get('redec_class', 0)), fvals(ob.get('redec')))
    if k == 'commit':
        return '(CCommit %s %s %s %s %s %s)' % (fvals(sp['p']), fvals(sp['q']), cb(hx(ob.get('cp'))), cb(hx(ob.get('cq'))),
                                                cb(hx(ob.get('enc_p'))), cb(hx(ob.get('enc_q'))))
    if k == 'key':
        i, term, hashed = KEYFNS[sp['fn']]
        args = list(sp.get('args') or [])
        if sp['fn'].startswith('eth.Eth') and args:
            # the harness turns the byte argument into a common.Hash with common.BytesToHash (crop from the left / left-pad to 32)
            b = hx(args[0]['v'])
            b = b[-32:] if len(b) > 32 else b'\x00' * (32 - len(b)) + b
            args[0] = dict(t='b', v=b.hex())
        return '(CKey %s %s %s %s %s %s %s)' % (nat(i), term, coq_bool(hashed), coq_list([argval(a) for a in args]),
                                                nat(ob['class']), cb(hx(ob.get('out'))), cb(hx(ob.get('pre'))))
    if k == 'name':
        return '(CName %s %s %s %s)' % (cb(hx(sp['s'])), coq_bool(ob['client']), coq_bool(ob['src']), coq_bool(ob['dst']))
    if k == 'parse':
        return '(CParse %s %s %s %s)' % (nat(PARSEFNS[sp['fn']]), cb(hx(sp['input'])), nat(ob['class']), fvals(ob.get('out')))
    if k == 'iter':
        tys = {'tm': 0, 'bsc': 1, 'eth': 2}
        cls = coq_list(['{| cl_name := %s; cl_type := %s; cl_heights := %s; cl_signers := %s; cl_pending := %s; cl_eth := %s; '
                        'cl_raw := %s |}' % (
            cb(hx(c['name'])), nat(tys[c['type']]), coq_list([height(h) for h in (c.get('heights') or [])]),
            coq_list([height(h) for h in (c.get('signers') or [])]), coq_bool(c.get('pending', False)),
            coq_list(['(%s, %s, %d)' % (cb(hx(e[0])), cb(hx(e[1])), int(e[2])) for e in (c.get('eth_entries') or [])]),
            coq_list([cb(hx(k)) for k in (c.get('raw') or [])]))
            for c in (sp.get('clients') or [])])
        spec = ('{| is_clients := %s; is_commit := %s; is_acks := %s; is_receipts := %s; is_nextseq := %s; is_relayers := %s; '
                'is_bypath := %s; is_prelayers := %s |}' % (
            cls, coq_list([triple(t) for t in (sp.get('commitments') or [])]), coq_list([triple(t) for t in (sp.get('acks') or [])]),
            coq_list([triple(t) for t in (sp.get('receipts') or [])]), coq_list([triple(t) for t in (sp.get('nextseq') or [])]),
            coq_list([cb(hx(a)) for a in (sp.get('relayers') or [])]),
            coq_list(['(%s, %s)' % (cb(hx(p[0])), cb(hx(p[1]))) for p in (sp.get('by_path') or [])]),
            coq_list([triple(t) for t in (sp.get('prelayers') or [])])))
        per = coq_list(['{| co_keys := %s; co_ptime := %s; co_tm_asc := %s; co_evm_asc := %s; co_eth_asc := %s; co_signers := %s; '
                        'co_written := %s; co_exp_tm := %s; co_exp_bsc := %s; co_exp_eth := %s; co_signers_left := %s |}' % (
            coq_list([cb(hx(x)) for x in (p.get('store_keys') or [])]), cl_entries(p.get('ptime')), cl_items(p.get('tm_asc'), height),
            cl_items(p.get('evm_asc'), height), cl_items(p.get('eth_asc'), height), cl_items(p.get('signers'), height),
            coq_list(['(%s, (%s, %s))' % (nat(w['tag']), cb(hx(w['key'])), cb(hx(w['val']))) for w in (p.get('written') or [])]),
            cl_entries(p.get('exp_tm')), cl_entries(p.get('exp_bsc')), cl_entries(p.get('exp_eth')), cl_keys(p.get('signers_left')))
            for p in (ob.get('per_client') or [])])
        rel = ob.get('relayers') or {}
        am = ob.get('all_meta') or {}
        allmeta = '(%s, %s)' % (nat(am.get('class', 0)), coq_list(
            ['(%s, %s)' % (cb(hx(m['name'])), entries(m.get('keys'), m.get('vals'))) for m in (am.get('items') or [])]))
        obs = ('{| io_base := %s; io_keys := %s; io_cons := %s; io_clients := %s; io_per := %s; io_commit := %s; io_acks := %s; '
               'io_receipts := %s; io_nextseq := %s; io_relayers := (%s, %s); io_allmeta := %s; io_bypath := %s; io_prelayers := %s |}' % (
                   coq_list([cb(hx(x)) for x in (ob.get('base_keys') or [])]), coq_list([cb(hx(x)) for x in (ob.get('store_keys') or [])]),
                   cl_items(ob.get('cons'), lambda x: '(%s, %s)' % (cb(hx(x[0])), height(x[1:]))),
                   cl_items(ob.get('clients'), lambda x: cb(hx(x))), per,
                   cl_items(ob.get('commitments'), triple), cl_items(ob.get('acks'), triple), cl_items(ob.get('receipts'), triple),
                   cl_items(ob.get('nextseq'), triple), nat(rel.get('class', 0)), nat(rel.get('n', 0)), allmeta,
                   coq_list([cl_items(x, triple) for x in (ob.get('by_path') or [])]),
                   '(%s, %s)' % (nat((ob.get('prelayers') or {}).get('class', 0)),
                                 coq_list([cb(hx(v)) for v in ((ob.get('prelayers') or {}).get('vals') or [])]))))
        return '(CIter %s %s)' % (spec, obs)
    if k == 'contract':
        if ob.get('class') != 0:
            # the transaction did not emit a packet: nothing to compare (an empty, vacuous case)
            return '(CName [] false false false)'
        return '(CContract %s %s %s %s %s %s %s %s %s %s %s %s %s %s %s)' % (
            cb(hx(ob.get('emitted'))), nat(ob['dec_class']), fvals(ob.get('dec')), nat(ob.get('reenc_class', 0)), cb(hx(ob.get('reenc'))),
            cb(hx(ob.get('transfer_raw'))), nat(ob.get('transfer_dec_class', 0)), fvals(ob.get('transfer_dec')),
            nat(ob.get('transfer_reenc_class', 0)), cb(hx(ob.get('transfer_reenc'))),
            cb(hx(ob.get('call_raw'))), nat(ob.get('call_dec_class', 0)), fvals(ob.get('call_dec')),
            nat(ob.get('call_reenc_class', 0)), cb(hx(ob.get('call_reenc'))))
    raise ValueError('unknown case kind %r' % k)


SHARD = 100       # cases per evaluation file (mismatches + per-case monitors)
SHARD_WEIGHT = 150000
KEY_SHARD = 1200  # key cases per collision file (pairwise monitor 41/42 over ALL key cases of the run, corpus first)


def evaluate(workdir, results, tag='cases'):
    """returns (mismatches, monitor_failures) as lists of (case index, kind), or (None, log) on a Coq failure.
    Per-case comparisons run in shards of SHARD cases; the pairwise key-collision monitor runs on the key cases alone
    (all of them together, in chunks of KEY_SHARD) so that it does not depend on how the other cases are sharded."""
    # shards of at most SHARD cases and at most SHARD_WEIGHT characters of observations (iter cases are heavy)
    jobs, cur, w, start = [], [], 0, 0
    for i, r in enumerate(results):
        wr = len(json.dumps(r['obs'])) + len(json.dumps(r['spec']))
        if cur and (len(cur) >= SHARD or w + wr > SHARD_WEIGHT):
            jobs.append(('c', start, cur))
            cur, w, start = [], 0, i
        cur.append(r)
        w += wr
    if cur:
        jobs.append(('c', start, cur))
    keyidx = [i for i, r in enumerate(results) if r['kind'] == 'key']
    for j in range(0, len(keyidx), KEY_SHARD):
        jobs.append(('k', j, keyidx[j:j + KEY_SHARD]))

    def one(job):
        typ, off, payload = job
        if typ == 'c':
            defs = with_interning(lambda: 'Definition cases : list ccase := %s.\n' % coq_list([case_term(r) for r in payload]))
            res = vlib.coq_eval_lists(workdir, '%s_%d.v' % (tag, off), HEADER, defs,
                                      [('M', 'mismatches cases'), ('F', 'monitor_failures [] cases')])
            m = vlib.parse_nat_tuples(res.get('M'), 2)
            f = vlib.parse_nat_tuples(res.get('F'), 2)
            if res['_rc'] != 0 or m is None or f is None:
                return ('error', res['_out'][-3000:])
            # (key collisions inside this shard are reported by the key job; drop them here to avoid duplicates)
            return ([(c + off, k) for c, k in m], [(c + off, k) for c, k in f if k not in (41, 42)])
        defs = with_interning(lambda: 'Definition cases : list ccase := %s.\n' % coq_list([case_term(results[i]) for i in payload]))
        res = vlib.coq_eval_lists(workdir, '%s_keys_%d.v' % (tag, off // KEY_SHARD), HEADER, defs,
                                  [('F', 'key_collisions %s cases' % FULL_IDS)])
        f = vlib.parse_nat_tuples(res.get('F'), 2)
        if res['_rc'] != 0 or f is None:
            return ('error', res['_out'][-3000:])
        return ([], [(payload[c], k) for c, k in f])

    outs = vlib.parallel(one, jobs, workers=12)
    mm, ff = [], []
    for o in outs:
        if o[0] == 'error':
            return None, o[1]
        mm += o[0]
        ff += o[1]
    return sorted(mm), sorted(ff)


def build_harness():
    """normal build; when host.ParseClientKey / ParseConsensusStateKey do not exist in the tree under test (the code before the
    repair of D7) the harness is rebuilt with the tag c19_noparsekey so that every other case still runs on the real code"""
    ok, out = vlib.build_harness(['c19'])
    if ok:
        return True, out, False
    if 'ParseClientKey' in out or 'ParseConsensusStateKey' in out:
        rc, out2 = vlib.sh("flock .lock go build -tags 'verif c19_noparsekey' -o bin/c19 ./cmd/c19",
                           cwd=os.path.join(vlib.ROOT, 'harness'), timeout=1800)
        if rc == 0:
            return True, out, True
        out += out2
    return False, out, False


def run_specs(workdir, specs, tag):
    inp = os.path.join(workdir, tag + '_in.jsonl')
    out = os.path.join(workdir, tag + '_out.jsonl')
    vlib.write_jsonl(inp, specs)
    rc, o = vlib.run_harness('c19', ['-in', inp, '-out', out])
    if rc != 0:
        return None
    return vlib.read_jsonl(out)


def states(workdir):
    """current state of the regenerated terms: (schema_ok per tuple, key_ok per builder) or None"""
    res = vlib.coq_eval_lists(workdir, 'states.v', HEADER, '', [('S', 'schema_states'), ('K', 'key_states')])
    if res['_rc'] != 0 or 'S' not in res or 'K' not in res:
        return None, res['_out'][-2000:]
    import re
    s = [x == 'true' for x in re.findall(r'true|false', res['S'])]
    k = [x == 'true' for x in re.findall(r'true|false', res['K'])]
    return (s, k), ''


def still_fails(workdir, case, kinds, tag='shrink'):
    rs = run_specs(workdir, [dict(id=0, kind=case['kind'], spec=case['spec'])], tag)
    if not rs:
        return False
    mm, ff = evaluate(workdir, rs, tag + '_cases')
    if mm is None:
        return False
    return any(k in kinds for _, k in mm + ff)


def shrink(workdir, case, kind):
    """greedy shrinking of a single failing case (re-running the real code each time)"""
    best = json.loads(json.dumps(dict(kind=case['kind'], spec=case['spec'])))
    budget = 24

    def attempt(cand):
        nonlocal best, budget
        if budget <= 0:
            return False
        budget -= 1
        if still_fails(workdir, cand, {kind}):
            best = cand
            return True
        return False

    k = best['kind']
    if k in ('abi',):
        for i, f in enumerate(best['spec']['fields']):
            cand = json.loads(json.dumps(best))
            zero = '0' if f['t'] == 'u' else ''
            if f['v'] != zero:
                cand['spec']['fields'][i]['v'] = zero
                attempt(cand)
    elif k == 'iter':
        sp = best['spec']
        for fam in ('commitments', 'acks', 'receipts', 'nextseq', 'relayers', 'by_path', 'prelayers'):
            if sp.get(fam):
                cand = json.loads(json.dumps(best))
                cand['spec'][fam] = []
                attempt(cand)
        for fam in ('commitments', 'acks', 'receipts', 'nextseq'):
            while len(best['spec'].get(fam) or []) > 1 and budget > 0:
                cand = json.loads(json.dumps(best))
                cand['spec'][fam] = cand['spec'][fam][:max(1, len(cand['spec'][fam]) // 2)]
                if not attempt(cand):
                    cand = json.loads(json.dumps(best))
                    cand['spec'][fam] = cand['spec'][fam][len(cand['spec'][fam]) // 2:]
                    if not attempt(cand):
                        break
        changed = True
        while changed and budget > 0:
            changed = False
            cl = best['spec'].get('clients') or []
            for i in range(len(cl)):
                cand = json.loads(json.dumps(best))
                del cand['spec']['clients'][i]
                if attempt(cand):
                    changed = True
                    break
            if changed:
                continue
            for i, c in enumerate(cl):
                for fld in ('heights', 'signers', 'eth_entries', 'raw'):
                    for j in range(len(c.get(fld) or [])):
                        cand = json.loads(json.dumps(best))
                        del cand['spec']['clients'][i][fld][j]
                        if attempt(cand):
                            changed = True
                            break
                    if changed:
                        break
                if changed:
                    break
    return best


def search_schema_witness(run, ty):
    """schema_ok is false for tuple ty: run the model's witness value on the real code"""
    fields = [dict(t=t, v=('7' if t == 'u' else ('61' if t == 's' else '01'))) for t in SCHEMA_FIELDS[ty]]
    case = dict(kind='abi', spec=dict(ty=ty, fields=fields))
    rs = run_specs(run.work, [dict(id=0, **case)], 'witness_%d' % ty)
    if not rs:
        return None
    mm, ff = evaluate(run.work, rs, 'witness_cases_%d' % ty)
    if ff:
        return dict(case=case, observed=rs[0]['obs'], codes=[k for _, k in ff])
    return None


KEY_STATE_SIGS = ['[KStr; KStr; KNum]'] * 4 + ['[KStr; KStr]', '[KStr]', '[KStr; KNum; KNum]'] + ['[KNum; KNum]'] * 4 + ['[KHash; KNum]'] * 2


def search_key_collision(run, idx):
    """key_ok is false for builder KEY_STATE_NAMES[idx]: enumerate small argument tuples in Coq (vm_compute), confirm a
    collision by calling the real Go builder on both tuples"""
    name = KEY_STATE_NAMES[idx]
    i, term, _ = KEYFNS[name]
    res = vlib.coq_eval_lists(run.work, 'collide_%d.v' % i, HEADER, '', [('C', 'collision_search %s %s' % (term, KEY_STATE_SIGS[idx]))])
    import re
    nums = [int(x) for x in re.findall(r'\d+', res.get('C') or '')]
    if not nums:
        return None
    tuples, cur, p = [], [], 0
    while p < len(nums):
        t = nums[p]
        if t == 2:
            tuples.append(cur)
            cur = []
            p += 1
        elif t == 0:
            ln = nums[p + 1]
            cur.append(dict(t='s', v=bytes(nums[p + 2:p + 2 + ln]).hex()))
            p += 2 + ln
        else:
            cur.append(dict(t='u', v=str(nums[p + 1])))
            p += 2
    tuples.append(cur)
    if len(tuples) != 2:
        return None
    if name.startswith('eth.'):
        for t in tuples:
            t[0]['t'] = 'b'
    cases = [dict(id=n, kind='key', spec=dict(fn=name, args=t)) for n, t in enumerate(tuples)]
    rs = run_specs(run.work, cases, 'collide_%d' % i)
    if rs and len(rs) == 2 and rs[0]['obs'].get('class') == 0 and rs[0]['obs'].get('out') == rs[1]['obs'].get('out'):
        return dict(cases=cases, observed=[r['obs'] for r in rs])
    return None


def coverage(run, results, mm, ff):
    dist = Counter()
    nontrivial = set()
    for r in results:
        k, sp, ob = r['kind'], r['spec'], r['obs']
        dist['kind_' + k] += 1
        if k == 'abi':
            ok = all(f['t'] != 's' or is_utf8(hx(f['v'])) for f in sp['fields'])
            dist['abi_' + SCHEMA_NAMES[sp['ty']]] += 1
            dist['abi_strings_valid_utf8' if ok else 'abi_strings_invalid_utf8'] += 1
            if any(f['t'] == 'u' and int(f['v']) == 2 ** 64 - 1 for f in sp['fields']):
                dist['abi_has_uint64_max'] += 1
            if any(f['t'] != 'u' and len(hx(f['v'])) % 32 == 0 and len(hx(f['v'])) > 0 for f in sp['fields']):
                dist['abi_has_field_len_multiple_of_32'] += 1
            if any(f['t'] == 's' and any(c >= 0x80 for c in hx(f['v'])) for f in sp['fields']):
                dist['abi_has_multibyte_string'] += 1
            if any(f['v'] not in ('', '0') for f in sp['fields']):
                nontrivial.add(json.dumps(sp, sort_keys=True))
        elif k == 'abiraw':
            dist['abiraw_dec_class_%d' % ob['dec_class']] += 1
            nontrivial.add(json.dumps(sp, sort_keys=True))
        elif k == 'key':
            dist['key_' + sp['fn']] += 1
            if any(a['t'] == 'u' and b'\x2f' in int(a['v']).to_bytes(8, 'big') for a in sp.get('args') or []):
                dist['key_uint64_with_0x2f_byte'] += 1
            nontrivial.add(json.dumps(sp, sort_keys=True))
        elif k == 'name':
            dist['name_accepted' if ob['client'] else 'name_rejected'] += 1
            nontrivial.add(sp['s'])
        elif k == 'parse':
            dist['parse_%s_class_%d' % (sp['fn'], ob['class'])] += 1
            nontrivial.add(json.dumps(sp, sort_keys=True))
        elif k == 'commit':
            dist['commit_equal_packets' if sp['p'] == sp['q'] else 'commit_different_packets'] += 1
            nontrivial.add(json.dumps(sp, sort_keys=True))
        elif k == 'contract':
            dist['contract_tx_emitted_packet' if ob.get('class') == 0 else 'contract_tx_failed'] += 1
            if ob.get('class') == 0:
                if ob.get('transfer_raw'):
                    dist['contract_with_transfer_data'] += 1
                if ob.get('call_raw'):
                    dist['contract_with_call_data'] += 1
                nontrivial.add(json.dumps(sp, sort_keys=True))
        elif k == 'iter':
            hs = [h for c in sp.get('clients') or [] for h in c.get('heights') or []]
            dist['iter_heights_written'] += len(hs)
            dist['iter_heights_with_0x2f_byte'] += sum(
                1 for h in hs if b'\x2f' in int(h[0]).to_bytes(8, 'big') + int(h[1]).to_bytes(8, 'big'))
            dist['iter_packet_keys_written'] += sum(len(sp.get(f) or []) for f in ('commitments', 'acks', 'receipts', 'nextseq', 'prelayers'))
            dist['iter_packet_sequences_ge_2^63'] += sum(1 for f in ('commitments', 'acks', 'receipts', 'prelayers') for t in (sp.get(f) or []) if int(t[2]) >= 2 ** 63)
            for f in ('commitments', 'acks', 'receipts', 'nextseq'):
                cl = (ob.get(f) or {}).get('class', 0)
                if cl:
                    dist['iter_%s_class_%d' % (f, cl)] += 1
            for c in sp.get('clients') or []:
                dist['iter_client_' + c['type']] += 1
                dist['iter_raw_metadata_keys'] += len(c.get('raw') or [])
                dist['iter_eth_entries'] += len(c.get('eth_entries') or [])
                dist['iter_signers_written'] += len(c.get('signers') or [])
            dist['iter_heights_spelling_a_key_literal'] += sum(1 for h in hs if spells_literal(h))
            dist['iter_by_path_queries'] += len(sp.get('by_path') or [])
            for pc in ob.get('per_client') or []:
                dist['iter_processed_time_entries_read'] += len((pc.get('ptime') or {}).get('keys') or [])
                dist['iter_metadata_entries_exported'] += sum(len((pc.get(e) or {}).get('keys') or []) for e in ('exp_tm', 'exp_bsc', 'exp_eth'))
                for e in ('ptime', 'tm_asc', 'evm_asc', 'eth_asc', 'signers', 'signers_left'):
                    cl = (pc.get(e) or {}).get('class', 0)
                    if cl:
                        dist['iter_%s_class_%d' % (e, cl)] += 1
            if hs or any(sp.get(f) for f in ('commitments', 'acks', 'receipts', 'nextseq')):
                nontrivial.add(json.dumps(sp, sort_keys=True))
    samples = []
    seen = set()
    for r in results:
        if r['kind'] not in seen:
            seen.add(r['kind'])
            samples.append(dict(kind=r['kind'], spec=r['spec']))
    run.coverage.update(dict(
        evaluations=len(results), distinct_nontrivial=len(nontrivial),
        rule='one evaluation = one case run on the real code and on the model inside Coq; the directed corpus (corpus_cases, seed-independent) '
             'comes first, then the generated cases (abi: ABIPack+ABIDecode+re-pack of a generated '
             'value; abiraw: ABIDecode of a mutated/non-canonical input; key: one Go key builder call; parse: one Go key parser call; name: '
             'the three chain-name validators; commit: CommitPacket of two packets; iter: a real store populated through the keepers, the '
             'light clients\' setters and SetAllClientMetadata and read by every iterator of the keepers and of all three client types, '
             'ExportMetadata, GetAllClientMetadata, DeleteAllSigner, GetAllPacketCommitmentsByPath; contract: a real cross-chain call through the endpoint/packet contracts, the emitted packet bytes decoded and '
             're-encoded). Non-trivial = distinct spec with at least one non-zero field / key / written entry',
        distribution=dict(sorted(dist.items())), model_mismatches=len(mm), monitor_failures=len(ff), samples=samples))


LITERALS = [b'/processedTime', b'clientState', b'consensusStates', b'iterateConsensusStates', b'recentSingers/', b'pendingValidators',
            b'ethHeaderIndex/', b'ethRootMain/', b'clients']


def spells_literal(h):
    b = int(h[0]).to_bytes(8, 'big') + int(h[1]).to_bytes(8, 'big')
    return any(b.endswith(l[-16:]) or b.startswith(l[:16]) or (len(l) <= 14 and l in b) for l in LITERALS)


def is_utf8(b):
    try:
        b.decode('utf-8')
        return True
    except UnicodeDecodeError:
        return False


def report_case_failures(run, results, ff, mm):
    reported = set()
    for c, k in ff:
        if (c, 'f') in reported or len(run.violations) >= 2:
            continue
        reported.add((c, 'f'))
        r = results[c]
        if k in (41, 42):
            # a collision is a property of a PAIR of key cases: the replay file holds both (replay() re-runs both builders)
            partner = next((q for j, q in enumerate(results) if j != c and q['kind'] == 'key' and q['obs'].get('class') == 0
                            and q['obs'].get('out') == r['obs'].get('out')
                            and (q['spec']['fn'] != r['spec']['fn'] or q['spec'].get('args') != r['spec'].get('args'))), None)
            if partner is not None:
                run.violation(dict(kind='key-collision', code=k, what=KINDS.get(k),
                                   cases=[dict(id=0, kind='key', spec=r['spec']), dict(id=1, kind='key', spec=partner['spec'])],
                                   observed=[r['obs'], partner['obs']]), name='replay_c%d.json' % c)
            else:
                run.violation(dict(kind='monitor', code=k, what=KINDS.get(k), case=dict(kind=r['kind'], spec=r['spec']), observed=r['obs'],
                                   explanation='this key case collides with another case of the same run'), name='replay_c%d.json' % c)
            continue
        small = shrink(run.work, r, k)
        rs = run_specs(run.work, [dict(id=0, **small)], 'final')
        run.violation(dict(kind='monitor', code=k, what=KINDS.get(k), case=small, observed=(rs or [r])[0]['obs']),
                      name='replay_c%d.json' % c)
    if not run.violations:
        for c, k in mm[:2]:
            r = results[c]
            small = shrink(run.work, r, k)
            run.violation(dict(kind='correspondence', code=k, what=KINDS.get(k), case=small,
                               explanation='the model (Model/Abi.v / Model/Keys.v with the regenerated Gen/*.v) no longer describes the '
                                           'code; the theorems of Props/C19.v are about the model, so the property is no longer shown to hold',
                               broken='correspondence model <-> x/xibc (packet types, host keys, iterators)'),
                          name='replay_corr_c%d.json' % c, no_input=True)


SNAP = os.path.join(vlib.ROOT, 'tools', 'py', 'props', 'c19_snapshot')
GEN_OF = {'keys': 'KeysGen.v', 'keysiter': 'KeysIterGen.v', 'abischema': 'AbiSchemaGen.v'}


def refresh_snapshot():
    """after a clean pass on the unchanged /repo: keep a copy of the regenerated terms of this property (rewritten only on
    change).  It is used by fallback_build() only."""
    os.makedirs(SNAP, exist_ok=True)
    for f in GEN_OF.values():
        src = os.path.join(vlib.THEORIES, 'Gen', f)
        dst = os.path.join(SNAP, f)
        if os.path.exists(src):
            new = open(src).read()
            if not os.path.exists(dst) or open(dst).read() != new:
                open(dst, 'w').write(new)


def fallback_build(log):
    """A translator refused the tree under test (a construct outside its subset): the tie is broken and the run will end with
    a VIOLATION in any case.  To still SEARCH for a concrete failing input, the terms of the last clean regeneration
    (c19_snapshot/) are installed for the translators that failed and the evaluation library is built without re-running the
    translators; the real code of the tree under test is then run against them as usual."""
    import re
    failed = re.findall(r'\[translator (\w+) failed\]', log or '')
    for t in failed:
        f = GEN_OF.get(t)
        if f and os.path.exists(os.path.join(SNAP, f)):
            os.makedirs(os.path.join(vlib.THEORIES, 'Gen'), exist_ok=True)
            open(os.path.join(vlib.THEORIES, 'Gen', f), 'w').write(open(os.path.join(SNAP, f)).read())
    with vlib.Lock('coq'):
        vlib.sh([os.path.join(vlib.ROOT, 'tools', 'gen_coqproject.sh')], cwd=vlib.ROOT)
        if not os.path.exists(os.path.join(vlib.COQ, 'Makefile')):
            vlib.sh('coq_makefile -f _CoqProject -o Makefile', cwd=vlib.COQ)
        rc, out = vlib.sh('make -k -j16 theories/Model/EncodingCheck.vo', cwd=vlib.COQ, timeout=3000)
    return rc == 0, failed, out


def check(run):
    pr = run.proof_stage(extra_modules=['theories/Props/C19State.v'])
    if not run.quick():
        run.coqchk_stage()
    translator_failed = None
    if 'translator failed' in (pr.get('build_log') or '') or 'translator' in (pr.get('build_log') or '')[:200]:
        translator_failed = dict(kind='translator-failed', log=pr['build_log'][-3000:],
                                 explanation='a key builder / iterator / ABI schema of /repo is outside the subset the translator understands: '
                                             'the tie between the Go source and the Coq terms is broken')
        okfb, failed, fblog = fallback_build(pr['build_log'])
        run.coverage['translator_failed'] = failed
        if not okfb:
            run.violation(translator_failed, no_input=True)
            return run.finish()
    ok, out, degraded = build_harness()
    if not ok:
        run.violation(dict(kind='harness-build-failed', log=out[-3000:],
                           explanation='the correspondence harness no longer builds against /repo'), no_input=True)
        return run.finish()
    if degraded:
        run.coverage['harness_note'] = ('host.ParseClientKey / host.ParseConsensusStateKey do not exist in this tree: harness built with '
                                        'tag c19_noparsekey (their direct cases report a panic)')
    st, slog = states(run.work)
    # the directed corpus (harness/cmd/c19/corpus.go, ~290 seed-independent cases) runs first, then n generated cases
    n = run.budget(500, 20000)
    outp = os.path.join(run.work, 'out.jsonl')
    rc, o = vlib.run_harness('c19', ['-seed', run.seed, '-n', n, '-out', outp])
    import re as _re
    mcorp = _re.search(r'c19: (\d+) corpus cases', o or '')
    run.coverage['corpus_cases'] = int(mcorp.group(1)) if mcorp else None
    if rc != 0:
        run.violation(dict(kind='harness-crashed', log=o[-3000:]), no_input=True)
        return run.finish()
    results = vlib.read_jsonl(outp)
    mm, ff = evaluate(run.work, results)
    if mm is None:
        run.violation(dict(kind='coq-evaluation-failed', log=ff), no_input=True)
        return run.finish()
    coverage(run, results, mm, ff)
    if st:
        run.coverage['regenerated_state'] = dict(
            schema_ok=dict(zip(SCHEMA_NAMES, st[0])), key_ok=dict(zip(KEY_STATE_NAMES, st[1])))
    run.coverage['trusted_base'] += [
        'translators tools/gotocoq/keys and tools/gotocoq/abischema (output cross-checked: every Go key builder vs render of its term; '
        'ABIPack/ABIDecode vs encode/decode on the regenerated schema)',
        'hand-written models Model/Abi.v (go-ethereum v1.10.16 accounts/abi Pack/Unpack, encoding/json name matching and UTF-8 coercion) '
        'and Model/Keys.v (the iterators\' key parsers), tied by this differential run (generator bounds what it sees)',
        'sha256 / keccak256: arbitrary functions (commit_injective concludes "equal packets or an explicit collision")']
    run.assumptions += ['encodings are shorter than 2^63 bytes (Go slice length)',
                        'chain names passed host.ClientIdentifierValidator (valid_chain_name); strings are well-formed UTF-8',
                        'Solidity abi.encode of the packet contract produces the canonical head/tail layout (= go-ethereum Pack); '
                        'only the Go side is executed here']

    if translator_failed:
        # search mode: only a failure of the property itself on the implementation's observations is a concrete input
        report_case_failures(run, results, ff, [])
        if not run.violations:
            translator_failed['model_mismatches_against_last_good_terms'] = [
                dict(case=dict(kind=results[c]['kind'], spec=results[c]['spec']), code=k, what=KINDS.get(k)) for c, k in mm[:3]]
            run.violation(translator_failed, no_input=True)
        return run.finish()
    report_case_failures(run, results, ff, mm)

    # broken obligations on the regenerated terms: search for a concrete failing input on the real code
    if not run.violations and st:
        for ty, okb in enumerate(st[0]):
            if not okb:
                w = search_schema_witness(run, ty)
                if w:
                    run.violation(dict(kind='monitor', code=w['codes'][0], what=KINDS.get(w['codes'][0]), case=w['case'],
                                       observed=w['observed'], broken_obligation='schema_ok %s_schema = false' % SCHEMA_NAMES[ty]),
                                  name='replay_schema_%s.json' % SCHEMA_NAMES[ty])
        for i, okb in enumerate(st[1]):
            if not okb:
                w = search_key_collision(run, i)
                if w:
                    run.violation(dict(kind='key-collision', code=41, what=KINDS[41], cases=w['cases'], observed=w['observed'],
                                       broken_obligation='key_ok %s = false' % KEY_STATE_NAMES[i]),
                                  name='replay_key_%d.json' % i)
    if not run.violations and not run.proof_ok():
        run.proof_violation()
    if not run.violations and os.path.realpath(vlib.REPO) == '/repo' and not os.environ.get('VERIF_ALT_ROOT'):
        refresh_snapshot()
    return run.finish()


def replay(path):
    rp = json.load(open(path))
    work = os.path.join(vlib.ROOT, 'work', 'C19_replay')
    os.makedirs(work, exist_ok=True)
    ok, out, _ = build_harness()
    if not ok:
        print('cannot replay: harness does not build: %s' % out[-500:])
        return 2
    ok, blog = vlib.coq_build(['theories/Model/EncodingCheck.vo'])
    if not ok and 'translator' in (blog or ''):
        fallback_build(blog)
    if 'cases' in rp:  # key collision pair
        rs = run_specs(work, rp['cases'], 'replay')
        outs = [r['obs'].get('out') for r in rs or []]
        print('observed keys:', outs)
        if rs and len(set(outs)) < len(outs):
            print('VIOLATION property=C19 replay=%s' % path)
            return 1
        print('replay passes on the current tree')
        return 0
    if 'case' not in rp:
        print('no concrete input in this replay file (%s): %s' % (rp.get('kind'), rp.get('explanation', '')))
        return 2
    rs = run_specs(work, [dict(id=0, **rp['case'])], 'replay')
    if not rs:
        print('harness failed on the recorded case')
        return 2
    mm, ff = evaluate(work, rs, 'replay_cases')
    print('observed:', json.dumps(rs[0]['obs'])[:2000])
    print('model mismatches:', mm, ' monitor failures:', ff)
    if mm is None or ff or mm:
        print('VIOLATION property=C19 replay=%s' % path)
        return 1
    print('replay passes on the current tree')
    return 0
