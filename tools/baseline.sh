#!/bin/bash
# Runs the repository's pinned test suite (guard OFF) and compares with /root/.vp/BASELINE.json stable_pass.
# usage: tools/baseline.sh [repo_dir]   (default /repo)
REPO=${1:-/repo}
export GOFLAGS=-mod=mod GOPROXY=off GOSUMDB=off GOTOOLCHAIN=local
OUT=$(mktemp -d /var/tmp/verif-baseline.XXXXXX)
(cd "$REPO" && go test -mod=mod -json -vet=off -count=1 -timeout 25m ./... > "$OUT/gotest.json" 2> "$OUT/stderr.txt")
python3 - "$OUT/gotest.json" <<'PY'
import json,sys
base=json.load(open('/root/.vp/BASELINE.json'))
want=set(base['stable_pass'])
got=set()
for l in open(sys.argv[1]):
    try: e=json.loads(l)
    except Exception: continue
    if e.get('Action')=='pass' and e.get('Test'):
        got.add(e['Package']+'::'+e['Test'])
missing=sorted(want-got)
print('baseline stable_pass=%d passed_now=%d missing=%d'%(len(want),len(got&want),len(missing)))
for m in missing: print('  NOT PASSING:',m)
sys.exit(1 if missing else 0)
PY
rc=$?
rm -rf "$OUT"
exit $rc
