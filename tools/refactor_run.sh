#!/bin/bash
# Runs the checks concerned by a HARMLESS refactoring (a diff that preserves behaviour) against a scratch worktree with the
# diff applied; a check that prints VIOLATION / exits non-zero on it is a FALSE ALARM.  Concerned checks = the property the
# refactoring was written for + every property whose anchors.files (properties.jsonl) contain a file the diff touches.
# usage: tools/refactor_run.sh <diff> <property> [tier]      prints SILENT / ALARM lines
set -u
cd "$(dirname "$0")/.."
DIFF=$(realpath "$1"); PROP=$2; TIER=${3:-quick}
TAG=$(echo "$DIFF" | md5sum | cut -c1-8)-$$
WT=/tmp/wt-refactor-$TAG
git -C /repo worktree remove --force $WT >/dev/null 2>&1
git -C /repo worktree add --detach $WT HEAD >/dev/null 2>&1 || { echo "worktree failed"; exit 2; }
if ! git -C $WT apply "$DIFF"; then echo "PATCH-DOES-NOT-APPLY $DIFF"; git -C /repo worktree remove --force $WT; exit 3; fi
CHECKS=$(python3 - "$DIFF" "$PROP" <<'PY'
import json, re, sys
files = set(re.findall(r'^\+\+\+ b/(\S+)', open(sys.argv[1]).read(), re.M))
props = [sys.argv[2]]
for l in open('properties.jsonl'):
    p = json.loads(l)
    if p['id'] not in props and files & set(p.get('anchors', {}).get('files', [])):
        props.append(p['id'])
print(' '.join(props))
PY
)
rc=0
for c in $CHECKS; do
  out=$(VERIF_REPO=$WT ./check $c $TIER 2>&1); code=$?
  if echo "$out" | grep -q "^VIOLATION" || [ $code -ne 0 ]; then
    echo "ALARM $(basename $(dirname $DIFF))/$(basename $DIFF) by $c ($TIER) exit=$code: $(echo "$out" | grep '^VIOLATION' | head -1)"; rc=1
    mkdir -p /var/tmp/refactor-alarms; echo "$out" | tail -40 > /var/tmp/refactor-alarms/$TAG-$c.log
    cp $(echo "$out" | grep '^VIOLATION' | head -1 | sed -n 's/.*replay=\(\S*\).*/\1/p') /var/tmp/refactor-alarms/$TAG-$c.replay.json 2>/dev/null
  else echo "SILENT $(basename $(dirname $DIFF))/$(basename $DIFF) by $c ($TIER)"; fi
done
git -C /repo worktree remove --force $WT >/dev/null 2>&1
rm -rf /var/tmp/verif-alt-$(python3 -c "import hashlib,os;print(hashlib.sha1(os.path.realpath('$WT').encode()).hexdigest()[:10])")
exit $rc
