#!/bin/bash
# Offline build of the whole framework: Coq development (full .vo build) and the Go harness.
set -e
cd "$(dirname "$0")/.."
export GOFLAGS=-mod=mod GOPROXY=off GOSUMDB=off GOTOOLCHAIN=local
mkdir -p work evidence coq/theories/Gen
for t in tools/gotocoq/*/main.go; do [ -f "$t" ] || continue; d=$(basename $(dirname $t)); (cd tools/gotocoq && GOWORK=off go run ./$d -repo ${VERIF_REPO:-/repo} -out ../../coq/theories/Gen) || echo "setup: translator $d failed"; done
tools/gen_coqproject.sh
(cd coq && coq_makefile -f _CoqProject -o Makefile && timeout 3000 make -k -j16) || echo "setup: coq build incomplete (checks report per property)"
tools/prep_harness.sh || echo "setup: harness build incomplete (checks report per property)"
