#!/bin/bash
# Regenerates coq/_CoqProject from the .v files present (coqdep orders them); rewrites only on change.
cd "$(dirname "$0")/../coq"
{
  echo "-Q theories Teleport"
  echo "-arg -w -arg -deprecated-syntactic-definition,-notation-overridden"
  find theories -name '*.v' | LC_ALL=C sort
} > _CoqProject.new
if ! cmp -s _CoqProject.new _CoqProject; then mv _CoqProject.new _CoqProject; else rm _CoqProject.new; fi
