#!/bin/bash
# Runs tools/seeded_run.sh for every seeded/<id> (or those matching $1, a grep pattern), P at a time; one line per entry in
# $OUT/results.txt (CAUGHT / MISSED / PATCH-DOES-NOT-APPLY), full output in $OUT/<id>.log.
# usage: tools/seeded_matrix.sh [pattern] [tier] [parallel]
cd "$(dirname "$0")/.."
PAT=${1:-.}; TIER=${2:-quick}; P=${3:-4}; OUT=${OUT:-/var/tmp/matrix}
mkdir -p $OUT
ls seeded | grep -E "$PAT" | xargs -P $P -I{} bash -c "tools/seeded_run.sh {} $TIER > $OUT/{}.log 2>&1; grep -h -E '^(CAUGHT|MISSED|PATCH-DOES-NOT-APPLY)' $OUT/{}.log >> $OUT/results.txt || echo 'NORESULT {}' >> $OUT/results.txt"
sort $OUT/results.txt | awk '{print $1}' | uniq -c
