#!/bin/bash
# Re-derives seeded/<id>/patch.diff of every "reverse of a fix commit" entry against /repo's current HEAD and
# reports entries whose patch no longer applies.
cd "$(dirname "$0")/.."
for d in seeded/*/; do
  id=$(basename $d)
  REV=$(python3 -c "import json;print(json.load(open('$d/meta.json')).get('revert_commit',''))")
  WT=/tmp/wt-refresh-$$
  git -C /repo worktree add --detach $WT HEAD >/dev/null 2>&1
  if [ -n "$REV" ]; then
    if git -C $WT -c user.name=v -c user.email=v@v revert --no-commit $REV >/dev/null 2>&1; then git -C $WT diff HEAD > $d/patch.diff; echo "refreshed $id"; else echo "CONFLICT $id (revert of $REV)"; fi
  else
    git -C $WT apply --check $(pwd)/$d/patch.diff 2>/dev/null && echo "applies   $id" || echo "STALE     $id"
  fi
  git -C /repo worktree remove --force $WT >/dev/null 2>&1
done
