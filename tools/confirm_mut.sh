#!/bin/bash
# Confirms a seeded change produced by an independent engineer and files it under seeded/<id>/.
# usage: tools/confirm_mut.sh <src-dir> <k> <seed-id> <property> "<checks>"
#   src-dir contains change<k>.diff demo<k>_test.go meta<k>.json; the demo's first line names
#   "Package directory: <dir>   Run: <go test command>".
# Confirms in a scratch worktree: demo passes on HEAD, fails with the change, 414 pinned tests still pass with the change.
cd "$(dirname "$0")/.."
SRC=$1; K=$2; ID=$3; PROP=$4; CHECKS=$5
export GOFLAGS=-mod=mod GOPROXY=off GOSUMDB=off GOTOOLCHAIN=local
HDR=$(head -3 $SRC/demo${K}_test.go | tr '\n' ' ')
PKG=$(echo "$HDR" | sed -n 's/.*[Pp]ackage dir[a-z]*: *\([^ (;]*\).*/\1/p')
RUN=$(echo "$HDR" | grep -o "go test [^/]*\./[^;]*" | head -1 | sed 's/   *(.*$//; s/ *\/\/.*$//; s/ *package [a-z_]* *$//')
[ -n "$PKG" ] && [ -n "$RUN" ] || { echo "cannot parse demo header: $HDR"; exit 2; }
WT=/tmp/wt-confirm-$ID
git -C /repo worktree remove --force $WT >/dev/null 2>&1
git -C /repo worktree add --detach $WT HEAD >/dev/null 2>&1 || exit 2
cp $SRC/demo${K}_test.go $WT/$PKG/verif_seeded_demo_test.go
(cd $WT && timeout 1200 bash -c "$RUN" > /tmp/confirm-$ID-clean.log 2>&1); clean=$?
if ! git -C $WT apply $(realpath $SRC/change${K}.diff); then echo "REJECT $ID: change does not apply"; git -C /repo worktree remove --force $WT; exit 3; fi
(cd $WT && go build ./... > /tmp/confirm-$ID-build.log 2>&1); build=$?
(cd $WT && timeout 1200 bash -c "$RUN" > /tmp/confirm-$ID-mut.log 2>&1); mut=$?
rm -f $WT/$PKG/verif_seeded_demo_test.go
base=$(tools/baseline.sh $WT | head -1)
git -C /repo worktree remove --force $WT >/dev/null 2>&1
echo "$ID: demo on HEAD exit=$clean (want 0); build with change exit=$build (want 0); demo with change exit=$mut (want !=0); $base"
if [ $clean -eq 0 ] && [ $build -eq 0 ] && [ $mut -ne 0 ] && echo "$base" | grep -q "missing=0"; then
  D=seeded/$ID; mkdir -p $D
  cp $SRC/change${K}.diff $D/patch.diff; cp $SRC/demo${K}_test.go $D/demo_test.go
  python3 - "$SRC/meta${K}.json" "$D/meta.json" "$PROP" "$CHECKS" "$ID" "$base" <<'PY'
import json,sys
src,dst,prop,checks,id_,base=sys.argv[1:]
m=json.load(open(src))
out={"property":prop,"checks":checks.split(),"origin":"independent engineer given only the property text and a scratch worktree",
 "what_it_breaks":m.get("why_it_breaks"),"summary":m.get("summary"),"needs_to_manifest":m.get("needs_to_manifest"),
 "demonstration":["demo_test.go"],"confirmed_by_coordinator":{"demo_on_head":"pass","demo_with_change":"fail","suite_with_change":base},
 "command":"tools/seeded_run.sh "+id_}
json.dump(out,open(dst,'w'),indent=1)
PY
  echo "KEPT $ID"
else
  echo "REJECT $ID"; tail -5 /tmp/confirm-$ID-clean.log
fi
