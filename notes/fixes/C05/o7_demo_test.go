package keeper_test

// Demonstration for observation O7 (properties C04 / C05): a governance CreateClientProposal naming THIS chain.
// On the unrepaired tree the proposal handler accepts it; with O7.diff it is refused.  With such a client stored,
// a MsgRecvPacket claiming this chain as its source passes ValidatePacket, is "verified" against that client, and
// the relay branch of Keeper.RecvPacket (re-)creates a commitment under (this chain, dst, seq) that no send produced
// — see /verif/notes/C05.md and Refuted/C04_selfclient.v, Refuted/C05_selfclient.v for the consequences
// (commitment beyond the counter; the same acknowledgement accepted twice, fee paid twice).
//
// Run: go test -vet=off -count=1 ./x/xibc/core/client/keeper/ -run 'TestKeeperTestSuite/TestO7SelfNamedClientRefused'

import (
	tsstypes "github.com/teleport-network/teleport/x/xibc/clients/tss-client/types"
	"github.com/teleport-network/teleport/x/xibc/core/client/types"
)

func (suite KeeperTestSuite) TestO7SelfNamedClientRefused() {
	suite.SetupTest()
	own := suite.chainA.App.XIBCKeeper.ClientKeeper.GetChainName(suite.chainA.GetContext())
	suite.Require().NotEmpty(own)
	proposal, err := types.NewCreateClientProposal("self", "self", own,
		&tsstypes.ClientState{TssAddress: suite.chainA.SenderAcc.String()}, &tsstypes.ConsensusState{})
	suite.Require().NoError(err)
	_, err = suite.chainA.App.XIBCKeeper.ClientKeeper.HandleCreateClient(suite.chainA.GetContext(), proposal)
	suite.Require().Error(err, "a client under the chain's own name must be refused")
	_, found := suite.chainA.App.XIBCKeeper.ClientKeeper.GetClientState(suite.chainA.GetContext(), own)
	suite.Require().False(found)
}
