// Package directory: x/xibc   (copy this file there as x/xibc/c03_rebind_demo_test.go)
// Run: export GOFLAGS=-mod=mod GOPROXY=off GOSUMDB=off GOTOOLCHAIN=local; go test ./x/xibc -vet=off -count=1 -run TestXIBCTestSuite -testify.m TestC03RebindLocksEscrow
package xibc_test

import (
	"encoding/base64"
	"encoding/json"
	"math/big"
	"strings"

	"github.com/ethereum/go-ethereum/common"

	endpointcontract "github.com/teleport-network/teleport/syscontracts/xibc_endpoint"
	"github.com/teleport-network/teleport/x/xibc/core/host"
	packettypes "github.com/teleport-network/teleport/x/xibc/core/packet/types"
	xibctesting "github.com/teleport-network/teleport/x/xibc/testing"
)

// 1000 tokens are transferred A -> B and delivered (1000 escrowed on A, 1000 vouchers minted on B). Then the SAME
// (voucher token, origin chain) pair is registered a second time (another scale). Endpoint.bindToken resets
// bindings.amount to 0: the 1000 vouchers exist, nothing is recorded as minted, and they can no longer be sent back.
func (suite *XIBCTestSuite) TestC03RebindLocksEscrow() {
	path := xibctesting.NewPath(suite.chainA, suite.chainB)
	suite.coordinator.SetupClients(path)

	tokenA := suite.DeployERC20ByCrossChain(suite.chainA)
	tokenB := suite.DeployERC20ByCrossChain(suite.chainB)
	suite.GrantERC20MintRoleByCrossChain(suite.chainA, tokenA, suite.chainA.SenderAddress)
	suite.MintERC20Token(suite.chainA, suite.chainA.SenderAddress, tokenA, big.NewInt(10000))
	suite.Require().NoError(suite.chainB.App.AggregateKeeper.RegisterERC20Trace(
		suite.chainB.GetContext(), tokenB, strings.ToLower(tokenA.String()), suite.chainA.ChainID, 0,
	))
	suite.Approve(suite.chainA, tokenA, endpointcontract.EndpointContractAddress, big.NewInt(10000))

	// transfer 1000, relay, acknowledge
	suite.CrossChainCall(suite.chainA, packettypes.CrossChainData{
		DstChain:     suite.chainB.ChainID,
		TokenAddress: tokenA,
		Receiver:     strings.ToLower(suite.chainB.SenderAddress.String()),
		Amount:       big.NewInt(1000),
		CallData:     []byte(""),
	}, packettypes.Fee{TokenAddress: tokenA, Amount: big.NewInt(0)})
	td := packettypes.TransferData{
		Receiver: strings.ToLower(suite.chainB.SenderAddress.String()),
		Amount:   common.LeftPadBytes(big.NewInt(1000).Bytes(), 32),
		Token:    strings.ToLower(tokenA.String()),
		OriToken: "",
	}
	tdBz, err := td.ABIPack()
	suite.Require().NoError(err)
	packet := packettypes.Packet{
		SrcChain: suite.chainA.ChainID, DstChain: suite.chainB.ChainID, Sequence: 1,
		Sender:       strings.ToLower(suite.chainA.SenderAddress.String()),
		TransferData: tdBz, CallData: []byte(""), CallbackAddress: common.Address{}.String(), FeeOption: 0,
	}
	suite.Require().NoError(path.EndpointB.UpdateClient())
	proof, proofHeight := path.EndpointA.Chain.QueryProof(host.PacketCommitmentKey(packet.SrcChain, packet.DstChain, packet.Sequence))
	bz, err := packet.ABIPack()
	suite.Require().NoError(err)
	res, err := suite.chainB.SendMsgs(packettypes.NewMsgRecvPacket(bz, proof, proofHeight, suite.chainB.SenderAcc))
	suite.Require().NoError(err)
	suite.Require().NoError(path.EndpointA.UpdateClient())
	var ack []byte
	for _, ev := range res.Events {
		if ev.Type != "xibc.core.packet.v1.EventWriteAck" {
			continue
		}
		for _, a := range ev.Attributes {
			if string(a.Key) == "ack" {
				var s string
				suite.Require().NoError(json.Unmarshal(a.Value, &s))
				ack, err = base64.StdEncoding.DecodeString(s)
				suite.Require().NoError(err)
			}
		}
	}
	suite.Require().NotEmpty(ack)
	suite.Require().NoError(path.EndpointA.AcknowledgePacket(packet, ack))

	suite.Require().Equal(int64(1000), suite.OutTokens(suite.chainA, tokenA, suite.chainB.ChainID).Int64())
	suite.Require().Equal(int64(1000), suite.Bindings(suite.chainB, tokenB, suite.chainA.ChainID).Amount.Int64())
	suite.Require().Equal(int64(1000), suite.ERC20Balance(suite.chainB, tokenB, suite.chainB.SenderAddress).Int64())

	// governance registers the same pair a second time (say, to "correct" the scale)
	rebindErr := suite.chainB.App.AggregateKeeper.RegisterERC20Trace(
		suite.chainB.GetContext(), tokenB, strings.ToLower(tokenA.String()), suite.chainA.ChainID, 1,
	)
	suite.coordinator.CommitBlock(suite.chainB)

	minted := suite.Bindings(suite.chainB, tokenB, suite.chainA.ChainID).Amount.Int64()
	escrow := suite.OutTokens(suite.chainA, tokenA, suite.chainB.ChainID).Int64()
	suite.Error(rebindErr, "a second registration of a pair with outstanding vouchers was accepted")
	suite.Equal(escrow, minted, "amount recorded as minted on the destination != amount escrowed on the source (vouchers can no longer be returned)")
}
