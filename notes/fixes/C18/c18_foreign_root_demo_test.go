package types_test

import (
	"encoding/json"
	"io/ioutil"
	"testing"
	"time"

	"github.com/stretchr/testify/require"

	tmproto "github.com/tendermint/tendermint/proto/tendermint/types"

	"github.com/teleport-network/teleport/app"
	xibcethtypes "github.com/teleport-network/teleport/x/xibc/clients/light-clients/eth/types"
	clienttypes "github.com/teleport-network/teleport/x/xibc/core/client/types"
	"github.com/teleport-network/teleport/x/xibc/exported"
)

// An ETH client is proposed with a consensus state whose root is NOT the state root of the proposed header (nothing
// ties the two together). Either the proposal is refused, or the client it installs has to stay usable: every valid
// header submitted while the client is Active must be accepted. On the unrepaired code the create succeeds and the
// first update that has to prune the installed consensus state fails with "Header index not found" (and so does
// every later one).
func TestC18EthForeignRootConsensusState(t *testing.T) {
	var hs []*xibcethtypes.EthHeader
	bz, err := ioutil.ReadFile("testdata/update_headers.json")
	require.NoError(t, err)
	require.NoError(t, json.Unmarshal(bz, &hs))
	require.GreaterOrEqual(t, len(hs), 8)

	const name = "eth"
	const trustingPeriod = 50 // seconds
	at := func(h *xibcethtypes.EthHeader) time.Time { return time.Unix(int64(h.Time), 0) }

	teleport := app.Setup(false, nil)
	k := teleport.XIBCKeeper.ClientKeeper
	ctx := teleport.BaseApp.NewContext(false, tmproto.Header{Time: at(hs[1])})

	cs := &xibcethtypes.ClientState{Header: hs[1].ToHeader(), ChainId: 1, ContractAddress: []byte("0x00"), TrustingPeriod: trustingPeriod, BlockDelay: 1}
	cons := &xibcethtypes.ConsensusState{Timestamp: hs[1].Time, Height: clienttypes.NewHeight(0, hs[1].Number.Uint64()), Root: hs[0].Root[:]} // another root
	require.NotEqual(t, hs[0].Root, hs[1].Root)
	create, err := clienttypes.NewCreateClientProposal("t", "d", name, cs, cons)
	require.NoError(t, err)
	require.NoError(t, create.ValidateBasic())
	// as the governance module runs a passed proposal: on a cache context that is written only on success
	cctx, write := ctx.CacheContext()
	if _, err = k.HandleCreateClient(cctx, create); err == nil {
		write()
	} else {
		t.Logf("the inconsistent proposal is refused: %v", err)
		_, found := k.GetClientState(ctx, name)
		require.False(t, found)
		return
	}

	pruned := false
	for i := 2; i <= 7; i++ {
		ctx = ctx.WithBlockTime(at(hs[i]))
		cur, found := k.GetClientState(ctx, name)
		require.True(t, found)
		require.Equal(t, exported.Active, cur.Status(ctx, k.ClientStore(ctx, name), teleport.AppCodec()), "client not active before header[%d]", i)
		h := hs[i].ToHeader()
		require.NoError(t, k.UpdateClient(ctx, name, &h), "update of an Active ETH client with the valid header[%d] failed", i)
		pruned = pruned || !k.HasClientConsensusState(ctx, name, clienttypes.NewHeight(0, hs[1].Number.Uint64()))
	}
	require.True(t, pruned, "scenario: the installed consensus state was expected to be pruned")
}
