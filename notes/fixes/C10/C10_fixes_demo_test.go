package types_test

// Demonstrations for three defects of the ETH light client found by the C10 check of /verif
// (property C10: "rule-abiding headers only; forks never wedge it").
//
// Belongs in: x/xibc/clients/light-clients/eth/types
//
//   TestVerifC10RevisionNumber   fails on the unpatched tree, passes with eth-revision-number.diff
//   TestVerifC10ExpiredBranch    fails on the unpatched tree, passes with eth-reorg-to-expired-branch.diff
//   TestVerifC10SiblingSameRoot  fails on the unpatched tree, passes with eth-sibling-same-root.diff
//
// The client runs in Rinkeby mode (ChainId 4: no ethash seal / difficulty check), so header trees can be generated.

import (
	"bytes"
	"encoding/binary"
	"testing"
	"time"

	"github.com/stretchr/testify/require"

	tmproto "github.com/tendermint/tendermint/proto/tendermint/types"

	"github.com/ethereum/go-ethereum/common"

	sdk "github.com/cosmos/cosmos-sdk/types"

	"github.com/teleport-network/teleport/app"
	xibcethtypes "github.com/teleport-network/teleport/x/xibc/clients/light-clients/eth/types"
	clientkeeper "github.com/teleport-network/teleport/x/xibc/core/client/keeper"
	clienttypes "github.com/teleport-network/teleport/x/xibc/core/client/types"
	"github.com/teleport-network/teleport/x/xibc/exported"
)

const verifC10Chain = "verif-c10"
const verifC10T0 = uint64(1600000000)

type verifC10Env struct {
	t      *testing.T
	ctx    sdk.Context
	k      clientkeeper.Keeper
	app    *app.Teleport
	g      xibcethtypes.Header
	serial uint64
}

func (e *verifC10Env) newRoot() []byte {
	e.serial++
	root := make([]byte, 32)
	binary.BigEndian.PutUint64(root[24:], e.serial)
	root[0] = 0xC1
	return root
}

// child: a header verifyHeader accepts as a child of p, dt seconds later.
func (e *verifC10Env) child(p xibcethtypes.Header, name string, dt uint64) xibcethtypes.Header {
	root := e.newRoot()
	return xibcethtypes.Header{
		ParentHash: p.Hash().Bytes(), UncleHash: p.UncleHash, Coinbase: p.Coinbase, Root: root, TxHash: p.TxHash,
		ReceiptHash: p.ReceiptHash, Bloom: p.Bloom, Difficulty: []byte{0x01},
		Height:   clienttypes.NewHeight(p.Height.RevisionNumber, p.Height.RevisionHeight+1),
		GasLimit: p.GasLimit, GasUsed: p.GasLimit / 2, Time: p.Time + dt, Extra: []byte(name), MixDigest: p.MixDigest,
		Nonce: e.serial, BaseFee: p.BaseFee,
	}
}

func verifC10New(t *testing.T, revision, trusting uint64) *verifC10Env {
	teleport := app.Setup(false, nil)
	ctx := teleport.BaseApp.NewContext(false, tmproto.Header{Height: 3, Time: time.Unix(int64(verifC10T0+10), 0)})
	e := &verifC10Env{t: t, ctx: ctx, k: teleport.XIBCKeeper.ClientKeeper, app: teleport}
	e.g = xibcethtypes.Header{
		ParentHash: bytes.Repeat([]byte{1}, 32), UncleHash: bytes.Repeat([]byte{2}, 32), Coinbase: bytes.Repeat([]byte{3}, 20),
		Root: e.newRoot(), TxHash: bytes.Repeat([]byte{5}, 32), ReceiptHash: bytes.Repeat([]byte{6}, 32),
		Bloom: bytes.Repeat([]byte{7}, 256), Difficulty: []byte{0x01}, Height: clienttypes.NewHeight(revision, 500),
		GasLimit: 30000000, GasUsed: 15000000, Time: verifC10T0, Extra: []byte("G"), MixDigest: bytes.Repeat([]byte{8}, 32),
		BaseFee: []byte{0x07},
	}
	clientState := &xibcethtypes.ClientState{
		Header: e.g, ChainId: 4, ContractAddress: bytes.Repeat([]byte{9}, 20), TrustingPeriod: trusting, BlockDelay: 1,
	}
	consensusState := &xibcethtypes.ConsensusState{Timestamp: e.g.Time, Height: e.g.Height, Root: e.g.Root}
	require.NoError(t, clientState.Validate())
	require.NoError(t, e.k.CreateClient(ctx, verifC10Chain, clientState, consensusState))
	return e
}

// update submits h at block time bt (a failed update leaves no writes, as in DeliverTx).
func (e *verifC10Env) update(h xibcethtypes.Header, bt uint64) error {
	cctx, write := e.ctx.WithBlockTime(time.Unix(int64(bt), 0)).CacheContext()
	err := e.k.UpdateClient(cctx, verifC10Chain, &h)
	if err == nil {
		write()
	}
	return err
}

func (e *verifC10Env) status(bt uint64) exported.Status {
	ctx := e.ctx.WithBlockTime(time.Unix(int64(bt), 0))
	cs, found := e.k.GetClientState(ctx, verifC10Chain)
	require.True(e.t, found)
	return cs.Status(ctx, e.k.ClientStore(ctx, verifC10Chain), e.app.AppCodec())
}

// consensus states of the given headers (the head's ancestry) are theirs
func (e *verifC10Env) requireMainChain(chain ...xibcethtypes.Header) {
	for _, h := range chain {
		cons, found := e.k.GetClientConsensusState(e.ctx, verifC10Chain, h.Height)
		require.True(e.t, found, "no consensus state at height %s", h.Height)
		c := cons.(*xibcethtypes.ConsensusState)
		require.Equal(e.t, common.BytesToHash(h.Root), common.BytesToHash(c.Root),
			"the consensus state kept for height %s is not the state root of the head's ancestor %s", h.Height, string(h.Extra))
		require.Equal(e.t, h.Time, c.Timestamp)
	}
}

// A stored header re-submitted with another revision number (the number is relayer-supplied and not covered by the
// block hash) is accepted and leaves a second consensus state for its height.  Client of revision 1, trusting period
// 100 s: the extra state (0, 501) sorts first in the store, expires and is pruned together with A1's header and
// root-main entry; when the genuine state (1, 501) expires its root-main entry is gone, the prune step fails and
// EVERY later update is refused.
func TestVerifC10RevisionNumber(t *testing.T) {
	e := verifC10New(t, 1, 100)
	a1 := e.child(e.g, "A1", 20)
	require.NoError(t, e.update(a1, a1.Time+5))
	a1r0 := a1
	a1r0.Height = clienttypes.NewHeight(0, a1.Height.RevisionHeight)
	require.Equal(t, a1.Hash(), a1r0.Hash(), "the revision number is not covered by the hash")
	err := e.update(a1r0, a1.Time+6) // refused with the repair; accepted (and fatal a few updates later) without it
	p := a1
	for i := 0; i < 8; i++ {
		c := e.child(p, "A", 30)
		require.NoError(t, e.update(c, c.Time+5), "valid child of the head refused (update %d)", i+2)
		p = c
	}
	require.Error(t, err, "a header carrying another revision number than the client's was accepted")
}

// Trusting period 1000 s.  G; A1..A4 one second apart.  1000 s after A4 the client is still active; the sibling S3
// of A3 (child of the stored A2, timestamp older than the trusting period) is a rule-abiding child of a stored
// header.  Accepted, it becomes the head and the client is Expired at the very block time of the update: every
// later update is refused.
func TestVerifC10ExpiredBranch(t *testing.T) {
	e := verifC10New(t, 0, 1000)
	chain := []xibcethtypes.Header{e.g}
	for i := 0; i < 4; i++ {
		c := e.child(chain[len(chain)-1], "A", 1)
		require.NoError(t, e.update(c, verifC10T0+10))
		chain = append(chain, c)
	}
	a4 := chain[4]
	bt := a4.Time + 1000
	require.Equal(t, exported.Active, e.status(bt))
	s3 := e.child(chain[2], "S3", 1)
	_ = e.update(s3, bt) // refused with the repair; accepted (and fatal) without it
	require.Equal(t, exported.Active, e.status(bt), "an accepted header left the client expired at the block time of its own update")
	a5 := e.child(a4, "A5", 1000)
	require.NoError(t, e.update(a5, bt), "valid child of the stored header A4 refused")
}

// G; M1; M2; S1 (sibling of M1); S2' (child of S1 carrying the state root of M2); M3 (child of M2); N2 (child of S1).
// ethRootMain has one slot per (state root, height): S2' takes M2's, RestrictChain starts from the wrong header and
// the consensus states no longer follow the head's ancestry.
func TestVerifC10SiblingSameRoot(t *testing.T) {
	e := verifC10New(t, 0, 999999999)
	bt := verifC10T0 + 10
	m1 := e.child(e.g, "M1", 1)
	m2 := e.child(m1, "M2", 1)
	s1 := e.child(e.g, "S1", 1)
	s2 := e.child(s1, "S2'", 1)
	s2.Root = m2.Root
	m3 := e.child(m2, "M3", 1)
	n2 := e.child(s1, "N2", 1)
	require.NoError(t, e.update(m1, bt))
	require.NoError(t, e.update(m2, bt))
	e.requireMainChain(e.g, m1, m2)
	require.NoError(t, e.update(s1, bt))
	e.requireMainChain(e.g, s1)
	require.NoError(t, e.update(s2, bt))
	e.requireMainChain(e.g, s1, s2)
	require.NoError(t, e.update(m3, bt))
	e.requireMainChain(e.g, m1, m2, m3)
	require.NoError(t, e.update(n2, bt))
	e.requireMainChain(e.g, s1, n2)
}
