// Package hlib: shared helpers of the correspondence harness (deterministic PRNG, JSONL output).
package hlib

import (
	"bufio"
	"encoding/hex"
	"encoding/json"
	"fmt"
	"os"
)

// Rand is splitmix64: every random choice of a harness run derives from one seed.
type Rand struct{ s uint64 }

func NewRand(seed uint64) *Rand { return &Rand{s: seed*0x9E3779B97F4A7C15 + 0x1234567} }

func (r *Rand) U64() uint64 {
	r.s += 0x9E3779B97F4A7C15
	z := r.s
	z = (z ^ (z >> 30)) * 0xBF58476D1CE4E5B9
	z = (z ^ (z >> 27)) * 0x94D049BB133111EB
	return z ^ (z >> 31)
}

// Intn returns a value in [0,n).
func (r *Rand) Intn(n int) int {
	if n <= 0 {
		return 0
	}
	return int(r.U64() % uint64(n))
}

func (r *Rand) Bool() bool { return r.U64()&1 == 1 }

// Chance returns true with probability num/den.
func (r *Rand) Chance(num, den int) bool { return r.Intn(den) < num }

// Fork derives an independent generator (so that case i does not depend on how many draws case i-1 made).
func (r *Rand) Fork(i uint64) *Rand { return NewRand(r.s ^ (i+1)*0xD6E8FEB86659FD93) }

func (r *Rand) Bytes(n int) []byte {
	b := make([]byte, n)
	for i := range b {
		b[i] = byte(r.U64())
	}
	return b
}

// Out writes one JSON object per line.
type Out struct {
	f *os.File
	w *bufio.Writer
}

func NewOut(path string) *Out {
	f, err := os.Create(path)
	if err != nil {
		panic(err)
	}
	return &Out{f: f, w: bufio.NewWriterSize(f, 1<<20)}
}

func (o *Out) Emit(v interface{}) {
	bz, err := json.Marshal(v)
	if err != nil {
		panic(err)
	}
	o.w.Write(bz)
	o.w.WriteByte('\n')
}

func (o *Out) Close() {
	o.w.Flush()
	o.f.Close()
}

func Hex(b []byte) string { return hex.EncodeToString(b) }

func UnHex(s string) []byte {
	b, err := hex.DecodeString(s)
	if err != nil {
		panic(err)
	}
	return b
}

// Catch runs f and reports whether it panicked (and with what).
func Catch(f func()) (panicked bool, val string) {
	defer func() {
		if r := recover(); r != nil {
			panicked = true
			val = fmt.Sprint(r)
			if len(val) > 300 {
				val = val[:300]
			}
		}
	}()
	f()
	return false, ""
}

// ReadJSONL reads a file of JSON lines into out (a pointer to a slice is filled by the caller's decode func).
func ReadLines(path string, each func(line []byte)) {
	f, err := os.Open(path)
	if err != nil {
		panic(err)
	}
	defer f.Close()
	sc := bufio.NewScanner(f)
	sc.Buffer(make([]byte, 1<<20), 1<<28)
	for sc.Scan() {
		if len(sc.Bytes()) == 0 {
			continue
		}
		cp := append([]byte(nil), sc.Bytes()...)
		each(cp)
	}
}
