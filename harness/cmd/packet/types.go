// packet: correspondence harness for the XIBC packet protocol (properties C01 C02 C04 C05).
// Drives the REAL teleport code of /repo over generated relay histories on 3 chains and writes
// one JSON line per history.  The JSON format is a contract with the Coq/python side: see
// /var/tmp/packet_harness_spec.md.
package main

import (
	"encoding/json"
	"strconv"

	packettypes "github.com/teleport-network/teleport/x/xibc/core/packet/types"

	"verifharness/hlib"
)

// ---------------------------------------------------------------------------------------------
// Spec / Op (abstract history)

type Spec struct {
	Case  int    `json:"case"`
	Seed  uint64 `json:"seed"`
	Focus string `json:"focus"`
	Ops   []Op   `json:"ops"`
	O7    bool   `json:"o7,omitempty"`
}

// Op is the union of all abstract operations; MarshalJSON emits exactly the fields of the kind.
type Op struct {
	K          string   `json:"k"`
	Chain      int      `json:"chain"`
	Dst        int      `json:"dst"`
	Variant    string   `json:"variant"`
	Amount     uint64   `json:"amount"`
	Fee        uint64   `json:"fee"`
	Commit     bool     `json:"commit"`
	SeqDelta   int      `json:"seqdelta"`
	Mal        string   `json:"mal"`
	Pkt        int      `json:"pkt"`
	Alter      []string `json:"alter"`
	Enc        string   `json:"enc"`
	Relayer    int      `json:"relayer"`
	FreshProof bool     `json:"fresh_proof"`
	Seq        uint64   `json:"seq"`
	DstSelf    bool     `json:"dstself"`
	Src        string   `json:"src"`
	Ack        int      `json:"ack"`
	Peer       int      `json:"peer"`
	Chains     []int    `json:"chains"`
	Name       string   `json:"name"`
	Type       string   `json:"type"`
	Legs       []Leg    `json:"legs"`
	FeeOpt     uint64   `json:"feeopt"`
}

// Leg is one Endpoint.crossChainCall of a multi-send transaction (op send_multi): the sender's multicall contract
// performs the legs in order inside ONE EVM transaction, so its receipt carries one PacketSent log per leg.
type Leg struct {
	Dst     int    `json:"dst"`     // 0..2 peer, -1 unknown chain, -2 the TSS-secured name
	Variant string `json:"variant"` // base | erc20 | call
	Amount  uint64 `json:"amount"`
	FeeOpt  uint64 `json:"feeopt"`
}

type kv struct {
	k string
	v interface{}
}

func orderedJSON(fields []kv) ([]byte, error) {
	out := []byte{'{'}
	for i, f := range fields {
		if i > 0 {
			out = append(out, ',')
		}
		kb, _ := json.Marshal(f.k)
		vb, err := json.Marshal(f.v)
		if err != nil {
			return nil, err
		}
		out = append(out, kb...)
		out = append(out, ':')
		out = append(out, vb...)
	}
	return append(out, '}'), nil
}

func strs(l []string) []string {
	if l == nil {
		return []string{}
	}
	return l
}

func ints(l []int) []int {
	if l == nil {
		return []int{}
	}
	return l
}

func (o Op) MarshalJSON() ([]byte, error) {
	f := []kv{{"k", o.K}, {"chain", o.Chain}}
	switch o.K {
	case "send":
		f = append(f, kv{"dst", o.Dst}, kv{"variant", o.Variant}, kv{"amount", o.Amount}, kv{"fee", o.Fee}, kv{"feeopt", o.FeeOpt}, kv{"commit", o.Commit})
	case "send_multi":
		legs := o.Legs
		if legs == nil {
			legs = []Leg{}
		}
		f = append(f, kv{"legs", legs}, kv{"commit", o.Commit})
	case "send_raw":
		f = append(f, kv{"dst", o.Dst}, kv{"seqdelta", o.SeqDelta}, kv{"mal", o.Mal}, kv{"commit", o.Commit})
	case "recv":
		f = append(f, kv{"pkt", o.Pkt}, kv{"alter", strs(o.Alter)}, kv{"enc", o.Enc}, kv{"relayer", o.Relayer}, kv{"fresh_proof", o.FreshProof}, kv{"commit", o.Commit})
	case "recv_tss":
		f = append(f, kv{"seq", o.Seq}, kv{"dstself", o.DstSelf}, kv{"relayer", o.Relayer}, kv{"variant", o.Variant}, kv{"commit", o.Commit})
		if o.Mal != "" {
			f = append(f, kv{"mal", o.Mal})
		}
		if o.Variant == "copy" {
			f = append(f, kv{"pkt", o.Pkt})
		}
		if o.Src != "" {
			f = append(f, kv{"src", o.Src}, kv{"dst", o.Dst})
		}
	case "ack":
		f = append(f, kv{"ack", o.Ack}, kv{"alter", strs(o.Alter)}, kv{"relayer", o.Relayer}, kv{"fresh_proof", o.FreshProof}, kv{"commit", o.Commit})
	case "recv_eth":
		f = append(f, kv{"seq", o.Seq}, kv{"variant", o.Variant}, kv{"type", o.Type}, kv{"relayer", o.Relayer}, kv{"commit", o.Commit})
	case "ack_eth":
		f = append(f, kv{"pkt", o.Pkt}, kv{"variant", o.Variant}, kv{"type", o.Type}, kv{"relayer", o.Relayer}, kv{"commit", o.Commit})
	case "ack_tss":
		f = append(f, kv{"pkt", o.Pkt}, kv{"variant", o.Variant}, kv{"relayer", o.Relayer}, kv{"commit", o.Commit})
		if o.Mal != "" {
			f = append(f, kv{"mal", o.Mal})
		}
	case "update":
		f = append(f, kv{"peer", o.Peer}, kv{"relayer", o.Relayer}, kv{"commit", o.Commit})
	case "block":
	case "reg_relayer":
		f = append(f, kv{"relayer", o.Relayer}, kv{"chains", ints(o.Chains)})
	case "create_client":
		f = append(f, kv{"name", o.Name}, kv{"type", o.Type})
	case "toggle_client", "upgrade_client":
		f = append(f, kv{"peer", o.Peer}, kv{"type", o.Type}, kv{"commit", o.Commit})
	}
	return orderedJSON(f)
}

// ---------------------------------------------------------------------------------------------
// Output records

type KV [2]string // key hex, value hex

type PacketJ struct {
	Src    string `json:"src"`
	Dst    string `json:"dst"`
	Seq    string `json:"seq"`
	Sender string `json:"sender"`
	TData  string `json:"tdata"`
	CData  string `json:"cdata"`
	Cb     string `json:"cb"`
	Fee    string `json:"fee"`
}

func hx(b []byte) string  { return hlib.Hex(b) }
func hs(s string) string  { return hlib.Hex([]byte(s)) }
func u64(n uint64) string { return strconv.FormatUint(n, 10) }

func packetJ(p *packettypes.Packet) PacketJ {
	return PacketJ{
		Src: hs(p.SrcChain), Dst: hs(p.DstChain), Seq: u64(p.Sequence), Sender: hs(p.Sender),
		TData: hx(p.TransferData), CData: hx(p.CallData), Cb: hs(p.CallbackAddress), Fee: u64(p.FeeOption),
	}
}

type AckJ struct {
	Code    string `json:"code"`
	Result  string `json:"result"`
	Message string `json:"message"`
	Relayer string `json:"relayer"`
	Fee     string `json:"fee"`
}

func ackJ(a *packettypes.Acknowledgement) AckJ {
	return AckJ{Code: u64(a.Code), Result: hx(a.Result), Message: hs(a.Message), Relayer: hs(a.Relayer), Fee: u64(a.FeeOption)}
}

// SendJ is [Packet, true]
type SendJ [2]interface{}

type CbJ struct {
	Sends []SendJ     `json:"sends"`
	Fail  bool        `json:"fail"`
	Ret   interface{} `json:"ret"` // null | [code, resulthex, messagehex]
}

func emptyCb() CbJ { return CbJ{Sends: []SendJ{}, Fail: false, Ret: nil} }

type ClientJ struct {
	Name string `json:"name"`
	Tss  bool   `json:"tss"`
	// Cons: heights of the consensus states stored for this client at the start of the history
	Cons [][2]string `json:"cons"`
}

type RelayerJ struct {
	Addr   string   `json:"addr"`
	Chains []string `json:"chains"`
	Addrs  []string `json:"addrs"`
}

type ChainJ struct {
	Name     string      `json:"name"`
	Clients  []ClientJ   `json:"clients"`
	Relayers []RelayerJ  `json:"relayers"`
	Store    []KV        `json:"store"`
	CSeq     [][2]string `json:"cseq"`
}

type FamHash struct {
	Receipts    string `json:"receipts"`
	Acks        string `json:"acks"`
	Commitments string `json:"commitments"`
	NextSeq     string `json:"nextseq"`
	Clients     string `json:"clients"`
	Rest        string `json:"rest"`
}

type Obs struct {
	Class     int         `json:"class"`
	Store     []KV        `json:"store"`
	Unchanged bool        `json:"unchanged"`
	CSeq      [][2]string `json:"cseq"`
	AckStatus [][3]string `json:"ackstatus"`
	Bal       []string    `json:"bal"`
	FamHash   FamHash     `json:"famhash"`
	Err       string      `json:"err"`
	// Cons: consensus-state heights this step wrote for the client its act names (update: the new heights; create /
	// toggle / upgrade: the latest height of the NEW client state, nothing for TSS) — what the present client instance
	// accepted itself, NOT what happens to be in the store
	Cons [][2]string `json:"cons"`
	// Wack: (code, fee option) of the acknowledgement bytes an accepted receive wrote (raw go-ethereum ABI), or null
	Wack *[2]string `json:"wack"`
}

type Step struct {
	Chain int         `json:"chain"`
	Env   int         `json:"env"`
	Op    int         `json:"op"` // index (in spec.ops) of the abstract op this step belongs to / was caused by
	Act   interface{} `json:"act"`
	Obs   Obs         `json:"obs"`
}

type FinalJ struct {
	Store []KV `json:"store"`
}

type Result struct {
	Case    int                    `json:"case"`
	Spec    Spec                   `json:"spec"`
	Chains  []ChainJ               `json:"chains"`
	Steps   []Step                 `json:"steps"`
	Final   []FinalJ               `json:"final"`
	Oracles *Oracles               `json:"oracles"`
	Stats   map[string]interface{} `json:"stats"`
}

// Acts

type ActRecv struct {
	T      string    `json:"t"`
	Packet string    `json:"packet"`
	Proof  string    `json:"proof"`
	Height [2]string `json:"height"`
	Signer string    `json:"signer"`
	Cb     CbJ       `json:"cb"`
}

type ActAck struct {
	T      string    `json:"t"`
	Packet string    `json:"packet"`
	Ack    string    `json:"ack"`
	Proof  string    `json:"proof"`
	Height [2]string `json:"height"`
	Signer string    `json:"signer"`
	Cbs    [3]CbJ    `json:"cbs"`
}

type ActSend struct {
	T     string  `json:"t"`
	Sends []SendJ `json:"sends"`
	Fail  bool    `json:"fail"`
	// Raw: the bytes of the PacketSent logs of an ACCEPTED transaction exactly as the packet contract emitted them
	// (monitor 24: the stored commitment is their sha256); empty for keeper-level sends
	Raw []string `json:"raw"`
}

type ActUpdate struct {
	T    string `json:"t"`
	Name string `json:"name"`
}

type ActBlock struct {
	T string `json:"t"`
}

type ActRegRelayer struct {
	T      string   `json:"t"`
	Addr   string   `json:"addr"`
	Chains []string `json:"chains"`
	Addrs  []string `json:"addrs"`
}

type ActCreateClient struct {
	T    string `json:"t"` // create_client | toggle_client | upgrade_client
	Name string `json:"name"`
	Tss  bool   `json:"tss"`
}
