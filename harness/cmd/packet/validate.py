#!/usr/bin/env python3
"""Sanity check of the output of harness/bin/packet (not part of the check; a development aid).

usage: validate.py out.jsonl [-v]
 * every hex field decodes, every uint64 field is a decimal string
 * every recv/ack act has matching decode / decode_ack / verify oracle entries (verify may be absent only
   when the decode failed with sequence 0 or the client does not exist: reported as counts)
 * env numbers are 1..n
 * prints accepted/rejected statistics per act kind and the aggregated "stats" members
"""
import json, sys, collections, hashlib

HEXCH = set('0123456789abcdef')


def ishex(s):
    return isinstance(s, str) and len(s) % 2 == 0 and set(s) <= HEXCH


def isnum(s):
    return isinstance(s, str) and s.isdigit()


errors = []


def err(case, msg):
    errors.append((case, msg))
    if len(errors) < 30:
        print('ERROR case', case, msg)


def chk_packet(case, p, where):
    for k in ('src', 'dst', 'sender', 'tdata', 'cdata', 'cb'):
        if not ishex(p.get(k)):
            err(case, '%s: packet field %s not hex' % (where, k))
    for k in ('seq', 'fee'):
        if not isnum(p.get(k)):
            err(case, '%s: packet field %s not a decimal string' % (where, k))


def chk_store(case, st, where):
    prev = None
    for kv in st:
        if len(kv) != 2 or not ishex(kv[0]) or not ishex(kv[1]):
            err(case, '%s: store entry not hex' % where)
            continue
        k = bytes.fromhex(kv[0])
        if prev is not None and not prev < k:
            err(case, '%s: store not sorted' % where)
        prev = k
        if not any(k.startswith(p) for p in (b'receipts/', b'acks/', b'commitments/', b'nextSequenceSend/')):
            err(case, '%s: foreign key %r' % (where, k))


def chk_cb(case, cb, where):
    if set(cb.keys()) != {'sends', 'fail', 'ret'}:
        err(case, where + ': cb keys')
    for s in cb['sends']:
        if len(s) != 2 or s[1] is not True:
            err(case, where + ': cb send entry')
        chk_packet(case, s[0], where + '.cb')
    if cb['ret'] is not None:
        r = cb['ret']
        if len(r) != 3 or not isnum(r[0]) or not ishex(r[1]) or not ishex(r[2]):
            err(case, where + ': cb ret')


def main():
    path = sys.argv[1]
    verbose = '-v' in sys.argv
    agg = collections.Counter()
    acts = collections.Counter()
    sizes = []
    ncases = 0
    verify_missing = collections.Counter()
    for line in open(path):
        if not line.strip():
            continue
        sizes.append(len(line))
        r = json.loads(line)
        ncases += 1
        case = r['case']
        for k in ('case', 'spec', 'chains', 'steps', 'final', 'oracles', 'stats'):
            if k not in r:
                err(case, 'missing member ' + k)
        if len(r['chains']) != 3 or len(r['final']) != 3:
            err(case, 'chains/final length')
        for ci, ch in enumerate(r['chains']):
            if not ishex(ch['name']):
                err(case, 'chain name')
            for cl in ch['clients']:
                if not ishex(cl['name']) or not isinstance(cl['tss'], bool):
                    err(case, 'client entry')
            for rl in ch['relayers']:
                if not ishex(rl['addr']) or not all(ishex(x) for x in rl['chains'] + rl['addrs']) or len(rl['chains']) != len(rl['addrs']):
                    err(case, 'relayer entry')
            chk_store(case, ch['store'], 'chains[%d]' % ci)
            for c in ch['cseq']:
                if not ishex(c[0]) or not (isnum(c[1]) or c[1] in ('err', 'panic')):
                    err(case, 'cseq entry %r' % c)
        for f in r['final']:
            chk_store(case, f['store'], 'final')
        orc = r['oracles']
        dec = {d['bz']: d for d in orc['decode']}
        decack = {d['bz']: d for d in orc['decode_ack']}
        sha = {d['in']: d['out'] for d in orc['sha']}
        verify = collections.defaultdict(list)
        for v in orc['verify']:
            verify[v['env']].append(v)
            for k in ('client', 'proof', 'src', 'dst', 'val'):
                if not ishex(v[k]):
                    err(case, 'verify.%s not hex' % k)
            if not isnum(v['seq']) or not all(isnum(x) for x in v['h']) or v['kind'] not in (0, 1):
                err(case, 'verify numeric fields')
            if v['ok'] != v['low']:
                agg['verify.ok!=low'] += 1
            agg['verify.kind%d.ok_%s' % (v['kind'], v['ok'])] += 1
        for d in orc['decode']:
            if not ishex(d['bz']):
                err(case, 'decode.bz')
            chk_packet(case, d['pkt'], 'decode')
        packs = set()
        for d in orc['pack']:
            chk_packet(case, d['pkt'], 'pack')
            if d['bz'] is not None and not ishex(d['bz']):
                err(case, 'pack.bz')
            packs.add(json.dumps(d['pkt'], sort_keys=True))
            if d['bz'] is not None and d['bz'] not in sha:
                err(case, 'pack result without sha entry')
        for k, v in sha.items():
            if hashlib.sha256(bytes.fromhex(k)).hexdigest() != v:
                err(case, 'sha entry wrong')
        for d in orc['decode_ack']:
            if not ishex(d['bz']):
                err(case, 'decode_ack.bz')
            if d['ack'] is not None:
                a = d['ack']
                if not (isnum(a['code']) and ishex(a['result']) and ishex(a['message']) and ishex(a['relayer']) and isnum(a['fee'])):
                    err(case, 'decode_ack.ack fields')
        for d in orc['pack_ack']:
            if not ishex(d['bz']) or d['bz'] == '':
                err(case, 'pack_ack.bz')
        for d in orc['bech32']:
            if not ishex(d['s']) or not (d['addr'] is None or ishex(d['addr'])):
                err(case, 'bech32 entry')
        for d in orc['fold']:
            if not ishex(d['a']) or not ishex(d['b']) or not isinstance(d['eq'], bool):
                err(case, 'fold entry')
        envs = [s['env'] for s in r['steps']]
        if envs != list(range(1, len(envs) + 1)):
            err(case, 'env numbers not 1..n')
        for s in r['steps']:
            a, o = s['act'], s['obs']
            t = a['t']
            acts['%s.class%d' % (t, o['class'])] += 1
            if o['class'] == 2:
                agg['PANIC steps'] += 1
                print('  panic step: case', case, 'env', s['env'], o['err'])
            if o['class'] == 1 and not o['unchanged']:
                agg['rejected_but_state_changed.' + t] += 1
                if verbose:
                    print('  rejected but changed: case', case, 'env', s['env'], t, o['err'])
            chk_store(case, o['store'], 'obs')
            for c in o['cseq']:
                if not ishex(c[0]) or not (isnum(c[1]) or c[1] in ('err', 'panic')):
                    err(case, 'obs.cseq %r' % c)
            for c in o['ackstatus']:
                if not ishex(c[0]) or not isnum(c[1]) or not (isnum(c[2]) or c[2] in ('err', 'panic')):
                    err(case, 'obs.ackstatus %r' % c)
            for b in o['bal']:
                if not (isnum(b) or b in ('err', 'panic')):
                    err(case, 'obs.bal %r' % b)
            for k in ('receipts', 'acks', 'commitments', 'nextseq', 'clients', 'rest'):
                if not ishex(o['famhash'][k]):
                    err(case, 'famhash')
            if t in ('recv', 'ack'):
                for k in ('packet', 'proof', 'signer'):
                    if not ishex(a[k]):
                        err(case, 'act.%s not hex' % k)
                if not all(isnum(x) for x in a['height']):
                    err(case, 'act.height')
                if a['packet'] not in dec:
                    err(case, 'env %d: no decode oracle entry for act packet' % s['env'])
                if t == 'ack':
                    if not ishex(a['ack']) or a['ack'] not in decack:
                        err(case, 'env %d: no decode_ack oracle entry' % s['env'])
                    if a['ack'] not in sha:
                        err(case, 'env %d: no sha entry for ack bytes' % s['env'])
                    for cb in a['cbs']:
                        chk_cb(case, cb, 'ack')
                else:
                    chk_cb(case, a['cb'], 'recv')
                d = dec.get(a['packet'])
                vs = verify.get(s['env'], [])
                if len(vs) > 1:
                    err(case, 'env %d: several verify entries' % s['env'])
                if not vs:
                    if d and d['err'] and d['pkt']['seq'] == '0':
                        verify_missing['undecodable'] += 1
                    else:
                        cname = d['pkt']['src'] if t == 'recv' else d['pkt']['dst']
                        # legitimate only if the stepped chain has no such client
                        verify_missing['no client %s' % bytes.fromhex(cname)[:20]] += 1
                else:
                    v = vs[0]
                    if v['kind'] != (0 if t == 'recv' else 1):
                        err(case, 'verify kind')
                    if o['class'] == 0 and not v['ok']:
                        agg['ACCEPTED_WITH_verify_false.' + t] += 1
                        print('  accepted although verify oracle false: case', case, 'env', s['env'])
                    if o['class'] == 1 and v['ok'] and 'verification for client' in o['err']:
                        agg['REJECTED_BY_VERIFICATION_WITH_verify_true.' + t] += 1
                        print('  rejected by the client although verify oracle true: case', case, 'env', s['env'])
                    if json.dumps(d['pkt'], sort_keys=True) not in packs:
                        err(case, 'decoded packet without pack entry')
            elif t == 'send':
                for sd in a['sends']:
                    chk_packet(case, sd[0], 'send')
                    if json.dumps(sd[0], sort_keys=True) not in packs:
                        err(case, 'sent packet without pack entry')
            elif t == 'update':
                if not ishex(a['name']):
                    err(case, 'update.name')
        for k, v in r['stats'].items():
            if isinstance(v, bool):
                agg[k] += 1
            elif isinstance(v, int):
                agg[k] += v
    print('cases', ncases, 'bytes/case avg %d max %d' % (sum(sizes) / max(1, len(sizes)), max(sizes or [0])))
    print('acts:')
    for k in sorted(acts):
        print('   %-28s %d' % (k, acts[k]))
    print('recv/ack acts without verify entry:', dict(verify_missing))
    print('stats (summed):')
    for k in sorted(agg):
        print('   %-70s %d' % (k, agg[k]))
    print('ERRORS:', len(errors))
    return 1 if errors else 0


sys.exit(main())
