package main

import (
	"verifharness/hlib"
)

// The generator is a pure function of the PRNG: it keeps an ABSTRACT picture of the history (which
// packets it expects to be in the pools, which of them it expects to be received / acknowledged) to
// bias the choice of indices.  The picture may be wrong (a send may fail); indices are taken modulo
// the real pool size when the op runs, so every Spec is executable.

type gPkt struct {
	src, dst int // dst: 0..2 peer, -2 tss name
	recvd    bool
	ackIdx   int // index in the expected ack pool, -1 if none
}

type gAck struct {
	pkt    int
	writer int
	acked  bool
}

type gen struct {
	r       *hlib.Rand
	focus   string
	ops     []Op
	pkts    []gPkt
	acks    []gAck
	tssSeen map[[2]int]bool // (chain, seq) of TSS packets expected to be received already
	tssSent map[int]bool    // chains that have sent a packet to their TSS-secured name
	ethSent map[[2]int]bool // (chain, -3 | -4): chains that have sent a packet to their Ethereum / BSC secured name
}

func pick(r *hlib.Rand, weights []int) int {
	tot := 0
	for _, w := range weights {
		tot += w
	}
	x := r.Intn(tot)
	for i, w := range weights {
		if x < w {
			return i
		}
		x -= w
	}
	return len(weights) - 1
}

func (g *gen) other(c int) int { return (c + 1 + g.r.Intn(nChains-1)) % nChains }

var kinds = []string{"send", "send_raw", "recv", "recv_tss", "ack", "update", "block", "reg_relayer", "send_multi", "ack_tss", "recv_eth", "ack_eth"}

var kindWeights = map[string][]int{
	//        send raw recv tss ack upd blk reg multi acktss recveth acketh
	"c01": {25, 5, 35, 6, 15, 7, 6, 1, 3, 2, 3, 1},
	"c02": {22, 5, 28, 5, 20, 8, 6, 2, 3, 4, 7, 5},
	"c04": {30, 18, 16, 4, 12, 6, 5, 1, 10, 2, 1, 1},
	"c05": {20, 2, 25, 5, 36, 4, 3, 1, 3, 7, 2, 3},
}

var recvAlters = []string{"payload", "calldata", "sender", "callback", "feeopt", "swap", "seq+1", "seq-1", "src", "dst",
	"proof_other", "proof_flip", "proof_empty", "height-1", "height+1", "height_old", "height0", "garbage", "empty"}
var ackAlters = []string{"ackbytes", "packet_payload", "seq+1", "swap", "proof_other", "proof_flip", "height-1", "height+1", "height0", "garbage_ack", "garbage_packet",
	"sender", "feeopt", "callback", "calldata"}
var encs = []string{"trailing", "gap", "dirtypad"}

func (g *gen) relayer() int { return pick(g.r, []int{80, 12, 8}) }

func (g *gen) someAlters(from []string, max int) []string {
	n := 1 + g.r.Intn(max)
	out := []string{}
	for i := 0; i < n; i++ {
		a := from[g.r.Intn(len(from))]
		if !has(out, a) && !conflicts(out, a) {
			out = append(out, a)
		}
	}
	return out
}

// conflicts: alterations that cancel each other (the message would be the unaltered one again)
func conflicts(chosen []string, a string) bool {
	group := func(x string) int {
		switch x {
		case "seq+1", "seq-1":
			return 1
		case "height+1", "height-1", "height_old":
			return 2
		}
		return 0
	}
	if group(a) == 0 {
		return false
	}
	for _, c := range chosen {
		if group(c) == group(a) {
			return true
		}
	}
	return false
}

func (g *gen) add(op Op) { g.ops = append(g.ops, op) }

// feeOpt: the sender's fee option (copied into the packet, echoed in the acknowledgement): non-zero for ~40 % of the sends
func (g *gen) feeOpt() uint64 {
	if g.r.Chance(3, 5) {
		return 0
	}
	return []uint64{1, 2, 7}[g.r.Intn(3)]
}

func (g *gen) genSend() {
	c := g.r.Intn(nChains)
	dw := []int{80, 10, 10} // peer, unknown, tss
	if g.focus == "c04" {
		dw = []int{65, 22, 13}
	}
	dst := g.other(c)
	switch pick(g.r, dw) {
	case 1:
		dst = -1
	case 2:
		dst = -2
	}
	vw := []int{45, 25, 12, 8, 10} // erc20 base call callrevert notrace
	if g.focus == "c05" {
		vw = []int{30, 15, 10, 22, 23}
	}
	variant := []string{"erc20", "base", "call", "callrevert", "notrace"}[pick(g.r, vw)]
	amount := uint64(1 + g.r.Intn(1000))
	if g.r.Chance(1, 15) {
		amount = 0
	}
	fee := uint64(0)
	if g.r.Chance(1, 3) {
		fee = uint64(1 + g.r.Intn(10))
	}
	commitP := 7
	if g.focus == "c04" {
		commitP = 5
	}
	if g.r.Chance(1, 12) {
		// multi-hop through the agent contract: the callback on chain 1 sends a packet to chain 2
		c, dst, variant = 0, 1, "agent"
		if g.r.Chance(1, 4) {
			variant = "agent_unknown" // the onward send of the destination callback is refused by the packet hook
		}
		if amount == 0 {
			amount = 5
		}
	}
	g.add(Op{K: "send", Chain: c, Dst: dst, Variant: variant, Amount: amount, Fee: fee, FeeOpt: g.feeOpt(), Commit: g.r.Chance(commitP, 10)})
	if dst != -1 && !(amount == 0 && (variant == "erc20" || variant == "base" || variant == "notrace")) {
		g.pkts = append(g.pkts, gPkt{src: c, dst: dst, ackIdx: -1})
	}
}

// genSendMulti: one transaction with 2-3 sends.  About half of them are valid as a whole (pairwise different known
// destinations: every leg must get its commitment and its counter step); the others contain a leg that SendPacket
// refuses (a destination repeated: the contract numbers both legs with the same sequence; an unknown destination) at
// the first, a middle or the last position: the whole transaction must change nothing.
func (g *gen) genSendMulti() {
	c := g.r.Intn(nChains)
	valid := []int{(c + 1) % nChains, (c + 2) % nChains, -2}
	// shuffle
	for i := len(valid) - 1; i > 0; i-- {
		j := g.r.Intn(i + 1)
		valid[i], valid[j] = valid[j], valid[i]
	}
	n := 2 + g.r.Intn(2)
	legs := []Leg{}
	for i := 0; i < n; i++ {
		v := []string{"base", "erc20", "call"}[pick(g.r, []int{50, 30, 20})]
		legs = append(legs, Leg{Dst: valid[i], Variant: v, Amount: uint64(1 + g.r.Intn(500)), FeeOpt: g.feeOpt()})
	}
	ok := true
	if g.r.Chance(45, 100) {
		ok = false
		at := g.r.Intn(n)
		if g.r.Chance(1, 2) {
			legs[at].Dst = -1 // unknown destination
		} else {
			legs[at].Dst = legs[(at+1)%n].Dst // same destination twice: second one carries a wrong sequence
		}
	}
	g.add(Op{K: "send_multi", Chain: c, Legs: legs, Commit: g.r.Chance(6, 10)})
	if ok {
		for _, l := range legs {
			g.pkts = append(g.pkts, gPkt{src: c, dst: l.Dst, ackIdx: -1})
		}
	}
}

func (g *gen) genSendRaw() {
	c := g.r.Intn(nChains)
	dst := g.other(c)
	if g.r.Chance(1, 6) {
		dst = -1
	} else if g.r.Chance(1, 8) {
		dst = -2
	}
	delta := []int{0, 0, 0, 1, -1}[g.r.Intn(5)]
	mal := ""
	if g.r.Chance(2, 5) {
		mal = []string{"nodata", "srcwrong", "srceqdst", "seq0"}[g.r.Intn(4)]
	} else if g.r.Chance(1, 4) {
		mal = "junkcall" // well-formed for SendPacket; the destination callback FAILS on it
	}
	g.add(Op{K: "send_raw", Chain: c, Dst: dst, SeqDelta: delta, Mal: mal, Commit: g.r.Chance(6, 10)})
	if dst != -1 && delta == 0 && (mal == "" || mal == "junkcall") {
		g.pkts = append(g.pkts, gPkt{src: c, dst: dst, ackIdx: -1})
	}
}

// pickPkt: index of a packet with the wanted received-flag (-1 if none).
func (g *gen) pickPkt(recvd bool) int {
	var cand []int
	for i, p := range g.pkts {
		if p.recvd == recvd && p.dst >= 0 {
			cand = append(cand, i)
		}
	}
	if len(cand) == 0 {
		return -1
	}
	if !recvd && g.r.Chance(2, 3) {
		return cand[0] // oldest first most of the time, so that chains of events complete
	}
	return cand[g.r.Intn(len(cand))]
}

func (g *gen) genRecv() {
	if len(g.pkts) == 0 {
		g.genSend()
		return
	}
	dupP := map[string]int{"c01": 50, "c02": 25, "c04": 25, "c05": 20}[g.focus]
	dup := g.r.Chance(dupP, 100)
	i := g.pickPkt(dup)
	if i < 0 && dup {
		dup = false
		i = g.pickPkt(false)
	}
	if i < 0 {
		// nothing left to deliver for the first time: feed the pipeline (sometimes a stray duplicate instead)
		if g.r.Chance(3, 4) {
			g.genSend()
			return
		}
		i = g.r.Intn(len(g.pkts))
	}
	p := &g.pkts[i]
	op := Op{K: "recv", Pkt: i, Relayer: 0, FreshProof: true, Commit: g.r.Chance(7, 10)}
	op.Chain = p.dst
	if p.dst < 0 || g.r.Chance(1, 10) {
		op.Chain = g.r.Intn(nChains)
	}
	altP := map[string]int{"c01": 20, "c02": 50, "c04": 15, "c05": 15}[g.focus]
	if dup && g.focus == "c01" {
		altP = 45
	}
	if g.r.Chance(altP, 100) {
		max := 1
		if g.focus == "c02" {
			max = 3
		}
		from := recvAlters
		if dup && g.focus == "c01" {
			// duplicates: altered payload / proof / height (the relayer varies independently)
			from = []string{"payload", "proof_other", "proof_flip", "proof_empty", "height-1", "height+1", "height_old", "feeopt"}
		}
		op.Alter = g.someAlters(from, max)
	}
	encP := 20
	if dup {
		encP = 33
	}
	if g.r.Chance(encP, 100) {
		op.Enc = encs[g.r.Intn(len(encs))]
	}
	op.Relayer = g.relayer()
	if g.r.Chance(15, 100) {
		op.FreshProof = false
	}
	g.add(op)
	valid := len(op.Alter) == 0 && op.Chain == p.dst && op.Relayer != 2 && op.FreshProof && !p.recvd
	if valid {
		p.recvd = true
		p.ackIdx = len(g.acks)
		g.acks = append(g.acks, gAck{pkt: i, writer: op.Chain})
		// same-block duplicate right behind a first delivery that left its block open
		if !op.Commit && g.r.Chance(1, 2) {
			d := op
			d.Alter = nil
			d.Enc = ""
			if g.r.Chance(1, 2) {
				d.Enc = encs[g.r.Intn(len(encs))]
			}
			d.FreshProof = false
			d.Commit = true
			g.add(d)
		}
	}
}

func (g *gen) genAck() {
	if len(g.acks) == 0 {
		g.genRecv()
		return
	}
	dupP := map[string]int{"c01": 30, "c02": 20, "c04": 20, "c05": 35}[g.focus]
	dup := g.r.Chance(dupP, 100)
	var cand []int
	for i, a := range g.acks {
		if a.acked == dup && (a.pkt >= 0 || g.r.Chance(1, 8)) {
			cand = append(cand, i)
		}
	}
	var i int
	switch {
	case len(cand) == 0 && !dup && g.r.Chance(3, 4):
		g.genRecv() // nothing left to acknowledge for the first time: feed the pipeline
		return
	case len(cand) == 0:
		i = g.r.Intn(len(g.acks))
	case !dup && g.focus != "c05" && g.r.Chance(2, 3):
		i = cand[0]
	default:
		i = cand[g.r.Intn(len(cand))] // c05: acknowledgements in another order than the receives
	}
	a := &g.acks[i]
	src := a.writer // acknowledgement of a TSS packet: there is no source chain, offer it to the writer itself
	if a.pkt >= 0 {
		src = g.pkts[a.pkt].src
	}
	op := Op{K: "ack", Ack: i, Chain: src, FreshProof: true, Commit: g.r.Chance(7, 10)}
	if g.r.Chance(1, 10) {
		op.Chain = g.r.Intn(nChains)
	}
	altP := map[string]int{"c01": 15, "c02": 50, "c04": 15, "c05": 30}[g.focus]
	if g.r.Chance(altP, 100) {
		max := 1
		if g.focus == "c02" {
			max = 3
		}
		op.Alter = g.someAlters(ackAlters, max)
	}
	op.Relayer = g.relayer()
	if g.r.Chance(15, 100) {
		op.FreshProof = false
	}
	g.add(op)
	if len(op.Alter) == 0 && a.pkt >= 0 && op.Chain == src && op.FreshProof && !a.acked {
		a.acked = true
	}
}

func (g *gen) genOp() {
	w := kindWeights[g.focus]
	if w == nil {
		w = kindWeights["c01"]
	}
	switch kinds[pick(g.r, w)] {
	case "send":
		g.genSend()
	case "send_raw":
		g.genSendRaw()
	case "send_multi":
		g.genSendMulti()
	case "recv":
		g.genRecv()
	case "recv_tss":
		c := g.r.Intn(nChains)
		variant := []string{"transfer", "junk", "junkcall"}[pick(g.r, []int{40, 35, 25})]
		op := Op{K: "recv_tss", Chain: c, Seq: uint64(1 + g.r.Intn(4)), DstSelf: !g.r.Chance(15, 100),
			Relayer: pick(g.r, []int{70, 15, 15}), Variant: variant, Commit: g.r.Chance(7, 10)}
		if g.r.Chance(1, 10) {
			op.Mal = "height0" // zero proof height: ValidateBasic refuses what the TSS client would let through
		} else if g.r.Chance(1, 8) {
			// the public TSS address in the PROOF field, signed by another account: only the signer counts
			op.Mal, op.Relayer = "proof_tssaddr", 1+g.r.Intn(2)
		}
		if g.r.Chance(1, 8) {
			// a source chain for which no client exists (RecvPacket: client not found), addressed to this chain
			op.Src, op.Dst, op.DstSelf = unknownChain, c, false
		}
		g.add(op)
		if k := [2]int{c, int(op.Seq)}; op.DstSelf && op.Relayer == 0 && !g.tssSeen[k] {
			g.tssSeen[k] = true
			g.acks = append(g.acks, gAck{pkt: -1, writer: c})
		}
	case "ack":
		g.genAck()
	case "ack_tss":
		// a packet to the TSS-secured name first (if this history has none yet), then its acknowledgement
		c := g.r.Intn(nChains)
		if !g.tssSent[c] || g.r.Chance(1, 3) {
			g.tssSent[c] = true
			g.add(Op{K: "send", Chain: c, Dst: -2, Variant: []string{"erc20", "base"}[g.r.Intn(2)], Amount: uint64(1 + g.r.Intn(100)), Fee: uint64(g.r.Intn(4)), FeeOpt: g.feeOpt(), Commit: g.r.Chance(7, 10)})
			g.pkts = append(g.pkts, gPkt{src: c, dst: -2, ackIdx: -1})
		}
		variant := []string{"good", "err", "garbage", "zero", "badrelayer", "emptyack"}[pick(g.r, []int{40, 18, 12, 12, 12, 6})]
		mal := ""
		rel := pick(g.r, []int{80, 12, 8})
		if g.r.Chance(1, 10) {
			mal = "height0"
		} else if g.r.Chance(1, 6) {
			mal, rel = "proof_tssaddr", 1+g.r.Intn(2)
		}
		g.add(Op{K: "ack_tss", Chain: c, Pkt: g.r.Intn(4), Variant: variant, Mal: mal, Relayer: rel, Commit: g.r.Chance(7, 10)})
	case "recv_eth":
		variant := []string{"good", "decoy", "otherslot", "payload", "ackslot", "height+1", "height-1", "nodelay", "future", "emptyproof",
			"forged_storage", "forged_nonce", "forged_balance", "forged_codehash", "forged_account"}[pick(g.r, []int{40, 8, 7, 7, 4, 3, 3, 5, 3, 3, 8, 2, 2, 2, 3})]
		g.add(Op{K: "recv_eth", Chain: g.r.Intn(nChains), Seq: uint64(1 + g.r.Intn(3)), Variant: variant, Type: []string{"", "bsc"}[g.r.Intn(2)], Relayer: pick(g.r, []int{80, 12, 8}), Commit: g.r.Chance(7, 10)})
	case "ack_eth":
		c := g.r.Intn(nChains)
		typ, dst := "", -3
		if g.r.Bool() {
			typ, dst = "bsc", -4
		}
		if !g.ethSent[[2]int{c, dst}] || g.r.Chance(1, 2) {
			g.ethSent[[2]int{c, dst}] = true
			g.add(Op{K: "send", Chain: c, Dst: dst, Variant: []string{"erc20", "base"}[g.r.Intn(2)], Amount: uint64(1 + g.r.Intn(100)), Fee: uint64(g.r.Intn(4)), FeeOpt: g.feeOpt(), Commit: g.r.Chance(7, 10)})
			g.pkts = append(g.pkts, gPkt{src: c, dst: dst, ackIdx: -1})
		}
		variant := []string{"good", "decoy", "otherslot", "commitslot", "ackbytes", "nodelay", "forged_storage", "forged_codehash"}[pick(g.r, []int{42, 12, 9, 9, 9, 8, 8, 3})]
		g.add(Op{K: "ack_eth", Chain: c, Pkt: g.r.Intn(4), Variant: variant, Type: typ, Relayer: pick(g.r, []int{80, 12, 8}), Commit: g.r.Chance(7, 10)})
	case "update":
		c := g.r.Intn(nChains)
		g.add(Op{K: "update", Chain: c, Peer: g.other(c), Relayer: pick(g.r, []int{85, 8, 7}), Commit: g.r.Chance(7, 10)})
	case "block":
		g.add(Op{K: "block", Chain: g.r.Intn(nChains)})
	case "reg_relayer":
		c := g.r.Intn(nChains)
		var chains []int
		for d := 0; d < nChains; d++ {
			if d != c && g.r.Chance(2, 3) {
				chains = append(chains, d)
			}
		}
		g.add(Op{K: "reg_relayer", Chain: c, Relayer: 1 + g.r.Intn(2), Chains: chains})
	}
}

// happy: send a->b, update, recv on b, update, ack on a
func (g *gen) happy(a, b int, variant string, explicitUpdates bool) {
	g.add(Op{K: "send", Chain: a, Dst: b, Variant: variant, Amount: 100, Fee: 1, FeeOpt: uint64(a), Commit: true}) // fee options 0, 1, 2
	i := len(g.pkts)
	g.pkts = append(g.pkts, gPkt{src: a, dst: b, recvd: true, ackIdx: len(g.acks)})
	if explicitUpdates {
		g.add(Op{K: "update", Chain: b, Peer: a, Relayer: 0, Commit: true})
	}
	g.add(Op{K: "recv", Chain: b, Pkt: i, Relayer: 0, FreshProof: !explicitUpdates, Commit: true})
	j := len(g.acks)
	g.acks = append(g.acks, gAck{pkt: i, writer: b, acked: true})
	if explicitUpdates {
		g.add(Op{K: "update", Chain: a, Peer: b, Relayer: 0, Commit: true})
	}
	g.add(Op{K: "ack", Chain: a, Ack: j, Relayer: 0, FreshProof: !explicitUpdates, Commit: true})
}

func genSpec(r *hlib.Rand, seed uint64, idx, steps int, focus string) Spec {
	g := &gen{r: r, focus: focus, tssSeen: map[[2]int]bool{}, tssSent: map[int]bool{}, ethSent: map[[2]int]bool{}}
	s := Spec{Case: idx, Seed: seed, Focus: focus}
	switch {
	case idx == 0:
		// corpus: the happy path on all three pairs + one duplicate of each message
		for k, pr := range [][2]int{{0, 1}, {1, 2}, {2, 0}} {
			variant := []string{"erc20", "base", "call"}[k]
			g.happy(pr[0], pr[1], variant, k == 0)
			g.add(Op{K: "recv", Chain: pr[1], Pkt: k, Relayer: 0, FreshProof: true, Commit: true})
			g.add(Op{K: "ack", Chain: pr[0], Ack: k, Relayer: 0, FreshProof: true, Commit: true})
		}
	case idx == 1 && focus == "c05":
		// corpus: the O7 history.  SINCE FIX a9e74e1 THE FIRST STEP — the governance proposal creating a client under
		// the chain's own name — IS REFUSED (monitor 25 otherwise) and everything built on it is rejected.  Before the fix:
		// replay of an acknowledgement.  The self-named TSS client lets a copy of the already
		// acknowledged packet through the relay branch of Keeper.RecvPacket, which re-creates commitment
		// (A,B,1) with the same hash; the same MsgAcknowledgement is then offered again.
		s.O7 = true
		g.add(Op{K: "create_client", Chain: 0, Name: "self", Type: "tss"}) // + reg_relayer step (peers kept)
		g.add(Op{K: "send", Chain: 0, Dst: 1, Variant: "erc20", Amount: 100, Fee: 3, Commit: true})
		g.add(Op{K: "update", Chain: 1, Peer: 0, Relayer: 0, Commit: true})
		g.add(Op{K: "recv", Chain: 1, Pkt: 0, Relayer: 0, FreshProof: false, Commit: true})
		g.add(Op{K: "update", Chain: 0, Peer: 1, Relayer: 0, Commit: true})
		g.add(Op{K: "ack", Chain: 0, Ack: 0, Relayer: 0, FreshProof: false, Commit: true})
		g.add(Op{K: "recv_tss", Chain: 0, Variant: "copy", Pkt: 0, Relayer: 0, Commit: true})
		// another packet's fee waits in the packet contract: the replayed acknowledgement is ACCEPTED and the
		// fee of packet 1 is paid a second time out of it (without it sendPacketFeeToRelayer reverts for lack of funds)
		g.add(Op{K: "send", Chain: 0, Dst: 1, Variant: "erc20", Amount: 50, Fee: 5, Commit: true})
		g.add(Op{K: "ack", Chain: 0, Ack: 0, Relayer: 0, FreshProof: true, Commit: true})
		g.add(Op{K: "ack", Chain: 0, Ack: 0, Relayer: 0, FreshProof: true, Commit: true})
	case idx == 1 && focus == "c04":
		// corpus: the O7 history (since fix a9e74e1 the create proposal is refused, the forged receives are rejected)
		s.O7 = true
		g.add(Op{K: "create_client", Chain: 0, Name: "self", Type: "tss"})
		g.add(Op{K: "send", Chain: 0, Dst: 1, Variant: "erc20", Amount: 100, Fee: 1, Commit: true})
		g.add(Op{K: "recv_tss", Chain: 0, Seq: 1, Src: "self", Dst: 1, Relayer: 0, Variant: "junk", Commit: true})
		g.add(Op{K: "recv_tss", Chain: 0, Seq: 7, Src: "self", Dst: 1, Relayer: 0, Variant: "junk", Commit: true})
		// the genuine packet (pool 0) and the two forged ones (pool 1, 2) offered to the destination
		g.add(Op{K: "recv", Chain: 1, Pkt: 0, Relayer: 0, FreshProof: true, Commit: true})
		g.add(Op{K: "recv", Chain: 1, Pkt: 1, Relayer: 0, FreshProof: true, Commit: true})
		g.add(Op{K: "recv", Chain: 1, Pkt: 2, Relayer: 0, FreshProof: true, Commit: true})
		g.add(Op{K: "send", Chain: 0, Dst: 1, Variant: "erc20", Amount: 50, Fee: 0, Commit: true})
		g.add(Op{K: "ack", Chain: 0, Ack: 0, Relayer: 0, FreshProof: true, Commit: true})
		g.add(Op{K: "ack", Chain: 0, Ack: 1, Relayer: 0, FreshProof: true, Commit: true})
		// with the self-named client the message server's "dstChain not found" error acknowledgement is reachable
		g.add(Op{K: "recv_tss", Chain: 0, Seq: 9, Src: "self", Dst: -1, Relayer: 0, Variant: "junk", Commit: true})
	case idx == 1:
		// corpus: duplicates and re-encodings
		g.add(Op{K: "send", Chain: 0, Dst: 1, Variant: "base", Amount: 100, Fee: 2, Commit: true})
		g.add(Op{K: "send", Chain: 0, Dst: 1, Variant: "erc20", Amount: 10, Fee: 0, Commit: true})
		g.add(Op{K: "send", Chain: 1, Dst: 2, Variant: "erc20", Amount: 7, Fee: 1, Commit: true})
		g.add(Op{K: "recv", Chain: 1, Pkt: 0, Enc: "gap", Relayer: 0, FreshProof: true, Commit: false})
		g.add(Op{K: "recv", Chain: 1, Pkt: 0, Relayer: 0, FreshProof: false, Commit: false})
		g.add(Op{K: "recv", Chain: 1, Pkt: 0, Enc: "trailing", Relayer: 1, FreshProof: false, Commit: true})
		g.add(Op{K: "recv", Chain: 1, Pkt: 0, Enc: "dirtypad", Relayer: 0, FreshProof: true, Commit: true})
		g.add(Op{K: "recv", Chain: 1, Pkt: 1, Enc: "trailing", Relayer: 1, FreshProof: true, Commit: true})
		g.add(Op{K: "recv", Chain: 1, Pkt: 1, Alter: []string{"payload"}, Relayer: 0, FreshProof: true, Commit: true})
		g.add(Op{K: "recv", Chain: 2, Pkt: 2, Enc: "dirtypad", Relayer: 0, FreshProof: true, Commit: true})
		g.add(Op{K: "recv", Chain: 2, Pkt: 2, Enc: "gap", Relayer: 2, FreshProof: true, Commit: true})
		g.add(Op{K: "ack", Chain: 0, Ack: 0, Relayer: 0, FreshProof: true, Commit: false})
		g.add(Op{K: "ack", Chain: 0, Ack: 0, Relayer: 0, FreshProof: false, Commit: true})
		g.add(Op{K: "ack", Chain: 0, Ack: 1, Alter: []string{"ackbytes"}, Relayer: 0, FreshProof: true, Commit: true})
		g.add(Op{K: "ack", Chain: 0, Ack: 1, Relayer: 1, FreshProof: true, Commit: true})
		g.add(Op{K: "ack", Chain: 0, Ack: 1, Relayer: 0, FreshProof: true, Commit: true})
		g.add(Op{K: "ack", Chain: 1, Ack: 2, Relayer: 0, FreshProof: true, Commit: true})
		g.add(Op{K: "ack", Chain: 1, Ack: 2, Relayer: 0, FreshProof: true, Commit: true})
	case idx == 2:
		// corpus: transactions carrying SEVERAL sends (a contract calling Endpoint.crossChainCall more than once).
		// Every send of an accepted transaction gets its commitment and counter step; a transaction with a send that
		// SendPacket refuses (first, middle or last position) changes nothing.  Pool indices in comments.
		base := func(d int, a uint64) Leg { return Leg{Dst: d, Variant: "base", Amount: a} }
		g.add(Op{K: "send", Chain: 0, Dst: 1, Variant: "erc20", Amount: 100, Fee: 1, Commit: true})                                                               // 0: (A,B,1)
		g.add(Op{K: "send_multi", Chain: 0, Legs: []Leg{{Dst: 1, Variant: "base", Amount: 100, FeeOpt: 2}, base(2, 70)}, Commit: true})                           // 1: (A,B,2)  2: (A,C,1)
		g.add(Op{K: "send_multi", Chain: 0, Legs: []Leg{base(1, 10), base(1, 20)}, Commit: false})                                                                // B twice: rejected
		g.add(Op{K: "send_multi", Chain: 0, Legs: []Leg{base(2, 5), base(-1, 6)}, Commit: false})                                                                 // unknown last: rejected
		g.add(Op{K: "send_multi", Chain: 0, Legs: []Leg{base(-1, 6), base(2, 5)}, Commit: true})                                                                  // unknown first: rejected
		g.add(Op{K: "send_multi", Chain: 0, Legs: []Leg{base(-2, 5), {Dst: 2, Variant: "erc20", Amount: 7}, {Dst: 1, Variant: "call", Amount: 9}}, Commit: true}) // 3: (A,tss-0,1) 4: (A,C,2) 5: (A,B,3)
		g.add(Op{K: "send_multi", Chain: 0, Legs: []Leg{base(1, 3), base(2, 4), base(1, 5)}, Commit: true})                                                       // B first and last: rejected
		g.add(Op{K: "send_multi", Chain: 1, Legs: []Leg{base(0, 11), base(0, 12)}, Commit: false})                                                                // rejected
		g.add(Op{K: "send_multi", Chain: 1, Legs: []Leg{base(2, 3), {Dst: 0, Variant: "erc20", Amount: 4}}, Commit: true})                                        // 6: (B,C,1) 7: (B,A,1)
		g.add(Op{K: "send", Chain: 0, Dst: 2, Variant: "base", Amount: 8, Fee: 0, Commit: true})                                                                  // 8: (A,C,3)
		// keeper-level SendPacket, one refusal reason at a time (none of them enters the pool), on chain C
		for _, x := range []struct {
			d   int
			mal string
			dst int
		}{{1, "", 0}, {-1, "", 0}, {0, "nodata", 0}, {0, "srcwrong", 0}, {0, "srceqdst", 0}, {0, "seq0", 0}, {0, "", -1}} {
			g.add(Op{K: "send_raw", Chain: 2, Dst: x.dst, SeqDelta: x.d, Mal: x.mal, Commit: false})
		}
		for _, x := range [][2]int{{1, 1}, {2, 2}, {2, 4}, {1, 5}, {1, 0}, {2, 6}, {0, 7}, {2, 8}} {
			g.add(Op{K: "recv", Chain: x[0], Pkt: x[1], Relayer: 0, FreshProof: true, Commit: true})
		}
		g.add(Op{K: "recv", Chain: 2, Pkt: 2, Relayer: 0, FreshProof: true, Commit: true}) // duplicate
		for a := 0; a < 8; a++ {
			src := 0
			if a == 5 || a == 6 {
				src = 1
			}
			g.add(Op{K: "ack", Chain: src, Ack: a, Relayer: 0, FreshProof: true, Commit: true})
		}
		g.add(Op{K: "ack", Chain: 0, Ack: 1, Relayer: 0, FreshProof: true, Commit: true}) // duplicate
		// acknowledgements of (A,tss-0,1) (pool 3) through the TSS client: the signer is the only proof
		g.add(Op{K: "send", Chain: 0, Dst: -2, Variant: "erc20", Amount: 9, Fee: 2, Commit: true})                                 // 9: (A,tss-0,2)
		g.add(Op{K: "ack_tss", Chain: 0, Pkt: 0, Variant: "good", Relayer: 1, Commit: true})                                       // wrong signer: rejected
		g.add(Op{K: "ack_tss", Chain: 0, Pkt: 0, Variant: "good", Mal: "proof_tssaddr", Relayer: 1, Commit: true})                 // wrong signer, TSS address in ProofAcked: rejected
		g.add(Op{K: "ack_tss", Chain: 0, Pkt: 0, Variant: "err", Mal: "proof_tssaddr", Relayer: 2, Commit: true})                  // the same from an unregistered account
		g.add(Op{K: "ack_tss", Chain: 0, Pkt: 0, Variant: "garbage", Relayer: 0, Commit: true})                                    // undecodable ack: rejected
		g.add(Op{K: "ack_tss", Chain: 0, Pkt: 0, Variant: "zero", Relayer: 0, Commit: true})                                       // all-zero ack: rejected
		g.add(Op{K: "ack_tss", Chain: 0, Pkt: 0, Variant: "badrelayer", Relayer: 0, Commit: true})                                 // unknown relayer: rejected
		g.add(Op{K: "ack_tss", Chain: 0, Pkt: 0, Variant: "good", Mal: "height0", Relayer: 0, Commit: true})                       // zero height: ValidateBasic
		g.add(Op{K: "ack_tss", Chain: 0, Pkt: 0, Variant: "emptyack", Relayer: 0, Commit: true})                                   // empty ack bytes: ValidateBasic
		g.add(Op{K: "ack_tss", Chain: 0, Pkt: 0, Variant: "good", Relayer: 0, Commit: true})                                       // accepted
		g.add(Op{K: "ack_tss", Chain: 0, Pkt: 0, Variant: "err", Relayer: 0, Commit: true})                                        // second ack: rejected
		g.add(Op{K: "ack_tss", Chain: 0, Pkt: 1, Variant: "err", Relayer: 0, Commit: true})                                        // error ack of (A,tss-0,2): refund
		g.add(Op{K: "recv_tss", Chain: 1, Seq: 1, Src: unknownChain, Dst: 1, Relayer: 0, Variant: "junk", Commit: true})           // no client for the source
		g.add(Op{K: "recv_tss", Chain: 1, Seq: 5, DstSelf: true, Relayer: 0, Variant: "junk", Mal: "height0", Commit: true})       // zero height: ValidateBasic
		g.add(Op{K: "recv_tss", Chain: 1, Seq: 5, DstSelf: true, Relayer: 1, Variant: "junk", Mal: "proof_tssaddr", Commit: true}) // TSS address in ProofCommitment, signed by another relayer: rejected
		g.add(Op{K: "recv_tss", Chain: 1, Seq: 5, DstSelf: true, Relayer: 1, Variant: "junk", Commit: true})                       // the same without proof: rejected
		g.add(Op{K: "recv_tss", Chain: 1, Seq: 5, DstSelf: true, Relayer: 0, Variant: "junk", Commit: true})                       // accepted
	case idx == 3:
		// corpus: ONE guard at a time.  Every message below is a genuine, provable message with exactly one thing
		// altered, offered while the genuine one is still pending (so only the guard in question stands between the
		// message and its acceptance); the genuine message follows and must be accepted.
		g.add(Op{K: "send", Chain: 0, Dst: 1, Variant: "erc20", Amount: 100, Fee: 2, FeeOpt: 2, Commit: true}) // pool 0: (A,B,1), fee option 2
		g.add(Op{K: "send", Chain: 0, Dst: 1, Variant: "base", Amount: 50, Fee: 1, Commit: true})              // pool 1: (A,B,2)
		g.add(Op{K: "send", Chain: 1, Dst: 2, Variant: "call", Amount: 7, Fee: 0, FeeOpt: 1, Commit: true})    // pool 2: (B,C,1), fee option 1
		for i, a := range []string{"payload", "feeopt", "sender", "callback", "calldata", "seq+1", "seq-1", "swap", "src", "dst",
			"height+1", "height-1", "proof_other", "proof_flip", "proof_empty"} {
			g.add(Op{K: "recv", Chain: 1, Pkt: 0, Alter: []string{a}, Relayer: 0, FreshProof: i == 0, Commit: i%4 == 3})
		}
		g.add(Op{K: "recv", Chain: 1, Pkt: 0, Relayer: 2, FreshProof: false, Commit: false}) // unregistered relayer
		g.add(Op{K: "recv", Chain: 1, Pkt: 0, Relayer: 0, FreshProof: false, Commit: false}) // genuine: accepted
		g.add(Op{K: "recv", Chain: 1, Pkt: 0, Enc: "gap", Relayer: 1, FreshProof: false, Commit: true})
		g.add(Op{K: "recv", Chain: 1, Pkt: 1, Relayer: 1, FreshProof: true, Commit: true}) // second relayer: accepted
		g.add(Op{K: "recv", Chain: 2, Pkt: 2, Relayer: 0, FreshProof: true, Commit: true})
		for i, a := range []string{"packet_payload", "feeopt", "sender", "callback", "calldata", "seq+1", "swap", "ackbytes",
			"height+1", "height-1", "proof_other", "proof_flip", "garbage_ack", "garbage_packet"} {
			g.add(Op{K: "ack", Chain: 0, Ack: 0, Alter: []string{a}, Relayer: 0, FreshProof: i == 0, Commit: i%4 == 3})
		}
		g.add(Op{K: "ack", Chain: 0, Ack: 0, Relayer: 2, FreshProof: false, Commit: false}) // genuine, unregistered signer (no signer check on acks)
		g.add(Op{K: "ack", Chain: 0, Ack: 0, Relayer: 0, FreshProof: false, Commit: true})  // duplicate or first
		g.add(Op{K: "ack", Chain: 0, Ack: 1, Alter: []string{"packet_payload"}, Relayer: 0, FreshProof: true, Commit: true})
		g.add(Op{K: "ack", Chain: 0, Ack: 1, Relayer: 1, FreshProof: true, Commit: true})
		g.add(Op{K: "ack", Chain: 0, Ack: 1, Relayer: 0, FreshProof: true, Commit: true})
		g.add(Op{K: "ack", Chain: 1, Ack: 2, Alter: []string{"sender"}, Relayer: 0, FreshProof: true, Commit: true})
		g.add(Op{K: "ack", Chain: 1, Ack: 2, Relayer: 0, FreshProof: true, Commit: true})
		// destination executions that FAIL: by EVM error (call data the packet contract cannot decode: the message
		// server writes the error acknowledgement) and by result code (token without trace: code 2).  Receipt and
		// acknowledgement must persist although the callback's branch is dropped: the duplicate is refused, the
		// acknowledgement is processed once on the source.
		g.add(Op{K: "send_raw", Chain: 1, Dst: 2, Mal: "junkcall", Commit: true})                              // pool 3: (B,C,2)
		g.add(Op{K: "send", Chain: 0, Dst: 1, Variant: "notrace", Amount: 9, Fee: 1, FeeOpt: 7, Commit: true}) // pool 4: (A,B,3), fee option 7, destination execution fails by code
		g.add(Op{K: "send", Chain: 0, Dst: 1, Variant: "callrevert", Amount: 6, Fee: 0, Commit: true})         // pool 5: (A,B,4)
		for _, x := range [][2]int{{2, 3}, {1, 4}, {1, 5}} {
			g.add(Op{K: "recv", Chain: x[0], Pkt: x[1], Relayer: 0, FreshProof: true, Commit: false}) // accepted, ack 3 / 4 / 5
			g.add(Op{K: "recv", Chain: x[0], Pkt: x[1], Relayer: 0, FreshProof: false, Commit: true}) // duplicate in the same block
			g.add(Op{K: "recv", Chain: x[0], Pkt: x[1], Relayer: 1, FreshProof: true, Commit: true})  // duplicate later
		}
		g.add(Op{K: "ack", Chain: 1, Ack: 3, Relayer: 0, FreshProof: true, Commit: true})
		g.add(Op{K: "ack", Chain: 0, Ack: 4, Relayer: 0, FreshProof: true, Commit: true})
		g.add(Op{K: "ack", Chain: 0, Ack: 4, Relayer: 0, FreshProof: true, Commit: true}) // duplicate
		g.add(Op{K: "ack", Chain: 0, Ack: 5, Relayer: 0, FreshProof: true, Commit: true})
		// a duplicate acknowledgement while ANOTHER packet's fee waits in the packet contract (the contract itself
		// has no replay protection: with funds available a second sendPacketFeeToRelayer succeeds): only the deleted
		// commitment stands between the duplicate and a second pay-out
		g.add(Op{K: "send", Chain: 0, Dst: 1, Variant: "erc20", Amount: 20, Fee: 5, Commit: true}) // pool 6: (A,B,5), fee pending
		g.add(Op{K: "ack", Chain: 0, Ack: 0, Relayer: 0, FreshProof: true, Commit: true})          // duplicate of the first acknowledgement
		g.add(Op{K: "ack", Chain: 0, Ack: 1, Relayer: 0, FreshProof: false, Commit: true})         // and of the second
		// post-processing failure INSIDE a destination callback: the agent contract on B sends the tokens on to a chain B
		// has no client for — the EVM run succeeds and emits PacketSent, the packet hook fails in SendPacket: the whole
		// callback must count as failed (error acknowledgement, nothing minted, no commitment); then the working route
		g.add(Op{K: "send", Chain: 0, Dst: 1, Variant: "agent_unknown", Amount: 5, Fee: 0, FeeOpt: 2, Commit: true}) // pool 7: (A,B,6)
		g.add(Op{K: "recv", Chain: 1, Pkt: 7, Relayer: 0, FreshProof: true, Commit: true})                           // ack 6: error ack
		g.add(Op{K: "ack", Chain: 0, Ack: 6, Relayer: 0, FreshProof: true, Commit: true})
		g.add(Op{K: "send", Chain: 0, Dst: 1, Variant: "agent", Amount: 5, Fee: 0, FeeOpt: 1, Commit: true}) // pool 8: (A,B,7)
		g.add(Op{K: "recv", Chain: 1, Pkt: 8, Relayer: 0, FreshProof: true, Commit: true})                   // ack 7; onward packet pool 9: (B,C,3)
		g.add(Op{K: "recv", Chain: 2, Pkt: 9, Relayer: 0, FreshProof: true, Commit: true})
	case idx == 4:
		// corpus: an Ethereum-secured counterparty (MPT storage proofs).  One alteration at a time: a genuine proof
		// of ANOTHER storage slot (decoy: a slot that really holds this packet's commitment / this acknowledgement's
		// hash but is not the slot of (src,dst,seq); the slot of another sequence; the acknowledgement slot), an
		// altered packet with the genuine proof, heights without consensus state, no proof; then the genuine message.
		for ti, typ := range []string{"", "bsc"} {
			dst := -3 - ti
			for i, v := range []string{"decoy", "otherslot", "payload", "ackslot", "height+1", "height-1", "nodelay", "future", "emptyproof"} {
				g.add(Op{K: "recv_eth", Chain: ti, Seq: 1, Variant: v, Type: typ, Relayer: 0, Commit: i%3 == 2})
			}
			// the relayer forges the part of the proof the state root does not bind directly: a storage root of his own
			// trie (holding the commitment of a packet that was never sent), account fields, a state trie of his own
			for i, v := range []string{"forged_storage", "forged_nonce", "forged_balance", "forged_codehash", "forged_account"} {
				g.add(Op{K: "recv_eth", Chain: ti, Seq: 1, Variant: v, Type: typ, Relayer: 0, Commit: i%3 == 2})
			}
			g.add(Op{K: "recv_eth", Chain: ti, Seq: 1, Variant: "good", Type: typ, Relayer: 2, Commit: false}) // unregistered relayer
			g.add(Op{K: "recv_eth", Chain: ti, Seq: 1, Variant: "good", Type: typ, Relayer: 0, Commit: false}) // accepted
			g.add(Op{K: "recv_eth", Chain: ti, Seq: 1, Variant: "good", Type: typ, Relayer: 0, Commit: true})  // duplicate
			g.add(Op{K: "recv_eth", Chain: ti, Seq: 2, Variant: "good", Type: typ, Relayer: 0, Commit: true})
			for k := 0; k < 4; k++ {
				g.add(Op{K: "send", Chain: ti, Dst: dst, Variant: []string{"erc20", "base"}[k%2], Amount: uint64(10 + k), Fee: uint64(k % 3), FeeOpt: uint64(k % 2 * 7), Commit: k%2 == 1}) // (X, eth-i | bsc-i, k+1)
			}
			for i, v := range []string{"decoy", "otherslot", "commitslot", "ackbytes", "nodelay"} {
				g.add(Op{K: "ack_eth", Chain: ti, Pkt: 0, Variant: v, Type: typ, Relayer: 0, Commit: i%2 == 1})
			}
			g.add(Op{K: "ack_eth", Chain: ti, Pkt: 0, Variant: "forged_storage", Type: typ, Relayer: 0, Commit: false}) // forged error ack over a relayer-built storage trie
			g.add(Op{K: "ack_eth", Chain: ti, Pkt: 0, Variant: "forged_codehash", Type: typ, Relayer: 0, Commit: true})
			g.add(Op{K: "ack_eth", Chain: ti, Pkt: 0, Variant: "good", Type: typ, Relayer: 0, Commit: false}) // accepted
			g.add(Op{K: "ack_eth", Chain: ti, Pkt: 0, Variant: "good", Type: typ, Relayer: 0, Commit: true})  // duplicate
			g.add(Op{K: "ack_eth", Chain: ti, Pkt: 3, Variant: "good", Type: typ, Relayer: 0, Commit: true})  // sequence 4: its slot is empty
			g.add(Op{K: "ack_eth", Chain: ti, Pkt: 3, Variant: "decoy", Type: typ, Relayer: 0, Commit: true}) // sequence 4: the hash exists under the decoy key only
			g.add(Op{K: "ack_eth", Chain: ti, Pkt: 1, Variant: "good", Type: typ, Relayer: 1, Commit: true})
		}
		g.add(Op{K: "recv_eth", Chain: 2, Seq: 3, Variant: "good", Relayer: 0, Commit: true})
	case idx == 5:
		// corpus: governance between a send and its receive / acknowledgement.  An UPGRADE keeps the consensus states the
		// client accepted (an old proof height still verifies); a TOGGLE (Tendermint -> TSS -> Tendermint) installs a new
		// client instance that holds NONE of the old consensus states: a proof height from before the toggle must be
		// refused although the proof itself is genuine, and the fresh proof is accepted.
		g.add(Op{K: "send", Chain: 0, Dst: 1, Variant: "erc20", Amount: 30, Fee: 1, FeeOpt: 1, Commit: true}) // pool 0: (A,B,1)
		g.add(Op{K: "send", Chain: 0, Dst: 1, Variant: "base", Amount: 31, Fee: 0, FeeOpt: 0, Commit: true})  // pool 1: (A,B,2)
		g.add(Op{K: "update", Chain: 1, Peer: 0, Relayer: 0, Commit: true})                                   // B's client of A now proves both
		g.add(Op{K: "block", Chain: 0})
		g.add(Op{K: "upgrade_client", Chain: 1, Peer: 0, Type: "tm", Commit: true})
		g.add(Op{K: "recv", Chain: 1, Pkt: 1, Alter: []string{"height_pretoggle"}, Relayer: 0, FreshProof: false, Commit: true}) // height from before the upgrade: still accepted
		g.add(Op{K: "toggle_client", Chain: 1, Peer: 0, Type: "tss", Commit: true})
		g.add(Op{K: "recv", Chain: 1, Pkt: 0, Relayer: 1, FreshProof: false, Commit: true}) // TSS now: signer is not the TSS address
		g.add(Op{K: "block", Chain: 0})
		g.add(Op{K: "toggle_client", Chain: 1, Peer: 0, Type: "tm", Commit: true})
		g.add(Op{K: "recv", Chain: 1, Pkt: 0, Alter: []string{"height_pretoggle"}, Relayer: 0, FreshProof: false, Commit: true}) // genuine proof, height only the OLD instance accepted: refused
		g.add(Op{K: "recv", Chain: 1, Pkt: 0, Alter: []string{"height_old"}, Relayer: 0, FreshProof: false, Commit: true})
		g.add(Op{K: "recv", Chain: 1, Pkt: 0, Relayer: 0, FreshProof: true, Commit: true}) // accepted (ack 1; ack 0 came from the upgrade step)
		// the acknowledgement side, on A
		g.add(Op{K: "update", Chain: 0, Peer: 1, Relayer: 0, Commit: true})
		g.add(Op{K: "toggle_client", Chain: 0, Peer: 1, Type: "tss", Commit: true})
		g.add(Op{K: "block", Chain: 1})
		g.add(Op{K: "toggle_client", Chain: 0, Peer: 1, Type: "tm", Commit: true})
		g.add(Op{K: "ack", Chain: 0, Ack: 1, Alter: []string{"height_pretoggle"}, Relayer: 0, FreshProof: false, Commit: true}) // refused
		g.add(Op{K: "ack", Chain: 0, Ack: 1, Relayer: 0, FreshProof: true, Commit: true})                                       // accepted
		g.add(Op{K: "ack", Chain: 0, Ack: 0, Relayer: 0, FreshProof: true, Commit: true})                                       // accepted
		g.add(Op{K: "toggle_client", Chain: 0, Peer: 1, Type: "tm", Commit: true})                                              // same type: refused
	default:
		if focus == "c02" && r.Chance(1, 6) {
			// a toggle scenario with random choices inside an ordinary history
			a := r.Intn(nChains)
			b := (a + 1 + r.Intn(nChains-1)) % nChains
			g.add(Op{K: "send", Chain: a, Dst: b, Variant: "erc20", Amount: uint64(1 + r.Intn(50)), Fee: 0, FeeOpt: g.feeOpt(), Commit: true})
			g.pkts = append(g.pkts, gPkt{src: a, dst: b, ackIdx: -1})
			g.add(Op{K: "update", Chain: b, Peer: a, Relayer: 0, Commit: true})
			if r.Bool() {
				g.add(Op{K: "upgrade_client", Chain: b, Peer: a, Type: "tm", Commit: true})
			}
			g.add(Op{K: "toggle_client", Chain: b, Peer: a, Type: "tss", Commit: true})
			g.add(Op{K: "block", Chain: a})
			g.add(Op{K: "toggle_client", Chain: b, Peer: a, Type: "tm", Commit: r.Bool()})
			g.add(Op{K: "recv", Chain: b, Pkt: 0, Alter: []string{"height_pretoggle"}, Relayer: 0, FreshProof: false, Commit: true})
		}
		if r.Bool() {
			g.happy(0, 1, "erc20", true)
		}
		for len(g.ops) < steps {
			g.genOp()
		}
	}
	s.Ops = g.ops
	return s
}
