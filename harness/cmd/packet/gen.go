package main

import (
	"verifharness/hlib"
)

// The generator is a pure function of the PRNG: it keeps an ABSTRACT picture of the history (which
// packets it expects to be in the pools, which of them it expects to be received / acknowledged) to
// bias the choice of indices.  The picture may be wrong (a send may fail); indices are taken modulo
// the real pool size when the op runs, so every Spec is executable.

type gPkt struct {
	src, dst int // dst: 0..2 peer, -2 tss name
	recvd    bool
	ackIdx   int // index in the expected ack pool, -1 if none
}

type gAck struct {
	pkt    int
	writer int
	acked  bool
}

type gen struct {
	r       *hlib.Rand
	focus   string
	ops     []Op
	pkts    []gPkt
	acks    []gAck
	tssSeen map[[2]int]bool // (chain, seq) of TSS packets expected to be received already
}

func pick(r *hlib.Rand, weights []int) int {
	tot := 0
	for _, w := range weights {
		tot += w
	}
	x := r.Intn(tot)
	for i, w := range weights {
		if x < w {
			return i
		}
		x -= w
	}
	return len(weights) - 1
}

func (g *gen) other(c int) int { return (c + 1 + g.r.Intn(nChains-1)) % nChains }

var kinds = []string{"send", "send_raw", "recv", "recv_tss", "ack", "update", "block", "reg_relayer"}

var kindWeights = map[string][]int{
	//        send raw recv tss ack upd blk reg
	"c01": {25, 5, 35, 6, 15, 7, 6, 1},
	"c02": {22, 5, 30, 5, 22, 8, 6, 2},
	"c04": {36, 20, 16, 4, 12, 6, 5, 1},
	"c05": {20, 2, 25, 5, 40, 4, 3, 1},
}

var recvAlters = []string{"payload", "calldata", "sender", "callback", "feeopt", "swap", "seq+1", "seq-1", "src", "dst",
	"proof_other", "proof_flip", "proof_empty", "height-1", "height+1", "height_old", "garbage", "empty"}
var ackAlters = []string{"ackbytes", "packet_payload", "seq+1", "swap", "proof_other", "proof_flip", "height-1", "height+1", "garbage_ack", "garbage_packet"}
var encs = []string{"trailing", "gap", "dirtypad"}

func (g *gen) relayer() int { return pick(g.r, []int{80, 12, 8}) }

func (g *gen) someAlters(from []string, max int) []string {
	n := 1 + g.r.Intn(max)
	out := []string{}
	for i := 0; i < n; i++ {
		a := from[g.r.Intn(len(from))]
		if !has(out, a) && !conflicts(out, a) {
			out = append(out, a)
		}
	}
	return out
}

// conflicts: alterations that cancel each other (the message would be the unaltered one again)
func conflicts(chosen []string, a string) bool {
	group := func(x string) int {
		switch x {
		case "seq+1", "seq-1":
			return 1
		case "height+1", "height-1", "height_old":
			return 2
		}
		return 0
	}
	if group(a) == 0 {
		return false
	}
	for _, c := range chosen {
		if group(c) == group(a) {
			return true
		}
	}
	return false
}

func (g *gen) add(op Op) { g.ops = append(g.ops, op) }

func (g *gen) genSend() {
	c := g.r.Intn(nChains)
	dw := []int{80, 10, 10} // peer, unknown, tss
	if g.focus == "c04" {
		dw = []int{65, 22, 13}
	}
	dst := g.other(c)
	switch pick(g.r, dw) {
	case 1:
		dst = -1
	case 2:
		dst = -2
	}
	vw := []int{45, 25, 12, 8, 10} // erc20 base call callrevert notrace
	if g.focus == "c05" {
		vw = []int{30, 15, 10, 22, 23}
	}
	variant := []string{"erc20", "base", "call", "callrevert", "notrace"}[pick(g.r, vw)]
	amount := uint64(1 + g.r.Intn(1000))
	if g.r.Chance(1, 15) {
		amount = 0
	}
	fee := uint64(0)
	if g.r.Chance(1, 3) {
		fee = uint64(1 + g.r.Intn(10))
	}
	commitP := 7
	if g.focus == "c04" {
		commitP = 5
	}
	if g.r.Chance(1, 12) {
		// multi-hop through the agent contract: the callback on chain 1 sends a packet to chain 2
		c, dst, variant = 0, 1, "agent"
		if amount == 0 {
			amount = 5
		}
	}
	g.add(Op{K: "send", Chain: c, Dst: dst, Variant: variant, Amount: amount, Fee: fee, Commit: g.r.Chance(commitP, 10)})
	if dst != -1 && !(amount == 0 && (variant == "erc20" || variant == "base" || variant == "notrace")) {
		g.pkts = append(g.pkts, gPkt{src: c, dst: dst, ackIdx: -1})
	}
}

func (g *gen) genSendRaw() {
	c := g.r.Intn(nChains)
	dst := g.other(c)
	if g.r.Chance(1, 6) {
		dst = -1
	} else if g.r.Chance(1, 8) {
		dst = -2
	}
	delta := []int{0, 0, 0, 1, -1}[g.r.Intn(5)]
	mal := ""
	if g.r.Chance(2, 5) {
		mal = []string{"nodata", "srcwrong", "srceqdst", "seq0"}[g.r.Intn(4)]
	} else if g.r.Chance(1, 4) {
		mal = "junkcall" // well-formed for SendPacket; the destination callback FAILS on it
	}
	g.add(Op{K: "send_raw", Chain: c, Dst: dst, SeqDelta: delta, Mal: mal, Commit: g.r.Chance(6, 10)})
	if dst != -1 && delta == 0 && (mal == "" || mal == "junkcall") {
		g.pkts = append(g.pkts, gPkt{src: c, dst: dst, ackIdx: -1})
	}
}

// pickPkt: index of a packet with the wanted received-flag (-1 if none).
func (g *gen) pickPkt(recvd bool) int {
	var cand []int
	for i, p := range g.pkts {
		if p.recvd == recvd && p.dst >= 0 {
			cand = append(cand, i)
		}
	}
	if len(cand) == 0 {
		return -1
	}
	if !recvd && g.r.Chance(2, 3) {
		return cand[0] // oldest first most of the time, so that chains of events complete
	}
	return cand[g.r.Intn(len(cand))]
}

func (g *gen) genRecv() {
	if len(g.pkts) == 0 {
		g.genSend()
		return
	}
	dupP := map[string]int{"c01": 50, "c02": 25, "c04": 25, "c05": 20}[g.focus]
	dup := g.r.Chance(dupP, 100)
	i := g.pickPkt(dup)
	if i < 0 && dup {
		dup = false
		i = g.pickPkt(false)
	}
	if i < 0 {
		// nothing left to deliver for the first time: feed the pipeline (sometimes a stray duplicate instead)
		if g.r.Chance(3, 4) {
			g.genSend()
			return
		}
		i = g.r.Intn(len(g.pkts))
	}
	p := &g.pkts[i]
	op := Op{K: "recv", Pkt: i, Relayer: 0, FreshProof: true, Commit: g.r.Chance(7, 10)}
	op.Chain = p.dst
	if p.dst < 0 || g.r.Chance(1, 10) {
		op.Chain = g.r.Intn(nChains)
	}
	altP := map[string]int{"c01": 20, "c02": 50, "c04": 15, "c05": 15}[g.focus]
	if dup && g.focus == "c01" {
		altP = 45
	}
	if g.r.Chance(altP, 100) {
		max := 1
		if g.focus == "c02" {
			max = 3
		}
		from := recvAlters
		if dup && g.focus == "c01" {
			// duplicates: altered payload / proof / height (the relayer varies independently)
			from = []string{"payload", "proof_other", "proof_flip", "proof_empty", "height-1", "height+1", "height_old", "feeopt"}
		}
		op.Alter = g.someAlters(from, max)
	}
	encP := 20
	if dup {
		encP = 33
	}
	if g.r.Chance(encP, 100) {
		op.Enc = encs[g.r.Intn(len(encs))]
	}
	op.Relayer = g.relayer()
	if g.r.Chance(15, 100) {
		op.FreshProof = false
	}
	g.add(op)
	valid := len(op.Alter) == 0 && op.Chain == p.dst && op.Relayer != 2 && op.FreshProof && !p.recvd
	if valid {
		p.recvd = true
		p.ackIdx = len(g.acks)
		g.acks = append(g.acks, gAck{pkt: i, writer: op.Chain})
		// same-block duplicate right behind a first delivery that left its block open
		if !op.Commit && g.r.Chance(1, 2) {
			d := op
			d.Alter = nil
			d.Enc = ""
			if g.r.Chance(1, 2) {
				d.Enc = encs[g.r.Intn(len(encs))]
			}
			d.FreshProof = false
			d.Commit = true
			g.add(d)
		}
	}
}

func (g *gen) genAck() {
	if len(g.acks) == 0 {
		g.genRecv()
		return
	}
	dupP := map[string]int{"c01": 30, "c02": 20, "c04": 20, "c05": 35}[g.focus]
	dup := g.r.Chance(dupP, 100)
	var cand []int
	for i, a := range g.acks {
		if a.acked == dup && (a.pkt >= 0 || g.r.Chance(1, 8)) {
			cand = append(cand, i)
		}
	}
	var i int
	switch {
	case len(cand) == 0 && !dup && g.r.Chance(3, 4):
		g.genRecv() // nothing left to acknowledge for the first time: feed the pipeline
		return
	case len(cand) == 0:
		i = g.r.Intn(len(g.acks))
	case !dup && g.focus != "c05" && g.r.Chance(2, 3):
		i = cand[0]
	default:
		i = cand[g.r.Intn(len(cand))] // c05: acknowledgements in another order than the receives
	}
	a := &g.acks[i]
	src := a.writer // acknowledgement of a TSS packet: there is no source chain, offer it to the writer itself
	if a.pkt >= 0 {
		src = g.pkts[a.pkt].src
	}
	op := Op{K: "ack", Ack: i, Chain: src, FreshProof: true, Commit: g.r.Chance(7, 10)}
	if g.r.Chance(1, 10) {
		op.Chain = g.r.Intn(nChains)
	}
	altP := map[string]int{"c01": 15, "c02": 50, "c04": 15, "c05": 30}[g.focus]
	if g.r.Chance(altP, 100) {
		max := 1
		if g.focus == "c02" {
			max = 3
		}
		op.Alter = g.someAlters(ackAlters, max)
	}
	op.Relayer = g.relayer()
	if g.r.Chance(15, 100) {
		op.FreshProof = false
	}
	g.add(op)
	if len(op.Alter) == 0 && a.pkt >= 0 && op.Chain == src && op.FreshProof && !a.acked {
		a.acked = true
	}
}

func (g *gen) genOp() {
	w := kindWeights[g.focus]
	if w == nil {
		w = kindWeights["c01"]
	}
	switch kinds[pick(g.r, w)] {
	case "send":
		g.genSend()
	case "send_raw":
		g.genSendRaw()
	case "recv":
		g.genRecv()
	case "recv_tss":
		c := g.r.Intn(nChains)
		variant := []string{"transfer", "junk", "junkcall"}[pick(g.r, []int{40, 35, 25})]
		op := Op{K: "recv_tss", Chain: c, Seq: uint64(1 + g.r.Intn(4)), DstSelf: !g.r.Chance(15, 100),
			Relayer: pick(g.r, []int{70, 15, 15}), Variant: variant, Commit: g.r.Chance(7, 10)}
		g.add(op)
		if k := [2]int{c, int(op.Seq)}; op.DstSelf && op.Relayer == 0 && !g.tssSeen[k] {
			g.tssSeen[k] = true
			g.acks = append(g.acks, gAck{pkt: -1, writer: c})
		}
	case "ack":
		g.genAck()
	case "update":
		c := g.r.Intn(nChains)
		g.add(Op{K: "update", Chain: c, Peer: g.other(c), Relayer: pick(g.r, []int{85, 8, 7}), Commit: g.r.Chance(7, 10)})
	case "block":
		g.add(Op{K: "block", Chain: g.r.Intn(nChains)})
	case "reg_relayer":
		c := g.r.Intn(nChains)
		var chains []int
		for d := 0; d < nChains; d++ {
			if d != c && g.r.Chance(2, 3) {
				chains = append(chains, d)
			}
		}
		g.add(Op{K: "reg_relayer", Chain: c, Relayer: 1 + g.r.Intn(2), Chains: chains})
	}
}

// happy: send a->b, update, recv on b, update, ack on a
func (g *gen) happy(a, b int, variant string, explicitUpdates bool) {
	g.add(Op{K: "send", Chain: a, Dst: b, Variant: variant, Amount: 100, Fee: 1, Commit: true})
	i := len(g.pkts)
	g.pkts = append(g.pkts, gPkt{src: a, dst: b, recvd: true, ackIdx: len(g.acks)})
	if explicitUpdates {
		g.add(Op{K: "update", Chain: b, Peer: a, Relayer: 0, Commit: true})
	}
	g.add(Op{K: "recv", Chain: b, Pkt: i, Relayer: 0, FreshProof: !explicitUpdates, Commit: true})
	j := len(g.acks)
	g.acks = append(g.acks, gAck{pkt: i, writer: b, acked: true})
	if explicitUpdates {
		g.add(Op{K: "update", Chain: a, Peer: b, Relayer: 0, Commit: true})
	}
	g.add(Op{K: "ack", Chain: a, Ack: j, Relayer: 0, FreshProof: !explicitUpdates, Commit: true})
}

func genSpec(r *hlib.Rand, seed uint64, idx, steps int, focus string) Spec {
	g := &gen{r: r, focus: focus, tssSeen: map[[2]int]bool{}}
	s := Spec{Case: idx, Seed: seed, Focus: focus}
	switch {
	case idx == 0:
		// corpus: the happy path on all three pairs + one duplicate of each message
		for k, pr := range [][2]int{{0, 1}, {1, 2}, {2, 0}} {
			variant := []string{"erc20", "base", "call"}[k]
			g.happy(pr[0], pr[1], variant, k == 0)
			g.add(Op{K: "recv", Chain: pr[1], Pkt: k, Relayer: 0, FreshProof: true, Commit: true})
			g.add(Op{K: "ack", Chain: pr[0], Ack: k, Relayer: 0, FreshProof: true, Commit: true})
		}
	case idx == 1 && focus == "c05":
		// corpus: O7, replay of an acknowledgement.  The self-named TSS client lets a copy of the already
		// acknowledged packet through the relay branch of Keeper.RecvPacket, which re-creates commitment
		// (A,B,1) with the same hash; the same MsgAcknowledgement is then offered again.
		s.O7 = true
		g.add(Op{K: "create_client", Chain: 0, Name: "self", Type: "tss"}) // + reg_relayer step (peers kept)
		g.add(Op{K: "send", Chain: 0, Dst: 1, Variant: "erc20", Amount: 100, Fee: 3, Commit: true})
		g.add(Op{K: "update", Chain: 1, Peer: 0, Relayer: 0, Commit: true})
		g.add(Op{K: "recv", Chain: 1, Pkt: 0, Relayer: 0, FreshProof: false, Commit: true})
		g.add(Op{K: "update", Chain: 0, Peer: 1, Relayer: 0, Commit: true})
		g.add(Op{K: "ack", Chain: 0, Ack: 0, Relayer: 0, FreshProof: false, Commit: true})
		g.add(Op{K: "recv_tss", Chain: 0, Variant: "copy", Pkt: 0, Relayer: 0, Commit: true})
		// another packet's fee waits in the packet contract: the replayed acknowledgement is ACCEPTED and the
		// fee of packet 1 is paid a second time out of it (without it sendPacketFeeToRelayer reverts for lack of funds)
		g.add(Op{K: "send", Chain: 0, Dst: 1, Variant: "erc20", Amount: 50, Fee: 5, Commit: true})
		g.add(Op{K: "ack", Chain: 0, Ack: 0, Relayer: 0, FreshProof: true, Commit: true})
		g.add(Op{K: "ack", Chain: 0, Ack: 0, Relayer: 0, FreshProof: true, Commit: true})
	case idx == 1 && focus == "c04":
		// corpus: the O7 witness
		s.O7 = true
		g.add(Op{K: "create_client", Chain: 0, Name: "self", Type: "tss"})
		g.add(Op{K: "send", Chain: 0, Dst: 1, Variant: "erc20", Amount: 100, Fee: 1, Commit: true})
		g.add(Op{K: "recv_tss", Chain: 0, Seq: 1, Src: "self", Dst: 1, Relayer: 0, Variant: "junk", Commit: true})
		g.add(Op{K: "recv_tss", Chain: 0, Seq: 7, Src: "self", Dst: 1, Relayer: 0, Variant: "junk", Commit: true})
		// the genuine packet (pool 0) and the two forged ones (pool 1, 2) offered to the destination
		g.add(Op{K: "recv", Chain: 1, Pkt: 0, Relayer: 0, FreshProof: true, Commit: true})
		g.add(Op{K: "recv", Chain: 1, Pkt: 1, Relayer: 0, FreshProof: true, Commit: true})
		g.add(Op{K: "recv", Chain: 1, Pkt: 2, Relayer: 0, FreshProof: true, Commit: true})
		g.add(Op{K: "send", Chain: 0, Dst: 1, Variant: "erc20", Amount: 50, Fee: 0, Commit: true})
		g.add(Op{K: "ack", Chain: 0, Ack: 0, Relayer: 0, FreshProof: true, Commit: true})
		g.add(Op{K: "ack", Chain: 0, Ack: 1, Relayer: 0, FreshProof: true, Commit: true})
	case idx == 1:
		// corpus: duplicates and re-encodings
		g.add(Op{K: "send", Chain: 0, Dst: 1, Variant: "base", Amount: 100, Fee: 2, Commit: true})
		g.add(Op{K: "send", Chain: 0, Dst: 1, Variant: "erc20", Amount: 10, Fee: 0, Commit: true})
		g.add(Op{K: "send", Chain: 1, Dst: 2, Variant: "erc20", Amount: 7, Fee: 1, Commit: true})
		g.add(Op{K: "recv", Chain: 1, Pkt: 0, Enc: "gap", Relayer: 0, FreshProof: true, Commit: false})
		g.add(Op{K: "recv", Chain: 1, Pkt: 0, Relayer: 0, FreshProof: false, Commit: false})
		g.add(Op{K: "recv", Chain: 1, Pkt: 0, Enc: "trailing", Relayer: 1, FreshProof: false, Commit: true})
		g.add(Op{K: "recv", Chain: 1, Pkt: 0, Enc: "dirtypad", Relayer: 0, FreshProof: true, Commit: true})
		g.add(Op{K: "recv", Chain: 1, Pkt: 1, Enc: "trailing", Relayer: 1, FreshProof: true, Commit: true})
		g.add(Op{K: "recv", Chain: 1, Pkt: 1, Alter: []string{"payload"}, Relayer: 0, FreshProof: true, Commit: true})
		g.add(Op{K: "recv", Chain: 2, Pkt: 2, Enc: "dirtypad", Relayer: 0, FreshProof: true, Commit: true})
		g.add(Op{K: "recv", Chain: 2, Pkt: 2, Enc: "gap", Relayer: 2, FreshProof: true, Commit: true})
		g.add(Op{K: "ack", Chain: 0, Ack: 0, Relayer: 0, FreshProof: true, Commit: false})
		g.add(Op{K: "ack", Chain: 0, Ack: 0, Relayer: 0, FreshProof: false, Commit: true})
		g.add(Op{K: "ack", Chain: 0, Ack: 1, Alter: []string{"ackbytes"}, Relayer: 0, FreshProof: true, Commit: true})
		g.add(Op{K: "ack", Chain: 0, Ack: 1, Relayer: 1, FreshProof: true, Commit: true})
		g.add(Op{K: "ack", Chain: 0, Ack: 1, Relayer: 0, FreshProof: true, Commit: true})
		g.add(Op{K: "ack", Chain: 1, Ack: 2, Relayer: 0, FreshProof: true, Commit: true})
		g.add(Op{K: "ack", Chain: 1, Ack: 2, Relayer: 0, FreshProof: true, Commit: true})
	default:
		if r.Bool() {
			g.happy(0, 1, "erc20", true)
		}
		for len(g.ops) < steps {
			g.genOp()
		}
	}
	s.Ops = g.ops
	return s
}
