package main

import "encoding/binary"

// Re-encodings of ABI-encoded packet bytes that go-ethereum's decoder maps to the same packet.
// Layout of Packet.ABIPack(): word 0 = 0x20 (offset of the tuple), then the tuple: 8 head words
// (src off, dst off, sequence, sender off, transfer_data off, call_data off, callback off,
// fee_option), then the tails (length word + padded data each).  Offsets are relative to the start
// of the tuple (byte 32).

const (
	tupleStart = 32
	headWords  = 8
)

var dynamicHead = []int{0, 1, 3, 4, 5, 6}

func word(bz []byte, at int) (uint64, bool) {
	if at < 0 || at+32 > len(bz) {
		return 0, false
	}
	for _, b := range bz[at : at+24] {
		if b != 0 {
			return 0, false
		}
	}
	return binary.BigEndian.Uint64(bz[at+24 : at+32]), true
}

func putWord(bz []byte, at int, v uint64) {
	for i := 0; i < 24; i++ {
		bz[at+i] = 0
	}
	binary.BigEndian.PutUint64(bz[at+24:at+32], v)
}

func reencode(bz []byte, mode string) ([]byte, bool) {
	if len(bz) < tupleStart+32*headWords {
		return nil, false
	}
	if w, ok := word(bz, 0); !ok || w != 32 {
		return nil, false
	}
	switch mode {
	case "trailing":
		n := 32 * (1 + len(bz)%3)
		out := append([]byte{}, bz...)
		for i := 0; i < n; i++ {
			out = append(out, 0xee)
		}
		return out, true
	case "gap":
		cut := tupleStart + 32*headWords
		out := append([]byte{}, bz[:cut]...)
		out = append(out, make([]byte, 32)...)
		out = append(out, bz[cut:]...)
		for _, i := range dynamicHead {
			off, ok := word(bz, tupleStart+32*i)
			if !ok {
				return nil, false
			}
			putWord(out, tupleStart+32*i, off+32)
		}
		return out, true
	case "dirtypad":
		for _, i := range dynamicHead {
			off, ok := word(bz, tupleStart+32*i)
			if !ok {
				return nil, false
			}
			pos := tupleStart + int(off)
			l, ok := word(bz, pos)
			if !ok {
				return nil, false
			}
			if l%32 == 0 {
				continue
			}
			padded := int((l + 31) / 32 * 32)
			last := pos + 32 + padded - 1
			if last >= len(bz) {
				return nil, false
			}
			out := append([]byte{}, bz...)
			out[last] = 0xff
			return out, true
		}
		return nil, false
	}
	return nil, false
}
