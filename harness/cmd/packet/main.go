package main

import (
	"encoding/json"
	"flag"
	"fmt"
	"os"
	"sort"
	"time"

	"verifharness/hlib"
)

// runSpec executes one abstract history on three fresh chains.
func runSpec(spec Spec) (res Result, timing [3]time.Duration) {
	t0 := time.Now()
	e := newEnv(&spec)
	timing[0] = time.Since(t0)
	res = Result{Case: spec.Case, Spec: spec, Chains: []ChainJ{}, Final: []FinalJ{}}
	for _, c := range e.chains {
		res.Chains = append(res.Chains, e.describe(c))
	}
	t1 := time.Now()
	for i, op := range spec.Ops {
		if op.Chain < 0 || op.Chain >= nChains {
			e.stat("op.skipped_bad_chain")
			continue
		}
		if (op.K == "recv" || op.K == "ack" || op.K == "ack_tss" || op.K == "recv_eth" || op.K == "ack_eth" || op.K == "recv_tss" || op.K == "update") && (op.Relayer < 0 || op.Relayer > 2) {
			e.stat("op.skipped_bad_relayer")
			continue
		}
		e.curOp = i
		switch op.K {
		case "send":
			e.opSend(op)
		case "send_multi":
			e.opSendMulti(op)
		case "send_raw":
			e.opSendRaw(op, i)
		case "recv":
			e.opRecv(op, i)
		case "recv_tss":
			e.opRecvTss(op, i)
		case "ack":
			e.opAck(op, i)
		case "ack_tss":
			e.opAckTss(op, i)
		case "recv_eth":
			e.opRecvEth(op)
		case "ack_eth":
			e.opAckEth(op)
		case "update":
			e.opUpdate(op)
		case "block":
			e.blockStep(e.chains[op.Chain])
		case "reg_relayer":
			e.opRegRelayer(op)
		case "create_client":
			e.opCreateClient(op)
		case "toggle_client", "upgrade_client":
			e.opGovClient(op, op.K)
		default:
			e.stat("op.skipped_unknown_kind")
		}
	}
	timing[1] = time.Since(t1)
	for _, c := range e.chains {
		st, _ := c.packetStore(c.ctx())
		res.Final = append(res.Final, FinalJ{Store: st})
	}
	res.Steps = e.steps
	if res.Steps == nil {
		res.Steps = []Step{}
	}
	res.Oracles = e.orc
	res.Stats = map[string]interface{}{}
	keys := []string{}
	for k := range e.stats {
		keys = append(keys, k)
	}
	sort.Strings(keys)
	for _, k := range keys {
		res.Stats[k] = e.stats[k]
	}
	res.Stats["n_steps"] = len(e.steps)
	res.Stats["n_ops"] = len(spec.Ops)
	res.Stats["pool_packets"] = len(e.pktPool)
	res.Stats["pool_acks"] = len(e.ackPool)
	res.Stats["ms_setup"] = timing[0].Milliseconds()
	res.Stats["ms_steps"] = timing[1].Milliseconds()
	if e.t.Failed() {
		res.Stats["testing_t_failed"] = true
	}
	timing[2] = time.Since(t0)
	return
}

// runCase runs runSpec on its own goroutine: a require.* failure inside the testing package calls
// runtime.Goexit, which must not silently kill the harness.
func runCase(spec Spec) (Result, [3]time.Duration, string) {
	type out struct {
		r Result
		t [3]time.Duration
	}
	ch := make(chan *out, 1)
	fail := make(chan string, 1)
	go func() {
		done := false
		defer func() {
			if r := recover(); r != nil {
				fail <- fmt.Sprintf("panic in harness: %v", r)
				return
			}
			if !done {
				fail <- "goroutine exited (require.* failure inside x/xibc/testing)"
			}
		}()
		r, t := runSpec(spec)
		done = true
		ch <- &out{r, t}
	}()
	select {
	case o := <-ch:
		return o.r, o.t, ""
	case f := <-fail:
		return Result{}, [3]time.Duration{}, f
	}
}

func main() {
	seed := flag.Uint64("seed", 1, "PRNG seed of the generator")
	n := flag.Int("n", 10, "number of cases of the run")
	steps := flag.Int("steps", 30, "ops per generated history")
	focus := flag.String("focus", "c01", "c01|c02|c04|c05: bias of the generator")
	from := flag.Int("from", 0, "first case index (inclusive)")
	to := flag.Int("to", -1, "last case index (exclusive), default n")
	in := flag.String("in", "", "replay: file with one Spec JSON per line (or result lines with a \"spec\" member)")
	out := flag.String("out", "/dev/stdout", "output file (JSON lines)")
	flag.Parse()

	var specs []Spec
	if *in != "" {
		hlib.ReadLines(*in, func(line []byte) {
			var wrap struct {
				Spec *Spec `json:"spec"`
			}
			if err := json.Unmarshal(line, &wrap); err == nil && wrap.Spec != nil {
				specs = append(specs, *wrap.Spec)
				return
			}
			var s Spec
			if err := json.Unmarshal(line, &s); err != nil {
				fmt.Fprintln(os.Stderr, "packet: bad spec line:", err)
				os.Exit(2)
			}
			specs = append(specs, s)
		})
	} else {
		if *to < 0 || *to > *n {
			*to = *n
		}
		root := hlib.NewRand(*seed)
		for i := *from; i < *to; i++ {
			specs = append(specs, genSpec(root.Fork(uint64(i)), *seed, i, *steps, *focus))
		}
	}
	w := hlib.NewOut(*out)
	var tot [3]time.Duration
	nsteps := 0
	for _, s := range specs {
		r, t, fail := runCase(s)
		if fail != "" {
			w.Close()
			bz, _ := json.Marshal(s)
			fmt.Fprintf(os.Stderr, "packet: harness failure in case %d: %s\nspec: %s\n", s.Case, fail, bz)
			os.Exit(2)
		}
		w.Emit(r)
		for i := range tot {
			tot[i] += t[i]
		}
		nsteps += len(r.Steps)
	}
	w.Close()
	if len(specs) > 0 {
		fmt.Fprintf(os.Stderr, "packet: %d cases, %d steps; per case: set-up %.0f ms, steps %.0f ms, total %.0f ms; per step %.1f ms\n",
			len(specs), nsteps,
			float64(tot[0].Milliseconds())/float64(len(specs)), float64(tot[1].Milliseconds())/float64(len(specs)),
			float64(tot[2].Milliseconds())/float64(len(specs)), float64(tot[1].Milliseconds())/float64(imax(nsteps, 1)))
	}
}

func imax(a, b int) int {
	if a > b {
		return a
	}
	return b
}
