package main

// An ETH-secured counterparty for the packet harness (C02 quantifies over counterparties secured by a proof-verifying
// client: Tendermint, BSC, Ethereum).  Each chain gets an Ethereum light client named eth-<idx> whose single
// consensus state commits to a world the harness builds with go-ethereum's trie: one contract account whose storage
// holds, under the slots the property requires (keccak(host key ++ pad32(208))), the commitments of a fixed family
// of packets eth-<idx> -> this chain and the acknowledgement hashes of packets this chain -> eth-<idx>; plus DECOY
// slots that hold a genuine-looking value under a key that is NOT the slot of the packet / acknowledgement.
//
// The `low` entry of the verify table is recomputed here with trie.VerifyProof only (account proof against the
// stored root, storage proof for the slot the PROPERTY names, RLP word compare) — never with the client's own
// verifyMerkleProof.

import (
	"bytes"
	"encoding/json"
	"fmt"
	"math/big"

	"github.com/ethereum/go-ethereum/common"
	"github.com/ethereum/go-ethereum/crypto"
	"github.com/ethereum/go-ethereum/ethdb/memorydb"
	"github.com/ethereum/go-ethereum/light"
	"github.com/ethereum/go-ethereum/rlp"
	"github.com/ethereum/go-ethereum/trie"

	bscclient "github.com/teleport-network/teleport/x/xibc/clients/light-clients/bsc/types"
	ethclient "github.com/teleport-network/teleport/x/xibc/clients/light-clients/eth/types"
	clienttypes "github.com/teleport-network/teleport/x/xibc/core/client/types"
	"github.com/teleport-network/teleport/x/xibc/core/host"
	packettypes "github.com/teleport-network/teleport/x/xibc/core/packet/types"
)

const (
	ethHeight    = 1000 // height of the consensus state the genuine proofs are for
	ethLatest    = 1005 // latest height of the client
	ethDelay     = 2    // block delay of both clients (ETH: BlockDelay; BSC: len(Validators)/2+1 with 3 validators)
	ethRecent    = 1004 // a consensus state (same root) that is too recent: latest - ethRecent < ethDelay
	ethGenuine   = 3    // sequences 1..ethGenuine are stored under their proper slot
	ethDecoySeq  = 4    // the commitment / ack hash of this sequence is stored under a DECOY key only
	ethMaxAckSeq = 4
)

var pad208 = common.LeftPadBytes(big.NewInt(208).Bytes(), 32)

type ethAcct struct {
	Nonce    *big.Int
	Balance  *big.Int
	Root     common.Hash
	CodeHash common.Hash
}

type ethWorld struct {
	bsc      bool
	name     string
	contract common.Address
	storage  *trie.Trie
	state    *trie.Trie
	acct     ethAcct
	root     common.Hash
	ackBz    []byte // the acknowledgement bytes whose hash is stored for every ack sequence
}

func ethName(idx int) string { return fmt.Sprintf("eth-%d", idx) }
func bscName(idx int) string { return fmt.Sprintf("bsc-%d", idx) }

// world: the EVM world of chain c's Ethereum ("" / "eth") or BSC ("bsc") secured counterparty
func (c *Chain) world(typ string) *ethWorld {
	if typ == "bsc" {
		return c.bsc
	}
	return c.eth
}

func newMemTrie() *trie.Trie {
	t, err := trie.New(common.Hash{}, trie.NewDatabase(memorydb.New()))
	must(err)
	return t
}

func ethSlot(ack bool, src, dst string, seq uint64) []byte {
	if ack {
		return crypto.Keccak256(host.PacketAcknowledgementKey(src, dst, seq), pad208)
	}
	return crypto.Keccak256(host.PacketCommitmentKey(src, dst, seq), pad208)
}

func ethDecoyKey(ack bool, seq uint64) []byte {
	return crypto.Keccak256([]byte(fmt.Sprintf("decoy-%v-%d", ack, seq)))
}

func trimLeft(b []byte) []byte {
	i := 0
	for i < len(b)-1 && b[i] == 0 {
		i++
	}
	return b[i:]
}

// ethPacket: the k-th packet of the fixed family eth-<idx> / bsc-<idx> -> chain c.
func ethPacket(c *Chain, w *ethWorld, k uint64) packettypes.Packet {
	return packettypes.Packet{
		SrcChain: w.name, DstChain: c.name, Sequence: k, Sender: "0xethsender",
		TransferData: []byte(fmt.Sprintf("eth-transfer-data-%d", k)), CallData: []byte{}, CallbackAddress: "", FeeOption: k % 3,
	}
}

func (w *ethWorld) put(slotKey, value32 []byte) {
	enc, err := rlp.EncodeToBytes(trimLeft(value32))
	must(err)
	must(w.storage.TryUpdate(crypto.Keccak256(slotKey), enc))
}

// setupEth builds the world of eth-<idx> (bsc-<idx>) and creates the client on chain c (keeper level, before the
// history starts).  The Ethereum client goes through ClientKeeper.CreateClient; the BSC client state and consensus
// states are written with the keeper's setters (its Initialize wants a sealed epoch header, which is C09's subject).
func (e *Env) setupEth(c *Chain, bsc bool) {
	name := ethName(c.idx)
	if bsc {
		name = bscName(c.idx)
	}
	w := &ethWorld{bsc: bsc, name: name, contract: common.BytesToAddress([]byte(fmt.Sprintf("xibc-packet-on-eth-%d", c.idx))), storage: newMemTrie(), state: newMemTrie()}
	s0 := e.accs[0].String()
	ack := packettypes.NewAcknowledgement(0, []byte{}, "", s0, 0)
	abz, err := ack.ABIPack()
	must(err)
	w.ackBz = abz
	for k := uint64(1); k <= ethDecoySeq; k++ {
		p := ethPacket(c, w, k)
		bz, err := p.ABIPack()
		must(err)
		h := e.orc.AddSha(bz)
		if k <= ethGenuine {
			w.put(ethSlot(false, name, c.name, k), h)
		} else {
			w.put(ethDecoyKey(false, k), h)
		}
	}
	ah := e.orc.AddSha(abz)
	for q := uint64(1); q <= ethMaxAckSeq; q++ {
		if q <= ethGenuine {
			w.put(ethSlot(true, c.name, name, q), ah)
		} else {
			w.put(ethDecoyKey(true, q), ah)
		}
	}
	// unrelated filler so that proofs have depth
	r := e.garbage(7000+c.idx, 32*12)
	for i := 0; i+32 <= len(r); i += 32 {
		w.put(r[i:i+32], crypto.Keccak256(r[i:i+32]))
	}
	w.acct = ethAcct{Nonce: big.NewInt(1), Balance: big.NewInt(0), Root: w.storage.Hash(), CodeHash: crypto.Keccak256Hash([]byte("code"))}
	av, err := rlp.EncodeToBytes(&w.acct)
	must(err)
	must(w.state.TryUpdate(crypto.Keccak256(w.contract.Bytes()), av))
	for i := 0; i < 9; i++ {
		other := ethAcct{Nonce: big.NewInt(int64(i)), Balance: big.NewInt(int64(1000 + i)), Root: crypto.Keccak256Hash([]byte{byte(i)}), CodeHash: crypto.Keccak256Hash([]byte{byte(i), 1})}
		ov, _ := rlp.EncodeToBytes(&other)
		must(w.state.TryUpdate(crypto.Keccak256([]byte(fmt.Sprintf("other-account-%d", i))), ov))
	}
	w.root = w.state.Hash()
	ck := c.tc.App.XIBCKeeper.ClientKeeper
	now := uint64(e.coord.CurrentTime.Unix())
	latest := clienttypes.NewHeight(0, ethLatest)
	if bsc {
		c.bsc = w
		cs := &bscclient.ClientState{
			Header:          bscclient.Header{Height: latest, Root: w.root.Bytes(), Time: now},
			ChainId:         56,
			Epoch:           200,
			BlockInteval:    3,
			Validators:      [][]byte{bytes.Repeat([]byte{1}, 20), bytes.Repeat([]byte{2}, 20), bytes.Repeat([]byte{3}, 20)},
			ContractAddress: w.contract.Bytes(),
			TrustingPeriod:  1 << 40,
		}
		ck.SetClientState(c.ctx(), name, cs)
		for _, h := range []uint64{ethHeight, ethRecent, ethLatest} {
			hh := clienttypes.NewHeight(0, h)
			ck.SetClientConsensusState(c.ctx(), name, hh, &bscclient.ConsensusState{Timestamp: now, Height: hh, Root: w.root.Bytes()})
		}
		return
	}
	c.eth = w
	cs := &ethclient.ClientState{
		Header:          ethclient.Header{Height: latest, Root: w.root.Bytes(), Time: now},
		ChainId:         4,
		ContractAddress: w.contract.Bytes(),
		TrustingPeriod:  1 << 40,
		BlockDelay:      ethDelay,
	}
	must(ck.CreateClient(c.ctx(), name, cs, &ethclient.ConsensusState{Timestamp: now, Height: latest, Root: w.root.Bytes()}))
	for _, h := range []uint64{ethHeight, ethRecent} {
		hh := clienttypes.NewHeight(0, h)
		ck.SetClientConsensusState(c.ctx(), name, hh, &ethclient.ConsensusState{Timestamp: now, Height: hh, Root: w.root.Bytes()})
	}
}

func proveNodes(t *trie.Trie, key []byte) []string {
	var nl light.NodeList
	must(t.Prove(key, 0, &nl))
	out := []string{}
	for _, n := range nl {
		out = append(out, "0x"+common.Bytes2Hex(n))
	}
	return out
}

// ethProof: the JSON proof (eth_getProof layout) for storage key slotKey of the contract.
func (w *ethWorld) proof(slotKey []byte) []byte {
	val, _ := w.storage.TryGet(crypto.Keccak256(slotKey))
	p := ethclient.Proof{
		Address:      w.contract.Hex(),
		Balance:      "0x" + w.acct.Balance.Text(16),
		CodeHash:     w.acct.CodeHash.Hex(),
		Nonce:        "0x" + w.acct.Nonce.Text(16),
		StorageHash:  w.acct.Root.Hex(),
		AccountProof: proveNodes(w.state, crypto.Keccak256(w.contract.Bytes())),
		StorageProof: []*ethclient.StorageResult{{
			Key:   "0x" + common.Bytes2Hex(slotKey),
			Value: "0x" + common.Bytes2Hex(val),
			Proof: proveNodes(w.storage, crypto.Keccak256(slotKey)),
		}},
	}
	bz, err := json.Marshal(&p)
	must(err)
	return bz
}

// forgedProof: a proof whose ACCOUNT part is genuine (account proof against the real state root) but whose named
// field is forged by the relayer:
//
//	forged_storage : storage_hash = root of a trie the relayer built, holding `value` under the slot of the message, and
//	                 the (valid) storage proof from that trie — the counterparty never stored the value
//	forged_nonce / forged_balance / forged_codehash : that account field altered, storage part genuine
//	forged_account : the account proof comes from a state trie the relayer built (another state root)
func (w *ethWorld) forgedProof(kind string, slotKey, value []byte) []byte {
	var p ethclient.Proof
	must(json.Unmarshal(w.proof(slotKey), &p))
	switch kind {
	case "forged_storage":
		st := newMemTrie()
		enc, err := rlp.EncodeToBytes(trimLeft(value))
		must(err)
		must(st.TryUpdate(crypto.Keccak256(slotKey), enc))
		for i := 0; i < 5; i++ {
			k := crypto.Keccak256([]byte(fmt.Sprintf("relayer-filler-%d", i)))
			must(st.TryUpdate(crypto.Keccak256(k), enc))
		}
		p.StorageHash = st.Hash().Hex()
		p.StorageProof = []*ethclient.StorageResult{{
			Key: "0x" + common.Bytes2Hex(slotKey), Value: "0x" + common.Bytes2Hex(enc), Proof: proveNodes(st, crypto.Keccak256(slotKey)),
		}}
	case "forged_nonce":
		p.Nonce = "0x" + new(big.Int).Add(w.acct.Nonce, big.NewInt(1)).Text(16)
	case "forged_balance":
		p.Balance = "0x" + new(big.Int).Add(w.acct.Balance, big.NewInt(5)).Text(16)
	case "forged_codehash":
		p.CodeHash = crypto.Keccak256Hash([]byte("other code")).Hex()
	case "forged_account":
		state := newMemTrie()
		av, err := rlp.EncodeToBytes(&w.acct)
		must(err)
		must(state.TryUpdate(crypto.Keccak256(w.contract.Bytes()), av))
		must(state.TryUpdate(crypto.Keccak256([]byte("relayer-account")), av))
		p.AccountProof = proveNodes(state, crypto.Keccak256(w.contract.Bytes()))
	}
	bz, err := json.Marshal(&p)
	must(err)
	return bz
}

// ethLow: does the proof show — by trie.VerifyProof alone — that the world committed to by `root` stores `value`
// under the slot the property names for (kind, src, dst, seq) in the storage of `contract`?
func ethLow(root []byte, contract []byte, proof []byte, ack bool, src, dst string, seq uint64, value []byte) bool {
	var p struct {
		Address      string   `json:"address"`
		Balance      string   `json:"balance"`
		CodeHash     string   `json:"code_hash"`
		Nonce        string   `json:"nonce"`
		StorageHash  string   `json:"storage_hash"`
		AccountProof []string `json:"account_proof"`
		StorageProof []*struct {
			Key   string   `json:"key"`
			Value string   `json:"value"`
			Proof []string `json:"proof"`
		} `json:"storage_proof"`
	}
	if proof == nil || json.Unmarshal(proof, &p) != nil {
		return false
	}
	if !bytes.Equal(common.FromHex(p.Address), contract) {
		return false
	}
	set := func(l []string) light.NodeList {
		var nl light.NodeList
		for _, s := range l {
			_ = nl.Put(nil, common.FromHex(s))
		}
		return nl
	}
	anl := set(p.AccountProof)
	acctVal, err := trie.VerifyProof(common.BytesToHash(root), crypto.Keccak256(contract), anl.NodeSet())
	if err != nil || acctVal == nil {
		return false
	}
	var acct ethAcct
	if rlp.DecodeBytes(acctVal, &acct) != nil {
		return false
	}
	if len(p.StorageProof) != 1 || p.StorageProof[0] == nil {
		return false
	}
	snl := set(p.StorageProof[0].Proof)
	// the slot the PROPERTY requires, whatever key the proof names
	val, err := trie.VerifyProof(acct.Root, crypto.Keccak256(ethSlot(ack, src, dst, seq)), snl.NodeSet())
	if err != nil || val == nil {
		return false
	}
	var word []byte
	if rlp.DecodeBytes(val, &word) != nil {
		return false
	}
	return bytes.Equal(common.LeftPadBytes(word, 32), value)
}

// ---------------------------------------------------------------------------------------------
// ops: recv_eth, ack_eth

// opRecvEth delivers packet ethPacket(c, seq) (or an altered one) with an MPT proof.
//
//	good      : proof of the packet's own slot
//	decoy     : proof of the DECOY key (a genuine proof of a slot that holds exactly this packet's commitment, but is
//	            not the slot of (src,dst,seq)); sequence ethDecoySeq
//	otherslot : proof of the slot of sequence seq%ethGenuine+1
//	payload   : altered transfer data, proof of the genuine slot
//	ackslot   : proof of the acknowledgement slot of the same triple
//	height+1 / height-1 : proof height without consensus state
//	emptyproof: no proof bytes
func (e *Env) opRecvEth(op Op) {
	c := e.chains[op.Chain]
	w := c.world(op.Type) // op.Type = "bsc" selects the BSC-secured counterparty
	if w == nil {
		e.stat("recv_eth.skipped")
		return
	}
	seq := op.Seq
	if op.Variant == "decoy" {
		seq = ethDecoySeq
	}
	p := ethPacket(c, w, seq)
	slot := ethSlot(false, w.name, c.name, seq)
	switch op.Variant {
	case "decoy":
		slot = ethDecoyKey(false, seq)
	case "otherslot":
		slot = ethSlot(false, w.name, c.name, seq%ethGenuine+1)
	case "ackslot":
		slot = ethSlot(true, c.name, w.name, (seq-1)%ethGenuine+1)
	case "payload":
		p.TransferData = flipByte(p.TransferData, len(p.TransferData)-1)
	}
	bz := e.orc.AddPack(&p)
	proof := w.proof(slot)
	if len(op.Variant) > 7 && op.Variant[:7] == "forged_" {
		// a packet of the family that the counterparty NEVER committed (sequence ethDecoySeq+1) for the forged storage
		// root; the genuine packet for the account-field forgeries
		if op.Variant == "forged_storage" {
			p = ethPacket(c, w, ethDecoySeq+1)
			bz = e.orc.AddPack(&p)
			slot = ethSlot(false, w.name, c.name, ethDecoySeq+1)
		}
		proof = w.forgedProof(op.Variant, slot, e.orc.AddSha(bz))
	}
	h := clienttypes.NewHeight(0, ethHeight)
	switch op.Variant {
	case "height+1":
		h.RevisionHeight++
	case "height-1":
		h.RevisionHeight--
	case "nodelay":
		h.RevisionHeight = ethRecent
	case "future":
		h.RevisionHeight = ethLatest + 1
	case "emptyproof":
		proof = []byte{}
	}
	e.prepare(c)
	class := e.runRecv(c, op.Relayer, bz, proof, h)
	e.stat(fmt.Sprintf("recv_%s.%s.rel%d.class%d", w.name[:3], op.Variant, op.Relayer, class))
	e.finish(c, op.Commit)
}

// opAckEth acknowledges a packet this chain sent to eth-<idx> (pool packets with that destination), with the MPT
// proof of the acknowledgement slot (variants: good, decoy (sequence ethDecoySeq only), otherslot, ackbytes, commitslot).
func (e *Env) opAckEth(op Op) {
	c := e.chains[op.Chain]
	w := c.world(op.Type)
	if w == nil {
		e.stat("ack_eth.skipped")
		return
	}
	var cand []poolPkt
	for _, ent := range e.pktPool {
		if p, err := realDecode(ent.bz); err == nil && p.SrcChain == c.name && p.DstChain == w.name {
			cand = append(cand, ent)
		}
	}
	if len(cand) == 0 {
		e.stat("ack_eth.skipped_no_packet")
		return
	}
	ent := cand[((op.Pkt%len(cand))+len(cand))%len(cand)]
	p, _ := realDecode(ent.bz)
	slot := ethSlot(true, c.name, w.name, p.Sequence)
	abz := w.ackBz
	switch op.Variant {
	case "decoy":
		slot = ethDecoyKey(true, ethDecoySeq)
	case "otherslot":
		slot = ethSlot(true, c.name, w.name, p.Sequence%ethGenuine+1)
	case "commitslot":
		slot = ethSlot(false, w.name, c.name, (p.Sequence-1)%ethGenuine+1)
	case "ackbytes":
		a := packettypes.NewAcknowledgement(1, []byte{}, "forged", e.accs[0].String(), 0)
		abz, _ = a.ABIPack()
	}
	h := clienttypes.NewHeight(0, ethHeight)
	if op.Variant == "nodelay" {
		h.RevisionHeight = ethRecent
	}
	proof := w.proof(slot)
	if len(op.Variant) > 7 && op.Variant[:7] == "forged_" {
		if op.Variant == "forged_storage" {
			// an acknowledgement the counterparty never wrote, "proved" against a relayer-built storage trie
			a := packettypes.NewAcknowledgement(1, []byte{}, "forged", e.accs[0].String(), p.FeeOption)
			abz, _ = a.ABIPack()
		}
		proof = w.forgedProof(op.Variant, slot, e.orc.AddSha(abz))
	}
	e.prepare(c)
	class := e.runAck(c, op.Relayer, append([]byte{}, ent.bz...), abz, proof, h)
	e.stat(fmt.Sprintf("ack_%s.%s.seq%d.rel%d.class%d", w.name[:3], op.Variant, p.Sequence, op.Relayer, class))
	e.finish(c, op.Commit)
}
