package main

import (
	"crypto/sha256"
	"strings"

	sdk "github.com/cosmos/cosmos-sdk/types"

	packettypes "github.com/teleport-network/teleport/x/xibc/core/packet/types"
)

// Oracle tables: the REAL functions tabulated on every argument that can be asked for in the case.

type DecodeE struct {
	Bz  string  `json:"bz"`
	Pkt PacketJ `json:"pkt"`
	Err bool    `json:"err"`
}

type PackE struct {
	Pkt PacketJ `json:"pkt"`
	Bz  *string `json:"bz"`
}

type ShaE struct {
	In  string `json:"in"`
	Out string `json:"out"`
}

type DecodeAckE struct {
	Bz    string `json:"bz"`
	Ack   *AckJ  `json:"ack"`
	Empty bool   `json:"empty"`
}

type PackAckE struct {
	Ack AckJ   `json:"ack"`
	Bz  string `json:"bz"`
}

type VerifyE struct {
	Env    int       `json:"env"`
	Client string    `json:"client"`
	Kind   int       `json:"kind"`
	H      [2]string `json:"h"`
	Proof  string    `json:"proof"`
	Src    string    `json:"src"`
	Dst    string    `json:"dst"`
	Seq    string    `json:"seq"`
	Val    string    `json:"val"`
	Ok     bool      `json:"ok"`
	Low    bool      `json:"low"`
}

type Bech32E struct {
	S    string  `json:"s"`
	Addr *string `json:"addr"`
}

type FoldE struct {
	A  string `json:"a"`
	B  string `json:"b"`
	Eq bool   `json:"eq"`
}

type Oracles struct {
	Decode    []DecodeE    `json:"decode"`
	Pack      []PackE      `json:"pack"`
	Sha       []ShaE       `json:"sha"`
	DecodeAck []DecodeAckE `json:"decode_ack"`
	PackAck   []PackAckE   `json:"pack_ack"`
	Verify    []VerifyE    `json:"verify"`
	Bech32    []Bech32E    `json:"bech32"`
	Fold      []FoldE      `json:"fold"`

	seenDecode    map[string]bool
	seenPack      map[PacketJ]bool
	seenSha       map[string]bool
	seenDecodeAck map[string]bool
	seenPackAck   map[AckJ]bool
	seenBech32    map[string]bool
	seenFold      map[[2]string]bool

	regAddrs    map[string]bool // every counterparty address string ever registered (any chain)
	ackRelayer  map[string]bool // every decoded ack.Relayer
	regAddrList []string
	ackRelList  []string
}

func newOracles() *Oracles {
	return &Oracles{
		Decode: []DecodeE{}, Pack: []PackE{}, Sha: []ShaE{}, DecodeAck: []DecodeAckE{}, PackAck: []PackAckE{},
		Verify: []VerifyE{}, Bech32: []Bech32E{}, Fold: []FoldE{},
		seenDecode: map[string]bool{}, seenPack: map[PacketJ]bool{}, seenSha: map[string]bool{},
		seenDecodeAck: map[string]bool{}, seenPackAck: map[AckJ]bool{}, seenBech32: map[string]bool{},
		seenFold: map[[2]string]bool{}, regAddrs: map[string]bool{}, ackRelayer: map[string]bool{},
	}
}

// realDecode runs the real Packet.ABIDecode and returns the packet as left by the call.
func realDecode(bz []byte) (p packettypes.Packet, err error) {
	// a panic inside the decoder is reported as an error with an untouched packet
	func() {
		defer func() {
			if r := recover(); r != nil {
				err = errPanic
			}
		}()
		err = p.ABIDecode(bz)
	}()
	return p, err
}

type panicErr struct{}

func (panicErr) Error() string { return "panic" }

var errPanic error = panicErr{}

// AddDecode tabulates ABIDecode on bz (and pack/sha on the result).
func (o *Oracles) AddDecode(bz []byte) (packettypes.Packet, error) {
	p, err := realDecode(bz)
	k := string(bz)
	if !o.seenDecode[k] {
		o.seenDecode[k] = true
		o.Decode = append(o.Decode, DecodeE{Bz: hx(bz), Pkt: packetJ(&p), Err: err != nil})
	}
	o.AddPack(&p)
	return p, err
}

// AddPack tabulates ABIPack on p (and sha256 of the result).
func (o *Oracles) AddPack(p *packettypes.Packet) []byte {
	bz, err := p.ABIPack()
	j := packetJ(p)
	if !o.seenPack[j] {
		o.seenPack[j] = true
		if err != nil {
			o.Pack = append(o.Pack, PackE{Pkt: j, Bz: nil})
		} else {
			s := hx(bz)
			o.Pack = append(o.Pack, PackE{Pkt: j, Bz: &s})
		}
	}
	if err != nil {
		return nil
	}
	o.AddSha(bz)
	return bz
}

func (o *Oracles) AddSha(in []byte) []byte {
	h := sha256.Sum256(in)
	k := string(in)
	if !o.seenSha[k] {
		o.seenSha[k] = true
		o.Sha = append(o.Sha, ShaE{In: hx(in), Out: hx(h[:])})
	}
	return h[:]
}

// AddDecodeAck tabulates Acknowledgement.ABIDecode (null on error) and sha256 of the bytes.
func (o *Oracles) AddDecodeAck(bz []byte) (*packettypes.Acknowledgement, bool) {
	var a packettypes.Acknowledgement
	var err error
	func() {
		defer func() {
			if r := recover(); r != nil {
				err = errPanic
			}
		}()
		err = a.ABIDecode(bz)
	}()
	o.AddSha(bz)
	k := string(bz)
	if err != nil {
		if !o.seenDecodeAck[k] {
			o.seenDecodeAck[k] = true
			o.DecodeAck = append(o.DecodeAck, DecodeAckE{Bz: hx(bz), Ack: nil, Empty: false})
		}
		return nil, false
	}
	empty := len(a.String()) == 0
	if !o.seenDecodeAck[k] {
		o.seenDecodeAck[k] = true
		j := ackJ(&a)
		o.DecodeAck = append(o.DecodeAck, DecodeAckE{Bz: hx(bz), Ack: &j, Empty: empty})
	}
	o.AddAckRelayer(a.Relayer)
	return &a, empty
}

func (o *Oracles) AddPackAck(code uint64, result []byte, message, relayer string, fee uint64) {
	a := packettypes.NewAcknowledgement(code, result, message, relayer, fee)
	j := ackJ(&a)
	if o.seenPackAck[j] {
		return
	}
	o.seenPackAck[j] = true
	bz, err := a.ABIPack()
	if err != nil {
		// cannot happen for these types; record an empty result so that the model notices
		o.PackAck = append(o.PackAck, PackAckE{Ack: j, Bz: ""})
		return
	}
	o.PackAck = append(o.PackAck, PackAckE{Ack: j, Bz: hx(bz)})
	o.AddSha(bz)
}

func (o *Oracles) AddBech32(s string) {
	if o.seenBech32[s] {
		return
	}
	o.seenBech32[s] = true
	addr, err := sdk.AccAddressFromBech32(s)
	if err != nil {
		o.Bech32 = append(o.Bech32, Bech32E{S: hs(s), Addr: nil})
		return
	}
	h := hx(addr)
	o.Bech32 = append(o.Bech32, Bech32E{S: hs(s), Addr: &h})
}

func (o *Oracles) addFold(a, b string) {
	k := [2]string{a, b}
	if o.seenFold[k] {
		return
	}
	o.seenFold[k] = true
	o.Fold = append(o.Fold, FoldE{A: hs(a), B: hs(b), Eq: strings.EqualFold(a, b)})
}

// AddRegAddr: a counterparty address string registered in some relayer record.
func (o *Oracles) AddRegAddr(a string) {
	o.AddBech32(a)
	if o.regAddrs[a] {
		return
	}
	o.regAddrs[a] = true
	o.regAddrList = append(o.regAddrList, a)
	for _, b := range o.ackRelList {
		o.addFold(a, b)
	}
}

// AddAckRelayer: a decoded ack.Relayer string.
func (o *Oracles) AddAckRelayer(b string) {
	o.AddBech32(b)
	if o.ackRelayer[b] {
		return
	}
	o.ackRelayer[b] = true
	o.ackRelList = append(o.ackRelList, b)
	for _, a := range o.regAddrList {
		o.addFold(a, b)
	}
}
