package main

import (
	"bytes"
	"crypto/sha256"
	"fmt"
	"math/big"
	"strings"
	"testing"
	"time"

	abci "github.com/tendermint/tendermint/abci/types"
	tmproto "github.com/tendermint/tendermint/proto/tendermint/types"

	cryptotypes "github.com/cosmos/cosmos-sdk/crypto/types"
	"github.com/cosmos/cosmos-sdk/simapp/helpers"
	sdk "github.com/cosmos/cosmos-sdk/types"

	"github.com/ethereum/go-ethereum/accounts/abi"
	"github.com/ethereum/go-ethereum/common"
	ethtypes "github.com/ethereum/go-ethereum/core/types"
	"github.com/ethereum/go-ethereum/crypto"

	"github.com/tharsis/ethermint/crypto/ethsecp256k1"
	"github.com/tharsis/ethermint/server/config"
	"github.com/tharsis/ethermint/tests"
	evmtypes "github.com/tharsis/ethermint/x/evm/types"

	erc20contracts "github.com/teleport-network/teleport/syscontracts/erc20"
	endpointcontract "github.com/teleport-network/teleport/syscontracts/xibc_endpoint"
	packetcontract "github.com/teleport-network/teleport/syscontracts/xibc_packet"
	aggregatetypes "github.com/teleport-network/teleport/x/aggregate/types"
	tsstypes "github.com/teleport-network/teleport/x/xibc/clients/tss-client/types"
	clienttypes "github.com/teleport-network/teleport/x/xibc/core/client/types"
	packettypes "github.com/teleport-network/teleport/x/xibc/core/packet/types"
	"github.com/teleport-network/teleport/x/xibc/exported"
	xibctesting "github.com/teleport-network/teleport/x/xibc/testing"

	"verifharness/hlib"
)

const (
	nChains      = 3
	unknownChain = "nochain-x"
	// the light client accepts headers up to MaxClockDrift (10 s) ahead of the block time of the
	// updating chain; the harness clock ticks 1 s per committed block anywhere, and a chain whose
	// open block is older than staleAfter is given a new block before anything is delivered to it.
	tick       = time.Second
	staleAfter = 7 * time.Second
)

var (
	zeroAddr    = common.Address{}
	erc20ABI    = erc20contracts.ERC20MinterBurnerDecimalsContract.ABI
	packetABI   = packetcontract.PacketContract.ABI
	endpointABI = endpointcontract.EndpointContract.ABI
	packetAddr  = packetcontract.PacketContractAddress
	endpAddr    = endpointcontract.EndpointContractAddress
	fakeTssTok  = "0x00000000000000000000000000000000000000aa" // origin token of transfers "from" a TSS chain
)

type Chain struct {
	idx  int
	tc   *xibctesting.TestChain
	name string

	N   common.Address // native ERC-20 (minted to the sender, sent out)
	W   common.Address // bound token: bound to N of every peer (and to fakeTssTok from tss-idx)
	B   common.Address // bound token: bound to the base denomination (token 0) of every peer
	U   common.Address // native ERC-20 WITHOUT any trace on the other chains (destination execution fails)
	eth *ethWorld      // the world behind the Ethereum light client eth-<idx> (ops recv_eth / ack_eth), nil if not set up
	bsc *ethWorld      // same for the BSC light client bsc-<idx>

	M common.Address // multicall contract of the sender (op send_multi): several crossChainCalls in ONE transaction
	A common.Address // token of the agent route 0 -> 1 -> 2: native on chain 0, bound to it on 1, bound to that on 2

	dirty       bool  // something was delivered / written in the open block
	lastTxBlock int64 // height of the last block in which something was delivered / written

	fullHash  [32]byte // sha256 of the full dump of xibc+evm+bank after the last observation
	viewKey   [32]byte // evm+bank hash for which the cached views are valid
	viewAcks  int
	viewCSeq  [][2]string
	viewAckSt [][3]string
	viewBal   []string

	// ghost: for every client name, the consensus-state heights the PRESENT client instance accepted itself (creation,
	// its updates and upgrades; reset by a toggle).  The `low` recomputation of the verify table requires the proof
	// height to be one of them — whatever the client store contains.
	accepted  map[string]map[[2]uint64]bool
	preToggle map[string]clienttypes.Height // latest height of a client right before it was last toggled / upgraded
	savedTM   map[string]exported.ClientState

	sentFrom [][2]string // (dst name, seq) of every packet sent so far from this chain
	sentSeen map[[2]string]bool
}

type poolPkt struct {
	bz    []byte
	chain int // chain that holds the commitment (sender, or relay chain)
}

type poolAck struct {
	pkt   []byte
	ack   []byte
	chain int // chain that wrote the acknowledgement
}

type Env struct {
	t      *testing.T
	coord  *xibctesting.Coordinator
	chains []*Chain
	now    time.Time

	keys [3]cryptotypes.PrivKey // relayer 0 = SenderAcc, 1 = R2 (registered), 2 = R3 (not registered)
	accs [3]sdk.AccAddress

	dstNames []string // destination names observed through getNextSequenceSend

	steps   []Step
	envN    int
	curOp   int
	orc     *Oracles
	pktPool []poolPkt
	ackPool []poolAck
	stats   map[string]int

	tSetup time.Duration

	wack *[2]string // (code, fee option) of the acknowledgement written by the receive that is being recorded
}

func (e *Env) stat(k string) { e.stats[k]++ }

func must(err error) {
	if err != nil {
		panic(err)
	}
}

// ---------------------------------------------------------------------------------------------
// blocks and time

func (c *Chain) ctx() sdk.Context { return c.tc.GetContext() }

// commit closes the open block of c (EndBlock, Commit) and opens the next one (BeginBlock) at the
// next tick of the harness clock: BeginBlock, DeliverTx*, EndBlock, Commit — never BeginBlock twice.
func (e *Env) commit(c *Chain) {
	tc := c.tc
	tc.App.EndBlock(abci.RequestEndBlock{Height: tc.CurrentHeader.Height})
	tc.App.Commit()
	if c.dirty {
		c.lastTxBlock = tc.CurrentHeader.Height
	}
	c.dirty = false
	tc.LastHeader = tc.CurrentTMClientHeader()
	e.now = e.now.Add(tick)
	e.coord.CurrentTime = e.now
	tc.CurrentHeader = tmproto.Header{
		ChainID:            tc.ChainID,
		Height:             tc.App.LastBlockHeight() + 1,
		AppHash:            tc.App.LastCommitID().Hash,
		Time:               e.now.UTC(),
		ValidatorsHash:     tc.Vals.Hash(),
		NextValidatorsHash: tc.Vals.Hash(),
		ProposerAddress:    tc.Vals.Proposer.Address,
	}
	tc.App.BeginBlock(abci.RequestBeginBlock{Header: tc.CurrentHeader})
}

// provable: the last committed header of c commits to every state change made on c so far.
func (c *Chain) provable() bool {
	return !c.dirty && c.tc.LastHeader.Header.Height > c.lastTxBlock
}

// ---------------------------------------------------------------------------------------------
// delivering

func errText(err error) string {
	if err == nil {
		return ""
	}
	s := err.Error()
	if len(s) > 160 {
		s = s[:160]
	}
	return s
}

// deliver signs msgs with priv and runs them through BaseApp.Deliver (real runTx in deliver mode).
func (e *Env) deliver(c *Chain, priv cryptotypes.PrivKey, msgs ...sdk.Msg) (int, *sdk.Result, error) {
	tc := c.tc
	addr := sdk.AccAddress(priv.PubKey().Address())
	acc := tc.App.AccountKeeper.GetAccount(c.ctx(), addr)
	if acc == nil {
		return 1, nil, fmt.Errorf("harness: account %s does not exist", addr)
	}
	tx, err := helpers.GenTx(
		tc.TxConfig, msgs,
		sdk.Coins{sdk.NewInt64Coin(sdk.DefaultBondDenom, 0)},
		helpers.DefaultGenTxGas*4,
		tc.ChainID,
		[]uint64{acc.GetAccountNumber()}, []uint64{acc.GetSequence()},
		priv,
	)
	if err != nil {
		return 1, nil, err
	}
	c.dirty = true
	_, res, err := tc.App.BaseApp.Deliver(tc.TxConfig.TxEncoder(), tx)
	if err != nil {
		return 1, nil, err
	}
	return 0, res, nil
}

// evmTx executes a signed Ethereum transaction of the sender the way the integration test does
// (EvmKeeper.EthereumTx), on a cache context written back only if err == nil.
func (e *Env) evmTx(c *Chain, to common.Address, value *big.Int, data []byte) (*evmtypes.MsgEthereumTxResponse, error) {
	tc := c.tc
	cctx, write := c.ctx().CacheContext()
	chainID := tc.App.EvmKeeper.ChainID()
	nonce := tc.App.EvmKeeper.GetNonce(cctx, tc.SenderAddress)
	tx := evmtypes.NewTx(chainID, nonce, &to, value, config.DefaultGasCap, big.NewInt(0), big.NewInt(0), big.NewInt(0), data, &ethtypes.AccessList{})
	tx.From = tc.SenderAddress.Hex()
	if err := tx.Sign(ethtypes.LatestSignerForChainID(chainID), tests.NewSigner(tc.SenderPrivKey)); err != nil {
		return nil, err
	}
	c.dirty = true
	rsp, err := tc.App.EvmKeeper.EthereumTx(sdk.WrapSDKContext(cctx), tx)
	if err != nil {
		return nil, err
	}
	write()
	return rsp, nil
}

// view calls a contract method on a throw-away cache context.
func (c *Chain) view(ctx sdk.Context, a abi.ABI, contract common.Address, method string, args ...interface{}) ([]interface{}, error) {
	cctx, _ := ctx.CacheContext()
	res, err := c.tc.App.AggregateKeeper.CallEVM(cctx, a, aggregatetypes.ModuleAddress, contract, method, args...)
	if err != nil {
		return nil, err
	}
	return a.Unpack(method, res.Ret)
}

func (c *Chain) viewStr(ctx sdk.Context, a abi.ABI, contract common.Address, idx int, method string, args ...interface{}) string {
	var out string
	p, _ := hlib.Catch(func() {
		vals, err := c.view(ctx, a, contract, method, args...)
		if err != nil || idx >= len(vals) {
			out = "err"
			return
		}
		switch v := vals[idx].(type) {
		case *big.Int:
			out = v.String()
		case uint64:
			out = u64(v)
		case uint8:
			out = u64(uint64(v))
		default:
			out = fmt.Sprint(v)
		}
	})
	if p {
		return "panic"
	}
	return out
}

// ---------------------------------------------------------------------------------------------
// set-up

func newKey() cryptotypes.PrivKey {
	k, err := ethsecp256k1.GenerateKey()
	must(err)
	return k
}

func (e *Env) deployERC20(c *Chain) common.Address {
	ctx := c.ctx()
	ctor, err := erc20ABI.Pack("", "name", "symbol", uint8(18))
	must(err)
	bin := erc20contracts.ERC20MinterBurnerDecimalsContract.Bin
	data := append(append([]byte{}, bin...), ctor...)
	nonce := c.tc.App.EvmKeeper.GetNonce(ctx, endpAddr)
	addr := crypto.CreateAddress(endpAddr, nonce)
	res, err := c.tc.App.AggregateKeeper.CallEVMWithData(ctx, endpAddr, nil, data)
	must(err)
	if res.Failed() {
		panic("deploy ERC20: " + res.VmError)
	}
	return addr
}

func (e *Env) erc20Call(c *Chain, from common.Address, token common.Address, method string, args ...interface{}) {
	data, err := erc20ABI.Pack(method, args...)
	must(err)
	res, err := c.tc.App.AggregateKeeper.CallEVMWithData(c.ctx(), from, &token, data)
	must(err)
	if res.Failed() {
		panic("erc20 " + method + ": " + res.VmError)
	}
}

// multicallInitCode: a hand-assembled forwarding contract (no Solidity compiler on this image).  Init code (12 bytes,
// copies the runtime) + runtime:
//
//	CALLDATASIZE 0 0 CALLDATACOPY ; ptr=0
//	loop: if !(CALLDATASIZE > ptr) STOP
//	      ok = CALL(GAS, mload(ptr), mload(ptr+32), ptr+96, mload(ptr+64), 0, 0)
//	      if !ok { revert(returndata) }
//	      ptr += 96 + mload(ptr+64) ; goto loop
//
// i.e. the call data is a sequence of records [target(32) | value(32) | len(32) | data(len)], each forwarded as a
// CALL from the contract; the first failing call reverts the transaction.
const multicallInitCode = "604380600c6000396000f300" +
	"36600060003760005b8036111560365760006000826040015183606001846020015185515af1156038578060400151016060016008565b005b3d600060003e3d6000fd"

func mcRecord(target common.Address, value *big.Int, data []byte) []byte {
	out := common.LeftPadBytes(target.Bytes(), 32)
	out = append(out, common.LeftPadBytes(value.Bytes(), 32)...)
	out = append(out, common.LeftPadBytes(big.NewInt(int64(len(data))).Bytes(), 32)...)
	return append(out, data...)
}

// deployMulticall deploys the forwarding contract from the sender's account; if the chain has the native ERC-20 N the
// contract receives a balance of it and approves the endpoint (through a forwarded call), so that ERC-20 legs work.
func (e *Env) deployMulticall(c *Chain) {
	ctx := c.ctx()
	code := common.FromHex(multicallInitCode)
	nonce := c.tc.App.EvmKeeper.GetNonce(ctx, c.tc.SenderAddress)
	c.M = crypto.CreateAddress(c.tc.SenderAddress, nonce)
	res, err := c.tc.App.AggregateKeeper.CallEVMWithData(ctx, c.tc.SenderAddress, nil, code)
	must(err)
	if res.Failed() {
		panic("deploy multicall: " + res.VmError)
	}
	if c.N != zeroAddr {
		e.erc20Call(c, endpAddr, c.N, "mint", c.M, big.NewInt(1000000000))
		appr, err := erc20ABI.Pack("approve", endpAddr, new(big.Int).Lsh(big.NewInt(1), 200))
		must(err)
		res, err := c.tc.App.AggregateKeeper.CallEVMWithData(ctx, c.tc.SenderAddress, &c.M, mcRecord(c.N, big.NewInt(0), appr))
		must(err)
		if res.Failed() {
			panic("multicall approve: " + res.VmError)
		}
	}
}

type needs struct {
	erc20, base, notrace, tssTransfer, agent, multi, eth bool
}

func scanNeeds(s *Spec) needs {
	var n needs
	for _, op := range s.Ops {
		switch op.K {
		case "recv_eth", "ack_eth":
			n.eth = true
		case "send":
			if op.Dst == -3 || op.Dst == -4 {
				n.eth = true
			}
			switch op.Variant {
			case "base":
				n.base = true
			case "notrace":
				n.notrace = true
			case "agent", "agent_unknown":
				n.agent = true
				n.erc20 = true
			default:
				n.erc20 = true
			}
		case "send_multi":
			n.multi = true
			for _, l := range op.Legs {
				switch l.Variant {
				case "erc20":
					n.erc20 = true
				default:
					n.base = true
				}
			}
		case "recv_tss":
			if op.Variant == "transfer" {
				n.tssTransfer = true
			}
		}
	}
	return n
}

func hexLower(a common.Address) string { return strings.ToLower(a.String()) }

func newEnv(spec *Spec) *Env {
	t0 := time.Now()
	t := &testing.T{}
	e := &Env{t: t, orc: newOracles(), stats: map[string]int{}}
	e.coord = xibctesting.NewCoordinator(t, nChains)
	for i := 0; i < nChains; i++ {
		tc := e.coord.GetChain(xibctesting.GetChainID(i))
		e.chains = append(e.chains, &Chain{idx: i, tc: tc, name: tc.ChainID, sentSeen: map[[2]string]bool{},
			accepted: map[string]map[[2]uint64]bool{}, preToggle: map[string]clienttypes.Height{}, savedTM: map[string]exported.ClientState{}})
	}
	// Tendermint clients on every pair (also registers SenderAcc as relayer, overwritten below)
	for i := 0; i < nChains; i++ {
		for j := i + 1; j < nChains; j++ {
			e.coord.SetupClients(xibctesting.NewPath(e.chains[i].tc, e.chains[j].tc))
		}
	}
	if t.Failed() {
		panic("harness: set-up of the clients failed")
	}

	// accounts: relayer 0 = the sender (same key on every chain, as the testing package does),
	// R2 and R3 likewise one key each, used on every chain.
	e.keys[0] = e.chains[0].tc.SenderPrivKey
	e.keys[1] = newKey()
	e.keys[2] = newKey()
	for i := range e.keys {
		e.accs[i] = sdk.AccAddress(e.keys[i].PubKey().Address())
	}

	nd := scanNeeds(spec)
	for _, c := range e.chains {
		ctx := c.ctx()
		app := c.tc.App
		for _, a := range e.accs[1:] {
			app.AccountKeeper.SetAccount(ctx, app.AccountKeeper.NewAccountWithAddress(ctx, a))
			must(app.BankKeeper.SendCoins(ctx, c.tc.SenderAcc, a, sdk.NewCoins(sdk.NewInt64Coin(sdk.DefaultBondDenom, 1000000000))))
		}
		// TSS client tss-<idx>, TssAddress = the sender
		tssName := fmt.Sprintf("tss-%d", c.idx)
		must(app.XIBCKeeper.ClientKeeper.CreateClient(ctx, tssName,
			&tsstypes.ClientState{TssAddress: c.tc.SenderAcc.String()}, &tsstypes.ConsensusState{}))
		// relayer records: ONE record per relayer with every counterparty
		var peers []string
		for _, d := range e.chains {
			if d.idx != c.idx {
				peers = append(peers, d.name)
			}
		}
		s0 := e.accs[0].String()
		if nd.eth {
			// the Ethereum-secured counterparty eth-<idx>: relayer 0 relays for it too
			e.setupEth(c, false)
			e.setupEth(c, true)
			e.register(c, s0, append(append([]string{}, peers...), tssName, ethName(c.idx), bscName(c.idx)), []string{s0, s0, s0, s0, s0})
		} else {
			e.register(c, s0, append(append([]string{}, peers...), tssName), []string{s0, s0, s0})
		}
		// R2: its own address on the counterparties; chain 1 registers it in UPPER case (a valid
		// bech32 spelling) so that strings.EqualFold matters.
		s1 := e.accs[1].String()
		if c.idx == 1 {
			s1 = strings.ToUpper(s1)
		}
		e.register(c, e.accs[1].String(), peers, []string{s1, s1})
	}

	// tokens
	big1 := new(big.Int).Lsh(big.NewInt(1), 200)
	for _, c := range e.chains {
		if nd.erc20 || nd.tssTransfer {
			c.N = e.deployERC20(c)
			e.erc20Call(c, endpAddr, c.N, "mint", c.tc.SenderAddress, big.NewInt(1000000000))
			e.erc20Call(c, c.tc.SenderAddress, c.N, "approve", endpAddr, big1)
			c.W = e.deployERC20(c)
			e.erc20Call(c, c.tc.SenderAddress, c.W, "approve", endpAddr, big1)
		}
		if nd.base {
			c.B = e.deployERC20(c)
			e.erc20Call(c, c.tc.SenderAddress, c.B, "approve", endpAddr, big1)
		}
		if nd.notrace {
			c.U = e.deployERC20(c)
			e.erc20Call(c, endpAddr, c.U, "mint", c.tc.SenderAddress, big.NewInt(1000000000))
			e.erc20Call(c, c.tc.SenderAddress, c.U, "approve", endpAddr, big1)
		}
	}
	if nd.multi {
		for _, c := range e.chains {
			e.deployMulticall(c)
		}
	}
	if nd.agent {
		a, b, c := e.chains[0], e.chains[1], e.chains[2]
		a.A, b.A, c.A = e.deployERC20(a), e.deployERC20(b), e.deployERC20(c)
		e.erc20Call(a, endpAddr, a.A, "mint", a.tc.SenderAddress, big.NewInt(1000000000))
		e.erc20Call(a, a.tc.SenderAddress, a.A, "approve", endpAddr, big1)
		must(b.tc.App.AggregateKeeper.RegisterERC20Trace(b.ctx(), b.A, hexLower(a.A), a.name, 0))
		must(c.tc.App.AggregateKeeper.RegisterERC20Trace(c.ctx(), c.A, hexLower(b.A), b.name, 0))
	}
	for _, c := range e.chains {
		ak := c.tc.App.AggregateKeeper
		for _, d := range e.chains {
			if d.idx == c.idx {
				continue
			}
			if c.W != zeroAddr {
				must(ak.RegisterERC20Trace(c.ctx(), c.W, hexLower(d.N), d.name, 0))
			}
			if c.B != zeroAddr {
				must(ak.RegisterERC20Trace(c.ctx(), c.B, hexLower(zeroAddr), d.name, 0))
			}
		}
		if c.W != zeroAddr && nd.tssTransfer {
			must(ak.RegisterERC20Trace(c.ctx(), c.W, fakeTssTok, fmt.Sprintf("tss-%d", c.idx), 0))
		}
	}

	e.dstNames = []string{}
	for _, c := range e.chains {
		e.dstNames = append(e.dstNames, c.name)
	}
	for i := range e.chains {
		e.dstNames = append(e.dstNames, fmt.Sprintf("tss-%d", i))
	}
	if nd.eth {
		for i := range e.chains {
			e.dstNames = append(e.dstNames, ethName(i), bscName(i))
		}
	}
	e.dstNames = append(e.dstNames, unknownChain)
	for _, op := range spec.Ops {
		if op.K == "create_client" && op.Name != "self" {
			e.dstNames = append(e.dstNames, op.Name)
		}
	}

	// commit a block on every chain (two, so that every chain's last header proves its state)
	e.now = e.coord.CurrentTime
	for r := 0; r < 2; r++ {
		for _, c := range e.chains {
			c.dirty = true
			e.commit(c)
		}
	}
	for _, c := range e.chains {
		c.fullHash, _, _ = c.hashes(c.ctx())
		// every consensus state present now was accepted by the client instance that exists now
		c.tc.App.XIBCKeeper.ClientKeeper.IterateConsensusStates(c.ctx(), func(n string, cs clienttypes.ConsensusStateWithHeight) bool {
			c.accept(n, cs.Height)
			return false
		})
	}
	e.tSetup = time.Since(t0)
	return e
}

// register writes a relayer record (keeper level, as the testing package does) and tabulates the
// oracle entries that depend on registered addresses.
func (e *Env) register(c *Chain, addr string, chains, addrs []string) {
	c.tc.App.XIBCKeeper.ClientKeeper.RegisterRelayers(c.ctx(), addr, chains, addrs)
	c.dirty = true
	e.orc.AddBech32(addr)
	for _, a := range addrs {
		e.orc.AddRegAddr(a)
	}
}

// ---------------------------------------------------------------------------------------------
// store dumps

var famPrefixes = [][]byte{[]byte("receipts/"), []byte("acks/"), []byte("commitments/"), []byte("nextSequenceSend/")}

func isPacketFamily(k []byte) int {
	for i, p := range famPrefixes {
		if bytes.HasPrefix(k, p) {
			return i
		}
	}
	return -1
}

// packetStore: sorted raw dump of the packet families of the xibc store, and sha256 per family.
func (c *Chain) packetStore(ctx sdk.Context) ([]KV, FamHash) {
	st := ctx.KVStore(c.tc.App.GetKey("xibc"))
	it := st.Iterator(nil, nil)
	defer it.Close()
	out := []KV{}
	hs := [6]interface{ Write([]byte) (int, error) }{}
	hh := [6]interface {
		Sum([]byte) []byte
		Write([]byte) (int, error)
	}{sha256.New(), sha256.New(), sha256.New(), sha256.New(), sha256.New(), sha256.New()}
	_ = hs
	for ; it.Valid(); it.Next() {
		k, v := it.Key(), it.Value()
		f := isPacketFamily(k)
		if f >= 0 {
			out = append(out, KV{hx(k), hx(v)})
		} else if bytes.HasPrefix(k, []byte("clients/")) {
			f = 4
		} else {
			f = 5
		}
		writeLV(hh[f], k)
		writeLV(hh[f], v)
	}
	return out, FamHash{
		Receipts: hx(hh[0].Sum(nil)), Acks: hx(hh[1].Sum(nil)), Commitments: hx(hh[2].Sum(nil)),
		NextSeq: hx(hh[3].Sum(nil)), Clients: hx(hh[4].Sum(nil)), Rest: hx(hh[5].Sum(nil)),
	}
}

func writeLV(h interface{ Write([]byte) (int, error) }, b []byte) {
	var l [4]byte
	l[0], l[1], l[2], l[3] = byte(len(b)>>24), byte(len(b)>>16), byte(len(b)>>8), byte(len(b))
	h.Write(l[:])
	h.Write(b)
}

// hashes: sha256 over the full dump of xibc+evm+bank, and over evm+bank only (key of the view cache).
func (c *Chain) hashes(ctx sdk.Context) (full [32]byte, evmbank [32]byte, n int) {
	hf := sha256.New()
	he := sha256.New()
	for _, name := range []string{"xibc", "evm", "bank"} {
		st := ctx.KVStore(c.tc.App.GetKey(name))
		it := st.Iterator(nil, nil)
		for ; it.Valid(); it.Next() {
			k, v := it.Key(), it.Value()
			writeLV(hf, k)
			writeLV(hf, v)
			if name != "xibc" {
				writeLV(he, k)
				writeLV(he, v)
			}
			n++
		}
		it.Close()
	}
	copy(full[:], hf.Sum(nil))
	copy(evmbank[:], he.Sum(nil))
	return
}

func (c *Chain) accept(name string, h clienttypes.Height) {
	if c.accepted[name] == nil {
		c.accepted[name] = map[[2]uint64]bool{}
	}
	c.accepted[name][[2]uint64{h.RevisionNumber, h.RevisionHeight}] = true
}

func (c *Chain) isAccepted(name string, h clienttypes.Height) bool {
	return c.accepted[name][[2]uint64{h.RevisionNumber, h.RevisionHeight}]
}

// ---------------------------------------------------------------------------------------------
// chain description

func (e *Env) describe(c *Chain) ChainJ {
	ctx := c.ctx()
	ck := c.tc.App.XIBCKeeper.ClientKeeper
	j := ChainJ{Name: hs(c.name), Clients: []ClientJ{}, Relayers: []RelayerJ{}}
	ck.IterateClients(ctx, func(name string, cs exported.ClientState) bool {
		cj := ClientJ{Name: hs(name), Tss: cs.ClientType() == exported.TSS, Cons: [][2]string{}}
		for _, h := range c.consensusHeights(name) {
			cj.Cons = append(cj.Cons, heightJ(h))
		}
		j.Clients = append(j.Clients, cj)
		return false
	})
	for _, ir := range ck.GetAllRelayers(ctx) {
		r := RelayerJ{Addr: hs(ir.Address), Chains: []string{}, Addrs: []string{}}
		for _, x := range ir.Chains {
			r.Chains = append(r.Chains, hs(x))
		}
		for _, x := range ir.Addresses {
			r.Addrs = append(r.Addrs, hs(x))
		}
		j.Relayers = append(j.Relayers, r)
	}
	j.Store, _ = c.packetStore(ctx)
	j.CSeq = e.cseq(c, ctx)
	return j
}

func (e *Env) cseq(c *Chain, ctx sdk.Context) [][2]string {
	out := [][2]string{}
	for _, d := range e.dstNames {
		out = append(out, [2]string{hs(d), c.viewStr(ctx, packetABI, packetAddr, 0, "getNextSequenceSend", d)})
	}
	return out
}

var _ = clienttypes.Height{}
var _ = packettypes.Packet{}
