package main

import (
	"bytes"
	"fmt"
	"math/big"
	"reflect"
	"strings"

	abci "github.com/tendermint/tendermint/abci/types"

	sdk "github.com/cosmos/cosmos-sdk/types"
	"github.com/gogo/protobuf/proto"

	"github.com/ethereum/go-ethereum/accounts/abi"
	"github.com/ethereum/go-ethereum/common"

	evmtypes "github.com/tharsis/ethermint/x/evm/types"

	govtypes "github.com/cosmos/cosmos-sdk/x/gov/types"
	"github.com/teleport-network/teleport/syscontracts"
	agentcontract "github.com/teleport-network/teleport/syscontracts/xibc_agent"
	bscclient "github.com/teleport-network/teleport/x/xibc/clients/light-clients/bsc/types"
	ethclient "github.com/teleport-network/teleport/x/xibc/clients/light-clients/eth/types"
	xibctmtypes "github.com/teleport-network/teleport/x/xibc/clients/light-clients/tendermint/types"
	tsstypes "github.com/teleport-network/teleport/x/xibc/clients/tss-client/types"

	xibcclient "github.com/teleport-network/teleport/x/xibc/core/client"
	clienttypes "github.com/teleport-network/teleport/x/xibc/core/client/types"
	commitmenttypes "github.com/teleport-network/teleport/x/xibc/core/commitment/types"
	"github.com/teleport-network/teleport/x/xibc/core/host"
	packettypes "github.com/teleport-network/teleport/x/xibc/core/packet/types"
	"github.com/teleport-network/teleport/x/xibc/exported"

	"verifharness/hlib"
)

// ---------------------------------------------------------------------------------------------
// steps and observations

// observe reads everything the Obs record needs from chain c after a step.
func (e *Env) observe(c *Chain, class int, errs string) Obs {
	ctx := c.ctx()
	store, fam := c.packetStore(ctx)
	full, eb, _ := c.hashes(ctx)
	o := Obs{Class: class, Store: store, FamHash: fam, Err: errs}
	o.Unchanged = full == c.fullHash
	c.fullHash = full
	if c.viewCSeq == nil || eb != c.viewKey || c.viewAcks != len(c.sentFrom) {
		c.viewKey = eb
		c.viewAcks = len(c.sentFrom)
		c.viewCSeq = e.cseq(c, ctx)
		c.viewAckSt = [][3]string{}
		for _, s := range c.sentFrom {
			var seq uint64
			fmt.Sscan(s[1], &seq)
			c.viewAckSt = append(c.viewAckSt, [3]string{hs(s[0]), s[1], c.viewStr(ctx, packetABI, packetAddr, 0, "getAckStatus", s[0], seq)})
		}
		c.viewBal = e.balances(c, ctx)
	}
	o.CSeq = c.viewCSeq
	o.AckStatus = c.viewAckSt
	o.Bal = c.viewBal
	return o
}

// balances: fixed-position vector, see README in the report:
// [0] N.balanceOf(sender) [1] N.balanceOf(endpoint) [2] N.balanceOf(packet)
// [3] W.balanceOf(sender) [4] B.balanceOf(sender) [5] U.balanceOf(sender) [6] U.balanceOf(endpoint)
// then for each peer d (ascending index): bindings(W/d).amount, bindings(B/d).amount, outTokens(N,d), outTokens(0,d), outTokens(U,d)
// then bindings(W/tss-idx).amount, A.balanceOf(sender), A.balanceOf(agent), A.balanceOf(endpoint),
// stake(packet contract), stake(endpoint contract), N.balanceOf(R2), N.balanceOf(R3), stake(sender), stake(R2), stake(R3)
func (e *Env) balances(c *Chain, ctx sdk.Context) []string {
	out := []string{}
	bal := func(tok, who common.Address) {
		if tok == zeroAddr {
			out = append(out, "0")
			return
		}
		out = append(out, c.viewStr(ctx, erc20ABI, tok, 0, "balanceOf", who))
	}
	binding := func(tok common.Address, ori string) {
		if tok == zeroAddr {
			out = append(out, "0")
			return
		}
		out = append(out, c.viewStr(ctx, endpointABI, endpAddr, 2, "bindings", hexLower(tok)+"/"+ori))
	}
	outTok := func(tok common.Address, has bool, dst string) {
		if !has {
			out = append(out, "0")
			return
		}
		out = append(out, c.viewStr(ctx, endpointABI, endpAddr, 0, "outTokens", tok, dst))
	}
	s := c.tc.SenderAddress
	bal(c.N, s)
	bal(c.N, endpAddr)
	bal(c.N, packetAddr)
	bal(c.W, s)
	bal(c.B, s)
	bal(c.U, s)
	bal(c.U, endpAddr)
	for _, d := range e.chains {
		if d.idx == c.idx {
			continue
		}
		binding(c.W, d.name)
		binding(c.B, d.name)
		outTok(c.N, c.N != zeroAddr, d.name)
		outTok(zeroAddr, true, d.name)
		outTok(c.U, c.U != zeroAddr, d.name)
	}
	binding(c.W, fmt.Sprintf("tss-%d", c.idx))
	bal(c.A, s)
	bal(c.A, agentcontract.AgentContractAddress)
	bal(c.A, endpAddr)
	bk := c.tc.App.BankKeeper
	out = append(out, bk.GetBalance(ctx, sdk.AccAddress(packetAddr.Bytes()), sdk.DefaultBondDenom).Amount.String())
	out = append(out, bk.GetBalance(ctx, sdk.AccAddress(endpAddr.Bytes()), sdk.DefaultBondDenom).Amount.String())
	// relayers (the fee of an acknowledged packet goes to the relayer named in the acknowledgement)
	bal(c.N, common.BytesToAddress(e.accs[1]))
	bal(c.N, common.BytesToAddress(e.accs[2]))
	for _, a := range e.accs {
		out = append(out, bk.GetBalance(ctx, a, sdk.DefaultBondDenom).Amount.String())
	}
	return out
}

// record appends a step.  run returns (class, error text) and may fill the act through the pointer
// it captured; a panic escaping run is class 2.
func (e *Env) record(c *Chain, act interface{}, run func() (int, string)) int {
	e.envN++
	env := e.envN
	class, errs := 0, ""
	// client named by a client-changing act, and its consensus heights before the step
	cname, ckind := "", ""
	switch a := act.(type) {
	case ActUpdate:
		cname, ckind = string(hlib.UnHex(a.Name)), "update"
	case ActCreateClient:
		cname, ckind = string(hlib.UnHex(a.Name)), a.T
	}
	before := map[[2]uint64]bool{}
	if ckind == "update" {
		for _, h := range c.consensusHeights(cname) {
			before[[2]uint64{h.RevisionNumber, h.RevisionHeight}] = true
		}
	}
	e.wack = nil
	if p, val := hlib.Catch(func() { class, errs = run() }); p {
		class, errs = 2, "PANIC: "+val
		if len(errs) > 160 {
			errs = errs[:160]
		}
	}
	obs := e.observe(c, class, errs)
	obs.Cons = [][2]string{}
	obs.Wack = e.wack
	e.wack = nil
	if class == 0 && ckind != "" {
		switch ckind {
		case "update":
			// the heights this update added: what the present client instance accepted itself
			for _, h := range c.consensusHeights(cname) {
				if !before[[2]uint64{h.RevisionNumber, h.RevisionHeight}] {
					obs.Cons = append(obs.Cons, heightJ(h))
					c.accept(cname, h)
				}
			}
		default:
			// create / toggle / upgrade: the new client state's own latest height (a TSS client has no consensus state).
			// A toggle installs a NEW instance: whatever an earlier instance accepted does not count any more.
			if ckind != "upgrade_client" {
				c.accepted[cname] = map[[2]uint64]bool{}
			}
			if h, cs, found := c.clientHeight(cname); found && cs.ClientType() != exported.TSS {
				obs.Cons = append(obs.Cons, heightJ(h))
				c.accept(cname, h)
			}
		}
	}
	e.steps = append(e.steps, Step{Chain: c.idx, Env: env, Op: e.curOp, Act: act, Obs: obs})
	return class
}

// blockStep commits the open block of c and records it as a `block` step.
func (e *Env) blockStep(c *Chain) {
	e.record(c, ActBlock{T: "block"}, func() (int, string) {
		e.commit(c)
		return 0, ""
	})
	e.stat("block")
}

// prepare gives c a new block if its open block is too old for the light-client clock-drift check.
func (e *Env) prepare(c *Chain) {
	if e.now.Sub(c.tc.CurrentHeader.Time) >= staleAfter {
		e.blockStep(c)
		e.stat("block.stale")
	}
}

// makeProvable commits blocks on s until its last header commits to all of its state.
func (e *Env) makeProvable(s *Chain) {
	for i := 0; i < 3 && !s.provable(); i++ {
		e.blockStep(s)
	}
}

func (e *Env) finish(c *Chain, commit bool) {
	if commit {
		e.blockStep(c)
	}
}

// ---------------------------------------------------------------------------------------------
// clients, proofs

func (c *Chain) clientHeight(name string) (clienttypes.Height, exported.ClientState, bool) {
	cs, found := c.tc.App.XIBCKeeper.ClientKeeper.GetClientState(c.ctx(), name)
	if !found {
		return clienttypes.Height{}, nil, false
	}
	h, _ := cs.GetLatestHeight().(clienttypes.Height)
	return h, cs, true
}

// queryProof: own version of TestChain.QueryProofAtHeight (no require.*).
func queryProof(s *Chain, key []byte, height uint64) []byte {
	if height < 2 || int64(height)-1 > s.tc.App.LastBlockHeight() {
		return []byte("no-proof-at-this-height")
	}
	var proof []byte
	if p, _ := hlib.Catch(func() {
		res := s.tc.App.Query(abci.RequestQuery{
			Path:   fmt.Sprintf("store/%s/key", host.StoreKey),
			Height: int64(height) - 1,
			Data:   key,
			Prove:  true,
		})
		if res.ProofOps == nil {
			proof = []byte("no-proof-ops")
			return
		}
		mp, err := commitmenttypes.ConvertProofs(res.ProofOps)
		if err != nil {
			proof = []byte("bad-proof-ops")
			return
		}
		proof, err = s.tc.App.AppCodec().Marshal(&mp)
		if err != nil {
			proof = []byte("bad-proof-marshal")
		}
	}); p {
		return []byte("proof-query-panicked")
	}
	return proof
}

// doUpdate delivers MsgUpdateClient for s's client on c, signed by relayer rel.  Recorded as a step.
func (e *Env) doUpdate(c, s *Chain, rel int, aux bool) int {
	if c.idx == s.idx {
		e.stat("update.skipped_self")
		return 1
	}
	e.makeProvable(s)
	trusted, curCS, found := c.clientHeight(s.name)
	if !found {
		e.stat("update.skipped_noclient")
		return 1
	}
	if curCS.ClientType() != exported.Tendermint {
		e.stat("update.skipped_not_tendermint") // the peer's client is toggled to TSS at the moment
		return 1
	}
	if trusted.RevisionHeight >= uint64(s.tc.LastHeader.Header.Height) {
		if aux {
			return 0 // already up to date
		}
		e.blockStep(s) // a new header is needed for an update to be acceptable
	}
	e.prepare(c)
	class := e.record(c, ActUpdate{T: "update", Name: hs(s.name)}, func() (int, string) {
		header, err := c.tc.ConstructUpdateTMClientHeaderWithTrustedHeight(s.tc, s.name, trusted)
		if err != nil {
			return 1, "harness: " + errText(err)
		}
		msg, err := clienttypes.NewMsgUpdateClient(s.name, header, e.accs[rel])
		if err != nil {
			return 1, "harness: " + errText(err)
		}
		cl, _, err := e.deliver(c, e.keys[rel], msg)
		return cl, errText(err)
	})
	kind := "update"
	if aux {
		kind = "update.aux"
	}
	e.stat(fmt.Sprintf("%s.rel%d.class%d", kind, rel, class))
	return class
}

// consensus heights stored for s's client on c, ascending
func (c *Chain) consensusHeights(name string) []clienttypes.Height {
	var hs []clienttypes.Height
	c.tc.App.XIBCKeeper.ClientKeeper.IterateConsensusStates(c.ctx(), func(n string, cs clienttypes.ConsensusStateWithHeight) bool {
		if n == name {
			hs = append(hs, cs.Height)
		}
		return false
	})
	return hs
}

// ---------------------------------------------------------------------------------------------
// the verify oracle

func heightJ(h clienttypes.Height) [2]string {
	return [2]string{u64(h.RevisionNumber), u64(h.RevisionHeight)}
}

// verifyOracle evaluates, independently of the keeper, what the client of the claimed counterparty
// says about (proof, height, path, value) of the message that is about to be delivered to c.
func (e *Env) verifyOracle(c *Chain, env int, kind int, pktBz, ackBz, proof []byte, height clienttypes.Height, signer string) {
	p, err := realDecode(pktBz)
	if err != nil && p.Sequence == 0 {
		return
	}
	name := p.SrcChain
	if kind == 1 {
		name = p.DstChain
	}
	cctx, _ := c.ctx().CacheContext()
	ck := c.tc.App.XIBCKeeper.ClientKeeper
	cs, found := ck.GetClientState(cctx, name)
	if !found {
		return
	}
	var val []byte
	if kind == 0 {
		bz, err := p.ABIPack()
		if err != nil {
			return
		}
		val = e.orc.AddSha(bz)
	} else {
		val = e.orc.AddSha(ackBz)
	}
	prf := proof
	isTss := cs.ClientType() == exported.TSS
	if isTss {
		prf = []byte(signer)
	}
	ok := false
	hlib.Catch(func() {
		store := ck.ClientStore(cctx, name)
		var verr error
		if kind == 0 {
			verr = cs.VerifyPacketCommitment(cctx, store, c.tc.App.AppCodec(), height, prf, p.SrcChain, p.DstChain, p.Sequence, val)
		} else {
			verr = cs.VerifyPacketAcknowledgement(cctx, store, c.tc.App.AppCodec(), height, prf, p.SrcChain, p.DstChain, p.Sequence, val)
		}
		ok = verr == nil
	})
	low := ok
	if tm, isTm := cs.(*xibctmtypes.ClientState); isTm {
		low = false
		hlib.Catch(func() {
			cons, found := ck.GetClientConsensusState(cctx, name, height)
			if !found {
				return
			}
			if tm.GetLatestHeight().LT(height) {
				return
			}
			// ... a consensus state the PRESENT client instance accepted itself (not one left over in the store)
			if !c.isAccepted(name, height) {
				return
			}
			var mp commitmenttypes.MerkleProof
			if prf == nil {
				return
			}
			if err := c.tc.App.AppCodec().Unmarshal(prf, &mp); err != nil {
				return
			}
			var pth string
			if kind == 0 {
				pth = host.PacketCommitmentPath(p.SrcChain, p.DstChain, p.Sequence)
			} else {
				pth = host.PacketAcknowledgementPath(p.SrcChain, p.DstChain, p.Sequence)
			}
			mpath, err := commitmenttypes.ApplyPrefix(commitmenttypes.NewMerklePrefix([]byte("xibc")), commitmenttypes.NewMerklePath(pth))
			if err != nil {
				return
			}
			low = mp.VerifyMembership(commitmenttypes.GetSDKSpecs(), cons.GetRoot(), mpath, val) == nil
		})
	}
	evmLow := func(latest exported.Height, delay uint64, contract []byte) {
		low = false
		hlib.Catch(func() {
			cons, found := ck.GetClientConsensusState(cctx, name, height)
			if !found {
				return
			}
			if latest.LT(height) || latest.GetRevisionNumber() != height.GetRevisionNumber() {
				return
			}
			// the stated height must be buried under the client's block delay
			if latest.GetRevisionHeight()-height.GetRevisionHeight() < delay {
				return
			}
			if !c.isAccepted(name, height) {
				return
			}
			low = ethLow(cons.GetRoot(), contract, prf, kind == 1, p.SrcChain, p.DstChain, p.Sequence, val)
		})
	}
	if ec, isEth := cs.(*ethclient.ClientState); isEth {
		evmLow(ec.GetLatestHeight(), ec.BlockDelay, ec.ContractAddress)
	}
	if bc, isBsc := cs.(*bscclient.ClientState); isBsc {
		evmLow(bc.GetLatestHeight(), uint64(len(bc.Validators)/2+1), bc.ContractAddress)
	}
	e.orc.Verify = append(e.orc.Verify, VerifyE{
		Env: env, Client: hs(name), Kind: kind, H: heightJ(height), Proof: hx(prf),
		Src: hs(p.SrcChain), Dst: hs(p.DstChain), Seq: u64(p.Sequence), Val: hx(val), Ok: ok, Low: low,
	})
	if ok != low {
		e.stat("verify.ok_ne_low")
	}
}

// ---------------------------------------------------------------------------------------------
// events

var (
	evSendName  = proto.MessageName(&packettypes.EventSendPacket{})
	evWriteName = proto.MessageName(&packettypes.EventWriteAck{})
)

type txEvents struct {
	sends  [][]byte    // packet bytes of EventSendPacket
	writes [][2][]byte // (packet bytes, ack bytes) of EventWriteAck
}

func parseEvents(evs []abci.Event) txEvents {
	var out txEvents
	for _, ev := range evs {
		if ev.Type != evSendName && ev.Type != evWriteName {
			continue
		}
		m, err := sdk.ParseTypedEvent(ev)
		if err != nil {
			panic("harness: cannot parse typed event " + ev.Type + ": " + err.Error())
		}
		switch x := m.(type) {
		case *packettypes.EventSendPacket:
			out.sends = append(out.sends, x.Packet)
		case *packettypes.EventWriteAck:
			out.writes = append(out.writes, [2][]byte{x.Packet, x.Ack})
		}
	}
	return out
}

// addSent puts emitted packet bytes into the pool of sent packets (commitment on chain c).
func (e *Env) addSent(c *Chain, bz []byte) PacketJ {
	p, _ := e.orc.AddDecode(bz)
	e.pktPool = append(e.pktPool, poolPkt{bz: append([]byte{}, bz...), chain: c.idx})
	if p.SrcChain == c.name {
		k := [2]string{p.DstChain, u64(p.Sequence)}
		if !c.sentSeen[k] {
			c.sentSeen[k] = true
			c.sentFrom = append(c.sentFrom, k)
		}
	}
	return packetJ(&p)
}

func (e *Env) sendsOf(c *Chain, pk [][]byte) []SendJ {
	out := []SendJ{}
	for _, bz := range pk {
		out = append(out, SendJ{e.addSent(c, bz), true})
	}
	return out
}

// rawOf: the emitted bytes of the PacketSent logs (hex), with their sha256 tabulated.
func (e *Env) rawOf(pk [][]byte) []string {
	out := []string{}
	for _, bz := range pk {
		e.orc.AddSha(bz)
		out = append(out, hx(bz))
	}
	return out
}

// rawAck unpacks ack bytes with the raw go-ethereum ABI (independent of Acknowledgement.ABIDecode).
func rawAck(bz []byte) (code uint64, result []byte, message, relayer string, fee uint64, ok bool) {
	hlib.Catch(func() {
		vals, err := abi.Arguments{{Type: packettypes.TupleAckData}}.Unpack(bz)
		if err != nil || len(vals) != 1 {
			return
		}
		v := reflect.ValueOf(vals[0])
		if v.Kind() != reflect.Struct || v.NumField() != 5 {
			return
		}
		code = v.Field(0).Uint()
		result = v.Field(1).Bytes()
		message = v.Field(2).String()
		relayer = v.Field(3).String()
		fee = v.Field(4).Uint()
		ok = true
	})
	return
}

const cbFailedMsg = "receive packet callback failed"
const dstNotFoundMsg = "dstChain not found"

// ---------------------------------------------------------------------------------------------
// op: send (crossChainCall on the endpoint contract)

func (e *Env) dstName(c *Chain, d int) string {
	switch {
	case d >= 0 && d < nChains:
		return e.chains[d].name
	case d == -2:
		return fmt.Sprintf("tss-%d", c.idx)
	case d == -3:
		return ethName(c.idx)
	case d == -4:
		return bscName(c.idx)
	default:
		return unknownChain
	}
}

func (e *Env) opSend(op Op) {
	c := e.chains[op.Chain]
	e.prepare(c)
	dst := e.dstName(c, op.Dst)
	var dc *Chain
	if op.Dst >= 0 && op.Dst < nChains {
		dc = e.chains[op.Dst]
	}
	ccd := packettypes.CrossChainData{
		DstChain:        dst,
		TokenAddress:    c.N,
		Receiver:        hexLower(c.tc.SenderAddress),
		Amount:          new(big.Int).SetUint64(op.Amount),
		ContractAddress: "",
		CallData:        []byte{},
		CallbackAddress: zeroAddr,
		FeeOption:       op.FeeOpt,
	}
	fee := packettypes.Fee{TokenAddress: c.N, Amount: new(big.Int).SetUint64(op.Fee)}
	value := big.NewInt(0)
	switch op.Variant {
	case "base":
		ccd.TokenAddress = zeroAddr
		fee.TokenAddress = zeroAddr
		value = new(big.Int).SetUint64(op.Amount + op.Fee)
	case "notrace":
		ccd.TokenAddress = c.U
		fee.TokenAddress = c.U
	case "agent", "agent_unknown":
		// multi-hop through the agent contract (TestCrossChainCallAgent), route 0 -> 1 -> 2 only; agent_unknown: the
		// onward destination has no client on chain 1, so the destination callback's EVM run succeeds, emits a
		// PacketSent log, and the packet hook FAILS in SendPacket (post-processing failure inside a callback)
		if c.idx == 0 && op.Dst == 1 && c.A != zeroAddr {
			x := op.Amount
			if x == 0 {
				x = 1
			}
			onward := e.chains[2].name
			if op.Variant == "agent_unknown" {
				onward = unknownChain
			}
			cd, err := agentcontract.AgentContract.ABI.Pack("send", e.chains[1].A, hexLower(c.tc.SenderAddress), onward, new(big.Int).SetUint64(x))
			must(err)
			ccd.TokenAddress = c.A
			ccd.Receiver = hexLower(agentcontract.AgentContractAddress)
			ccd.Amount = new(big.Int).SetUint64(2 * x)
			ccd.ContractAddress = syscontracts.AgentContractAddress
			ccd.CallData = cd
			fee.TokenAddress = c.A
		}
	case "call", "callrevert":
		target := c.N
		if dc != nil && dc.N != zeroAddr {
			target = dc.N
		}
		ccd.ContractAddress = hexLower(target)
		var err error
		if op.Variant == "callrevert" {
			// transfer of an amount the executing contract does not own: reverts on the destination
			ccd.CallData, err = erc20ABI.Pack("transfer", c.tc.SenderAddress, new(big.Int).Lsh(big.NewInt(1), 100))
		} else {
			ccd.CallData, err = erc20ABI.Pack("approve", c.tc.SenderAddress, big.NewInt(1))
		}
		must(err)
	}
	data, err := endpointABI.Pack("crossChainCall", ccd, fee)
	must(err)
	act := &ActSend{T: "send", Sends: []SendJ{}, Raw: []string{}}
	class := e.record(c, act, func() (int, string) {
		rsp, err := e.evmTx(c, endpAddr, value, data)
		if err != nil {
			act.Fail = true
			return 1, errText(err)
		}
		pk := packetSentLogs(rsp)
		hookFailed := rsp.VmError == evmtypes.ErrPostTxProcessing.Error()
		act.Fail = rsp.VmError != "" && !hookFailed
		if rsp.VmError != "" {
			// emitted but not sent: the packets are part of the act, not of the pool
			for _, bz := range pk {
				p, _ := e.orc.AddDecode(bz)
				act.Sends = append(act.Sends, SendJ{packetJ(&p), true})
			}
			return 1, rsp.VmError
		}
		act.Sends = e.sendsOf(c, pk)
		act.Raw = e.rawOf(pk)
		return 0, ""
	})
	e.stat(fmt.Sprintf("send.%s.dst%s.feeopt%v.class%d", op.Variant, dstKind(op.Dst), op.FeeOpt != 0, class))
	e.finish(c, op.Commit)
}

func dstKind(d int) string {
	switch {
	case d >= 0:
		return "peer"
	case d == -2:
		return "tss"
	case d == -3:
		return "eth"
	case d == -4:
		return "bsc"
	default:
		return "unknown"
	}
}

// packetSentLogs decodes the PacketSent logs of the packet contract exactly like evm_hooks.go.
func packetSentLogs(rsp *evmtypes.MsgEthereumTxResponse) [][]byte {
	var out [][]byte
	for _, lg := range rsp.Logs {
		if common.HexToAddress(lg.Address) != packetAddr || len(lg.Topics) == 0 {
			continue
		}
		ev, err := packetABI.EventByID(common.HexToHash(lg.Topics[0]))
		if err != nil || ev.Name != packettypes.PacketSendEvent {
			continue
		}
		vals, err := packetABI.Unpack(ev.Name, lg.Data)
		if err != nil || len(vals) == 0 {
			continue
		}
		if bz, ok := vals[0].([]byte); ok {
			out = append(out, bz)
		}
	}
	return out
}

// ---------------------------------------------------------------------------------------------
// op: send_multi (ONE EVM transaction of the sender's multicall contract performing several crossChainCalls: its
// receipt carries one PacketSent log per leg, all handed to SendPacket by ONE PostTxProcessing call)

func (e *Env) opSendMulti(op Op) {
	c := e.chains[op.Chain]
	if c.M == zeroAddr || len(op.Legs) == 0 {
		e.stat("send_multi.skipped")
		return
	}
	e.prepare(c)
	var calls []byte
	total := new(big.Int)
	tag := ""
	for _, l := range op.Legs {
		dst := e.dstName(c, l.Dst)
		amt := new(big.Int).SetUint64(l.Amount)
		ccd := packettypes.CrossChainData{
			DstChain:        dst,
			TokenAddress:    zeroAddr,
			Receiver:        hexLower(c.tc.SenderAddress),
			Amount:          amt,
			ContractAddress: "",
			CallData:        []byte{},
			CallbackAddress: zeroAddr,
			FeeOption:       l.FeeOpt,
		}
		fee := packettypes.Fee{TokenAddress: zeroAddr, Amount: big.NewInt(0)}
		value := amt
		switch l.Variant {
		case "erc20":
			if c.N != zeroAddr {
				ccd.TokenAddress = c.N
				fee.TokenAddress = c.N
				value = big.NewInt(0)
			}
		case "call":
			target := c.M
			if l.Dst >= 0 && l.Dst < nChains && e.chains[l.Dst].M != zeroAddr {
				target = e.chains[l.Dst].M
			}
			// the destination executes an empty forwarding call on the multicall contract there (succeeds)
			ccd.ContractAddress = hexLower(target)
			ccd.CallData = []byte{0x00}
		}
		data, err := endpointABI.Pack("crossChainCall", ccd, fee)
		must(err)
		calls = append(calls, mcRecord(endpAddr, value, data)...)
		total.Add(total, value)
		tag += "." + dstKind(l.Dst)
	}
	act := &ActSend{T: "send", Sends: []SendJ{}, Raw: []string{}}
	class := e.record(c, act, func() (int, string) {
		rsp, err := e.evmTx(c, c.M, total, calls)
		if err != nil {
			act.Fail = true
			return 1, errText(err)
		}
		pk := packetSentLogs(rsp)
		hookFailed := rsp.VmError == evmtypes.ErrPostTxProcessing.Error()
		act.Fail = rsp.VmError != "" && !hookFailed
		if rsp.VmError != "" {
			for _, bz := range pk {
				p, _ := e.orc.AddDecode(bz)
				act.Sends = append(act.Sends, SendJ{packetJ(&p), true})
			}
			return 1, rsp.VmError
		}
		act.Sends = e.sendsOf(c, pk)
		act.Raw = e.rawOf(pk)
		e.stat(fmt.Sprintf("send_multi.logs%d", len(pk)))
		return 0, ""
	})
	e.stat(fmt.Sprintf("send_multi.legs%d%s.class%d", len(op.Legs), tag, class))
	e.finish(c, op.Commit)
}

// ---------------------------------------------------------------------------------------------
// op: send_raw (keeper-level SendPacket of a hand-built packet)

func (e *Env) opSendRaw(op Op, opIdx int) {
	c := e.chains[op.Chain]
	e.prepare(c)
	dst := e.dstName(c, op.Dst)
	pk := c.tc.App.XIBCKeeper.PacketKeeper
	next := pk.GetNextSequenceSend(c.ctx(), c.name, dst)
	p := packettypes.Packet{
		SrcChain: c.name, DstChain: dst, Sequence: uint64(int64(next) + int64(op.SeqDelta)),
		Sender:          "raw-sender",
		TransferData:    []byte(fmt.Sprintf("raw-transfer-data-%d", opIdx)),
		CallData:        []byte{},
		CallbackAddress: "", FeeOption: 0,
	}
	switch op.Mal {
	case "nodata":
		p.TransferData = []byte{}
	case "srcwrong":
		p.SrcChain = e.chains[(c.idx+1)%nChains].name
		if p.SrcChain == dst {
			p.SrcChain = e.chains[(c.idx+2)%nChains].name
		}
	case "srceqdst":
		p.DstChain = p.SrcChain
	case "seq0":
		p.Sequence = 0
	case "junkcall":
		// extension: accepted by SendPacket; on the destination the packet contract cannot decode the call
		// data, onRecvPacket reverts and msg_server writes the "receive packet callback failed" acknowledgement
		p.TransferData = []byte{}
		p.CallData = []byte(fmt.Sprintf("raw-junk-call-data-%d", opIdx))
	}
	e.orc.AddPack(&p)
	act := &ActSend{T: "send", Sends: []SendJ{{packetJ(&p), true}}, Raw: []string{}}
	class := e.record(c, act, func() (int, string) {
		cctx, write := c.ctx().CacheContext()
		c.dirty = true
		if err := pk.SendPacket(cctx, &p); err != nil {
			return 1, errText(err)
		}
		write()
		bz, err := p.ABIPack()
		if err != nil {
			return 0, "harness: packed packet unavailable"
		}
		e.addSent(c, bz)
		return 0, ""
	})
	e.stat(fmt.Sprintf("send_raw.mal_%s.delta%d.dst%s.class%d", op.Mal, op.SeqDelta, dstKind(op.Dst), class))
	e.finish(c, op.Commit)
}

// ---------------------------------------------------------------------------------------------
// op: recv

func flipByte(b []byte, at int) []byte {
	out := append([]byte{}, b...)
	if len(out) == 0 {
		return []byte{0x01}
	}
	out[at%len(out)] ^= 0x5a
	return out
}

func (e *Env) thirdName(a, b string) string {
	for _, c := range e.chains {
		if c.name != a && c.name != b {
			return c.name
		}
	}
	return unknownChain
}

// alterPacket applies the packet-level alterations; reports whether any applied.
func (e *Env) alterPacket(p *packettypes.Packet, alters []string) bool {
	changed := false
	for _, a := range alters {
		switch a {
		case "payload", "packet_payload":
			p.TransferData = flipByte(p.TransferData, len(p.TransferData)-1)
		case "calldata":
			p.CallData = append(append([]byte{}, p.CallData...), 0x01)
		case "sender":
			p.Sender = p.Sender + "0"
		case "callback":
			p.CallbackAddress = "0x00000000000000000000000000000000000000cb"
		case "feeopt":
			p.FeeOption++
		case "swap":
			p.SrcChain, p.DstChain = p.DstChain, p.SrcChain
		case "seq+1":
			p.Sequence++
		case "seq-1":
			p.Sequence--
		case "src":
			p.SrcChain = e.thirdName(p.SrcChain, p.DstChain)
		case "dst":
			p.DstChain = e.thirdName(p.SrcChain, p.DstChain)
		default:
			continue
		}
		changed = true
	}
	return changed
}

func has(l []string, x string) bool {
	for _, y := range l {
		if y == x {
			return true
		}
	}
	return false
}

// proofFor builds proof and height for a message delivered to c about key `key` (alternative key
// `other`) stored on chain s.
func (e *Env) proofFor(c, s *Chain, key, other []byte, alters []string, fresh bool) ([]byte, clienttypes.Height) {
	if c.idx == s.idx {
		// c has no client of itself (unless the history created one): nothing to prove against
		return []byte("self-proof"), clienttypes.NewHeight(clienttypes.ParseChainID(s.name), 2)
	}
	if fresh {
		e.doUpdate(c, s, 0, true)
	}
	h, _, found := c.clientHeight(s.name)
	if !found {
		return []byte("no-client"), clienttypes.NewHeight(clienttypes.ParseChainID(s.name), 2)
	}
	if has(alters, "height_old") {
		// an older height with a stored consensus state: the oldest one (nothing was committed then) or
		// the one before the latest (the commitment may or may not have existed)
		if hsx := c.consensusHeights(s.name); len(hsx) > 0 {
			h = hsx[0]
			if e.curOp%2 == 1 && len(hsx) >= 2 {
				h = hsx[len(hsx)-2]
			}
		}
	}
	if has(alters, "height_pretoggle") {
		// the latest height of the client instance that existed before the last toggle / upgrade
		if ph, ok := c.preToggle[s.name]; ok {
			h = ph
		}
	}
	k := key
	if has(alters, "proof_other") {
		k = other
	}
	proof := queryProof(s, k, h.RevisionHeight)
	if has(alters, "proof_flip") {
		proof = flipByte(proof, len(proof)/2)
	}
	if has(alters, "proof_empty") {
		proof = []byte{}
	}
	if has(alters, "height-1") {
		h.RevisionHeight--
	}
	if has(alters, "height+1") {
		h.RevisionHeight++
	}
	if has(alters, "height0") {
		// the zero height: refused by the message's ValidateBasic before any handler runs
		h = clienttypes.Height{}
	}
	return proof, h
}

func (e *Env) garbage(opIdx int, n int) []byte {
	return hlib.NewRand(uint64(opIdx)*7919 + 17).Bytes(n)
}

func (e *Env) opRecv(op Op, opIdx int) {
	if len(e.pktPool) == 0 {
		e.stat("recv.skipped_empty_pool")
		return
	}
	c := e.chains[op.Chain]
	ent := e.pktPool[((op.Pkt%len(e.pktPool))+len(e.pktPool))%len(e.pktPool)]
	s := e.chains[ent.chain]
	orig, derr := realDecode(ent.bz)
	bz := ent.bz
	alt := orig
	if derr == nil && e.alterPacket(&alt, op.Alter) {
		e.orc.AddPack(&alt)
		if nb, err := alt.ABIPack(); err == nil {
			bz = nb
		}
	}
	if op.Enc != "" {
		nb, okEnc := reencode(bz, op.Enc)
		if okEnc {
			q, qerr := realDecode(nb)
			b0, b0err := realDecode(bz)
			if qerr == nil && b0err == nil && reflect.DeepEqual(q, b0) {
				e.stat("reenc." + op.Enc + ".decoder_same_packet")
			} else {
				e.stat("reenc." + op.Enc + ".decoder_differs_or_rejects")
			}
			bz = nb
		} else {
			e.stat("reenc." + op.Enc + ".not_applicable")
		}
	}
	if has(op.Alter, "garbage") {
		bz = e.garbage(opIdx, 64+opIdx%200)
	}
	if has(op.Alter, "empty") {
		bz = []byte{}
	}
	key := host.PacketCommitmentKey(orig.SrcChain, orig.DstChain, orig.Sequence)
	other := host.PacketAcknowledgementKey(orig.SrcChain, orig.DstChain, orig.Sequence)
	proof, height := e.proofFor(c, s, key, other, op.Alter, op.FreshProof)
	e.prepare(c)
	class := e.runRecv(c, op.Relayer, bz, proof, height)
	tag := "plain"
	if len(op.Alter) > 0 {
		tag = "alter_" + strings.Join(op.Alter, "+")
	}
	if op.Enc != "" {
		tag += ".enc_" + op.Enc
	}
	e.stat(fmt.Sprintf("recv.%s.rel%d.class%d", tag, op.Relayer, class))
	if c.name != orig.DstChain {
		e.stat(fmt.Sprintf("recv.on_other_chain.class%d", class))
	}
	e.finish(c, op.Commit)
}

// runRecv delivers MsgRecvPacket{bz, proof, height} signed by relayer rel to c as one step: oracle
// entries before, observed callback (from the events of the transaction) after.
func (e *Env) runRecv(c *Chain, rel int, bz, proof []byte, height clienttypes.Height) int {
	signer := e.accs[rel].String()
	msg := &packettypes.MsgRecvPacket{Packet: bz, ProofCommitment: proof, ProofHeight: height, Signer: signer}
	dec, decErr := e.orc.AddDecode(bz)
	e.orc.AddBech32(signer)
	e.verifyOracle(c, e.envN+1, 0, bz, nil, proof, height, signer)
	act := &ActRecv{T: "recv", Packet: hx(bz), Proof: hx(proof), Height: heightJ(height), Signer: hs(signer), Cb: emptyCb()}
	var observedRet *[3]interface{}
	// what the destination callback does is an INPUT of the model: taken from a dry run of onRecvPacket on a throw-away
	// branch (NOT from the acknowledgement the message server writes: monitor 26 compares the two)
	dry := e.recvCallbackDryRun(c, bz)
	if dry.applies {
		if dry.fail {
			act.Cb.Fail = true
		} else if dry.unpacked {
			act.Cb.Ret = [3]interface{}{u64(dry.code), hx(dry.result), hs(dry.message)}
			observedRet = &[3]interface{}{dry.code, dry.result, dry.message}
		}
		// the sends of the callback = the PacketSent logs its EVM run EMITTED (not what the hook made of them)
		for _, lbz := range dry.logs {
			lp, _ := e.orc.AddDecode(lbz)
			act.Cb.Sends = append(act.Cb.Sends, SendJ{packetJ(&lp), true})
		}
	}
	class := e.record(c, act, func() (int, string) {
		cl, res, err := e.deliver(c, e.keys[rel], msg)
		if cl != 0 {
			return cl, errText(err)
		}
		evs := parseEvents(res.Events)
		for _, w := range evs.writes {
			e.ackPool = append(e.ackPool, poolAck{pkt: w[0], ack: w[1], chain: c.idx})
			e.orc.AddDecode(w[0])
			e.orc.AddDecodeAck(w[1])
		}
		if len(evs.writes) == 0 {
			// relay branch (or nothing): a forwarded packet is a sent packet of this chain
			e.sendsOf(c, evs.sends)
			return 0, ""
		}
		code, _, message, _, fee, ok := rawAck(evs.writes[0][1])
		if !ok {
			return 0, "harness: written ack does not unpack"
		}
		e.wack = &[2]string{u64(code), u64(fee)}
		if act.Cb.Fail {
			e.stat("cb.fail")
		} else {
			e.stat("cb.ret_code" + u64(code) + "." + message)
		}
		// packets that really left (EventSendPacket) enter the pool
		e.sendsOf(c, evs.sends)
		if dec.DstChain == c.name && len(evs.sends) > 0 {
			e.stat("cb.sends_packets")
		}
		return 0, ""
	})
	// pack_ack table of this step
	if decErr == nil || dec.Sequence != 0 {
		combos := [][3]interface{}{{uint64(1), []byte{}, cbFailedMsg}, {uint64(1), []byte{}, dstNotFoundMsg}}
		if observedRet != nil {
			combos = append(combos, *observedRet)
		}
		for _, ir := range c.tc.App.XIBCKeeper.ClientKeeper.GetAllRelayers(c.ctx()) {
			for _, a := range ir.Addresses {
				for _, cb := range combos {
					e.orc.AddPackAck(cb[0].(uint64), cb[1].([]byte), cb[2].(string), a, dec.FeeOption)
				}
			}
		}
	}
	return class
}

type cbDry struct {
	applies, fail, unpacked bool
	code                    uint64
	result                  []byte
	message                 string
	logs                    [][]byte // packet bytes of the PacketSent logs the call emitted (only if the call returned)
}

// recvCallbackDryRun performs, on a throw-away branch of c's state, the module->contract call the message server
// makes for a packet addressed to c (onRecvPacket) and unpacks its result.  The call reads and writes contract state
// (and, through the packet hook, the send side of the xibc store) only, so the outcome is the one the real message meets.
func (e *Env) recvCallbackDryRun(c *Chain, bz []byte) (d cbDry) {
	p, err := realDecode(bz)
	if err != nil || p.DstChain != c.name {
		return
	}
	d.applies = true
	if panicked, _ := hlib.Catch(func() {
		cctx, _ := c.ctx().CacheContext()
		res, err := c.tc.App.XIBCKeeper.PacketKeeper.CallPacket(cctx, "onRecvPacket", p)
		if err != nil {
			d.fail = true
			return
		}
		d.logs = packetSentLogs(res)
		var r packettypes.Result
		if err := packetABI.UnpackIntoInterface(&r, "onRecvPacket", res.Ret); err != nil {
			return
		}
		d.unpacked, d.code, d.result, d.message = true, r.Code, r.Result, r.Message
	}); panicked {
		d.fail = true
	}
	return
}

// ---------------------------------------------------------------------------------------------
// op: recv_tss

func (e *Env) opRecvTss(op Op, opIdx int) {
	c := e.chains[op.Chain]
	if op.Variant == "copy" {
		// EXACTLY the bytes of pool packet op.Pkt, no proof: only a TSS client named like the packet's source
		// (the self-named client of the o7 scenario) can let it through
		if len(e.pktPool) == 0 {
			e.stat("recv_tss.copy.skipped_empty_pool")
			return
		}
		e.prepare(c)
		ent := e.pktPool[((op.Pkt%len(e.pktPool))+len(e.pktPool))%len(e.pktPool)]
		class := e.runRecv(c, op.Relayer, append([]byte{}, ent.bz...), []byte{}, clienttypes.NewHeight(0, 1))
		e.stat(fmt.Sprintf("recv_tss.copy.rel%d.class%d", op.Relayer, class))
		e.finish(c, op.Commit)
		return
	}
	e.prepare(c)
	src := fmt.Sprintf("tss-%d", c.idx)
	dst := c.name
	if !op.DstSelf {
		dst = e.chains[(c.idx+1)%nChains].name
	}
	if op.Src != "" {
		if op.Src == "self" {
			src = c.name
		} else {
			src = op.Src
		}
		dst = e.dstName(c, op.Dst)
	}
	p := packettypes.Packet{SrcChain: src, DstChain: dst, Sequence: op.Seq, Sender: "0xtss", CallData: []byte{}, CallbackAddress: "", FeeOption: op.Seq % 3}
	if op.Variant == "transfer" {
		amt := make([]byte, 32)
		amt[31] = 5
		td := packettypes.TransferData{Token: fakeTssTok, OriToken: "", Amount: amt, Receiver: hexLower(c.tc.SenderAddress)}
		bz, err := td.ABIPack()
		must(err)
		p.TransferData = bz
	} else if op.Variant == "junkcall" {
		// no transfer, call data that is not an ABI-encoded CallData tuple
		p.TransferData = []byte{}
		p.CallData = []byte(fmt.Sprintf("junk-call-data-%d", opIdx))
	} else {
		p.TransferData = []byte(fmt.Sprintf("junk-transfer-data-%d", opIdx))
	}
	bz := e.orc.AddPack(&p)
	h := clienttypes.NewHeight(0, 1)
	if op.Mal == "height0" {
		// the TSS client ignores the height; MsgRecvPacket.ValidateBasic does not
		h = clienttypes.Height{}
	}
	prf := []byte{}
	if op.Mal == "proof_tssaddr" {
		// the PUBLIC TSS address in the proof field, signed by whoever: only the SIGNER counts for a TSS client
		prf = []byte(c.tc.SenderAcc.String())
	}
	class := e.runRecv(c, op.Relayer, bz, prf, h)
	e.stat(fmt.Sprintf("recv_tss.%s%s.dstself_%v.src_%s.rel%d.class%d", op.Variant, op.Mal, op.DstSelf, op.Src, op.Relayer, class))
	e.finish(c, op.Commit)
}

// ---------------------------------------------------------------------------------------------
// op: ack

func (e *Env) opAck(op Op, opIdx int) {
	if len(e.ackPool) == 0 {
		e.stat("ack.skipped_empty_pool")
		return
	}
	c := e.chains[op.Chain]
	ent := e.ackPool[((op.Ack%len(e.ackPool))+len(e.ackPool))%len(e.ackPool)]
	w := e.chains[ent.chain]
	orig, derr := realDecode(ent.pkt)
	pbz := ent.pkt
	alt := orig
	if derr == nil && e.alterPacket(&alt, op.Alter) {
		e.orc.AddPack(&alt)
		if nb, err := alt.ABIPack(); err == nil {
			pbz = nb
		}
	}
	abz := ent.ack
	if has(op.Alter, "ackbytes") {
		if code, result, message, relayer, fee, ok := rawAck(abz); ok {
			if code == 0 {
				code = 1
			} else {
				code = 0
			}
			a := packettypes.NewAcknowledgement(code, result, message, relayer, fee)
			if nb, err := a.ABIPack(); err == nil {
				abz = nb
			}
		} else {
			abz = flipByte(abz, len(abz)-1)
		}
	}
	if has(op.Alter, "garbage_ack") {
		abz = e.garbage(opIdx, 96+opIdx%100)
	}
	if has(op.Alter, "garbage_packet") {
		pbz = e.garbage(opIdx+1, 64+opIdx%200)
	}
	key := host.PacketAcknowledgementKey(orig.SrcChain, orig.DstChain, orig.Sequence)
	other := host.PacketCommitmentKey(orig.SrcChain, orig.DstChain, orig.Sequence)
	proof, height := e.proofFor(c, w, key, other, op.Alter, op.FreshProof)
	e.prepare(c)
	class := e.runAck(c, op.Relayer, pbz, abz, proof, height)
	tag := "plain"
	if len(op.Alter) > 0 {
		tag = "alter_" + strings.Join(op.Alter, "+")
	}
	e.stat(fmt.Sprintf("ack.%s.rel%d.class%d", tag, op.Relayer, class))
	if c.name != orig.SrcChain {
		e.stat(fmt.Sprintf("ack.on_other_chain.class%d", class))
	}
	e.finish(c, op.Commit)
}

// runAck delivers MsgAcknowledgement{pbz, abz, proof, height} signed by relayer rel to c as one step.
func (e *Env) runAck(c *Chain, rel int, pbz, abz, proof []byte, height clienttypes.Height) int {
	signer := e.accs[rel].String()
	msg := &packettypes.MsgAcknowledgement{Packet: pbz, Acknowledgement: abz, ProofAcked: proof, ProofHeight: height, Signer: signer}
	e.orc.AddDecode(pbz)
	e.orc.AddDecodeAck(abz)
	e.orc.AddBech32(signer)
	e.verifyOracle(c, e.envN+1, 1, pbz, abz, proof, height, signer)
	act := &ActAck{T: "ack", Packet: hx(pbz), Ack: hx(abz), Proof: hx(proof), Height: heightJ(height), Signer: hs(signer),
		Cbs: [3]CbJ{emptyCb(), emptyCb(), emptyCb()}}
	dry := e.ackCallbacksDryRun(c, pbz, abz)
	class := e.record(c, act, func() (int, string) {
		cl, res, err := e.deliver(c, e.keys[rel], msg)
		if cl != 0 {
			return cl, errText(err)
		}
		evs := parseEvents(res.Events)
		for _, wr := range evs.writes {
			// relay chain: the acknowledgement is passed on towards the source
			e.ackPool = append(e.ackPool, poolAck{pkt: wr[0], ack: wr[1], chain: c.idx})
			e.orc.AddDecode(wr[0])
			e.orc.AddDecodeAck(wr[1])
		}
		act.Cbs[2].Sends = e.sendsOf(c, evs.sends)
		return 0, ""
	})
	if class != 0 {
		// which module->contract call fails is an INPUT of the model (the environment's choice); for a rejected
		// acknowledgement nothing of it is observable in the result, so it is taken from the dry run
		for i := range dry {
			act.Cbs[i].Fail = dry[i]
		}
	}
	return class
}

// ackCallbacksDryRun performs, on a throw-away branch of c's state, the three module->contract calls the message
// server makes for an acknowledgement of a packet sent from c (setAckStatus, sendPacketFeeToRelayer,
// OnAcknowledgePacket) and reports which of them is the first to fail.  The calls read and write contract state only,
// so the outcome is the one the real message would meet.
func (e *Env) ackCallbacksDryRun(c *Chain, pbz, abz []byte) (fail [3]bool) {
	p, err := realDecode(pbz)
	if err != nil || p.SrcChain != c.name {
		return
	}
	var a packettypes.Acknowledgement
	if a.ABIDecode(abz) != nil {
		return
	}
	hlib.Catch(func() {
		cctx, _ := c.ctx().CacheContext()
		pk := c.tc.App.XIBCKeeper.PacketKeeper
		status := uint8(2)
		if a.Code == 0 {
			status = 1
		}
		if _, err := pk.CallPacket(cctx, "setAckStatus", p.DstChain, p.Sequence, status); err != nil {
			fail[0] = true
			return
		}
		relayer, found := c.tc.App.XIBCKeeper.ClientKeeper.GetRelayerAddressOnTeleport(cctx, p.DstChain, a.Relayer)
		if !found {
			return
		}
		addr, err := sdk.AccAddressFromBech32(relayer)
		if err != nil {
			return
		}
		if _, err := pk.CallPacket(cctx, "sendPacketFeeToRelayer", p.DstChain, p.Sequence, common.BytesToAddress(addr)); err != nil {
			fail[1] = true
			return
		}
		if _, err := pk.CallPacket(cctx, "OnAcknowledgePacket", p, a); err != nil {
			fail[2] = true
		}
	})
	return
}

// ---------------------------------------------------------------------------------------------
// op: ack_tss (acknowledgement of a packet sent to the TSS-secured destination tss-<idx>: the TSS client verifies
// nothing but the signer, so ANY acknowledgement bytes signed by the TSS address pass AcknowledgePacket; this is
// the only way to reach the message server's own checks: undecodable / all-zero acknowledgement, unknown relayer)

func (e *Env) opAckTss(op Op, opIdx int) {
	c := e.chains[op.Chain]
	dst := fmt.Sprintf("tss-%d", c.idx)
	var cand []poolPkt
	for _, ent := range e.pktPool {
		if p, err := realDecode(ent.bz); err == nil && p.SrcChain == c.name && p.DstChain == dst {
			cand = append(cand, ent)
		}
	}
	if len(cand) == 0 {
		e.stat("ack_tss.skipped_no_packet")
		return
	}
	ent := cand[((op.Pkt%len(cand))+len(cand))%len(cand)]
	p, _ := realDecode(ent.bz)
	s0 := e.accs[0].String()
	var abz []byte
	switch op.Variant {
	case "err":
		a := packettypes.NewAcknowledgement(1, []byte{}, "destination execution failed", s0, p.FeeOption)
		abz, _ = a.ABIPack()
	case "garbage":
		abz = e.garbage(opIdx, 96+opIdx%100)
	case "zero":
		a := packettypes.NewAcknowledgement(0, []byte{}, "", "", 0)
		abz, _ = a.ABIPack()
	case "badrelayer":
		a := packettypes.NewAcknowledgement(0, []byte{}, "", "teleport1nobodyregisteredthisaddress", p.FeeOption)
		abz, _ = a.ABIPack()
	default:
		a := packettypes.NewAcknowledgement(0, []byte{}, "", s0, p.FeeOption)
		abz, _ = a.ABIPack()
	}
	h := clienttypes.NewHeight(0, 1)
	if op.Mal == "height0" {
		h = clienttypes.Height{}
	}
	if op.Variant == "emptyack" {
		abz = []byte{}
	}
	prf := []byte{}
	if op.Mal == "proof_tssaddr" {
		prf = []byte(c.tc.SenderAcc.String())
	}
	e.prepare(c)
	class := e.runAck(c, op.Relayer, append([]byte{}, ent.bz...), abz, prf, h)
	e.stat(fmt.Sprintf("ack_tss.%s%s.rel%d.class%d", op.Variant, op.Mal, op.Relayer, class))
	e.finish(c, op.Commit)
}

// ---------------------------------------------------------------------------------------------
// ops: update, block, reg_relayer, create_client

func (e *Env) opUpdate(op Op) {
	c := e.chains[op.Chain]
	if op.Peer < 0 || op.Peer >= nChains {
		return
	}
	e.doUpdate(c, e.chains[op.Peer], op.Relayer, false)
	e.finish(c, op.Commit)
}

func (e *Env) opRegRelayer(op Op) {
	c := e.chains[op.Chain]
	rel := op.Relayer
	if rel < 0 || rel > 2 {
		return
	}
	addr := e.accs[rel].String()
	var chains, addrs []string
	for _, d := range op.Chains {
		chains = append(chains, e.dstName(c, d))
		addrs = append(addrs, addr)
	}
	e.regStep(c, addr, chains, addrs)
	e.stat("reg_relayer")
}

func (e *Env) regStep(c *Chain, addr string, chains, addrs []string) {
	act := ActRegRelayer{T: "reg_relayer", Addr: hs(addr), Chains: []string{}, Addrs: []string{}}
	for _, x := range chains {
		act.Chains = append(act.Chains, hs(x))
	}
	for _, x := range addrs {
		act.Addrs = append(act.Addrs, hs(x))
	}
	e.record(c, act, func() (int, string) {
		e.register(c, addr, chains, addrs)
		return 0, ""
	})
}

func (e *Env) opCreateClient(op Op) {
	c := e.chains[op.Chain]
	name := op.Name
	if name == "self" {
		name = c.name
	}
	sender := c.tc.SenderAcc.String()
	class := e.record(c, ActCreateClient{T: "create_client", Name: hs(name), Tss: true}, func() (int, string) {
		// the governance path: CreateClientProposal -> ValidateBasic -> the client proposal handler
		// (HandleCreateClient) on a branch of the state that is written back only on success, as the gov
		// EndBlocker does for a passed proposal
		c.dirty = true
		proposal, err := clienttypes.NewCreateClientProposal("create client", "harness", name,
			&tsstypes.ClientState{TssAddress: sender}, &tsstypes.ConsensusState{})
		if err != nil {
			return 1, "harness: " + errText(err)
		}
		if err := proposal.ValidateBasic(); err != nil {
			return 1, errText(err)
		}
		cctx, write := c.ctx().CacheContext()
		if err := xibcclient.NewClientProposalHandler(c.tc.App.XIBCKeeper.ClientKeeper)(cctx, proposal); err != nil {
			return 1, errText(err)
		}
		write()
		return 0, ""
	})
	e.stat(fmt.Sprintf("create_client.class%d", class))
	// the sender relays for the new name as well: extend its record
	ir, found := c.tc.App.XIBCKeeper.ClientKeeper.GetRelayer(c.ctx(), sender)
	chains, addrs := []string{}, []string{}
	if found {
		chains, addrs = append(chains, ir.Chains...), append(addrs, ir.Addresses...)
	}
	if !has(chains, name) {
		chains, addrs = append(chains, name), append(addrs, sender)
	}
	e.regStep(c, sender, chains, addrs)
}

type govContent = govtypes.Content

// opToggleClient: governance ToggleClientProposal for the client of peer chain op.Peer on chain op.Chain — to a TSS
// client (op.Type = "tss") or back to a Tendermint client anchored at the peer's latest committed header ("tm").
// opUpgradeClient: UpgradeClientProposal, Tendermint -> Tendermint at the peer's latest committed header.
func (e *Env) opGovClient(op Op, kind string) {
	c := e.chains[op.Chain]
	if op.Peer < 0 || op.Peer >= nChains || op.Peer == c.idx {
		return
	}
	s := e.chains[op.Peer]
	name := s.name
	ck := c.tc.App.XIBCKeeper.ClientKeeper
	cur, found := ck.GetClientState(c.ctx(), name)
	if !found {
		e.stat(kind + ".skipped_noclient")
		return
	}
	if cur.ClientType() == exported.Tendermint {
		c.savedTM[name] = cur
	}
	toTss := op.Type == "tss" && kind == "toggle_client"
	var ncs exported.ClientState
	var ncons exported.ConsensusState
	if toTss {
		ncs, ncons = &tsstypes.ClientState{TssAddress: c.tc.SenderAcc.String()}, &tsstypes.ConsensusState{}
	} else {
		saved, ok := c.savedTM[name].(*xibctmtypes.ClientState)
		if !ok {
			e.stat(kind + ".skipped_no_tm_template")
			return
		}
		e.makeProvable(s)
		cp := *saved
		cp.LatestHeight = s.tc.LastHeader.GetHeight().(clienttypes.Height)
		ncs, ncons = &cp, s.tc.LastHeader.ConsensusState()
	}
	if h, _, ok := c.clientHeight(name); ok && cur.ClientType() == exported.Tendermint {
		c.preToggle[name] = h
	}
	e.prepare(c)
	class := e.record(c, ActCreateClient{T: kind, Name: hs(name), Tss: toTss}, func() (int, string) {
		c.dirty = true
		var content govContent
		var err error
		if kind == "toggle_client" {
			content, err = clienttypes.NewToggleClientProposal("toggle client", "harness", name, ncs, ncons)
		} else {
			content, err = clienttypes.NewUpgradeClientProposal("upgrade client", "harness", name, ncs, ncons)
		}
		if err != nil {
			return 1, "harness: " + errText(err)
		}
		if err := content.ValidateBasic(); err != nil {
			return 1, errText(err)
		}
		cctx, write := c.ctx().CacheContext()
		if err := xibcclient.NewClientProposalHandler(ck)(cctx, content); err != nil {
			return 1, errText(err)
		}
		write()
		return 0, ""
	})
	e.stat(fmt.Sprintf("%s.to_%s.class%d", kind, op.Type, class))
	e.finish(c, op.Commit)
}

var _ = bytes.Equal
