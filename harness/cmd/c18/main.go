// c18: drives the real XIBC client lifecycle — Create/Upgrade/Toggle/RegisterRelayer proposals through the real
// proposal handler run as gov.EndBlocker runs it, MsgUpdateClient through BaseApp.Deliver (ante handler, msg
// server, relayer authorisation, CheckMsg, keeper, the four client types) — over generated sequences covering all
// 12 ordered pairs of client types, and records after every step the result class, the decoded dump of the
// client stores, the relayer registry, a digest of the rest of the xibc store, Status() and the outcome of
// VerifyPacketCommitment with an honest proof at the latest and at the installed height.
package main

import (
	"encoding/json"
	"flag"
	"fmt"
	"os"

	"verifharness/hlib"
)

func main() {
	seed := flag.Uint64("seed", 1, "PRNG seed")
	n := flag.Int("n", 60, "number of generated cases")
	in := flag.String("in", "", "replay the specs of this JSONL file instead of generating")
	out := flag.String("out", "c18.jsonl", "output file")
	noCorpus := flag.Bool("nocorpus", false, "skip the corpus")
	withSweep := flag.Bool("sweep", false, "add the parameter sweep of the boundary histories (thorough tier)")
	flag.Parse()

	o := hlib.NewOut(*out)
	defer o.Close()
	var specs []Spec
	tags := map[string]int{}
	if *in != "" {
		hlib.ReadLines(*in, func(line []byte) {
			var sp Spec
			if err := json.Unmarshal(line, &sp); err != nil {
				panic(err)
			}
			specs = append(specs, sp)
		})
	} else {
		if !*noCorpus {
			specs = append(specs, corpus()...)
		}
		if *withSweep {
			specs = append(specs, sweep()...)
		}
		root := hlib.NewRand(*seed)
		for i := 0; i < *n; i++ {
			specs = append(specs, genSpec(root, i, tags))
		}
	}
	for _, sp := range specs {
		o.Emit(runSpec(sp))
	}
	if *in == "" {
		bz, _ := json.Marshal(tags)
		fmt.Fprintf(os.Stderr, "tags %s\n", bz)
	}
}
