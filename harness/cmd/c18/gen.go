package main

// Generator of symbolic case specifications: one PRNG, forked per case.  Case i exercises the ordered pair of
// client types pairs[i % 12] (create X ... toggle to Y), mostly with valid contents, with a stream of invalid
// ones (used name, invalid name, wrong-type consensus state, upgrade to another type, toggle to the same type,
// expired state, zero height / zero epoch / unsealed header / bad address, unauthorised or wrong updates).

import (
	"fmt"
	"math"
	"strings"

	"verifharness/hlib"
)

var types4 = []string{"tm", "bsc", "eth", "tss"}

type pair struct{ x, y string }

var pairs []pair

func init() {
	for _, x := range types4 {
		for _, y := range types4 {
			if x != y {
				pairs = append(pairs, pair{x, y})
			}
		}
	}
}

var badNames = []string{"ab", "a/b-chain", strings.Repeat("x", 65), "bad name", "", "chain!", "   "}

type gen struct {
	r       *hlib.Rand
	steps   []Step
	tags    map[string]int
	relayer int // the account registered as relayer of the case's chain names (a TSS key is mostly this account)
}

func (g *gen) tag(s string) { g.tags[s]++ }

func (g *gen) add(s Step) { g.steps = append(g.steps, s) }

func (g *gen) cspec(t string, rel bool) *CSpec {
	r := g.r
	c := &CSpec{T: t, HRel: rel}
	switch t {
	case "tm":
		c.Rev = uint64(r.Intn(2))
		c.H = uint64(2 + r.Intn(300))
		c.TrustS = 14 * 24 * 3600
		if r.Chance(1, 4) {
			c.TrustS = uint64(200 + r.Intn(2000))
		}
		c.DelayNs = []uint64{0, 0, 5e9, 20e9}[r.Intn(4)]
		if r.Chance(1, 12) { // processed time + delay does not fit into a uint64: the delay gate never opens
			c.DelayNs = math.MaxUint64 - uint64(r.Intn(1000))
			g.tag("tm-delay-overflow")
		}
	case "bsc":
		c.Epoch = []uint64{3, 4, 5, 200}[r.Intn(4)]
		c.H = c.Epoch * uint64(1+r.Intn(60))
		n := 1 + r.Intn(4)
		perm := []int{0, 1, 2, 3, 4}
		for i := range perm {
			j := i + r.Intn(len(perm)-i)
			perm[i], perm[j] = perm[j], perm[i]
		}
		c.Vals = perm[:n]
		c.Sealer = c.Vals[r.Intn(n)]
		c.TrustS = 14 * 24 * 3600
		if r.Chance(1, 4) {
			c.TrustS = uint64(2000 + r.Intn(2000))
		}
		c.AgeS = uint64(600 + r.Intn(400))
	case "eth":
		c.H = uint64(1 + r.Intn(100000))
		c.BlockDelay = uint64(r.Intn(3))
		c.TrustS = 14 * 24 * 3600
		if r.Chance(1, 4) {
			c.TrustS = uint64(2000 + r.Intn(2000))
		}
		c.AgeS = uint64(1000 + r.Intn(500))
	default:
		c.Acct = r.Intn(nAccts)
		if r.Chance(7, 8) {
			c.Acct = g.relayer // the TSS account must be a registered relayer to update its client
		}
	}
	if rel {
		c.H = uint64(1 + r.Intn(12))
		if t == "tm" {
			c.H = uint64(r.Intn(12)) // 0: upgrade at the same height
		}
	}
	return c
}

func (g *gen) kspec(valid bool) *KSpec {
	k := &KSpec{T: "same", AgeS: uint64(30 + g.r.Intn(60)), Own: true, RootOK: true, ValsOK: true}
	if valid {
		return k
	}
	switch g.r.Intn(5) {
	case 0:
		k.T = types4[g.r.Intn(4)]
		g.tag("cons-other-type")
	case 1:
		k.AgeS = 40 * 24 * 3600 // older than every trusting period
		k.Own = false
		g.tag("cons-expired")
	case 2:
		k.RootOK = false
		g.tag("cons-foreign-root")
	case 3:
		k.ValsOK = false
		g.tag("cons-foreign-validators")
	default:
		k.Own = false
		g.tag("cons-not-from-header")
	}
	return k
}

var badByType = map[string][]string{
	"tm":  {"h0", "trust0", "nospecs"},
	"bsc": {"epoch0", "offepoch", "badseal", "badextra", "bloom"},
	"eth": {"bloom"},
	"tss": {"badaddr"},
}

// proposal adds a create / upgrade / toggle step; quality: 0 valid, 1 invalid client state, 2 invalid consensus state
func (g *gen) proposal(op string, name int, t string, rel bool, quality int) {
	c := g.cspec(t, rel)
	k := g.kspec(quality != 2)
	if quality == 1 {
		bs := badByType[t]
		c.Bad = bs[g.r.Intn(len(bs))]
		g.tag("bad-client-" + c.Bad)
	}
	g.add(Step{Op: op, Name: name, C: c, K: k})
	g.tag(op + "-" + t)
}

func (g *gen) updates(name int, n int, relayer int) {
	r := g.r
	for i := 0; i < n; i++ {
		u := &USpec{Mode: "valid", K: uint64(1 + r.Intn(3)), DtS: uint64(r.Intn(20)), NewAcct: r.Intn(nAccts), TSSAuto: true}
		if r.Chance(5, 6) {
			u.NewAcct = relayer // rotate the TSS key to an account that can update again
		}
		signer := relayer
		switch {
		case r.Chance(1, 6):
			u.Mode = []string{"wrongparent", "badseal", "unauthval", "oldtime", "wrongtype", "badsig", "notrusted", "future", "baddiff",
				"driftedge", "driftok", "recent", "past", "past", "badheader", "badheader", "otherrev"}[r.Intn(17)]
			g.tag("update-" + u.Mode)
		case r.Chance(1, 10):
			signer = (relayer + 1 + r.Intn(nAccts-1)) % nAccts
			u.TSSAuto = false
			g.tag("update-other-signer")
		default:
			g.tag("update-valid")
		}
		if r.Chance(1, 2) {
			nv := 1 + r.Intn(4)
			for j := 0; j < nv; j++ {
				u.NewVals = append(u.NewVals, r.Intn(nEvmKeys))
			}
		}
		g.add(Step{Op: "update", Name: name, U: u, Acct: signer})
		if r.Chance(1, 5) {
			g.add(Step{Op: "tick", Dt: uint64(1+r.Intn(30)) * 1e9})
		}
	}
}

func genSpec(root *hlib.Rand, id int, tags map[string]int) Spec {
	r := root.Fork(uint64(id))
	g := &gen{r: r, tags: tags}
	p := pairs[id%len(pairs)]
	names := []string{fmt.Sprintf("c18-%d-a", id), fmt.Sprintf("c18.%d_B", id), badNames[r.Intn(len(badNames))]}
	sp := Spec{ID: id, Tag: p.x + "->" + p.y, Names: names}
	relayer := r.Intn(nAccts)
	g.relayer = relayer

	// relayer registration (sometimes missing, sometimes malformed first)
	if r.Chance(1, 6) {
		g.add(Step{Op: "register", Acct: -1, Chains: []int{0}, NAddr: 1})
		g.tag("register-bad-address")
	}
	if r.Chance(1, 6) {
		g.add(Step{Op: "register", Acct: relayer, Chains: []int{0, 1}, NAddr: 1})
		g.tag("register-length-mismatch")
	}
	if r.Chance(1, 8) {
		g.add(Step{Op: "register", Acct: relayer, Chains: []int{0, 2}, NAddr: 2})
		g.tag("register-bad-chain-name")
	}
	if !r.Chance(1, 10) {
		g.add(Step{Op: "register", Acct: relayer, Chains: []int{0, 1}, NAddr: 2})
		g.tag("register-ok")
	}

	// before the client exists
	if r.Chance(1, 5) {
		g.proposal("upgrade", 0, p.x, false, 0)
		g.tag("upgrade-missing")
	}
	if r.Chance(1, 5) {
		g.proposal("toggle", 0, p.y, false, 0)
		g.tag("toggle-missing")
	}
	if r.Chance(1, 4) {
		g.updates(0, 1, relayer)
		g.tag("update-missing")
	}
	if r.Chance(1, 3) {
		g.proposal("create", 2, p.x, false, 0)
		g.tag("create-invalid-name")
	}
	// invalid contents first (the name stays free), then the valid create
	for r.Chance(1, 3) {
		g.proposal("create", 0, p.x, false, 1+r.Intn(2))
	}
	g.proposal("create", 0, p.x, false, 0)
	if r.Chance(1, 3) {
		g.proposal("create", 0, types4[r.Intn(4)], false, 0)
		g.tag("create-used-name")
	}
	if r.Chance(1, 3) { // an independent client under the second name
		g.proposal("create", 1, types4[r.Intn(4)], false, 0)
	}
	g.updates(0, 1+r.Intn(4), relayer)
	if r.Chance(1, 6) { // MsgUpdateClient.ValidateBasic: invalid chain name
		g.updates(2, 1, relayer)
		g.tag("update-invalid-name")
	}
	if p.x == "bsc" && r.Chance(1, 2) { // across epoch boundaries: pending validators, validator-set switch
		g.updates(0, 5+r.Intn(6), relayer)
		g.tag("bsc-long-burst")
	}
	if r.Chance(1, 3) {
		g.add(Step{Op: "tick", Dt: uint64(1+r.Intn(3600)) * 1e9})
	}

	if r.Chance(1, 4) { // a boundary of the trusting period: Status / the pruning step exactly at it, one unit before / after
		g.add(Step{Op: "tickexp", Name: 0, Which: []string{"latest", "first"}[r.Intn(2)], Off: int64(r.Intn(3)) - 1})
		g.tag("tick-expiry-boundary")
		g.updates(0, 1+r.Intn(2), relayer)
	}

	// upgrade
	if r.Chance(1, 4) {
		g.proposal("upgrade", 0, p.y, false, 0)
		g.tag("upgrade-other-type")
	}
	if r.Chance(1, 4) {
		g.proposal("upgrade", 0, p.x, true, 1+r.Intn(2))
	}
	if r.Chance(1, 5) { // let the client expire, updates fail, the upgrade revives it
		g.add(Step{Op: "tick", Dt: 15 * 24 * 3600 * 1e9})
		g.tag("tick-expire")
		g.updates(0, 1, relayer)
	}
	if r.Chance(3, 4) {
		g.proposal("upgrade", 0, p.x, true, 0)
		g.updates(0, 1+r.Intn(3), relayer)
	}

	// toggle
	if r.Chance(1, 4) {
		g.proposal("toggle", 0, p.x, true, 0)
		g.tag("toggle-same-type")
	}
	if r.Chance(1, 4) {
		g.proposal("toggle", 0, p.y, false, 1+r.Intn(2))
	}
	g.proposal("toggle", 0, p.y, false, 0)
	g.updates(0, 1+r.Intn(4), relayer)
	if p.y == "bsc" && r.Chance(1, 2) {
		g.updates(0, 5+r.Intn(6), relayer)
		g.tag("bsc-long-burst")
	}
	if r.Chance(1, 2) {
		g.proposal("upgrade", 0, p.y, true, 0)
		g.updates(0, 1+r.Intn(2), relayer)
	}
	if r.Chance(1, 3) { // and on to a third type or back
		z := types4[r.Intn(4)]
		g.proposal("toggle", 0, z, false, 0)
		g.updates(0, 1+r.Intn(3), relayer)
	}
	if r.Chance(1, 4) {
		g.updates(1, 1+r.Intn(2), relayer)
	}
	sp.Steps = g.steps
	return sp
}

// corpus: the minimised histories of the defects repaired so far; they run first on every check
func corpus() []Spec {
	ok := &KSpec{T: "same", AgeS: 60, Own: true, RootOK: true, ValsOK: true}
	tm := func(rev, h uint64, rel bool) *CSpec {
		return &CSpec{T: "tm", Rev: rev, H: h, HRel: rel, TrustS: 14 * 24 * 3600, DelayNs: 5e9}
	}
	eth := func(h uint64, rel bool) *CSpec {
		return &CSpec{T: "eth", H: h, HRel: rel, TrustS: 14 * 24 * 3600, AgeS: 1000, BlockDelay: 1}
	}
	bsc := func(h uint64, rel bool) *CSpec {
		return &CSpec{T: "bsc", H: h, HRel: rel, TrustS: 14 * 24 * 3600, AgeS: 800, Epoch: 4, Vals: []int{0, 1, 2}, Sealer: 0}
	}
	ethShort := func(h uint64, rel bool) *CSpec { // trusting period 2000 s, header 1000 s old
		return &CSpec{T: "eth", H: h, HRel: rel, TrustS: 2000, AgeS: 1000, BlockDelay: 1}
	}
	tss := func(a int) *CSpec { return &CSpec{T: "tss", Acct: a} }
	reg := Step{Op: "register", Acct: 0, Chains: []int{0, 1}, NAddr: 2}
	upd := func(mode string) Step {
		return Step{Op: "update", Name: 0, Acct: 0, U: &USpec{Mode: mode, K: 1, DtS: 5, NewAcct: 1, TSSAuto: true}}
	}
	tick := func(s uint64) Step { return Step{Op: "tick", Dt: s * 1e9} }
	names := func(i int) []string { return []string{fmt.Sprintf("corpus-%d-a", i), fmt.Sprintf("corpus-%d-b", i), "a/b"} }
	var out []Spec
	add := func(tag string, steps ...Step) {
		out = append(out, Spec{ID: 1000000 + len(out), Tag: "corpus:" + tag, Names: names(len(out)), Steps: steps})
	}
	// D11: toggles between TSS and the light clients must run the NEW type's Initialize
	add("d11-tss->tm", reg, Step{Op: "create", Name: 0, C: tss(0), K: ok}, Step{Op: "toggle", Name: 0, C: tm(1, 42, false), K: ok}, tick(6), upd("valid"))
	add("d11-tm->tss", reg, Step{Op: "create", Name: 0, C: tm(1, 42, false), K: ok}, Step{Op: "toggle", Name: 0, C: tss(0), K: ok}, upd("valid"))
	add("d11-tss->eth", reg, Step{Op: "create", Name: 0, C: tss(0), K: ok}, Step{Op: "toggle", Name: 0, C: eth(100, false), K: ok}, upd("valid"), upd("valid"))
	add("d11-tss->bsc", reg, Step{Op: "create", Name: 0, C: tss(0), K: ok}, Step{Op: "toggle", Name: 0, C: bsc(200, false), K: ok}, upd("valid"), upd("valid"))
	// D13: a TSS update from the TSS account rotates the key
	add("d13-tss-update", reg, Step{Op: "register", Acct: 1, Chains: []int{0}, NAddr: 1}, Step{Op: "create", Name: 0, C: tss(0), K: ok}, upd("valid"), upd("valid"))
	// G1: upgrade of a TSS client stores no consensus state
	add("g1-tss-upgrade", reg, Step{Op: "create", Name: 0, C: tss(0), K: ok}, Step{Op: "upgrade", Name: 0, C: tss(1), K: ok})
	// C18a: Tendermint upgrade records the metadata of the upgraded height
	add("c18a-tm-upgrade", reg, Step{Op: "create", Name: 0, C: tm(0, 5, false), K: ok}, Step{Op: "upgrade", Name: 0, C: tm(0, 5, true), K: ok}, tick(6), upd("valid"))
	// C18b: leftovers of the old client type after a toggle
	add("c18b-tm->eth", reg, Step{Op: "create", Name: 0, C: tm(0, 5, false), K: ok}, Step{Op: "toggle", Name: 0, C: eth(100, false), K: ok}, upd("valid"))
	add("c18b-tm->bsc", reg, Step{Op: "create", Name: 0, C: tm(0, 5, false), K: ok}, Step{Op: "toggle", Name: 0, C: bsc(200, false), K: ok}, upd("valid"),
		Step{Op: "upgrade", Name: 0, C: bsc(8, true), K: ok})
	add("c18b-eth->tss->bsc", reg, Step{Op: "create", Name: 0, C: eth(100, false), K: ok}, Step{Op: "toggle", Name: 0, C: tss(0), K: ok},
		Step{Op: "toggle", Name: 0, C: bsc(200, false), K: ok}, upd("valid"))
	// there and back: a client type re-installed under a name that carried it before starts from an empty store
	add("back-tm->tss->tm", reg, Step{Op: "create", Name: 0, C: tm(0, 5, false), K: ok}, upd("valid"), Step{Op: "toggle", Name: 0, C: tss(0), K: ok},
		Step{Op: "toggle", Name: 0, C: tm(0, 50, false), K: ok}, tick(6), upd("valid"))
	add("back-bsc->tm->bsc", reg, Step{Op: "create", Name: 0, C: bsc(200, false), K: ok}, upd("valid"), Step{Op: "toggle", Name: 0, C: tm(0, 5, false), K: ok},
		Step{Op: "toggle", Name: 0, C: bsc(400, false), K: ok}, upd("valid"), upd("valid"))
	add("back-eth->bsc->eth", reg, Step{Op: "create", Name: 0, C: eth(100, false), K: ok}, upd("valid"), Step{Op: "toggle", Name: 0, C: bsc(200, false), K: ok},
		Step{Op: "toggle", Name: 0, C: eth(300, false), K: ok}, upd("valid"), upd("valid"))
	// upgrades of every type with valid content, then updates on top of the upgraded state
	add("upgrade-eth", reg, Step{Op: "create", Name: 0, C: eth(100, false), K: ok}, upd("valid"), Step{Op: "upgrade", Name: 0, C: eth(5, true), K: ok}, upd("valid"), upd("valid"))
	add("upgrade-bsc", reg, Step{Op: "create", Name: 0, C: bsc(200, false), K: ok}, upd("valid"), Step{Op: "upgrade", Name: 0, C: bsc(8, true), K: ok}, upd("valid"), upd("valid"))
	add("upgrade-tm", reg, Step{Op: "create", Name: 0, C: tm(0, 5, false), K: ok}, upd("valid"), Step{Op: "upgrade", Name: 0, C: tm(0, 7, true), K: ok}, tick(6), upd("valid"))
	// an upgraded ETH client lives on until the upgraded consensus state is the oldest one and is pruned
	add("upgrade-eth-prune", reg, Step{Op: "create", Name: 0, C: ethShort(100, false), K: ok}, Step{Op: "upgrade", Name: 0, C: ethShort(2, true), K: ok},
		upd("valid"), tick(990), upd("valid"), tick(8), upd("valid"), tick(4), upd("valid"), upd("valid"))
	// Tendermint: processed time + delay does not fit into a uint64: created, Active, the gate never opens
	add("tm-delay-overflow", reg, Step{Op: "create", Name: 0, C: &CSpec{T: "tm", Rev: 0, H: 5, TrustS: 14 * 24 * 3600, DelayNs: math.MaxUint64}, K: ok}, tick(6), upd("valid"))
	// Tendermint: a header exactly max-clock-drift ahead of the block time is from the future, one nanosecond less is not
	add("tm-drift-edge", reg, Step{Op: "create", Name: 0, C: tm(0, 5, false), K: ok}, upd("driftedge"), upd("driftok"))
	// BSC: the validator that sealed the last block seals again (recently signed), then the valid one
	add("bsc-recent-signer", reg, Step{Op: "create", Name: 0, C: bsc(200, false), K: ok}, upd("valid"), upd("recent"), upd("valid"))
	// BSC: a new validator list announced at an epoch block takes over len(validators)/2 blocks later; a smaller set
	// shrinks the window of recent signers (their entries are deleted), a larger one widens it
	updv := func(vals ...int) Step {
		return Step{Op: "update", Name: 0, Acct: 0, U: &USpec{Mode: "valid", K: 1, DtS: 5, NewAcct: 1, TSSAuto: true, NewVals: vals}}
	}
	add("bsc-valset-shrink", reg, Step{Op: "create", Name: 0, C: bsc(200, false), K: ok}, upd("valid"), upd("valid"), upd("valid"), updv(3), upd("valid"), upd("valid"), upd("valid"))
	add("bsc-valset-grow", reg, Step{Op: "create", Name: 0, C: &CSpec{T: "bsc", H: 200, TrustS: 14 * 24 * 3600, AgeS: 800, Epoch: 4, Vals: []int{0}, Sealer: 0}, K: ok},
		upd("valid"), upd("valid"), upd("valid"), updv(0, 1, 2, 3, 4), upd("valid"), upd("valid"), upd("valid"), upd("valid"))
	// expiry boundaries: Status (latest consensus state) one unit before / at / one unit after timestamp + trusting
	// period (Tendermint: expired AT the boundary, ns; BSC / ETH: expired AFTER it, s), and the same boundary for the
	// earliest consensus state in the pruning step of an update
	texp := func(which string, off int64) Step { return Step{Op: "tickexp", Name: 0, Which: which, Off: off} }
	tmS := func(h uint64) *CSpec { return &CSpec{T: "tm", Rev: 0, H: h, TrustS: 3000, DelayNs: 0} }
	bscS := func(h uint64) *CSpec {
		return &CSpec{T: "bsc", H: h, TrustS: 3000, AgeS: 800, Epoch: 4, Vals: []int{0, 1, 2}, Sealer: 0}
	}
	ethS := func(h uint64) *CSpec { return &CSpec{T: "eth", H: h, TrustS: 3000, AgeS: 1000, BlockDelay: 1} }
	for _, c := range []*CSpec{tmS(5), bscS(200), ethS(100)} {
		add("expiry-status-"+c.T, reg, Step{Op: "create", Name: 0, C: c, K: ok}, texp("latest", -1), upd("valid"), texp("latest", -1), texp("latest", 0), upd("valid"),
			texp("latest", 1), upd("valid"))
		add("expiry-prune-"+c.T, reg, Step{Op: "create", Name: 0, C: c, K: ok}, upd("valid"), texp("first", -1), upd("valid"), texp("first", 0), upd("valid"),
			texp("first", 1), upd("valid"), texp("first", 0), upd("valid"), texp("first", 1), upd("valid"))
	}
	// Tendermint: an update to a PAST height (skipped earlier): the consensus state is stored at the header's height, the
	// latest height stays
	updk := func(k uint64) Step {
		return Step{Op: "update", Name: 0, Acct: 0, U: &USpec{Mode: "valid", K: k, DtS: 5, NewAcct: 1, TSSAuto: true}}
	}
	add("tm-update-past-height", reg, Step{Op: "create", Name: 0, C: tm(0, 5, false), K: ok}, updk(3), upd("past"), upd("valid"), upd("past"))
	// ETH: the root-main keys ignore the revision number. The same block re-installed under revision 1 (consistent content)
	// shares its root-main entry with the revision-0 state; pruning the first deletes it, pruning the second fails
	add("eth-revision-collision", reg, Step{Op: "create", Name: 0, C: ethShort(100, false), K: ok}, upd("valid"),
		Step{Op: "upgrade", Name: 0, C: &CSpec{T: "eth", Rev: 1, H: 100, TrustS: 2000, AgeS: 1000, BlockDelay: 1}, K: ok}, upd("valid"),
		texp("first", 1), upd("valid"), texp("first", 1), upd("valid"), upd("valid"), upd("valid"))
	// MsgUpdateClient.ValidateBasic refuses a header that fails its own ValidateBasic, for every type
	add("update-bad-header-tm", reg, Step{Op: "create", Name: 0, C: tm(0, 5, false), K: ok}, upd("badheader"), upd("valid"))
	add("update-bad-header-bsc", reg, Step{Op: "create", Name: 0, C: bsc(200, false), K: ok}, upd("badheader"), upd("valid"))
	add("update-bad-header-eth", reg, Step{Op: "create", Name: 0, C: eth(100, false), K: ok}, upd("badheader"), upd("valid"))
	add("update-bad-header-tss", reg, Step{Op: "create", Name: 0, C: tss(0), K: ok}, upd("badheader"), upd("valid"))
	// ETH (aa5560b): a consensus state with another root than the proposed header is refused and nothing changes (before the
	// repair it was installed and the update that had to prune it failed: the header index is looked up by ITS root)
	add("eth-foreign-root-prune", reg, Step{Op: "create", Name: 0, C: ethShort(100, false), K: &KSpec{T: "same", AgeS: 60, Own: true, RootOK: false, ValsOK: true}},
		upd("valid"), tick(1003), upd("valid"),
		Step{Op: "create", Name: 0, C: ethShort(100, false), K: ok}, upd("valid"),
		Step{Op: "upgrade", Name: 0, C: ethShort(3, true), K: &KSpec{T: "same", AgeS: 60, Own: true, RootOK: false, ValsOK: true}},
		Step{Op: "toggle", Name: 0, C: tss(0), K: ok},
		Step{Op: "toggle", Name: 0, C: ethShort(100, false), K: &KSpec{T: "same", AgeS: 60, Own: true, RootOK: false, ValsOK: true}})
	// ... the roots are compared as 32-byte hashes (common.BytesToHash crops from the left): a 33-byte root ending in the header's
	// root is the same root, is installed and is found again when it is pruned
	add("eth-root-33-bytes", reg, Step{Op: "create", Name: 0, C: ethShort(100, false), K: &KSpec{T: "same", AgeS: 60, Own: true, RootOK: true, ValsOK: true, RootPad: 1}},
		upd("valid"), texp("first", 1), upd("valid"), upd("valid"))
	// ETH (1e12297, 072bc15): a header of another revision number and a header older than the trusting period are refused
	add("eth-other-revision", reg, Step{Op: "create", Name: 0, C: eth(100, false), K: ok}, upd("otherrev"), upd("valid"))
	add("eth-old-header", reg, Step{Op: "create", Name: 0, C: ethShort(100, false), K: &KSpec{T: "same", AgeS: 60, Own: false, RootOK: true, ValsOK: true}},
		tick(1100), upd("valid"))
	// C18c: consensus state of another client type
	add("c18c-eth+tm-cons", Step{Op: "create", Name: 0, C: eth(100, false), K: &KSpec{T: "tm", AgeS: 60, RootOK: true, ValsOK: true}})
	add("c18c-tss+tm-cons", Step{Op: "create", Name: 0, C: tss(0), K: &KSpec{T: "tm", AgeS: 60, RootOK: true, ValsOK: true}})
	add("c18c-upgrade-toggle", Step{Op: "create", Name: 0, C: eth(100, false), K: ok},
		Step{Op: "upgrade", Name: 0, C: eth(5, true), K: &KSpec{T: "bsc", AgeS: 60, RootOK: true}},
		Step{Op: "toggle", Name: 0, C: tss(0), K: &KSpec{T: "eth", AgeS: 60, RootOK: true}})
	return out
}

// sweep: the boundary histories of the corpus over a grid of parameters (thorough tier): trusting periods, epochs,
// validator counts, block delays, time delays
func sweep() []Spec {
	ok := &KSpec{T: "same", AgeS: 60, Own: true, RootOK: true, ValsOK: true}
	reg := Step{Op: "register", Acct: 0, Chains: []int{0, 1}, NAddr: 2}
	upd := func(mode string) Step {
		return Step{Op: "update", Name: 0, Acct: 0, U: &USpec{Mode: mode, K: 1, DtS: 5, NewAcct: 1, TSSAuto: true}}
	}
	updv := func(vals []int) Step {
		return Step{Op: "update", Name: 0, Acct: 0, U: &USpec{Mode: "valid", K: 1, DtS: 5, NewAcct: 1, TSSAuto: true, NewVals: vals}}
	}
	texp := func(which string, off int64) Step { return Step{Op: "tickexp", Name: 0, Which: which, Off: off} }
	var out []Spec
	add := func(tag string, steps ...Step) {
		i := len(out)
		out = append(out, Spec{ID: 2000000 + i, Tag: "sweep:" + tag, Names: []string{fmt.Sprintf("sweep-%d-a", i), fmt.Sprintf("sweep-%d-b", i), "a/b"}, Steps: steps})
	}
	boundary := func(tag string, c *CSpec) {
		add("expiry-status-"+tag, reg, Step{Op: "create", Name: 0, C: c, K: ok}, upd("valid"), texp("latest", -1), upd("valid"), texp("latest", -1), texp("latest", 0),
			upd("valid"), texp("latest", 1), upd("valid"))
		add("expiry-prune-"+tag, reg, Step{Op: "create", Name: 0, C: c, K: ok}, upd("valid"), upd("valid"), texp("first", -1), upd("valid"), texp("first", 0), upd("valid"),
			texp("first", 1), upd("valid"), texp("first", 0), upd("valid"), texp("first", 1), upd("valid"), upd("valid"))
	}
	for _, trust := range []uint64{300, 3000, 14 * 24 * 3600} {
		for _, delay := range []uint64{0, 1, 7e9, math.MaxUint64} {
			c := &CSpec{T: "tm", Rev: uint64(len(out) % 2), H: 5, TrustS: trust, DelayNs: delay}
			boundary(fmt.Sprintf("tm-trust%d-delay%d", trust, delay), c)
			add(fmt.Sprintf("tm-delay-trust%d-delay%d", trust, delay), reg, Step{Op: "create", Name: 0, C: c, K: ok}, Step{Op: "tick", Dt: 1}, Step{Op: "tick", Dt: 6999999998},
				Step{Op: "tick", Dt: 1}, Step{Op: "tick", Dt: 1}, upd("driftedge"), upd("driftok"), upd("past"))
		}
		for _, epoch := range []uint64{3, 4, 5, 200} {
			for nv := 1; nv <= 5; nv++ {
				vals := []int{0, 1, 2, 3, 4}[:nv]
				c := &CSpec{T: "bsc", H: 2 * epoch, TrustS: trust + 2000, AgeS: 800, Epoch: epoch, Vals: vals, Sealer: 0}
				if epoch == 4 {
					boundary(fmt.Sprintf("bsc-trust%d-vals%d", trust, nv), c)
				}
				// a burst across two epoch boundaries with a shrinking and then a growing validator list
				steps := []Step{reg, Step{Op: "create", Name: 0, C: c, K: ok}}
				if epoch <= 5 {
					for i := uint64(1); i <= 2*epoch+uint64(nv); i++ {
						switch {
						case i == epoch:
							steps = append(steps, updv([]int{4}))
						case i == 2*epoch:
							steps = append(steps, updv([]int{0, 1, 2, 3, 4}))
						case i%3 == 2:
							steps = append(steps, upd("recent"))
						default:
							steps = append(steps, upd("valid"))
						}
					}
				} else {
					steps = append(steps, upd("valid"), upd("recent"), upd("valid"), upd("valid"))
				}
				add(fmt.Sprintf("bsc-burst-epoch%d-vals%d-trust%d", epoch, nv, trust), steps...)
			}
		}
		for bd := uint64(0); bd <= 3; bd++ {
			c := &CSpec{T: "eth", H: 100 + bd, TrustS: trust + 2000, AgeS: 1000, BlockDelay: bd}
			boundary(fmt.Sprintf("eth-trust%d-bd%d", trust, bd), c)
			add(fmt.Sprintf("eth-delay-trust%d-bd%d", trust, bd), reg, Step{Op: "create", Name: 0, C: c, K: ok}, upd("valid"), upd("valid"), upd("valid"), upd("valid"),
				Step{Op: "upgrade", Name: 0, C: &CSpec{T: "eth", H: 3, HRel: true, TrustS: trust + 2000, AgeS: 900, BlockDelay: bd}, K: ok}, upd("valid"), upd("valid"), upd("valid"), upd("valid"))
		}
	}
	return out
}
