package main

// Construction of valid (and deliberately invalid) client states, consensus states and headers of the four
// client types, and of HONEST proofs of one packet commitment:
//   Tendermint: headers signed by deterministic mock validators (as x/xibc/testing CreateTMClientHeader does,
//               with the app hash under our control); the proof is a real ICS-23 proof out of a cosmos-sdk
//               rootmulti/IAVL store whose commit hash is the app hash of every generated header.
//   BSC:        headers sealed with real secp256k1 keys (hook VerifSealHash).
//   ETH:        Rinkeby-mode headers (chain id 4: no ethash seal), EIP-1559 fields kept constant.
//   BSC/ETH proof: account + storage proof built with go-ethereum's trie; its state root is the Root of every
//               generated header.

import (
	"bytes"
	"crypto/ecdsa"
	"crypto/sha256"
	"encoding/json"
	"fmt"
	"math/big"
	"sort"
	"time"

	"github.com/cosmos/cosmos-sdk/codec"
	"github.com/cosmos/cosmos-sdk/store/rootmulti"
	storetypes "github.com/cosmos/cosmos-sdk/store/types"
	sdk "github.com/cosmos/cosmos-sdk/types"
	"github.com/ethereum/go-ethereum/common"
	ethcoretypes "github.com/ethereum/go-ethereum/core/types"
	"github.com/ethereum/go-ethereum/crypto"
	"github.com/ethereum/go-ethereum/ethdb/memorydb"
	"github.com/ethereum/go-ethereum/light"
	"github.com/ethereum/go-ethereum/rlp"
	"github.com/ethereum/go-ethereum/trie"
	abci "github.com/tendermint/tendermint/abci/types"
	"github.com/tendermint/tendermint/crypto/ed25519"
	"github.com/tendermint/tendermint/crypto/tmhash"
	tmproto "github.com/tendermint/tendermint/proto/tendermint/types"
	tmprotoversion "github.com/tendermint/tendermint/proto/tendermint/version"
	tmtypes "github.com/tendermint/tendermint/types"
	"github.com/tendermint/tendermint/version"
	dbm "github.com/tendermint/tm-db"

	bsctypes "github.com/teleport-network/teleport/x/xibc/clients/light-clients/bsc/types"
	ethtypes "github.com/teleport-network/teleport/x/xibc/clients/light-clients/eth/types"
	tmclient "github.com/teleport-network/teleport/x/xibc/clients/light-clients/tendermint/types"
	tsstypes "github.com/teleport-network/teleport/x/xibc/clients/tss-client/types"
	clienttypes "github.com/teleport-network/teleport/x/xibc/core/client/types"
	commitmenttypes "github.com/teleport-network/teleport/x/xibc/core/commitment/types"
	"github.com/teleport-network/teleport/x/xibc/core/host"
)

const (
	fxStore = "xibc"
	fxSrc   = "srcchain"
	fxDst   = "dstchain"
	fxSeq   = uint64(1)
)

var fxCommit = tmhash.Sum([]byte("c18 packet commitment")) // 32 bytes, first byte non-zero checked in init

// ---------------------------------------------------------------------------------------------
// Tendermint

type tmSet struct {
	vals    *tmtypes.ValidatorSet
	signers []tmtypes.PrivValidator
}

var tmSets []tmSet // 0: the counterparty's validators; 1: a foreign set

func init() {
	for i := 0; i < 2; i++ {
		pv := tmtypes.NewMockPVWithParams(ed25519.GenPrivKeyFromSecret([]byte(fmt.Sprintf("c18-validator-%d", i))), false, false)
		pk, err := pv.GetPubKey()
		if err != nil {
			panic(err)
		}
		vs := tmtypes.NewValidatorSet([]*tmtypes.Validator{tmtypes.NewValidator(pk, 10)})
		tmSets = append(tmSets, tmSet{vals: vs, signers: []tmtypes.PrivValidator{pv}})
	}
}

func tmChainID(rev uint64) string {
	if rev == 0 {
		return "remote"
	}
	return fmt.Sprintf("remote-%d", rev)
}

func mkTMClient(rev, h uint64, trusting time.Duration, delay uint64, bad string) *tmclient.ClientState {
	cs := tmclient.NewClientState(tmChainID(rev), tmclient.DefaultTrustLevel, trusting, trusting+trusting/2+time.Hour, 10*time.Second,
		clienttypes.NewHeight(rev, h), commitmenttypes.GetSDKSpecs(), commitmenttypes.MerklePrefix{KeyPrefix: []byte(fxStore)}, delay)
	if bad == "nospecs" {
		cs.ProofSpecs = nil
	}
	return cs
}

func mkTMCons(ts time.Time, root []byte, set int) *tmclient.ConsensusState {
	return tmclient.NewConsensusState(ts, root, tmSets[set].vals.Hash())
}

// mkTMHeader: x/xibc/testing CreateTMClientHeader with the app hash as a parameter
func mkTMHeader(chainID string, height int64, trusted clienttypes.Height, ts time.Time, set, trustedSet int, appHash []byte) *tmclient.Header {
	vs := tmSets[set].vals
	vh := vs.Hash()
	h := tmtypes.Header{
		Version: tmprotoversion.Consensus{Block: version.BlockProtocol, App: 2}, ChainID: chainID, Height: height, Time: ts,
		LastBlockID:    tmtypes.BlockID{Hash: make([]byte, tmhash.Size), PartSetHeader: tmtypes.PartSetHeader{Total: 10000, Hash: make([]byte, tmhash.Size)}},
		LastCommitHash: tmhash.Sum([]byte("last_commit")), DataHash: tmhash.Sum([]byte("data_hash")), ValidatorsHash: vh, NextValidatorsHash: vh,
		ConsensusHash: tmhash.Sum([]byte("consensus_hash")), AppHash: appHash, LastResultsHash: tmhash.Sum([]byte("last_results_hash")),
		EvidenceHash: tmhash.Sum([]byte("evidence_hash")), ProposerAddress: vs.Proposer.Address,
	}
	bid := tmtypes.BlockID{Hash: h.Hash(), PartSetHeader: tmtypes.PartSetHeader{Total: 3, Hash: tmhash.Sum([]byte("part_set"))}}
	voteSet := tmtypes.NewVoteSet(chainID, height, 1, tmproto.PrecommitType, vs)
	commit, err := tmtypes.MakeCommit(bid, height, 1, voteSet, tmSets[set].signers, ts)
	if err != nil {
		panic(err)
	}
	vp, err := vs.ToProto()
	if err != nil {
		panic(err)
	}
	tp, err := tmSets[trustedSet].vals.ToProto()
	if err != nil {
		panic(err)
	}
	return &tmclient.Header{SignedHeader: &tmproto.SignedHeader{Header: h.ToProto(), Commit: commit.ToProto()}, ValidatorSet: vp,
		TrustedHeight: trusted, TrustedValidators: tp}
}

type tmFixture struct {
	root  []byte
	proof []byte
}

// makeTMFixture: a committed rootmulti store holding the packet commitment, and the ICS-23 proof of it
func makeTMFixture(cdc codec.BinaryCodec) *tmFixture {
	db := dbm.NewMemDB()
	ms := rootmulti.NewStore(db)
	key := sdk.NewKVStoreKey(fxStore)
	other := sdk.NewKVStoreKey("bank")
	ms.MountStoreWithDB(key, storetypes.StoreTypeIAVL, nil)
	ms.MountStoreWithDB(other, storetypes.StoreTypeIAVL, nil)
	if err := ms.LoadLatestVersion(); err != nil {
		panic(err)
	}
	st := ms.GetKVStore(key)
	st.Set(host.PacketCommitmentKey(fxSrc, fxDst, fxSeq), fxCommit)
	st.Set([]byte("unrelated"), []byte("x"))
	ms.GetKVStore(other).Set([]byte("k"), []byte("v"))
	cid := ms.Commit()
	res := ms.Query(abci.RequestQuery{Path: "/" + fxStore + "/key", Data: host.PacketCommitmentKey(fxSrc, fxDst, fxSeq), Height: cid.Version, Prove: true})
	if res.ProofOps == nil {
		panic("no proof: " + res.Log)
	}
	mp, err := commitmenttypes.ConvertProofs(res.ProofOps)
	if err != nil {
		panic(err)
	}
	bz, err := cdc.Marshal(&mp)
	if err != nil {
		panic(err)
	}
	return &tmFixture{root: cid.Hash, proof: bz}
}

// ---------------------------------------------------------------------------------------------
// BSC / ETH

const nEvmKeys = 5

var (
	evmKeys  []*ecdsa.PrivateKey
	evmAddrs []common.Address
	contract = bytes.Repeat([]byte{9}, 20)
)

func init() {
	for i := 0; len(evmKeys) < nEvmKeys; i++ {
		k, err := crypto.ToECDSA(tmhash.Sum([]byte(fmt.Sprintf("c18-bsc-key-%d", i))))
		if err != nil {
			continue
		}
		evmKeys = append(evmKeys, k)
		evmAddrs = append(evmAddrs, crypto.PubkeyToAddress(k.PublicKey))
	}
	if fxCommit[0] == 0 {
		panic("fixture commitment must not start with a zero byte")
	}
}

func keyOf(a common.Address) *ecdsa.PrivateKey {
	for i, x := range evmAddrs {
		if x == a {
			return evmKeys[i]
		}
	}
	return nil
}

func sortedAddrs(vals [][]byte) []common.Address {
	m := map[common.Address]bool{}
	var out []common.Address
	for _, v := range vals {
		a := common.BytesToAddress(v)
		if !m[a] {
			m[a] = true
			out = append(out, a)
		}
	}
	sort.Slice(out, func(i, j int) bool { return bytes.Compare(out[i][:], out[j][:]) < 0 })
	return out
}

const bscChainID = 56

func sealBSC(h *bsctypes.Header, key *ecdsa.PrivateKey) {
	sig, err := crypto.Sign(bsctypes.VerifSealHash(*h, new(big.Int).SetUint64(bscChainID)).Bytes(), key)
	if err != nil {
		panic(err)
	}
	copy(h.Extra[len(h.Extra)-65:], sig)
}

// mkBSCHeader: a header at height n sealed by sealer (coinbase = coinbase); vals != nil: validator list in the extra data
func mkBSCHeader(parentHash []byte, n uint64, tm uint64, root []byte, coinbase common.Address, sealer *ecdsa.PrivateKey, diff uint64,
	vals []common.Address, extraPad int) bsctypes.Header {
	extra := make([]byte, 32)
	for _, v := range vals {
		extra = append(extra, v[:]...)
	}
	extra = append(extra, make([]byte, extraPad)...) // extraPad != 0: validator bytes not a multiple of 20
	extra = append(extra, make([]byte, 65)...)
	if parentHash == nil {
		parentHash = make([]byte, 32)
	}
	hd := bsctypes.Header{
		ParentHash: parentHash, UncleHash: ethcoretypes.EmptyUncleHash[:], Coinbase: coinbase[:], Root: root,
		TxHash: make([]byte, 32), ReceiptHash: make([]byte, 32), Bloom: make([]byte, 256), Difficulty: new(big.Int).SetUint64(diff).Bytes(),
		Height: clienttypes.NewHeight(0, n), GasLimit: 30000000, GasUsed: 1, Time: tm, Extra: extra, MixDigest: make([]byte, 32), Nonce: make([]byte, 8),
	}
	sealBSC(&hd, sealer)
	return hd
}

func mkETHHeader(parentHash []byte, n uint64, tm uint64, root []byte, tag byte) ethtypes.Header {
	if parentHash == nil {
		parentHash = bytes.Repeat([]byte{1}, 32)
	}
	return ethtypes.Header{
		ParentHash: parentHash, UncleHash: bytes.Repeat([]byte{2}, 32), Coinbase: bytes.Repeat([]byte{3}, 20),
		Root: root, TxHash: bytes.Repeat([]byte{5}, 32), ReceiptHash: bytes.Repeat([]byte{6}, 32),
		Bloom: bytes.Repeat([]byte{7}, 256), Difficulty: []byte{0x01}, Height: clienttypes.NewHeight(0, n),
		GasLimit: 30000000, GasUsed: 15000000, Time: tm, Extra: []byte{tag}, MixDigest: bytes.Repeat([]byte{8}, 32), BaseFee: []byte{0x07},
	}
}

type evmFixture struct {
	root  []byte
	proof []byte // JSON, accepted by both the BSC and the ETH client
}

type acctRLP struct {
	Nonce    *big.Int
	Balance  *big.Int
	Root     common.Hash
	CodeHash common.Hash
}

func newTrie() *trie.Trie {
	t, err := trie.New(common.Hash{}, trie.NewDatabase(memorydb.New()))
	if err != nil {
		panic(err)
	}
	return t
}

func proveTrie(t *trie.Trie, key []byte) []string {
	var nl light.NodeList
	if err := t.Prove(key, 0, &nl); err != nil {
		panic(err)
	}
	var out []string
	for _, n := range nl {
		out = append(out, "0x"+common.Bytes2Hex(n))
	}
	return out
}

func makeEVMFixture() *evmFixture {
	slot := bsctypes.NewProofKeyConstructor(fxSrc, fxDst, fxSeq).GetPacketCommitmentProofKey()
	st := newTrie()
	val, _ := rlp.EncodeToBytes(bytes.TrimLeft(fxCommit, "\x00"))
	if err := st.TryUpdate(crypto.Keccak256(slot), val); err != nil {
		panic(err)
	}
	for i := 0; i < 20; i++ { // some unrelated slots so that the proof has inner nodes
		v, _ := rlp.EncodeToBytes([]byte{byte(i + 1)})
		st.TryUpdate(crypto.Keccak256(tmhash.Sum([]byte(fmt.Sprint("slot", i)))), v)
	}
	codeHash := common.BytesToHash(tmhash.Sum([]byte("code")))
	acc, _ := rlp.EncodeToBytes(&acctRLP{Nonce: big.NewInt(1), Balance: big.NewInt(0), Root: st.Hash(), CodeHash: codeHash})
	world := newTrie()
	if err := world.TryUpdate(crypto.Keccak256(contract), acc); err != nil {
		panic(err)
	}
	for i := 0; i < 20; i++ {
		a, _ := rlp.EncodeToBytes(&acctRLP{Nonce: big.NewInt(int64(i)), Balance: big.NewInt(7), Root: common.Hash{}, CodeHash: codeHash})
		world.TryUpdate(crypto.Keccak256(tmhash.Sum([]byte(fmt.Sprint("acct", i)))[:20]), a)
	}
	type sr struct {
		Key   string   `json:"key"`
		Value string   `json:"value"`
		Proof []string `json:"proof"`
	}
	pj := map[string]interface{}{
		"address": "0x" + common.Bytes2Hex(contract), "balance": "0x0", "code_hash": codeHash.Hex(), "nonce": "0x1",
		"storage_hash":  st.Hash().Hex(),
		"account_proof": proveTrie(world, crypto.Keccak256(contract)),
		"storage_proof": []sr{{Key: "0x" + common.Bytes2Hex(slot), Value: "0x" + common.Bytes2Hex(fxCommit), Proof: proveTrie(st, crypto.Keccak256(slot))}},
	}
	bz, err := json.Marshal(pj)
	if err != nil {
		panic(err)
	}
	r := world.Hash()
	return &evmFixture{root: r[:], proof: bz}
}

// ---------------------------------------------------------------------------------------------
// TSS

func tssRest(pub []byte, parts [][]byte, thr uint64) []byte {
	cs := tsstypes.ClientState{Pubkey: pub, PartPubkeys: parts, Threshold: thr}
	bz, err := cs.Marshal()
	if err != nil {
		panic(err)
	}
	d := sha256.Sum256(bz)
	return d[:]
}
