package main

// Symbolic case specifications and their resolution against the REAL state: a step says "a valid child header",
// "an upgrade 6 blocks above the stored height", "a consensus state of the wrong type" ...; the harness builds the
// concrete objects from what the real client store contains when the step runs, executes the step on the real
// code and records the step as the model sees it (JOp) together with the observables.

import (
	"bytes"
	"math/big"
	"time"

	"github.com/ethereum/go-ethereum/common"
	sdk "github.com/cosmos/cosmos-sdk/types"
	govtypes "github.com/cosmos/cosmos-sdk/x/gov/types"

	bsctypes "github.com/teleport-network/teleport/x/xibc/clients/light-clients/bsc/types"
	ethtypes "github.com/teleport-network/teleport/x/xibc/clients/light-clients/eth/types"
	tmclient "github.com/teleport-network/teleport/x/xibc/clients/light-clients/tendermint/types"
	tsstypes "github.com/teleport-network/teleport/x/xibc/clients/tss-client/types"
	clienttypes "github.com/teleport-network/teleport/x/xibc/core/client/types"
	"github.com/teleport-network/teleport/x/xibc/exported"

	"verifharness/hlib"
)

type CSpec struct {
	T          string `json:"t"` // tm bsc eth tss
	Rev        uint64 `json:"rev"`
	H          uint64 `json:"h"`
	HRel       bool   `json:"hrel"` // H is an offset above the stored client's latest height (if of the same type)
	TrustS     uint64 `json:"trust_s"`
	DelayNs    uint64 `json:"delay_ns"`
	AgeS       uint64 `json:"age_s"` // bsc/eth: header time = block time - age
	Epoch      uint64 `json:"epoch"`
	Vals       []int  `json:"vals"`
	Sealer     int    `json:"sealer"`
	BlockDelay uint64 `json:"block_delay"`
	Acct       int    `json:"acct"`
	Bad        string `json:"bad"`
}

type KSpec struct {
	T      string `json:"t"` // same tm bsc eth tss
	AgeS   uint64 `json:"age_s"`
	Own    bool   `json:"own"` // bsc/eth: timestamp, height and root of the client state's header
	RootOK bool   `json:"root_ok"`
	ValsOK bool   `json:"vals_ok"`
	// bsc/eth: n bytes 0xAB in front of the root: common.BytesToHash crops from the left, so the root is the same 32-byte hash
	RootPad int `json:"root_pad,omitempty"`
}

type USpec struct {
	Mode    string `json:"mode"` // valid wrongparent badseal unauthval oldtime wrongtype badsig notrusted future baddiff driftedge driftok recent past badheader otherrev
	K       uint64 `json:"k"`    // tm: height step above the trusted height
	DtS     uint64 `json:"dt_s"`
	NewAcct int    `json:"new_acct"`
	NewVals []int  `json:"new_vals"` // bsc: validator list announced at an epoch height (nil: unchanged)
	TSSAuto bool   `json:"tss_auto"` // sign with the account of the stored TSS address when there is one
}

type Step struct {
	Op     string `json:"op"` // create upgrade toggle register update tick
	Name   int    `json:"name"`
	C      *CSpec `json:"c,omitempty"`
	K      *KSpec `json:"k,omitempty"`
	U      *USpec `json:"u,omitempty"`
	Acct   int    `json:"acct"` // register: relayer account (-1: not an address); update: signer
	Chains []int  `json:"chains,omitempty"`
	NAddr  int    `json:"naddr"`
	Dt     uint64 `json:"dt"`
	// tickexp: move the block time to the expiry boundary of a stored consensus state of client Name:
	// Which = "latest" (the one Status looks at) or "first" (the one the pruning step looks at); Off = -1, 0, +1 units
	// (ns for Tendermint, s for BSC / ETH) relative to timestamp + trusting period
	Which string `json:"which,omitempty"`
	Off   int64  `json:"off,omitempty"`
}

type Spec struct {
	ID    int      `json:"id"`
	Tag   string   `json:"tag"`
	Names []string `json:"names"`
	Steps []Step   `json:"steps"`
}

type StepRes struct {
	Op  JOp `json:"op"`
	Obs Obs `json:"obs"`
}

type Result struct {
	Spec   Spec      `json:"spec"`
	TMFx   string    `json:"tm_fx"`
	EVMFx  string    `json:"evm_fx"`
	Init   Obs       `json:"init"`
	Steps  []StepRes `json:"steps"`
	WallMs int64     `json:"wall_ms"`
}

func bigChain() *big.Int { return new(big.Int).SetUint64(bscChainID) }

func otherRoot() []byte { return bytes.Repeat([]byte{0x5a}, 32) }

func (w *World) stored(name string) exported.ClientState {
	var cs exported.ClientState
	var found bool
	hlib.Catch(func() { cs, found = w.ch.App.XIBCKeeper.ClientKeeper.GetClientState(w.ctx(), name) })
	if !found {
		return nil
	}
	return cs
}

func unixS(t time.Time) uint64 { return uint64(t.Unix()) }

func pickAddrs(idx []int) []common.Address {
	var out []common.Address
	for _, i := range idx {
		out = append(out, evmAddrs[i%nEvmKeys])
	}
	return out
}

func addrBytes(as []common.Address) [][]byte {
	var out [][]byte
	for _, a := range as {
		out = append(out, append([]byte(nil), a[:]...))
	}
	return out
}

// resolveClient builds the proposal's client state and consensus state
func (w *World) resolveClient(name string, c *CSpec, k *KSpec) (exported.ClientState, exported.ConsensusState) {
	now := w.now()
	cur := w.stored(name)
	var cs exported.ClientState
	var evmTime uint64
	var evmHeight clienttypes.Height
	var evmRoot []byte
	switch c.T {
	case "tm":
		rev, h := c.Rev, c.H
		if c.HRel {
			if t, ok := cur.(*tmclient.ClientState); ok {
				rev, h = t.LatestHeight.RevisionNumber, t.LatestHeight.RevisionHeight+c.H
			}
		}
		trust := time.Duration(c.TrustS) * time.Second
		switch c.Bad {
		case "h0":
			h = 0
		case "trust0":
			trust = 0
		}
		cs = mkTMClient(rev, h, trust, c.DelayNs, c.Bad)
	case "bsc":
		epoch := c.Epoch
		h := c.H
		if c.HRel {
			if t, ok := cur.(*bsctypes.ClientState); ok {
				h = t.Header.Height.RevisionHeight + c.H
			}
		}
		if epoch != 0 {
			h = (h + epoch - 1) / epoch * epoch
		}
		if c.Bad == "offepoch" {
			h++
		}
		vals := pickAddrs(c.Vals)
		coinbase := evmAddrs[c.Sealer%nEvmKeys]
		sealer := evmKeys[c.Sealer%nEvmKeys]
		if c.Bad == "badseal" {
			sealer = evmKeys[(c.Sealer+1)%nEvmKeys]
		}
		pad := 0
		if c.Bad == "badextra" {
			pad = 7
		}
		hd := mkBSCHeader(nil, h, unixS(now)-c.AgeS, w.evmfx.root, coinbase, sealer, 2, vals, pad)
		if c.Bad == "bloom" {
			hd.Bloom = make([]byte, 257)
		}
		if c.Bad == "epoch0" {
			epoch = 0
		}
		cs = &bsctypes.ClientState{Header: hd, ChainId: bscChainID, Epoch: epoch, BlockInteval: 3, Validators: addrBytes(vals),
			ContractAddress: contract, TrustingPeriod: c.TrustS}
		evmTime, evmHeight, evmRoot = hd.Time, hd.Height, hd.Root
	case "eth":
		h := c.H
		if c.HRel {
			if t, ok := cur.(*ethtypes.ClientState); ok {
				h = t.Header.Height.RevisionHeight + c.H
			}
		}
		hd := mkETHHeader(nil, h, unixS(now)-c.AgeS, w.evmfx.root, byte(h))
		hd.Height = clienttypes.NewHeight(c.Rev, h) // the revision number is not part of the block hash
		if c.Bad == "bloom" {
			hd.Bloom = make([]byte, 257)
		}
		cs = &ethtypes.ClientState{Header: hd, ChainId: 4, ContractAddress: contract, TrustingPeriod: c.TrustS, BlockDelay: c.BlockDelay}
		evmTime, evmHeight, evmRoot = hd.Time, hd.Height, hd.Root
	default:
		addr := w.accts[c.Acct%nAccts].addr.String()
		if c.Bad == "badaddr" {
			addr = "teleport1notanaddress"
		}
		cs = &tsstypes.ClientState{TssAddress: addr, Pubkey: []byte{byte(c.Acct), 1}, PartPubkeys: [][]byte{{byte(c.Acct), 2}}, Threshold: 1}
	}
	kt := k.T
	if kt == "same" {
		kt = c.T
	}
	root := otherRoot()
	var cons exported.ConsensusState
	switch kt {
	case "tm":
		if k.RootOK {
			root = w.tmfx.root
		}
		set := 1
		if k.ValsOK {
			set = 0
		}
		cons = mkTMCons(now.Add(-time.Duration(k.AgeS)*time.Second), root, set)
	case "bsc", "eth":
		if k.RootOK {
			root = w.evmfx.root
		}
		if k.RootPad > 0 {
			root = append(bytes.Repeat([]byte{0xab}, k.RootPad), root...)
		}
		ts, hh := unixS(now)-k.AgeS, cs.GetLatestHeight().(clienttypes.Height)
		if k.Own && evmRoot != nil {
			ts, hh = evmTime, evmHeight
		}
		if kt == "bsc" {
			cons = &bsctypes.ConsensusState{Timestamp: ts, Height: hh, Root: root}
		} else {
			cons = &ethtypes.ConsensusState{Timestamp: ts, Height: hh, Root: root}
		}
	default:
		cons = &tsstypes.ConsensusState{}
	}
	return cs, cons
}

func (w *World) acctOfAddr(addr string) *acct {
	for _, a := range w.accts {
		if a.addr.String() == addr {
			return a
		}
	}
	return nil
}

// resolveHeader builds the header of an update step from the stored client state
func (w *World) resolveHeader(name string, u *USpec, signer *acct) (exported.Header, *JUHdr, *acct) {
	now := w.now()
	cur := w.stored(name)
	k := w.ch.App.XIBCKeeper.ClientKeeper
	mode := u.Mode
	mkTSS := func(i int) (exported.Header, *JUHdr) {
		a := w.accts[i%nAccts].addr.String()
		if mode == "badheader" { // Header.ValidateBasic: not an address
			a = "teleport1notanaddress"
		}
		h := &tsstypes.Header{TssAddress: a, Pubkey: []byte{byte(i), 7}, PartPubkeys: [][]byte{{byte(i), 8}, {byte(i), 9}}, Threshold: 2}
		return h, &JUHdr{T: "tss", Addr: hx([]byte(a)), Rest: hx(tssRest(h.Pubkey, h.PartPubkeys, h.Threshold))}
	}
	mkTM := func(chainID string, trusted clienttypes.Height, h uint64, ts time.Time, set int, hv bool) (exported.Header, *JUHdr) {
		hd := mkTMHeader(chainID, int64(h), trusted, ts, set, 0, w.tmfx.root)
		hh := jh(hd.GetHeight())
		tr := jh(trusted)
		cons := &tmclient.ConsensusState{Timestamp: hd.GetTime(), Root: hd.Header.GetAppHash(), NextValidatorsHash: hd.Header.NextValidatorsHash}
		return hd, &JUHdr{T: "tm", Trusted: &tr, H: &hh, Cons: w.absCons(cons), Hv: hv}
	}
	switch c := cur.(type) {
	case nil:
		h, j := mkTSS(u.NewAcct)
		return h, j, signer
	case *tsstypes.ClientState:
		if u.TSSAuto {
			if a := w.acctOfAddr(c.TssAddress); a != nil {
				signer = a
			}
		}
		if mode == "wrongtype" {
			h, j := mkTM("remote", clienttypes.NewHeight(0, 1), 2, now, 0, true)
			return h, j, signer
		}
		h, j := mkTSS(u.NewAcct)
		return h, j, signer
	case *tmclient.ClientState:
		if mode == "wrongtype" {
			h, j := mkTSS(u.NewAcct)
			return h, j, signer
		}
		trusted := c.LatestHeight
		step := u.K
		if step == 0 {
			step = 1
		}
		if mode == "notrusted" {
			trusted = clienttypes.NewHeight(trusted.RevisionNumber, trusted.RevisionHeight+5)
		}
		if mode == "past" { // a height skipped earlier: trusted = the earliest stored consensus state, header one block above it
			for _, e := range w.dumpStore(name) {
				if e.K == "cons" && e.H[0] == trusted.RevisionNumber && e.H[1] < trusted.RevisionHeight {
					trusted = clienttypes.NewHeight(e.H[0], e.H[1])
				}
			}
			step = 1
		}
		ts := now.Add(-time.Duration(u.DtS) * time.Second)
		hv := true
		set := 0
		if tc, found := k.GetClientConsensusState(w.ctx(), name, trusted); found {
			if t, ok := tc.(*tmclient.ConsensusState); ok {
				if !ts.After(t.Timestamp) {
					ts = t.Timestamp.Add(time.Second)
				}
				if !bytes.Equal(t.NextValidatorsHash, tmSets[0].vals.Hash()) {
					hv = false // the trusted validators of the header do not hash to the trusted consensus state's
				}
			}
		}
		if mode == "badsig" {
			set, hv = 1, false
		}
		if mode == "future" {
			ts = now.Add(time.Hour)
		}
		// light.Verify: the header time must be BEFORE block time + max clock drift
		if mode == "driftedge" {
			ts = now.Add(c.MaxClockDrift)
		}
		if mode == "driftok" {
			ts = now.Add(c.MaxClockDrift - time.Nanosecond)
		}
		h, j := mkTM(c.ChainId, trusted, trusted.RevisionHeight+step, ts, set, hv)
		if mode == "badheader" { // Header.ValidateBasic: validator set cannot be nil
			h.(*tmclient.Header).ValidatorSet = nil
		}
		return h, j, signer
	case *bsctypes.ClientState:
		if mode == "wrongtype" {
			h, j := mkTSS(u.NewAcct)
			return h, j, signer
		}
		parent := c.Header
		n := parent.Height.RevisionHeight + 1
		sorted := sortedAddrs(c.Validators)
		recents, _ := bsctypes.GetRecentSigners(k.ClientStore(w.ctx(), name))
		limit := uint64(len(sorted)/2 + 1)
		recently := func(a common.Address) bool {
			for _, r := range recents {
				if common.BytesToAddress(r.Validator) == a && (n < limit || r.Height.RevisionHeight > n-limit) {
					return true
				}
			}
			return false
		}
		var coinbase common.Address
		diff := uint64(2)
		if len(sorted) > 0 {
			inturn := sorted[(parent.Height.RevisionHeight+1)%uint64(len(sorted))]
			coinbase = inturn
			if recently(inturn) {
				for _, a := range sorted {
					if !recently(a) && keyOf(a) != nil {
						coinbase, diff = a, 1
						break
					}
				}
			}
		} else {
			coinbase = evmAddrs[0]
		}
		if mode == "recent" && len(sorted) > 0 { // a validator inside the window of recent signers (if there is one)
			for _, a := range sorted {
				if recently(a) && keyOf(a) != nil {
					coinbase, diff = a, 1
					if a == sorted[(parent.Height.RevisionHeight+1)%uint64(len(sorted))] {
						diff = 2
					}
					break
				}
			}
		}
		sealer := keyOf(coinbase)
		if sealer == nil {
			sealer = evmKeys[0]
		}
		switch mode {
		case "badseal":
			for i := range evmKeys {
				if evmAddrs[i] != coinbase {
					sealer = evmKeys[i]
					break
				}
			}
		case "unauthval":
			for i := range evmKeys {
				in := false
				for _, a := range sorted {
					if a == evmAddrs[i] {
						in = true
					}
				}
				if !in {
					coinbase, sealer = evmAddrs[i], evmKeys[i]
					break
				}
			}
		}
		ph := parent.Hash()
		parentHash := ph[:]
		if mode == "wrongparent" {
			parentHash = bytes.Repeat([]byte{0xee}, 32)
		}
		var vals []common.Address
		if c.Epoch != 0 && n%c.Epoch == 0 {
			if u.NewVals != nil {
				vals = pickAddrs(u.NewVals)
			} else {
				vals = sorted
			}
		}
		hv := true
		if mode == "baddiff" {
			diff = 3 - diff
			hv = false
		}
		hd := mkBSCHeader(parentHash, n, parent.Time+3, w.evmfx.root, coinbase, sealer, diff, vals, 0)
		if mode == "badheader" { // Header.ValidateBasic: bloom longer than 256 bytes
			hd.Bloom = make([]byte, 257)
			hv = false
		}
		return &hd, &JUHdr{T: "evm", ET: "bsc", Hdr: absBSCHdr(w, hd), Hv: hv}, signer
	case *ethtypes.ClientState:
		if mode == "wrongtype" {
			h, j := mkTSS(u.NewAcct)
			return h, j, signer
		}
		parent := c.Header
		ph := parent.Hash()
		parentHash := ph[:]
		if mode == "wrongparent" {
			parentHash = bytes.Repeat([]byte{0xee}, 32)
		}
		dt := u.DtS
		if dt == 0 {
			dt = 13
		}
		tm := parent.Time + dt
		if mode == "oldtime" {
			tm = parent.Time
		}
		if mode == "future" {
			tm = unixS(now) + 3600
		}
		hd := mkETHHeader(parentHash, parent.Height.RevisionHeight+1, tm, w.evmfx.root, byte(parent.Height.RevisionHeight+1))
		hd.Height = clienttypes.NewHeight(parent.Height.RevisionNumber, parent.Height.RevisionHeight+1) // children stay in their parent's revision
		if mode == "otherrev" { // the revision number is supplied by the relayer and not covered by the block hash (1e12297)
			hd.Height.RevisionNumber++
		}
		hv := tm <= unixS(now.Add(15*time.Second))
		if mode == "badheader" { // Header.ValidateBasic: bloom longer than 256 bytes
			hd.Bloom = make([]byte, 257)
			hv = false
		}
		return &hd, &JUHdr{T: "evm", ET: "eth", Hdr: absETHHdr(w, hd), Hv: hv}, signer
	}
	h, j := mkTSS(u.NewAcct)
	return h, j, signer
}

func (w *World) name(i int) string { return w.names[i%len(w.names)] }

// toExpiry: nanoseconds from now to (timestamp + trusting period + off units) of the latest / the earliest consensus
// state of the stored client (1 when there is no such state or the boundary is not ahead)
func (w *World) toExpiry(name string, which string, off int64) uint64 {
	cur := w.stored(name)
	if cur == nil {
		return 1
	}
	k := w.ch.App.XIBCKeeper.ClientKeeper
	h := cur.GetLatestHeight()
	if which == "first" {
		var first *JH
		for _, e := range w.dumpStore(name) {
			if e.K == "cons" && (first == nil || e.H[0] < first[0] || (e.H[0] == first[0] && e.H[1] < first[1])) {
				hh := *e.H
				first = &hh
			}
		}
		if first == nil {
			return 1
		}
		h = clienttypes.NewHeight(first[0], first[1])
	}
	cons, found := k.GetClientConsensusState(w.ctx(), name, h)
	if !found {
		return 1
	}
	now := w.now().UnixNano()
	var target int64
	switch c := cur.(type) {
	case *tmclient.ClientState:
		tc, ok := cons.(*tmclient.ConsensusState)
		if !ok {
			return 1
		}
		target = tc.Timestamp.UnixNano() + int64(c.TrustingPeriod) + off
	case *bsctypes.ClientState:
		target = (int64(cons.GetTimestamp()) + int64(c.TrustingPeriod) + off) * 1e9
	case *ethtypes.ClientState:
		target = (int64(cons.GetTimestamp()) + int64(c.TrustingPeriod) + off) * 1e9
	default:
		return 1
	}
	if target <= now {
		return 1
	}
	return uint64(target - now)
}

func (w *World) runStep(s Step) StepRes {
	switch s.Op {
	case "create", "upgrade", "toggle":
		name := w.name(s.Name)
		cs, cons := w.resolveClient(name, s.C, s.K)
		op := JOp{K: s.Op, Name: hx([]byte(name)), Cons: w.absCons(cons)}
		hlib.Catch(func() { op.Client = w.absClient(cs) })
		hlib.Catch(func() { op.Validate = cs.Validate() == nil })
		var content govtypes.Content
		var err error
		switch s.Op {
		case "create":
			content, err = clienttypes.NewCreateClientProposal("t", "d", name, cs, cons)
		case "upgrade":
			content, err = clienttypes.NewUpgradeClientProposal("t", "d", name, cs, cons)
		default:
			content, err = clienttypes.NewToggleClientProposal("t", "d", name, cs, cons)
		}
		must(err)
		var class int
		var stage, errs string
		if p, pv := hlib.Catch(func() { class, stage, errs = w.propose(content) }); p {
			class, stage, errs = 2, "validate-basic", pv // ValidateBasic itself panicked
		}
		if class == 0 {
			// the heights installed by proposals: a create / toggle starts afresh, an upgrade adds its height
			if s.Op == "upgrade" {
				w.installed[name] = append(w.installed[name], jh(cs.GetLatestHeight()))
			} else {
				w.installed[name] = []JH{jh(cs.GetLatestHeight())}
			}
			if t, ok := cs.(*tsstypes.ClientState); ok {
				w.tssProof[name] = hx([]byte(t.TssAddress))
			}
		}
		return StepRes{Op: op, Obs: w.observe(class, stage, errs)}
	case "register":
		addr := "not-a-bech32-address"
		if s.Acct >= 0 {
			addr = w.accts[s.Acct%nAccts].addr.String()
		}
		var chains, addrs []string
		for _, c := range s.Chains {
			chains = append(chains, w.name(c))
		}
		for i := 0; i < s.NAddr; i++ {
			addrs = append(addrs, "0x0000000000000000000000000000000000000001")
		}
		p := clienttypes.NewRegisterRelayerProposal("t", "d", addr, chains, addrs)
		_, aerr := sdk.AccAddressFromBech32(addr)
		op := JOp{K: "register", Addr: hx([]byte(addr)), Chains: []string{}, Wf: aerr == nil && len(addrs) != 0 && len(addrs) == len(chains)}
		for _, c := range chains {
			op.Chains = append(op.Chains, hx([]byte(c)))
		}
		class, stage, errs := w.propose(p)
		return StepRes{Op: op, Obs: w.observe(class, stage, errs)}
	case "update":
		name := w.name(s.Name)
		signer := w.accts[((s.Acct%nAccts)+nAccts)%nAccts]
		h, j, signer := w.resolveHeader(name, s.U, signer)
		msg, err := clienttypes.NewMsgUpdateClient(name, h, signer.addr)
		must(err)
		vb := false
		hlib.Catch(func() { vb = msg.ValidateBasic() == nil })
		op := JOp{K: "update", Name: hx([]byte(name)), Hdr: j, Signer: hx([]byte(signer.addr.String())), Vb: vb}
		class, stage, errs := w.deliver(signer, msg)
		if class == 0 {
			if t, ok := h.(*tsstypes.Header); ok {
				w.tssProof[name] = hx([]byte(t.TssAddress))
			}
		}
		return StepRes{Op: op, Obs: w.observe(class, stage, errs)}
	case "tickexp":
		dt := w.toExpiry(w.name(s.Name), s.Which, s.Off)
		w.tick(dt)
		return StepRes{Op: JOp{K: "tick", Dt: dt}, Obs: w.observe(0, "", "")}
	default: // tick
		dt := s.Dt
		if dt == 0 {
			dt = 1
		}
		w.tick(dt)
		return StepRes{Op: JOp{K: "tick", Dt: dt}, Obs: w.observe(0, "", "")}
	}
}

func runSpec(sp Spec) Result {
	t0 := time.Now()
	w := NewWorld(sp.Names)
	res := Result{Spec: sp, TMFx: hx(w.tmfx.root), EVMFx: hx(w.evmfx.root), Init: w.observe(0, "", ""), Steps: []StepRes{}}
	for _, s := range sp.Steps {
		res.Steps = append(res.Steps, w.runStep(s))
	}
	res.WallMs = time.Since(t0).Milliseconds()
	return res
}
