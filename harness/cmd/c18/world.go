package main

// The world of one case: a fresh teleport app (one TestChain), three funded accounts, the real client proposal
// handler run the way gov.EndBlocker runs it (cache context, written back only on success), MsgUpdateClient
// delivered as signed transactions through BaseApp (real ante handler, msg server, per-message atomicity), and
// the projections of the real state into the abstract values of Model/Lifecycle.v.

import (
	"bytes"
	"crypto/sha256"
	"errors"
	"fmt"
	"strconv"
	"strings"
	"testing"
	"time"

	"github.com/cosmos/cosmos-sdk/simapp/helpers"
	sdk "github.com/cosmos/cosmos-sdk/types"
	sdkerrors "github.com/cosmos/cosmos-sdk/types/errors"
	govtypes "github.com/cosmos/cosmos-sdk/x/gov/types"
	"github.com/ethereum/go-ethereum/common"
	abci "github.com/tendermint/tendermint/abci/types"
	tmproto "github.com/tendermint/tendermint/proto/tendermint/types"
	"github.com/tharsis/ethermint/crypto/ethsecp256k1"

	bsctypes "github.com/teleport-network/teleport/x/xibc/clients/light-clients/bsc/types"
	ethtypes "github.com/teleport-network/teleport/x/xibc/clients/light-clients/eth/types"
	tmclient "github.com/teleport-network/teleport/x/xibc/clients/light-clients/tendermint/types"
	tsstypes "github.com/teleport-network/teleport/x/xibc/clients/tss-client/types"
	xibcclient "github.com/teleport-network/teleport/x/xibc/core/client"
	clienttypes "github.com/teleport-network/teleport/x/xibc/core/client/types"
	commitmenttypes "github.com/teleport-network/teleport/x/xibc/core/commitment/types"
	"github.com/teleport-network/teleport/x/xibc/core/host"
	"github.com/teleport-network/teleport/x/xibc/exported"
	xibctesting "github.com/teleport-network/teleport/x/xibc/testing"

	"verifharness/hlib"
)

// ---------------------------------------------------------------------------------------------
// abstract values (JSON)

type JH [2]uint64 // revision number, revision height

type JHdr struct {
	H        JH        `json:"h"`
	Hash     string    `json:"hash"`
	Parent   string    `json:"parent"`
	Root     string    `json:"root"`
	Time     uint64    `json:"time"`
	Dg       string    `json:"dg"`
	Coinbase string    `json:"coinbase"`
	Signer   *string   `json:"signer"`
	Vals     *[]string `json:"vals"`
	ConsDg   string    `json:"cons_dg"`
}

type JClient struct {
	T          string   `json:"t"`
	Latest     *JH      `json:"latest,omitempty"`
	Trusting   uint64   `json:"trusting"`
	Drift      uint64   `json:"drift"`
	Delay      uint64   `json:"delay"`
	Hdr        *JHdr    `json:"hdr,omitempty"`
	Epoch      uint64   `json:"epoch"`
	Vals       []string `json:"vals"`
	BlockDelay uint64   `json:"block_delay"`
	Addr       string   `json:"addr"`
	Rest       string   `json:"rest"`
}

type JCons struct {
	T    string `json:"t"`
	Ts   uint64 `json:"ts"`
	Root string `json:"root"`
	Dg   string `json:"dg"`
}

type JEntry struct {
	Key    string   `json:"key"` // raw key of the client prefix store
	K      string   `json:"k"`   // client cons ptime iter signer pending hidx rootmain other
	H      *JH      `json:"h,omitempty"`
	Hash   string   `json:"hash,omitempty"`
	N      uint64   `json:"n"`
	Client *JClient `json:"client,omitempty"`
	Cons   *JCons   `json:"cons,omitempty"`
	Time   uint64   `json:"time"`
	Ref    *JH      `json:"ref,omitempty"`
	Addr   string   `json:"addr,omitempty"`
	Vals   []string `json:"vals,omitempty"`
	Hdr    *JHdr    `json:"hdr,omitempty"`
	RHash  string   `json:"rhash,omitempty"`
	RN     uint64   `json:"rn"`
	Raw    string   `json:"raw,omitempty"` // undecodable value
}

type JUHdr struct {
	T       string `json:"t"` // tm evm tss
	Trusted *JH    `json:"trusted,omitempty"`
	H       *JH    `json:"h,omitempty"`
	Cons    *JCons `json:"cons,omitempty"`
	Hv      bool   `json:"hv"`
	ET      string `json:"et,omitempty"` // bsc eth
	Hdr     *JHdr  `json:"hdr,omitempty"`
	Addr    string `json:"addr,omitempty"`
	Rest    string `json:"rest,omitempty"`
}

// JOp: the operation as the model sees it (constructor of Lifecycle.op)
type JOp struct {
	K        string   `json:"k"` // create upgrade toggle register update tick
	Name     string   `json:"name,omitempty"`
	Client   *JClient `json:"client,omitempty"`
	Cons     *JCons   `json:"cons,omitempty"`
	Validate bool     `json:"validate"`
	Addr     string   `json:"addr,omitempty"`
	Chains   []string `json:"chains,omitempty"`
	Wf       bool     `json:"wf"`
	Hdr      *JUHdr   `json:"hdr,omitempty"`
	Signer   string   `json:"signer,omitempty"`
	Vb       bool     `json:"vb"`
	Dt       uint64   `json:"dt"`
}

type JStore struct {
	Name    string   `json:"name"`
	Entries []JEntry `json:"entries"`
}

type JRelayer struct {
	Addr   string   `json:"addr"`
	Chains []string `json:"chains"`
}

type JGate struct {
	H   JH  `json:"h"`
	Cls int `json:"cls"`
}

type JProbe struct {
	Name     string  `json:"name"`
	Status   int     `json:"status"` // 0 Active 1 Expired 2 Unknown 9 other
	TssProof string  `json:"tss_proof"`
	Gates    []JGate `json:"gates"`
}

type Obs struct {
	Class    int        `json:"class"` // 0 ok, 1 error, 2 panic
	Stage    string     `json:"stage"` // where it was rejected (diagnostics only)
	Err      string     `json:"err,omitempty"`
	Now      uint64     `json:"now"`
	Stores   []JStore   `json:"stores"`
	Relayers []JRelayer `json:"relayers"`
	RestHash string     `json:"rest_hash"`
	Probes   []JProbe   `json:"probes"`
}

func hx(b []byte) string { return hlib.Hex(b) }

func sha(b []byte) string { d := sha256.Sum256(b); return hx(d[:]) }

// ---------------------------------------------------------------------------------------------

type acct struct {
	priv *ethsecp256k1.PrivKey
	addr sdk.AccAddress
}

type World struct {
	coord *xibctesting.Coordinator
	ch    *xibctesting.TestChain
	accts []*acct
	gov   govtypes.Handler
	names []string
	tmfx  *tmFixture
	evmfx *evmFixture
	// installed heights per name (the height of the last successful create / upgrade / toggle)
	installed map[string][]JH
	tssProof  map[string]string // the TSS address of the last successful TSS proposal / update per name
}

const nAccts = 3

func must(err error) {
	if err != nil {
		panic(err)
	}
}

var (
	gTMFx  *tmFixture
	gEVMFx *evmFixture
)

func NewWorld(names []string) *World {
	w := &World{names: names, installed: map[string][]JH{}, tssProof: map[string]string{}}
	t := &testing.T{}
	w.coord = xibctesting.NewCoordinator(t, 1)
	w.ch = w.coord.GetChain(xibctesting.GetChainID(0))
	if t.Failed() {
		panic("harness: chain set-up failed")
	}
	if gTMFx == nil {
		gTMFx = makeTMFixture(w.ch.App.AppCodec())
		gEVMFx = makeEVMFixture()
	}
	w.tmfx, w.evmfx = gTMFx, gEVMFx
	w.accts = append(w.accts, &acct{priv: w.ch.SenderPrivKey.(*ethsecp256k1.PrivKey), addr: w.ch.SenderAcc})
	for i := 1; i < nAccts; i++ {
		k := sha256.Sum256([]byte(fmt.Sprintf("c18-account-%d", i)))
		p := &ethsecp256k1.PrivKey{Key: k[:]}
		ad := sdk.AccAddress(p.PubKey().Address().Bytes())
		w.accts = append(w.accts, &acct{priv: p, addr: ad})
		must(w.ch.App.BankKeeper.SendCoins(w.ch.GetContext(), w.ch.SenderAcc, ad, sdk.NewCoins(sdk.NewInt64Coin(sdk.DefaultBondDenom, 1000000))))
	}
	w.gov = xibcclient.NewClientProposalHandler(w.ch.App.XIBCKeeper.ClientKeeper)
	w.tick(1) // commit the funding, open a new block
	return w
}

func (w *World) ctx() sdk.Context { return w.ch.GetContext() }

func (w *World) now() time.Time { return w.ch.CurrentHeader.Time }

// tick: EndBlock, Commit, BeginBlock of the next block dtNs later (BeginBlock exactly once per block)
func (w *World) tick(dtNs uint64) {
	tc := w.ch
	tc.App.EndBlock(abci.RequestEndBlock{Height: tc.CurrentHeader.Height})
	tc.App.Commit()
	nt := tc.CurrentHeader.Time.Add(time.Duration(dtNs)).UTC()
	w.coord.CurrentTime = nt
	tc.CurrentHeader = tmproto.Header{
		ChainID: tc.ChainID, Height: tc.App.LastBlockHeight() + 1, AppHash: tc.App.LastCommitID().Hash, Time: nt,
		ValidatorsHash: tc.Vals.Hash(), NextValidatorsHash: tc.Vals.Hash(), ProposerAddress: tc.Vals.Proposer.Address,
	}
	tc.App.BeginBlock(abci.RequestBeginBlock{Header: tc.CurrentHeader})
}

func short(s string) string {
	if len(s) > 180 {
		return s[:180]
	}
	return s
}

// propose: what the governance module does with a proposal: ValidateBasic when it is submitted, and when it has
// passed, the handler on a cache context whose writes are kept only if the handler returns nil (gov EndBlocker;
// no recover there: a panic is recorded as class 2).
func (w *World) propose(content govtypes.Content) (class int, stage, errs string) {
	if err := content.ValidateBasic(); err != nil {
		return 1, "validate-basic", short(err.Error())
	}
	cctx, write := w.ctx().CacheContext()
	var err error
	panicked, pv := hlib.Catch(func() { err = w.gov(cctx, content) })
	if panicked {
		return 2, "handler", pv
	}
	if err != nil {
		return 1, "handler", short(err.Error())
	}
	write()
	return 0, "", ""
}

// deliver: a signed transaction through BaseApp.Deliver (runTx in deliver mode) in the open block
func (w *World) deliver(a *acct, msgs ...sdk.Msg) (class int, stage, errs string) {
	tc := w.ch
	acc := tc.App.AccountKeeper.GetAccount(w.ctx(), a.addr)
	if acc == nil {
		return 1, "harness-no-account", ""
	}
	tx, err := helpers.GenTx(tc.TxConfig, msgs, sdk.Coins{sdk.NewInt64Coin(sdk.DefaultBondDenom, 0)}, helpers.DefaultGenTxGas*4,
		tc.ChainID, []uint64{acc.GetAccountNumber()}, []uint64{acc.GetSequence()}, a.priv)
	must(err)
	_, _, err = tc.App.BaseApp.Deliver(tc.TxConfig.TxEncoder(), tx)
	if err == nil {
		return 0, "", ""
	}
	if errors.Is(err, sdkerrors.ErrPanic) {
		return 2, "deliver", short(err.Error())
	}
	return 1, "deliver", short(err.Error())
}

// ---------------------------------------------------------------------------------------------
// projections

func jh(h exported.Height) JH { return JH{h.GetRevisionNumber(), h.GetRevisionHeight()} }

func (w *World) cdcMarshalCons(cs exported.ConsensusState) []byte {
	bz, err := clienttypes.MarshalConsensusState(w.ch.App.AppCodec(), cs)
	must(err)
	return bz
}

func absBSCHdr(w *World, h bsctypes.Header) *JHdr {
	bz, err := h.Marshal()
	must(err)
	out := &JHdr{H: jh(h.Height), Parent: hx(common.BytesToHash(h.ParentHash).Bytes()), Root: hx(h.Root), Time: h.Time, Dg: sha(bz),
		Coinbase: hx(common.BytesToAddress(h.Coinbase).Bytes())}
	hlib.Catch(func() { hh := h.Hash(); out.Hash = hx(hh[:]) })
	hlib.Catch(func() {
		if a, err := bsctypes.VerifEcrecover(h, bigChain()); err == nil {
			s := hx(a[:])
			out.Signer = &s
		}
	})
	hlib.Catch(func() {
		if vs, err := bsctypes.ParseValidators(h.Extra); err == nil {
			l := []string{}
			for _, v := range vs {
				l = append(l, hx(v))
			}
			out.Vals = &l
		}
	})
	out.ConsDg = sha(w.cdcMarshalCons(&bsctypes.ConsensusState{Timestamp: h.Time, Height: h.Height, Root: h.Root}))
	return out
}

func absETHHdr(w *World, h ethtypes.Header) *JHdr {
	bz, err := h.Marshal()
	must(err)
	out := &JHdr{H: jh(h.Height), Parent: hx(common.BytesToHash(h.ParentHash).Bytes()), Root: hx(h.Root), Time: h.Time, Dg: sha(bz),
		Coinbase: hx(common.BytesToAddress(h.Coinbase).Bytes())}
	hlib.Catch(func() { hh := h.Hash(); out.Hash = hx(hh[:]) })
	out.ConsDg = sha(w.cdcMarshalCons(&ethtypes.ConsensusState{Timestamp: h.Time, Height: h.Height, Root: h.Root}))
	return out
}

func hexList(l [][]byte) []string {
	out := []string{}
	for _, v := range l {
		out = append(out, hx(v))
	}
	return out
}

func (w *World) absClient(cs exported.ClientState) *JClient {
	switch c := cs.(type) {
	case *tmclient.ClientState:
		cp := *c
		cp.LatestHeight = clienttypes.Height{}
		bz, err := cp.Marshal()
		must(err)
		l := jh(c.LatestHeight)
		return &JClient{T: "tm", Latest: &l, Trusting: uint64(c.TrustingPeriod), Drift: uint64(c.MaxClockDrift), Delay: c.TimeDelay, Rest: sha(bz), Vals: []string{}}
	case *bsctypes.ClientState:
		cp := *c
		cp.Header = bsctypes.Header{}
		cp.Validators = nil
		bz, err := cp.Marshal()
		must(err)
		return &JClient{T: "bsc", Hdr: absBSCHdr(w, c.Header), Epoch: c.Epoch, Vals: hexList(c.Validators), Trusting: c.TrustingPeriod, Rest: sha(bz)}
	case *ethtypes.ClientState:
		cp := *c
		cp.Header = ethtypes.Header{}
		bz, err := cp.Marshal()
		must(err)
		return &JClient{T: "eth", Hdr: absETHHdr(w, c.Header), BlockDelay: c.BlockDelay, Trusting: c.TrustingPeriod, Rest: sha(bz), Vals: []string{}}
	case *tsstypes.ClientState:
		return &JClient{T: "tss", Addr: hx([]byte(c.TssAddress)), Rest: hx(tssRest(c.Pubkey, c.PartPubkeys, c.Threshold)), Vals: []string{}}
	}
	panic(fmt.Sprintf("unknown client state type %T", cs))
}

func (w *World) absCons(cs exported.ConsensusState) *JCons {
	dg := sha(w.cdcMarshalCons(cs))
	switch c := cs.(type) {
	case *tmclient.ConsensusState:
		return &JCons{T: "tm", Ts: uint64(c.Timestamp.UnixNano()), Root: hx(c.Root), Dg: dg}
	case *bsctypes.ConsensusState:
		return &JCons{T: "bsc", Ts: c.Timestamp, Root: hx(c.Root), Dg: dg}
	case *ethtypes.ConsensusState:
		return &JCons{T: "eth", Ts: c.Timestamp, Root: hx(c.Root), Dg: dg}
	case *tsstypes.ConsensusState:
		return &JCons{T: "tss", Dg: dg}
	}
	panic(fmt.Sprintf("unknown consensus state type %T", cs))
}

func parseDecTail(s string, hexLen int) (string, uint64, bool) {
	// "0x" + hexLen hex digits + decimal
	if len(s) < 2+hexLen+1 || s[:2] != "0x" {
		return "", 0, false
	}
	n, err := strconv.ParseUint(s[2+hexLen:], 10, 64)
	if err != nil {
		return "", 0, false
	}
	return s[2 : 2+hexLen], n, true
}

func beHeight(b []byte) JH {
	return JH{sdk.BigEndianToUint64(b[:8]), sdk.BigEndianToUint64(b[8:16])}
}

// dumpStore: every entry of the client prefix store in iterator order, decoded
func (w *World) dumpStore(name string) []JEntry {
	k := w.ch.App.XIBCKeeper.ClientKeeper
	cdc := w.ch.App.AppCodec()
	st := k.ClientStore(w.ctx(), name)
	it := st.Iterator(nil, nil)
	defer it.Close()
	out := []JEntry{}
	for ; it.Valid(); it.Next() {
		key, val := it.Key(), it.Value()
		e := JEntry{Key: hx(key), K: "other", Raw: hx(val)}
		ks := string(key)
		consPrefix := host.KeyConsensusStatePrefix + "/"
		switch {
		case ks == host.KeyClientState:
			if cs, err := clienttypes.UnmarshalClientState(cdc, val); err == nil {
				e.K, e.Client, e.Raw = "client", w.absClient(cs), ""
			}
		case strings.HasPrefix(ks, consPrefix) && len(key) == len(consPrefix)+16:
			if cs, err := clienttypes.UnmarshalConsensusState(cdc, val); err == nil {
				h := beHeight(key[len(consPrefix):])
				e.K, e.H, e.Cons, e.Raw = "cons", &h, w.absCons(cs), ""
			}
		case strings.HasPrefix(ks, consPrefix) && len(key) == len(consPrefix)+16+len(tmclient.KeyProcessedTime) && bytes.HasSuffix(key, tmclient.KeyProcessedTime) && len(val) == 8:
			h := beHeight(key[len(consPrefix):])
			e.K, e.H, e.Time, e.Raw = "ptime", &h, sdk.BigEndianToUint64(val), ""
		case strings.HasPrefix(ks, tmclient.KeyIterateConsensusStatePrefix) && len(key) == len(tmclient.KeyIterateConsensusStatePrefix)+16:
			h := beHeight(key[len(tmclient.KeyIterateConsensusStatePrefix):])
			if len(val) == len(consPrefix)+16 && strings.HasPrefix(string(val), consPrefix) {
				r := beHeight(val[len(consPrefix):])
				e.K, e.H, e.Ref, e.Raw = "iter", &h, &r, ""
			}
		case strings.HasPrefix(ks, bsctypes.PrefixKeyRecentSingers+"/"):
			if h, err := clienttypes.ParseHeight(ks[len(bsctypes.PrefixKeyRecentSingers)+1:]); err == nil {
				hh := jh(h)
				e.K, e.H, e.Addr, e.Raw = "signer", &hh, hx(val), ""
			}
		case ks == bsctypes.PrefixPendingValidators:
			var vs bsctypes.ValidatorSet
			if err := cdc.Unmarshal(val, &vs); err == nil {
				e.K, e.Vals, e.Raw = "pending", hexList(vs.Validators), ""
			}
		case strings.HasPrefix(ks, ethtypes.KeyIndexEthHeaderPrefix+"/"):
			if hs, n, ok := parseDecTail(ks[len(ethtypes.KeyIndexEthHeaderPrefix)+1:], 64); ok {
				var hi exported.Header
				if err := cdc.UnmarshalInterface(val, &hi); err == nil {
					if eh, ok := hi.(*ethtypes.Header); ok {
						e.K, e.Hash, e.N, e.Hdr, e.Raw = "hidx", hs, n, absETHHdr(w, *eh), ""
					}
				}
			}
		case strings.HasPrefix(ks, ethtypes.KeyMainRootPrefix+"/"):
			if hs, n, ok := parseDecTail(ks[len(ethtypes.KeyMainRootPrefix)+1:], 64); ok {
				vs := string(val)
				if strings.HasPrefix(vs, ethtypes.KeyIndexEthHeaderPrefix+"/") {
					if rh, rn, ok := parseDecTail(vs[len(ethtypes.KeyIndexEthHeaderPrefix)+1:], 64); ok {
						e.K, e.Hash, e.N, e.RHash, e.RN, e.Raw = "rootmain", hs, n, rh, rn, ""
					}
				}
			}
		}
		out = append(out, e)
	}
	return out
}

func (w *World) dumpRelayers() []JRelayer {
	out := []JRelayer{}
	for _, ir := range w.ch.App.XIBCKeeper.ClientKeeper.GetAllRelayers(w.ctx()) {
		cs := []string{}
		for _, c := range ir.Chains {
			cs = append(cs, hx([]byte(c)))
		}
		out = append(out, JRelayer{Addr: hx([]byte(ir.Address)), Chains: cs})
	}
	return out
}

// restHash: digest of every entry of the xibc store that is neither in the client store of one of the case's
// names nor in the relayer registry (nothing of it may ever change in a lifecycle step)
func (w *World) restHash() string {
	st := w.ctx().KVStore(w.ch.App.GetKey(host.StoreKey))
	it := st.Iterator(nil, nil)
	defer it.Close()
	h := sha256.New()
	var skip [][]byte
	for _, n := range w.names {
		if host.ClientIdentifierValidator(n) == nil {
			skip = append(skip, []byte(fmt.Sprintf("%s/%s/", host.KeyClientStorePrefix, n)))
		}
	}
	skip = append(skip, []byte(clienttypes.KeyRelayers))
outer:
	for ; it.Valid(); it.Next() {
		for _, p := range skip {
			if bytes.HasPrefix(it.Key(), p) {
				continue outer
			}
		}
		fmt.Fprintf(h, "%d:%x=%d:%x;", len(it.Key()), it.Key(), len(it.Value()), it.Value())
	}
	return hx(h.Sum(nil))
}

func statusCode(s exported.Status) int {
	switch s {
	case exported.Active:
		return 0
	case exported.Expired:
		return 1
	case exported.Unknown:
		return 2
	}
	return 9
}

// gateClass: VerifyPacketCommitment with the honest proof of the client's type at height h
func (w *World) gateClass(name string, cs exported.ClientState, h JH) int {
	k := w.ch.App.XIBCKeeper.ClientKeeper
	var proof []byte
	switch cs.ClientType() {
	case exported.Tendermint:
		proof = w.tmfx.proof
	case exported.TSS:
		proof = hlib.UnHex(w.tssProof[name])
	default:
		proof = w.evmfx.proof
	}
	var err error
	panicked, _ := hlib.Catch(func() {
		err = cs.VerifyPacketCommitment(w.ctx(), k.ClientStore(w.ctx(), name), w.ch.App.AppCodec(), clienttypes.NewHeight(h[0], h[1]),
			proof, fxSrc, fxDst, fxSeq, fxCommit)
	})
	switch {
	case panicked:
		return 8
	case err == nil:
		return 0
	case errors.Is(err, tmclient.ErrProcessedTimeNotFound):
		return 4
	case errors.Is(err, tmclient.ErrDelayPeriodNotPassed):
		return 5
	case errors.Is(err, sdkerrors.ErrInvalidHeight):
		return 1
	case errors.Is(err, clienttypes.ErrConsensusStateNotFound), errors.Is(err, clienttypes.ErrInvalidConsensus):
		return 3
	case errors.Is(err, sdkerrors.ErrInvalidAddress):
		return 7
	}
	_ = commitmenttypes.ErrInvalidProof
	return 6
}

func (w *World) probes() []JProbe {
	k := w.ch.App.XIBCKeeper.ClientKeeper
	out := []JProbe{}
	for _, n := range w.names {
		var cs exported.ClientState
		var found bool
		if p, _ := hlib.Catch(func() { cs, found = k.GetClientState(w.ctx(), n) }); p || !found {
			continue
		}
		pr := JProbe{Name: hx([]byte(n)), TssProof: w.tssProof[n], Gates: []JGate{}}
		var st exported.Status
		if p, _ := hlib.Catch(func() { st = cs.Status(w.ctx(), k.ClientStore(w.ctx(), n), w.ch.App.AppCodec()) }); p {
			pr.Status = 8
		} else {
			pr.Status = statusCode(st)
		}
		hs := []JH{jh(cs.GetLatestHeight())}
		for _, ih := range w.installed[n] {
			dup := false
			for _, y := range hs {
				dup = dup || ih == y
			}
			if !dup {
				hs = append(hs, ih)
			}
		}
		if cs.ClientType() != exported.TSS {
			// one block below and one above the latest height: usually no consensus state / above the head
			for _, x := range []JH{{hs[0][0], hs[0][1] - 1}, {hs[0][0], hs[0][1] + 1}} {
				dup := hs[0][1] == 0 || x[1] == 0
				for _, y := range hs {
					dup = dup || x == y
				}
				if !dup {
					hs = append(hs, x)
				}
			}
		}
		for _, h := range hs {
			pr.Gates = append(pr.Gates, JGate{H: h, Cls: w.gateClass(n, cs, h)})
		}
		out = append(out, pr)
	}
	return out
}

func (w *World) observe(class int, stage, errs string) Obs {
	o := Obs{Class: class, Stage: stage, Err: errs, Now: uint64(w.now().UnixNano()), Stores: []JStore{}, Relayers: w.dumpRelayers(), RestHash: w.restHash()}
	for _, n := range w.names {
		if host.ClientIdentifierValidator(n) != nil {
			continue // not a usable store prefix; whatever happens under it is covered by restHash
		}
		o.Stores = append(o.Stores, JStore{Name: hx([]byte(n)), Entries: w.dumpStore(n)})
	}
	o.Probes = w.probes()
	return o
}
