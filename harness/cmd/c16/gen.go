package main

import (
	"encoding/json"
	"fmt"
	"math/big"
	"strings"

	authtypes "github.com/cosmos/cosmos-sdk/x/auth/types"

	"verifharness/hlib"
)

// Generator: mostly-valid ICS-20 packets over generated registry states, plus targeted boundary streams
// (receivers, amounts, returning native coins, malformed data, other channels).  One splitmix PRNG per case.

var baseDenoms = []string{"uatom", "uosmo", "stake", "transfer/channel-3/uxyz", "gamm/pool/1", "uatom", "transfer/channel-12/transfer/channel-3/uabc"}

func pow2(k uint) *big.Int { return new(big.Int).Lsh(big.NewInt(1), k) }

func genValidAmount(r *hlib.Rand) string {
	switch r.Intn(10) {
	case 0:
		return "1"
	case 1:
		return fmt.Sprint(1 + r.Intn(9))
	case 2:
		return pow2(uint(64 + r.Intn(100))).String()
	case 3:
		return "1000000000000000000"
	default:
		return fmt.Sprint(1 + r.Intn(100000))
	}
}

func hexs(b []byte) string { return "@" + hlib.Hex(b) }

func normalReceiver(r *hlib.Rand) string {
	b := r.Bytes(20)
	b[0] |= 1
	return hexs(b)
}

func genRegistry(r *hlib.Rand, s *Spec) {
	switch x := r.Intn(100); {
	case x < 22:
		s.Reg = "none"
	case x < 62:
		s.Reg = "coin"
	case x < 84:
		s.Reg = "ext"
	case x < 92:
		s.Reg = "suicided"
	default:
		s.Reg = "dangling"
	}
	s.PairDisabled = r.Chance(12, 100)
	s.AggDisabled = r.Chance(8, 100)
	s.SendDisabled = r.Chance(10, 100)
	s.RecvDisabled = r.Chance(3, 100)
	switch r.Intn(4) {
	case 0:
		s.PreVoucher = "0"
	case 1:
		s.PreVoucher = fmt.Sprint(1 + r.Intn(50))
	default:
		s.PreVoucher = fmt.Sprint(r.Intn(1000000))
	}
	if r.Chance(1, 2) {
		s.PreEscrow = fmt.Sprint(r.Intn(5000))
	} else {
		s.PreEscrow = "0"
	}
}

func setModuleTokens(r *hlib.Rand, s *Spec) {
	a, ok := new(big.Int).SetString(s.Amount, 0)
	if !ok || a.Sign() <= 0 || a.BitLen() > 250 {
		s.ModuleTokens = fmt.Sprint(r.Intn(1000))
		return
	}
	switch r.Intn(5) {
	case 0:
		s.ModuleTokens = "0"
	case 1:
		s.ModuleTokens = new(big.Int).Sub(a, big.NewInt(1)).String() // one short
	case 2:
		s.ModuleTokens = a.String() // exactly enough
	default:
		s.ModuleTokens = new(big.Int).Add(a, big.NewInt(int64(r.Intn(1000)))).String()
	}
}

const defaultSender = "cosmos1pfaqzykhuzugsmvytq0kpnx40qlrzq3nyt2kg3"

// directed: the corpus that runs first on EVERY run, whatever the seed — one case per return path of the hook and of the
// transfer application, per conversion outcome, and per past failure (D3, receiver-not-20-bytes, the rollback cases that a
// conversion on the parent context / a write() before the error test / a missing cache context need, a failed conversion
// that must keep the success acknowledgement, a failed transfer that must not reach the hook), followed by three short
// HISTORIES of packets committed one after the other through ibc-go's core handler.
func directed() []Spec {
	rcvA := hexs([]byte("verif-c16-rcv-aaaaaa"))
	rcvB := hexs([]byte("verif-c16-rcv-bbbbbb"))
	rcv32 := hexs([]byte("verif-c16-interchain-account-32b"))
	var out []Spec
	add := func(tag string, f func(s *Spec)) {
		s := Spec{Reg: "coin", ModuleTokens: "0", PreVoucher: "0", PreEscrow: "0", ChanEscrow: "0", Denom: "uatom", Amount: "100",
			Sender: defaultSender, Receiver: rcvA, DstChan: dstChan, SrcChan: srcChan, Tag: "directed-" + tag}
		f(&s)
		s.ID = len(out)
		s.Seq = uint64(s.ID + 1)
		out = append(out, s)
	}
	raw := func(b string) *string { h := hlib.Hex([]byte(b)); return &h }
	// conversions
	add("convert-module-owned", func(s *Spec) {})
	add("convert-module-owned-prior-funds", func(s *Spec) { s.PreVoucher, s.PreEscrow, s.Denom = "7", "11", "transfer/channel-3/uxyz" })
	add("convert-external-exact", func(s *Spec) { s.Reg, s.ModuleTokens = "ext", "100" })
	add("convert-external-plenty", func(s *Spec) { s.Reg, s.ModuleTokens, s.PreVoucher = "ext", "5000", "3" })
	add("convert-big-amount", func(s *Spec) { s.Amount = pow2(200).String() })
	// conversions that fail AFTER the escrow step: only the cache context undoes the escrow
	add("rollback-external-one-short", func(s *Spec) { s.Reg, s.ModuleTokens = "ext", "99" })
	add("rollback-external-empty", func(s *Spec) { s.Reg, s.ModuleTokens, s.PreVoucher = "ext", "0", "40" })
	add("rollback-mint-to-zero-address", func(s *Spec) { s.Receiver = hexs(make([]byte, 20)) })
	// conversions that fail BEFORE the escrow step: the success acknowledgement must survive
	add("fail-pair-disabled", func(s *Spec) { s.PairDisabled = true })
	add("fail-module-disabled", func(s *Spec) { s.AggDisabled = true })
	add("fail-pair-disabled-external", func(s *Spec) { s.Reg, s.ModuleTokens, s.PairDisabled = "ext", "500", true })
	add("send-disabled-own-account", func(s *Spec) { s.SendDisabled = true }) // sender == receiver: the switch does not apply
	// registry states
	add("unregistered", func(s *Spec) { s.Reg = "none" })
	add("dangling-index", func(s *Spec) { s.Reg = "dangling" })
	add("selfdestructed-pair", func(s *Spec) { s.Reg = "suicided" })
	add("selfdestructed-pair-disabled", func(s *Spec) { s.Reg, s.PairDisabled = "suicided", true })
	// receivers that are not EVM addresses
	add("receiver-32-bytes", func(s *Spec) { s.Receiver = rcv32 })
	add("receiver-32-bytes-external", func(s *Spec) { s.Reg, s.ModuleTokens, s.Receiver = "ext", "100", rcv32 })
	add("receiver-5-bytes", func(s *Spec) { s.Receiver = hexs([]byte("short")) })
	add("receiver-21-bytes", func(s *Spec) { s.Receiver = hexs([]byte("verif-c16-rcv-21-byte")) })
	add("receiver-blocked-aggregate-module", func(s *Spec) { s.Receiver = hexs(authtypes.NewModuleAddress("aggregate")) })
	add("receiver-blocked-transfer-module", func(s *Spec) { s.Receiver = hexs(authtypes.NewModuleAddress("transfer")) })
	add("receiver-bad-bech32", func(s *Spec) { s.Receiver = "not-a-bech32-address" })
	add("receiver-blank", func(s *Spec) { s.Receiver = " " })
	// failed transfers over a state in which a conversion WOULD succeed: the hook must not run
	add("failed-transfer-receive-disabled", func(s *Spec) { s.RecvDisabled, s.PreVoucher = true, "250" })
	add("failed-transfer-unescrow-short", func(s *Spec) {
		s.Denom, s.ChanEscrow, s.PreVoucher = "transfer/"+srcChan+"/atele", "99", "250"
	})
	add("failed-transfer-blank-sender", func(s *Spec) { s.Sender, s.PreVoucher = " ", "250" })
	// amounts
	add("amount-zero", func(s *Spec) { s.Amount, s.PreVoucher = "0", "5" })
	add("amount-negative", func(s *Spec) { s.Amount, s.PreVoucher = "-5", "50" }) // direct hook: sdk.NewCoin panics
	add("amount-non-numeric", func(s *Spec) { s.Amount = "12a" })
	add("amount-hex-prefix", func(s *Spec) { s.Amount, s.PreVoucher = "0x10", "3" })
	add("amount-2^256", func(s *Spec) { s.Amount = pow2(256).String() })
	add("amount-2^256-1", func(s *Spec) { s.Amount = new(big.Int).Sub(pow2(256), big.NewInt(1)).String() })
	// undecodable data (direct hook: decode-error return)
	add("data-empty", func(s *Spec) { s.Raw = raw("") })
	add("data-null", func(s *Spec) { s.Raw = raw("null") })
	add("data-truncated", func(s *Spec) { s.Raw = raw(`{"amount":"100","denom":"uatom","rec`) })
	add("data-missing-fields", func(s *Spec) { s.Raw = raw(`{"denom":"uatom","amount":"5"}`) })
	// returning tokens
	add("returning-native", func(s *Spec) { s.Denom, s.ChanEscrow, s.Reg = "transfer/"+srcChan+"/atele", "100", "none" })
	add("returning-voucher", func(s *Spec) {
		s.Denom, s.ChanEscrow, s.Reg = "transfer/"+srcChan+"/transfer/channel-3/uxyz", "150", "none"
	})
	add("returning-hook-denom-registered", func(s *Spec) { s.Denom, s.ChanEscrow, s.PreVoucher = "transfer/"+srcChan+"/atele", "100", "100" })
	add("returning-short-base", func(s *Spec) { s.Denom, s.ChanEscrow = "transfer/"+srcChan+"/u", "0" }) // sdk.NewCoin panics inside ibc-go
	// denominations / channels
	add("denom-prefixed-with-dest", func(s *Spec) { s.Denom = "transfer/channel-0/uatom" })
	add("denom-invalid", func(s *Spec) { s.Denom = "transfer//x" })
	// a registered look-alike denomination (voucher of the same base denomination over the COUNTERPARTY's channel identifier)
	// held by the receiver: must not be touched, whether or not the packet's own voucher is registered
	add("decoy-source-channel-denom", func(s *Spec) { s.Decoy = true })
	add("decoy-source-channel-denom-unregistered", func(s *Spec) { s.Decoy, s.Reg = true, "none" })
	add("other-dest-channel", func(s *Spec) { s.DstChan = "channel-1" })
	add("other-source-channel", func(s *Spec) { s.SrcChan = "channel-9" })
	// history 1 (module-owned pair): convert, convert again, pair disabled -> vouchers stay, re-enabled -> convert
	add("history-coin-1", func(s *Spec) { s.Receiver = rcvB })
	add("history-coin-2", func(s *Spec) { s.Receiver, s.Chain, s.Reg, s.Amount = rcvB, true, "keep", "40" })
	add("history-coin-3-disabled", func(s *Spec) { s.Receiver, s.Chain, s.Reg, s.PairDisabled = rcvB, true, "keep", true })
	add("history-coin-4-reenabled", func(s *Spec) { s.Receiver, s.Chain, s.Reg, s.Amount = rcvB, true, "keep", "60" }) // converts 60 of the 160
	// history 2 (external pair, module holds 150): convert 100, then 100 more cannot be released -> rolled back, then 50 can
	add("history-ext-1", func(s *Spec) { s.Receiver, s.Reg, s.ModuleTokens, s.Denom = rcvB, "ext", "150", "uosmo" })
	add("history-ext-2-short", func(s *Spec) { s.Receiver, s.Chain, s.Reg, s.Denom = rcvB, true, "keep", "uosmo" })
	add("history-ext-3", func(s *Spec) { s.Receiver, s.Chain, s.Reg, s.Denom, s.Amount = rcvB, true, "keep", "uosmo", "50" })
	// history 3: a failed packet in between changes nothing; the contract self-destructs... (registry survives a failed receive)
	add("history-mixed-1", func(s *Spec) { s.Receiver, s.Denom = rcvB, "stake" })
	add("history-mixed-2-bad-amount", func(s *Spec) { s.Receiver, s.Chain, s.Reg, s.Denom, s.Amount = rcvB, true, "keep", "stake", "-1" })
	add("history-mixed-3-other-receiver", func(s *Spec) { s.Chain, s.Reg, s.Denom = true, "keep", "stake" })
	add("history-mixed-4-32-byte-receiver", func(s *Spec) { s.Receiver, s.Chain, s.Reg, s.Denom = rcv32, true, "keep", "stake" })
	return out
}

func genSpec(r *hlib.Rand, id int, prev *Spec) Spec {
	s := Spec{ID: id, Seq: uint64(id + 1), DstChan: dstChan, SrcChan: srcChan, Sender: defaultSender, ChanEscrow: "0"}
	// histories: continue on the state the previous packet left (committed through ibc-go core), same denomination, mostly
	// the same receiver, whatever registration is there; switches are re-drawn
	if prev != nil && prev.Raw == nil && prev.DstChan == dstChan && prev.SrcChan == srcChan && r.Chance(1, 5) {
		s.Chain, s.Reg, s.Tag = true, "keep", "history"
		s.Denom, s.Receiver, s.ModuleTokens, s.PreVoucher, s.PreEscrow = prev.Denom, prev.Receiver, "0", "0", "0"
		s.Amount = genValidAmount(r)
		if r.Chance(1, 4) {
			s.Receiver = normalReceiver(r)
		}
		s.PairDisabled = r.Chance(1, 5)
		s.AggDisabled = r.Chance(1, 10)
		s.SendDisabled = prev.SendDisabled
		if r.Chance(1, 6) {
			s.Amount = prev.Amount // the same amount once more
		}
		if strings.HasPrefix(s.Denom, "transfer/"+srcChan+"/") {
			s.ChanEscrow = s.Amount
			if a, ok := new(big.Int).SetString(s.Amount, 0); !ok || a.Sign() <= 0 || a.BitLen() > 250 {
				s.ChanEscrow = "0"
			}
		}
		return s
	}
	genRegistry(r, &s)
	s.Denom = baseDenoms[r.Intn(len(baseDenoms))]
	s.Amount = genValidAmount(r)
	s.Receiver = normalReceiver(r)
	s.Tag = "plain"
	switch x := r.Intn(100); {
	case x < 34:
		// plain valid packet; bias to states in which a conversion is attempted
		if r.Chance(2, 3) && s.Reg == "none" {
			s.Reg = "coin"
		}
		s.Decoy = r.Chance(1, 6)
	case x < 54:
		s.Tag = "receiver"
		switch r.Intn(11) {
		case 0:
			s.Receiver, s.Tag = hexs(make([]byte, 20)), "receiver-zero20"
		case 1, 2:
			s.Receiver, s.Tag = hexs(r.Bytes(32)), "receiver-32-bytes"
		case 3:
			s.Receiver, s.Tag = hexs(r.Bytes(1+r.Intn(19))), "receiver-short"
		case 4:
			s.Receiver, s.Tag = "not-a-bech32-address", "receiver-bad-bech32"
		case 5:
			s.Receiver, s.Tag = "cosmos1pfaqzykhuzugsmvytq0kpnx40qlrzq3nyt2kg3", "receiver-wrong-prefix"
		case 6:
			s.Receiver, s.Tag = []string{"", " ", "\t"}[r.Intn(3)], "receiver-blank"
		case 7:
			s.Receiver, s.Tag = hexs(authtypes.NewModuleAddress([]string{"aggregate", "transfer", "bonded_tokens_pool", "fee_collector"}[r.Intn(4)])), "receiver-blocked-module"
		case 8:
			s.Receiver, s.Tag = hexs(authtypes.NewModuleAddress("distribution")), "receiver-distribution-module"
		case 9:
			s.Receiver, s.Tag = hexs(r.Bytes(21+r.Intn(40))), "receiver-long"
		default:
			b := r.Bytes(20)
			s.Receiver, s.Tag = strings.ToUpper(receiverString(hexs(b))), "receiver-uppercase"
		}
		if r.Chance(2, 3) && (s.Reg == "none" || s.Reg == "dangling") {
			s.Reg = []string{"coin", "ext"}[r.Intn(2)]
		}
		if r.Chance(2, 3) {
			s.PairDisabled, s.AggDisabled, s.RecvDisabled = false, false, false
		}
	case x < 70:
		s.Tag = "amount"
		max := pow2(256)
		switch r.Intn(14) {
		case 0:
			s.Amount, s.Tag = "0", "amount-zero"
		case 1:
			s.Amount, s.Tag = "-"+genValidAmount(r), "amount-negative"
		case 2:
			s.Amount, s.Tag = new(big.Int).Sub(max, big.NewInt(1)).String(), "amount-2^256-1"
		case 3:
			s.Amount, s.Tag = max.String(), "amount-2^256"
		case 4:
			s.Amount, s.Tag = pow2(255).String(), "amount-2^255"
		case 5:
			s.Amount, s.Tag = []string{"abc", "1e3", "1.5", "12a", "١٢"}[r.Intn(5)], "amount-non-numeric"
		case 6:
			s.Amount, s.Tag = []string{"0x10", "0b101", "0o17", "017"}[r.Intn(4)], "amount-prefixed-base"
		case 7:
			s.Amount, s.Tag = "1_000", "amount-underscore"
		case 8:
			s.Amount, s.Tag = "+7", "amount-plus-sign"
		case 9:
			s.Amount, s.Tag = "", "amount-empty"
		case 10:
			s.Amount, s.Tag = []string{" 5", "5 ", "5\n"}[r.Intn(3)], "amount-whitespace"
		case 11:
			s.Amount, s.Tag = "-0", "amount-negative-zero"
		case 12:
			s.Amount, s.Tag = "000000000000000000000000012", "amount-leading-zeros"
		default:
			s.Amount, s.Tag = new(big.Int).Sub(pow2(256), pow2(uint(r.Intn(200)))).String(), "amount-near-max"
		}
		if r.Chance(2, 3) && s.Reg == "none" {
			s.Reg = "coin"
		}
	case x < 82:
		// tokens returning to this chain: the sender chain prefixed the denomination with ITS port/channel
		s.Tag = "returning-native"
		inner := []string{"atele", "atele", "stake", "transfer/channel-3/uxyz", "erc20/0x80b5a32E4F032B2a058b4F29EC95EEfEEB87aDcd"}[r.Intn(5)]
		if strings.Contains(inner, "/") {
			s.Tag = "returning-voucher"
		}
		s.Denom = "transfer/" + srcChan + "/" + inner
		a, _ := new(big.Int).SetString(s.Amount, 0)
		switch r.Intn(4) {
		case 0:
			s.ChanEscrow = "0"
		case 1:
			s.ChanEscrow = new(big.Int).Sub(a, big.NewInt(1)).String()
		default:
			s.ChanEscrow = new(big.Int).Add(a, big.NewInt(int64(r.Intn(100)))).String()
		}
		// a registry state in which the denomination the hook computes for a returning packet IS registered and the
		// receiver happens to hold coins of it (only reachable by minting outside ICS-20)
		if r.Chance(1, 2) {
			s.Reg = []string{"coin", "ext"}[r.Intn(2)]
			s.PairDisabled, s.AggDisabled = false, false
			s.PreVoucher = new(big.Int).Add(a, big.NewInt(int64(r.Intn(3))-1)).String()
		}
	case x < 92:
		s.Tag = "malformed"
		var raw []byte
		switch r.Intn(9) {
		case 0:
			raw = []byte{}
		case 1:
			raw = r.Bytes(1 + r.Intn(40))
		case 2:
			raw = []byte(`{"denom":"uatom","amount":"5"}`) // missing fields decode to blanks
		case 3:
			raw = []byte(`{"denom":"uatom","amount":"5","sender":"a","receiver":"` + receiverString(normalReceiver(r)) + `","memo":"x"}`) // unknown field
		case 4:
			raw = []byte(`{"denom":"uatom","amount":5,"sender":"a","receiver":"b"}`) // amount not a string
		case 5:
			raw = []byte(`[1,2,3]`)
		case 6:
			raw = []byte(`{}`)
		case 7:
			raw = []byte(`null`)
		default:
			bz, _ := json.Marshal(map[string]string{"amount": s.Amount, "denom": s.Denom, "receiver": receiverString(s.Receiver), "sender": s.Sender})
			raw = bz[:len(bz)-1-r.Intn(len(bz)/2)] // truncated JSON
		}
		h := hlib.Hex(raw)
		s.Raw = &h
		if r.Chance(1, 2) && s.Reg == "none" {
			s.Reg = "coin"
		}
	default:
		s.Tag = "fields"
		switch r.Intn(7) {
		case 0:
			s.Sender, s.Tag = []string{"", "  "}[r.Intn(2)], "sender-blank"
		case 1:
			s.Denom, s.Tag = []string{"", "a", "u", "1abc", "a b", "ibc/xyz", "ibc/", "transfer//x",
				"ibc/27394FB092D2ECCD56123C74F36E4C1F926001CEADA9CA97EA622B25F41E5EB2"}[r.Intn(9)], "denom-invalid"
		case 2:
			s.DstChan, s.Tag = "channel-1", "other-dest-channel"
		case 3:
			s.SrcChan, s.Tag = "channel-9", "other-source-channel"
		case 4:
			s.Denom, s.Tag = "transfer/channel-0/uatom", "denom-prefixed-with-dest" // looks like OUR prefix but is not the source's
		case 5:
			s.Denom, s.Tag = strings.Repeat("x", 120), "denom-long"
		default:
			s.Denom, s.Tag = "transfer/"+srcChan+"/", "returning-empty-base"
		}
		if r.Chance(1, 2) && s.Reg == "none" {
			s.Reg = "coin"
		}
	}
	if s.Reg == "ext" {
		setModuleTokens(r, &s)
	} else {
		s.ModuleTokens = "0"
	}
	return s
}
