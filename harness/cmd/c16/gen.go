package main

import (
	"encoding/json"
	"fmt"
	"math/big"
	"strings"

	authtypes "github.com/cosmos/cosmos-sdk/x/auth/types"

	"verifharness/hlib"
)

// Generator: mostly-valid ICS-20 packets over generated registry states, plus targeted boundary streams
// (receivers, amounts, returning native coins, malformed data, other channels).  One splitmix PRNG per case.

var baseDenoms = []string{"uatom", "uosmo", "stake", "transfer/channel-3/uxyz", "gamm/pool/1", "uatom", "transfer/channel-12/transfer/channel-3/uabc"}

func pow2(k uint) *big.Int { return new(big.Int).Lsh(big.NewInt(1), k) }

func genValidAmount(r *hlib.Rand) string {
	switch r.Intn(10) {
	case 0:
		return "1"
	case 1:
		return fmt.Sprint(1 + r.Intn(9))
	case 2:
		return pow2(uint(64 + r.Intn(100))).String()
	case 3:
		return "1000000000000000000"
	default:
		return fmt.Sprint(1 + r.Intn(100000))
	}
}

func hexs(b []byte) string { return "@" + hlib.Hex(b) }

func normalReceiver(r *hlib.Rand) string {
	b := r.Bytes(20)
	b[0] |= 1
	return hexs(b)
}

func genRegistry(r *hlib.Rand, s *Spec) {
	switch x := r.Intn(100); {
	case x < 22:
		s.Reg = "none"
	case x < 62:
		s.Reg = "coin"
	case x < 84:
		s.Reg = "ext"
	case x < 92:
		s.Reg = "suicided"
	default:
		s.Reg = "dangling"
	}
	s.PairDisabled = r.Chance(12, 100)
	s.AggDisabled = r.Chance(8, 100)
	s.SendDisabled = r.Chance(10, 100)
	s.RecvDisabled = r.Chance(3, 100)
	switch r.Intn(4) {
	case 0:
		s.PreVoucher = "0"
	case 1:
		s.PreVoucher = fmt.Sprint(1 + r.Intn(50))
	default:
		s.PreVoucher = fmt.Sprint(r.Intn(1000000))
	}
	if r.Chance(1, 2) {
		s.PreEscrow = fmt.Sprint(r.Intn(5000))
	} else {
		s.PreEscrow = "0"
	}
}

func setModuleTokens(r *hlib.Rand, s *Spec) {
	a, ok := new(big.Int).SetString(s.Amount, 0)
	if !ok || a.Sign() <= 0 || a.BitLen() > 250 {
		s.ModuleTokens = fmt.Sprint(r.Intn(1000))
		return
	}
	switch r.Intn(5) {
	case 0:
		s.ModuleTokens = "0"
	case 1:
		s.ModuleTokens = new(big.Int).Sub(a, big.NewInt(1)).String() // one short
	case 2:
		s.ModuleTokens = a.String() // exactly enough
	default:
		s.ModuleTokens = new(big.Int).Add(a, big.NewInt(int64(r.Intn(1000)))).String()
	}
}

func genSpec(r *hlib.Rand, id int) Spec {
	s := Spec{ID: id, Seq: uint64(id + 1), DstChan: dstChan, SrcChan: srcChan, Sender: "cosmos1pfaqzykhuzugsmvytq0kpnx40qlrzq3nyt2kg3", ChanEscrow: "0"}
	genRegistry(r, &s)
	s.Denom = baseDenoms[r.Intn(len(baseDenoms))]
	s.Amount = genValidAmount(r)
	s.Receiver = normalReceiver(r)
	s.Tag = "plain"
	switch x := r.Intn(100); {
	case x < 34:
		// plain valid packet; bias to states in which a conversion is attempted
		if r.Chance(2, 3) && s.Reg == "none" {
			s.Reg = "coin"
		}
	case x < 54:
		s.Tag = "receiver"
		switch r.Intn(11) {
		case 0:
			s.Receiver, s.Tag = hexs(make([]byte, 20)), "receiver-zero20"
		case 1, 2:
			s.Receiver, s.Tag = hexs(r.Bytes(32)), "receiver-32-bytes"
		case 3:
			s.Receiver, s.Tag = hexs(r.Bytes(1+r.Intn(19))), "receiver-short"
		case 4:
			s.Receiver, s.Tag = "not-a-bech32-address", "receiver-bad-bech32"
		case 5:
			s.Receiver, s.Tag = "cosmos1pfaqzykhuzugsmvytq0kpnx40qlrzq3nyt2kg3", "receiver-wrong-prefix"
		case 6:
			s.Receiver, s.Tag = []string{"", " ", "\t"}[r.Intn(3)], "receiver-blank"
		case 7:
			s.Receiver, s.Tag = hexs(authtypes.NewModuleAddress([]string{"aggregate", "transfer", "bonded_tokens_pool", "fee_collector"}[r.Intn(4)])), "receiver-blocked-module"
		case 8:
			s.Receiver, s.Tag = hexs(authtypes.NewModuleAddress("distribution")), "receiver-distribution-module"
		case 9:
			s.Receiver, s.Tag = hexs(r.Bytes(21+r.Intn(40))), "receiver-long"
		default:
			b := r.Bytes(20)
			s.Receiver, s.Tag = strings.ToUpper(receiverString(hexs(b))), "receiver-uppercase"
		}
		if r.Chance(2, 3) && (s.Reg == "none" || s.Reg == "dangling") {
			s.Reg = []string{"coin", "ext"}[r.Intn(2)]
		}
		if r.Chance(2, 3) {
			s.PairDisabled, s.AggDisabled, s.RecvDisabled = false, false, false
		}
	case x < 70:
		s.Tag = "amount"
		max := pow2(256)
		switch r.Intn(14) {
		case 0:
			s.Amount, s.Tag = "0", "amount-zero"
		case 1:
			s.Amount, s.Tag = "-"+genValidAmount(r), "amount-negative"
		case 2:
			s.Amount, s.Tag = new(big.Int).Sub(max, big.NewInt(1)).String(), "amount-2^256-1"
		case 3:
			s.Amount, s.Tag = max.String(), "amount-2^256"
		case 4:
			s.Amount, s.Tag = pow2(255).String(), "amount-2^255"
		case 5:
			s.Amount, s.Tag = []string{"abc", "1e3", "1.5", "12a", "١٢"}[r.Intn(5)], "amount-non-numeric"
		case 6:
			s.Amount, s.Tag = []string{"0x10", "0b101", "0o17", "017"}[r.Intn(4)], "amount-prefixed-base"
		case 7:
			s.Amount, s.Tag = "1_000", "amount-underscore"
		case 8:
			s.Amount, s.Tag = "+7", "amount-plus-sign"
		case 9:
			s.Amount, s.Tag = "", "amount-empty"
		case 10:
			s.Amount, s.Tag = []string{" 5", "5 ", "5\n"}[r.Intn(3)], "amount-whitespace"
		case 11:
			s.Amount, s.Tag = "-0", "amount-negative-zero"
		case 12:
			s.Amount, s.Tag = "000000000000000000000000012", "amount-leading-zeros"
		default:
			s.Amount, s.Tag = new(big.Int).Sub(pow2(256), pow2(uint(r.Intn(200)))).String(), "amount-near-max"
		}
		if r.Chance(2, 3) && s.Reg == "none" {
			s.Reg = "coin"
		}
	case x < 82:
		// tokens returning to this chain: the sender chain prefixed the denomination with ITS port/channel
		s.Tag = "returning-native"
		inner := []string{"atele", "atele", "stake", "transfer/channel-3/uxyz", "erc20/0x80b5a32E4F032B2a058b4F29EC95EEfEEB87aDcd"}[r.Intn(5)]
		if strings.Contains(inner, "/") {
			s.Tag = "returning-voucher"
		}
		s.Denom = "transfer/" + srcChan + "/" + inner
		a, _ := new(big.Int).SetString(s.Amount, 0)
		switch r.Intn(4) {
		case 0:
			s.ChanEscrow = "0"
		case 1:
			s.ChanEscrow = new(big.Int).Sub(a, big.NewInt(1)).String()
		default:
			s.ChanEscrow = new(big.Int).Add(a, big.NewInt(int64(r.Intn(100)))).String()
		}
		// a registry state in which the denomination the hook computes for a returning packet IS registered and the
		// receiver happens to hold coins of it (only reachable by minting outside ICS-20)
		if r.Chance(1, 2) {
			s.Reg = []string{"coin", "ext"}[r.Intn(2)]
			s.PairDisabled, s.AggDisabled = false, false
			s.PreVoucher = new(big.Int).Add(a, big.NewInt(int64(r.Intn(3))-1)).String()
		}
	case x < 92:
		s.Tag = "malformed"
		var raw []byte
		switch r.Intn(9) {
		case 0:
			raw = []byte{}
		case 1:
			raw = r.Bytes(1 + r.Intn(40))
		case 2:
			raw = []byte(`{"denom":"uatom","amount":"5"}`) // missing fields decode to blanks
		case 3:
			raw = []byte(`{"denom":"uatom","amount":"5","sender":"a","receiver":"` + receiverString(normalReceiver(r)) + `","memo":"x"}`) // unknown field
		case 4:
			raw = []byte(`{"denom":"uatom","amount":5,"sender":"a","receiver":"b"}`) // amount not a string
		case 5:
			raw = []byte(`[1,2,3]`)
		case 6:
			raw = []byte(`{}`)
		case 7:
			raw = []byte(`null`)
		default:
			bz, _ := json.Marshal(map[string]string{"amount": s.Amount, "denom": s.Denom, "receiver": receiverString(s.Receiver), "sender": s.Sender})
			raw = bz[:len(bz)-1-r.Intn(len(bz)/2)] // truncated JSON
		}
		h := hlib.Hex(raw)
		s.Raw = &h
		if r.Chance(1, 2) && s.Reg == "none" {
			s.Reg = "coin"
		}
	default:
		s.Tag = "fields"
		switch r.Intn(7) {
		case 0:
			s.Sender, s.Tag = []string{"", "  "}[r.Intn(2)], "sender-blank"
		case 1:
			s.Denom, s.Tag = []string{"", "a", "u", "1abc", "a b", "ibc/xyz", "ibc/", "transfer//x",
				"ibc/27394FB092D2ECCD56123C74F36E4C1F926001CEADA9CA97EA622B25F41E5EB2"}[r.Intn(9)], "denom-invalid"
		case 2:
			s.DstChan, s.Tag = "channel-1", "other-dest-channel"
		case 3:
			s.SrcChan, s.Tag = "channel-9", "other-source-channel"
		case 4:
			s.Denom, s.Tag = "transfer/channel-0/uatom", "denom-prefixed-with-dest" // looks like OUR prefix but is not the source's
		case 5:
			s.Denom, s.Tag = strings.Repeat("x", 120), "denom-long"
		default:
			s.Denom, s.Tag = "transfer/"+srcChan+"/", "returning-empty-base"
		}
		if r.Chance(1, 2) && s.Reg == "none" {
			s.Reg = "coin"
		}
	}
	if s.Reg == "ext" {
		setModuleTokens(r, &s)
	} else {
		s.ModuleTokens = "0"
	}
	return s
}
