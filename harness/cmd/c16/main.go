// c16: drives the REAL ICS-20 stack of the Teleport app (the object app.go routes for port "transfer":
// aggregate.IBCMiddleware around ibc-go's transfer IBCModule) with generated ICS-20 packets over
// generated registry / bank states, and records per packet
//   - the bare transfer module's result on a discarded branch of the same state (the oracle "wrapped app"),
//   - the stack's result on a second branch,
//   - ibc-go's REAL core handler (IBCKeeper.RecvPacket: channel checks, callback in a cache context,
//     `if ack == nil || ack.Success() { write }`, `if ack != nil { WriteAcknowledgement }`) on a third branch,
//     with the acknowledgement store read back,
//   - the stack's OnAcknowledgementPacket / OnTimeoutPacket against the bare module's (refund path).
//
// The channel for the core handler is written directly into the IBC store (OPEN UNORDERED channel
// transfer/channel-0 <-> transfer/channel-7 over a connection whose client is a 09-localhost client; the
// packet commitment the localhost client looks up is planted in its client store) — the handshake and proof
// verification are not what C16 is about; everything from ChannelKeeper.RecvPacket on is the real code.
package main

import (
	"crypto/sha256"
	"encoding/hex"
	"encoding/json"
	"flag"
	"fmt"
	"math/big"
	"sort"
	"strings"
	"time"

	"github.com/ethereum/go-ethereum/common"
	"github.com/ethereum/go-ethereum/crypto"

	sdk "github.com/cosmos/cosmos-sdk/types"
	authtypes "github.com/cosmos/cosmos-sdk/x/auth/types"
	banktypes "github.com/cosmos/cosmos-sdk/x/bank/types"
	distrtypes "github.com/cosmos/cosmos-sdk/x/distribution/types"
	stakingtypes "github.com/cosmos/cosmos-sdk/x/staking/types"

	ibctransfer "github.com/cosmos/ibc-go/v3/modules/apps/transfer"
	transfertypes "github.com/cosmos/ibc-go/v3/modules/apps/transfer/types"
	clienttypes "github.com/cosmos/ibc-go/v3/modules/core/02-client/types"
	connectiontypes "github.com/cosmos/ibc-go/v3/modules/core/03-connection/types"
	channeltypes "github.com/cosmos/ibc-go/v3/modules/core/04-channel/types"
	commitmenttypes "github.com/cosmos/ibc-go/v3/modules/core/23-commitment/types"
	host "github.com/cosmos/ibc-go/v3/modules/core/24-host"
	ibcexported "github.com/cosmos/ibc-go/v3/modules/core/exported"
	localhosttypes "github.com/cosmos/ibc-go/v3/modules/light-clients/09-localhost/types"

	"github.com/tendermint/tendermint/crypto/tmhash"
	tmproto "github.com/tendermint/tendermint/proto/tendermint/types"
	tmversion "github.com/tendermint/tendermint/proto/tendermint/version"
	"github.com/tendermint/tendermint/version"

	"github.com/tharsis/ethermint/crypto/ethsecp256k1"
	ethermint "github.com/tharsis/ethermint/types"
	"github.com/tharsis/ethermint/x/evm/statedb"
	feemarkettypes "github.com/tharsis/ethermint/x/feemarket/types"

	"github.com/teleport-network/teleport/app"
	erc20contracts "github.com/teleport-network/teleport/syscontracts/erc20"
	aggtypes "github.com/teleport-network/teleport/x/aggregate/types"

	"verifharness/hlib"
)

const (
	port     = transfertypes.PortID
	dstChan  = "channel-0" // the channel that exists in the IBC store (core handler)
	srcChan  = "channel-7"
	connID   = "connection-0"
	clientID = "09-localhost"
	chainID  = "teleport_9000-1"
)

// Spec = one registry/bank state + one packet.  Everything is explicit so that a spec replays alone.
type Spec struct {
	ID int `json:"id"`
	// --- registry / module state for the denomination the hook computes for this packet
	Reg          string `json:"reg"`           // none | coin | ext | suicided | dangling | keep (chained: whatever the history left)
	Chain        bool   `json:"chain"`         // history: start from the state the PREVIOUS case committed through ibc-go core
	Decoy        bool   `json:"decoy"`         // also register the look-alike IBCDenom(port, SOURCE channel, denom) and give the receiver `amount` of it
	PairDisabled bool   `json:"pair_disabled"` // ToggleRelay after registration
	AggDisabled  bool   `json:"agg_disabled"`  // params.EnableAggregate = false
	SendDisabled bool   `json:"send_disabled"` // bank SendEnabled{hook denom} = false
	RecvDisabled bool   `json:"recv_disabled"` // transfer params.ReceiveEnabled = false
	ModuleTokens string `json:"module_tokens"` // ext: ERC-20 tokens held by the aggregate module account
	PreVoucher   string `json:"pre_voucher"`   // receiver's prior balance of the hook denomination
	PreEscrow    string `json:"pre_escrow"`    // aggregate module's prior balance of the hook denomination
	ChanEscrow   string `json:"chan_escrow"`   // ICS-20 channel escrow balance of the returning denomination
	// --- packet
	Raw      *string `json:"raw,omitempty"` // hex: packet data verbatim (malformed stream); otherwise the fields below
	Denom    string  `json:"denom"`
	Amount   string  `json:"amount"`
	Sender   string  `json:"sender"`
	Receiver string  `json:"receiver"` // verbatim string; "@hex" = bech32 of these bytes with this chain's prefix
	DstChan  string  `json:"dst_chan"`
	SrcChan  string  `json:"src_chan"`
	Seq      uint64  `json:"seq"`
	Tag      string  `json:"tag"` // generator's label (distribution statistics only)
}

type Snap struct {
	RecvVoucher string `json:"recv_voucher"` // receiver's balance of the hook denomination
	RecvGot     string `json:"recv_got"`     // receiver's balance of the denomination the transfer app credits
	ModVoucher  string `json:"mod_voucher"`  // aggregate module account's balance of the hook denomination
	Supply      string `json:"supply"`       // bank supply of the hook denomination
	Tokens      string `json:"tokens"`       // ERC-20 balanceOf(BytesToAddress(receiver))
	ModTokens   string `json:"mod_tokens"`   // ERC-20 balanceOf(aggregate module)
	TokSupply   string `json:"tok_supply"`   // ERC-20 totalSupply
	Indexed     bool   `json:"indexed"`      // denom index has an entry for the hook denomination
	PairStored  bool   `json:"pair_stored"`  // the pair that entry points to exists
	Rest        string `json:"rest"`         // digest of every other bank balance / supply entry and of the aggregate store
}

type CallObs struct {
	Class  int    `json:"class"` // 0 returned, 1 error (core only), 2 panic
	Panic  string `json:"panic,omitempty"`
	AckNil bool   `json:"ack_nil"`
	AckOK  bool   `json:"ack_ok"`
	Ack    string `json:"ack"`    // hex of ack.Acknowledgement()
	Status int    `json:"status"` // EventIBCAggregate status: -1 not emitted, 1 success, 2 failed
	Post   Snap   `json:"post"`
	// core only
	Ran       bool   `json:"ran"`
	AckStored bool   `json:"ack_stored"`
	AckCommit string `json:"ack_commit"`
	Receipt   bool   `json:"receipt"`
}

type CbObs struct { // OnAcknowledgementPacket / OnTimeoutPacket: stack vs bare
	BareClass  int  `json:"bare_class"` // 0 nil, 1 error, 2 panic
	StackClass int  `json:"stack_class"`
	SamePost   bool `json:"same_post"` // full bank digest after the stack == after the bare module
}

type Obs struct {
	// oracle values (real library functions on this packet)
	Decoded     bool        `json:"decoded"`
	DDenom      string      `json:"d_denom"`
	DAmount     string      `json:"d_amount"`
	DSender     string      `json:"d_sender"`
	DReceiver   string      `json:"d_receiver"`
	AmountOK    bool        `json:"amount_ok"`
	AmountVal   string      `json:"amount_val"`
	RecvOK      bool        `json:"recv_ok"`
	RecvBytes   string      `json:"recv_bytes"` // hex
	HookDenom   string      `json:"hook_denom"` // x/aggregate/types.IBCDenom(dest port, dest channel, data.Denom)
	GotDenom    string      `json:"got_denom"`  // denomination ibc-go's transfer keeper credits for this packet
	Returning   bool        `json:"returning"`
	Sha         [][2]string `json:"sha"`      // sha256 table (hex argument, hex value) for every argument the model needs
	EvmRecv     string      `json:"evm_recv"` // hex, common.BytesToAddress(receiver)
	Module      string      `json:"module"`   // hex, aggregate module address
	Blocked     bool        `json:"blocked"`  // bank.BlockedAddr(BytesToAddress(receiver))
	Contract    string      `json:"contract"` // hex, pair's ERC-20 ("" when none)
	Alive       bool        `json:"alive"`    // contract account holds code
	Owner       int         `json:"owner"`    // 1 module, 2 external
	Pre         Snap        `json:"pre"`
	Bare        CallObs     `json:"bare"`
	Stack       CallObs     `json:"stack"`
	Core        CallObs     `json:"core"`
	BareCommit  string      `json:"bare_commit"`  // channeltypes.CommitAcknowledgement(bare ack bytes)
	ModsBlocked bool        `json:"mods_blocked"` // bank.BlockedAddr of the aggregate AND of the transfer module account (app.go BlockedAddrs)
	Hook        CallObs     `json:"hook"`         // Keeper.OnRecvPacket called DIRECTLY on the state before the packet with HookAck
	HookAck     string      `json:"hook_ack"`     // hex: bytes of the acknowledgement handed to the direct call
	Tr          TrObs       `json:"tr"`           // what the concrete model of the transfer application needs
	AckCb       CbObs       `json:"ack_cb"`
	ToCb        CbObs       `json:"to_cb"`
	SetupErr    string      `json:"setup_err,omitempty"`
}

// TrObs: parameters and funds for the model of ibc-go's transfer application (Model/Ics20Transfer.v), bare run
type TrObs struct {
	RecvBlocked bool   `json:"recv_blocked"` // bank.BlockedAddr(receiver)
	RecvEnabled bool   `json:"recv_enabled"` // transfer Params.ReceiveEnabled
	DenomOK     bool   `json:"denom_ok"`     // transfertypes.ValidatePrefixedDenom(data.Denom) == nil
	Escrow      string `json:"escrow"`       // hex, transfertypes.GetEscrowAddress(dest port, dest channel)
	TModule     string `json:"tmodule"`      // hex, transfer module account
	PreEsc      string `json:"pre_esc"`      // channel escrow's balance of the credited denomination, before
	PreTmod     string `json:"pre_tmod"`     // transfer module account's
	PreSupply   string `json:"pre_supply"`   // supply of the credited denomination
	PostEsc     string `json:"post_esc"`     // ... after the bare run
	PostTmod    string `json:"post_tmod"`
	PostSupply  string `json:"post_supply"`
}

type Result struct {
	Spec Spec `json:"spec"`
	Obs  Obs  `json:"obs"`
}

// ------------------------------------------------------------------------------------------------
// environment

type env struct {
	app     *app.Teleport
	base    sdk.Context
	user    common.Address // deploys external tokens
	relayer sdk.AccAddress
	stack   interface {
		OnRecvPacket(sdk.Context, channeltypes.Packet, sdk.AccAddress) ibcexported.Acknowledgement
		OnAcknowledgementPacket(sdk.Context, channeltypes.Packet, []byte, sdk.AccAddress) error
		OnTimeoutPacket(sdk.Context, channeltypes.Packet, sdk.AccAddress) error
	}
	bare  ibctransfer.IBCModule
	chain *sdk.Context // history: the state the previous case left (committed by ibc-go core when it ran)
}

func must(err error) {
	if err != nil {
		panic(err)
	}
}

func newEnv() *env {
	fm := feemarkettypes.DefaultGenesisState()
	fm.Params.EnableHeight = 1
	fm.Params.NoBaseFee = false
	a := app.Setup(false, fm)

	priv, err := ethsecp256k1.GenerateKey()
	must(err)
	cons := sdk.ConsAddress(priv.PubKey().Address())
	hdr := tmproto.Header{
		Height: 1, ChainID: chainID, Time: time.Unix(1700000000, 0).UTC(), ProposerAddress: cons.Bytes(),
		Version:     tmversion.Consensus{Block: version.BlockProtocol},
		LastBlockId: tmproto.BlockID{Hash: tmhash.Sum([]byte("block_id")), PartSetHeader: tmproto.PartSetHeader{Total: 11, Hash: tmhash.Sum([]byte("psh"))}},
		AppHash:     tmhash.Sum([]byte("app")), DataHash: tmhash.Sum([]byte("data")), EvidenceHash: tmhash.Sum([]byte("evidence")),
		ValidatorsHash: tmhash.Sum([]byte("validators")), NextValidatorsHash: tmhash.Sum([]byte("next_validators")),
		ConsensusHash: tmhash.Sum([]byte("consensus")), LastResultsHash: tmhash.Sum([]byte("last_result")),
	}
	ctx := a.BaseApp.NewContext(false, hdr)

	user := common.BytesToAddress([]byte("verif-c16-token-owner"))
	a.AccountKeeper.SetAccount(ctx, &ethermint.EthAccount{
		BaseAccount: authtypes.NewBaseAccount(sdk.AccAddress(user.Bytes()), nil, 0, 0),
		CodeHash:    common.BytesToHash(crypto.Keccak256(nil)).String(),
	})
	val, err := stakingtypes.NewValidator(sdk.ValAddress(user.Bytes()), priv.PubKey(), stakingtypes.Description{})
	must(err)
	must(a.StakingKeeper.SetValidatorByConsAddr(ctx, val))
	a.StakingKeeper.SetValidator(ctx, val)

	// IBC plumbing for the core handler: localhost client, OPEN connection, OPEN UNORDERED channel, capability
	a.IBCKeeper.ClientKeeper.SetClientState(ctx, clientID, localhosttypes.NewClientState(chainID, clienttypes.NewHeight(1, 1)))
	conn := connectiontypes.NewConnectionEnd(connectiontypes.OPEN, clientID,
		connectiontypes.NewCounterparty(clientID, "connection-1", commitmenttypes.NewMerklePrefix([]byte("ibc"))),
		connectiontypes.ExportedVersionsToProto(connectiontypes.GetCompatibleVersions()), 0)
	a.IBCKeeper.ConnectionKeeper.SetConnection(ctx, connID, conn)
	ch := channeltypes.NewChannel(channeltypes.OPEN, channeltypes.UNORDERED, channeltypes.NewCounterparty(port, srcChan), []string{connID}, transfertypes.Version)
	a.IBCKeeper.ChannelKeeper.SetChannel(ctx, port, dstChan, ch)
	capName := host.ChannelCapabilityPath(port, dstChan)
	cp, err := a.ScopedIBCKeeper.NewCapability(ctx, capName)
	must(err)
	must(a.ScopedIBCTransferKeeper.ClaimCapability(ctx, cp, capName))

	// bystanders: balances and a registered pair no packet of a run refers to ("nothing else changes")
	by := sdk.AccAddress([]byte("verif-c16-bystander-"))
	byCoins := sdk.NewCoins(sdk.NewInt64Coin("ubystander", 777), sdk.NewInt64Coin("ibc/0000000000000000000000000000000000000000000000000000000000000000", 5))
	must(a.BankKeeper.MintCoins(ctx, aggtypes.ModuleName, byCoins.Add(sdk.NewInt64Coin("ubystander", 3))))
	must(a.BankKeeper.SendCoinsFromModuleToAccount(ctx, aggtypes.ModuleName, by, byCoins))
	_, err = a.AggregateKeeper.RegisterCoin(ctx, meta("ubystander"))
	must(err)

	st, ok := a.IBCKeeper.Router.GetRoute(transfertypes.ModuleName)
	if !ok {
		panic("no route for transfer")
	}
	return &env{app: a, base: ctx, user: user, relayer: sdk.AccAddress([]byte("verif-c16-relayer---")),
		stack: st, bare: ibctransfer.NewIBCModule(a.IBCTransferKeeper)}
}

func amt(s string) sdk.Int {
	if s == "" {
		return sdk.ZeroInt()
	}
	i, ok := sdk.NewIntFromString(s)
	if !ok {
		panic("bad amount in spec: " + s)
	}
	return i
}

func (e *env) fund(ctx sdk.Context, to sdk.AccAddress, denom string, a sdk.Int) {
	if !a.IsPositive() {
		return
	}
	cs := sdk.Coins{sdk.NewCoin(denom, a)}
	must(e.app.BankKeeper.MintCoins(ctx, aggtypes.ModuleName, cs))
	if !to.Equals(sdk.AccAddress(aggtypes.ModuleAddress.Bytes())) {
		// SendCoins (not FromModuleToAccount): the target may be a blocked address in a generated state
		must(e.app.BankKeeper.SendCoins(ctx, sdk.AccAddress(aggtypes.ModuleAddress.Bytes()), to, cs))
	}
}

func (e *env) erc20Call(ctx sdk.Context, from, contract common.Address, method string, args ...interface{}) *big.Int {
	abi := erc20contracts.ERC20MinterBurnerDecimalsContract.ABI
	res, err := e.app.AggregateKeeper.CallEVM(ctx, abi, from, contract, method, args...)
	if err != nil {
		return nil
	}
	out, err := abi.Unpack(method, res.Ret)
	if err != nil || len(out) == 0 {
		return big.NewInt(0)
	}
	if v, ok := out[0].(*big.Int); ok {
		return v
	}
	return big.NewInt(0)
}

func (e *env) deployExternal(ctx sdk.Context) common.Address {
	ctor, err := erc20contracts.ERC20MinterBurnerDecimalsContract.ABI.Pack("", "Ext Token", "EXT", uint8(0))
	must(err)
	data := append(append([]byte{}, erc20contracts.ERC20MinterBurnerDecimalsContract.Bin...), ctor...)
	nonce, err := e.app.AccountKeeper.GetSequence(ctx, e.user.Bytes())
	must(err)
	_, err = e.app.AggregateKeeper.CallEVMWithData(ctx, e.user, nil, data)
	must(err)
	return crypto.CreateAddress(e.user, nonce)
}

func meta(base string) banktypes.Metadata {
	return banktypes.Metadata{Description: "IBC voucher", Base: base, DenomUnits: []*banktypes.DenomUnit{{Denom: base, Exponent: 0}},
		Name: "Voucher " + base[len(base)-6:], Symbol: "V" + base[len(base)-6:], Display: base}
}

// ------------------------------------------------------------------------------------------------

func receiverString(s string) string {
	if strings.HasPrefix(s, "@") {
		return sdk.AccAddress(hlib.UnHex(s[1:])).String()
	}
	return s
}

func packetData(s Spec) []byte {
	if s.Raw != nil {
		return hlib.UnHex(*s.Raw)
	}
	// the encoding ICS-20 senders produce (sorted JSON); built by hand so that blank / odd fields survive
	m := map[string]string{"amount": s.Amount, "denom": s.Denom, "receiver": receiverString(s.Receiver), "sender": s.Sender}
	bz, err := json.Marshal(m)
	must(err)
	return bz
}

func digest(parts []string) string {
	sort.Strings(parts)
	h := sha256.Sum256([]byte(strings.Join(parts, ";")))
	return hex.EncodeToString(h[:8])
}

func (e *env) snap(ctx sdk.Context, recv sdk.AccAddress, hookDenom, gotDenom string, contract common.Address, hasContract bool) Snap {
	bk := e.app.BankKeeper
	mod := sdk.AccAddress(aggtypes.ModuleAddress.Bytes())
	s := Snap{RecvVoucher: "0", RecvGot: "0", Tokens: "0", ModTokens: "0", TokSupply: "0"}
	if len(recv) > 0 {
		s.RecvVoucher = bk.GetBalance(ctx, recv, hookDenom).Amount.String()
		if gotDenom != "" {
			s.RecvGot = bk.GetBalance(ctx, recv, gotDenom).Amount.String()
		}
	}
	s.ModVoucher = bk.GetBalance(ctx, mod, hookDenom).Amount.String()
	s.Supply = bk.GetSupply(ctx, hookDenom).Amount.String()
	if hasContract {
		rd, _ := ctx.CacheContext() // reads through the EVM bump the caller's nonce: keep them off the observed branch
		show := func(v *big.Int) string {
			if v == nil {
				return "0"
			}
			return v.String()
		}
		s.Tokens = show(e.erc20Call(rd, aggtypes.ModuleAddress, contract, "balanceOf", common.BytesToAddress(recv)))
		s.ModTokens = show(e.erc20Call(rd, aggtypes.ModuleAddress, contract, "balanceOf", aggtypes.ModuleAddress))
		s.TokSupply = show(e.erc20Call(rd, aggtypes.ModuleAddress, contract, "totalSupply"))
	}
	id := e.app.AggregateKeeper.GetDenomMap(ctx, hookDenom)
	s.Indexed = e.app.AggregateKeeper.IsDenomRegistered(ctx, hookDenom)
	_, s.PairStored = e.app.AggregateKeeper.GetTokenPair(ctx, id)
	// everything else
	var rest []string
	bk.IterateAllBalances(ctx, func(addr sdk.AccAddress, c sdk.Coin) bool {
		if c.Denom == hookDenom && (addr.Equals(recv) || addr.Equals(mod)) {
			return false
		}
		if gotDenom != "" && c.Denom == gotDenom && addr.Equals(recv) {
			return false
		}
		rest = append(rest, "b/"+addr.String()+"/"+c.String())
		return false
	})
	bk.IterateTotalSupply(ctx, func(c sdk.Coin) bool {
		if c.Denom != hookDenom {
			rest = append(rest, "s/"+c.String())
		}
		return false
	})
	for _, p := range e.app.AggregateKeeper.GetAllTokenPairs(ctx) {
		if hasContract && common.HexToAddress(p.ERC20Address) == contract {
			continue // the packet's own pair is observed through Indexed / PairStored
		}
		rest = append(rest, "p/"+p.String())
	}
	s.Rest = digest(rest)
	return s
}

func fullBank(e *env, ctx sdk.Context) string {
	var rest []string
	e.app.BankKeeper.IterateAllBalances(ctx, func(addr sdk.AccAddress, c sdk.Coin) bool {
		rest = append(rest, addr.String()+"/"+c.String())
		return false
	})
	e.app.BankKeeper.IterateTotalSupply(ctx, func(c sdk.Coin) bool {
		rest = append(rest, "s/"+c.String())
		return false
	})
	return digest(rest)
}

func eventStatus(ctx sdk.Context) int {
	st := -1
	for _, ev := range ctx.EventManager().Events() {
		if !strings.HasSuffix(ev.Type, "EventIBCAggregate") {
			continue
		}
		for _, at := range ev.Attributes {
			if string(at.Key) == "status" {
				switch strings.Trim(string(at.Value), "\"") {
				case "STATUS_SUCCESS":
					st = 1
				case "STATUS_FAILED":
					st = 2
				default:
					st = 0
				}
			}
		}
	}
	return st
}

func runSpec(e *env, s Spec) (res Result) {
	res.Spec = s
	o := &res.Obs
	defer func() {
		if r := recover(); r != nil {
			o.SetupErr = fmt.Sprint(r)
		}
	}()
	from := e.base
	if s.Chain && e.chain != nil {
		from = *e.chain
	}
	ctx, _ := from.CacheContext()
	ctx = ctx.WithEventManager(sdk.NewEventManager())
	e.chain = &ctx
	a := e.app
	dst, src := s.DstChan, s.SrcChan
	if dst == "" {
		dst = dstChan
	}
	if src == "" {
		src = srcChan
	}
	data := packetData(s)
	pkt := channeltypes.NewPacket(data, s.Seq, port, src, port, dst, clienttypes.NewHeight(1, 1000000), 0)

	// ---- oracle values: the real library functions on this packet
	var ftpd transfertypes.FungibleTokenPacketData
	o.Decoded = transfertypes.ModuleCdc.UnmarshalJSON(data, &ftpd) == nil
	if !o.Decoded {
		ftpd = transfertypes.FungibleTokenPacketData{}
	}
	o.DDenom, o.DAmount, o.DSender, o.DReceiver = hlib.Hex([]byte(ftpd.Denom)), hlib.Hex([]byte(ftpd.Amount)), hlib.Hex([]byte(ftpd.Sender)), hlib.Hex([]byte(ftpd.Receiver))
	if v, ok := sdk.NewIntFromString(ftpd.Amount); ok {
		o.AmountOK, o.AmountVal = true, v.String()
	}
	recv, err := sdk.AccAddressFromBech32(ftpd.Receiver)
	o.RecvOK = err == nil
	if !o.RecvOK {
		recv = nil
	}
	o.RecvBytes = hlib.Hex(recv)
	hookDenom, _ := aggtypes.IBCDenom(port, dst, ftpd.Denom)
	o.HookDenom = hookDenom
	addSha := func(arg []byte) {
		h := sha256.Sum256(arg)
		o.Sha = append(o.Sha, [2]string{hlib.Hex(arg), hlib.Hex(h[:])})
	}
	addSha([]byte(transfertypes.GetDenomPrefix(port, dst) + ftpd.Denom))
	o.Returning = transfertypes.ReceiverChainIsSource(port, src, ftpd.Denom)
	if o.Returning {
		un := ftpd.Denom[len(transfertypes.GetDenomPrefix(port, src)):]
		addSha([]byte(un))
		o.GotDenom = un
		if tr := transfertypes.ParseDenomTrace(un); tr.Path != "" {
			o.GotDenom = tr.IBCDenom()
		}
	} else {
		o.GotDenom = hookDenom
	}
	if sdk.ValidateDenom(o.GotDenom) != nil {
		o.GotDenom = ""
	}
	evmRecv := common.BytesToAddress(recv)
	o.EvmRecv, o.Module = hlib.Hex(evmRecv.Bytes()), hlib.Hex(aggtypes.ModuleAddress.Bytes())
	o.Blocked = a.BankKeeper.BlockedAddr(evmRecv.Bytes())

	// ---- build the state
	mod := sdk.AccAddress(aggtypes.ModuleAddress.Bytes())
	var contract common.Address
	hasContract := false
	switch s.Reg {
	case "coin", "suicided":
		e.fund(ctx, mod, hookDenom, sdk.OneInt()) // RegisterCoin needs a supply; burned again below
		pair, err := a.AggregateKeeper.RegisterCoin(ctx, meta(hookDenom))
		must(err)
		must(a.BankKeeper.BurnCoins(ctx, aggtypes.ModuleName, sdk.Coins{sdk.NewCoin(hookDenom, sdk.OneInt())}))
		contract, hasContract = pair.GetERC20Contract(), true
		o.Owner = 1
	case "ext":
		contract, hasContract = e.deployExternal(ctx), true
		_, err := a.AggregateKeeper.RegisterERC20(ctx, contract)
		must(err)
		e.fund(ctx, mod, hookDenom, sdk.OneInt())
		_, err = a.AggregateKeeper.AddCoin(ctx, meta(hookDenom), contract.String())
		must(err)
		must(a.BankKeeper.BurnCoins(ctx, aggtypes.ModuleName, sdk.Coins{sdk.NewCoin(hookDenom, sdk.OneInt())}))
		if mt := amt(s.ModuleTokens); mt.IsPositive() {
			if e.erc20Call(ctx, e.user, contract, "mint", aggtypes.ModuleAddress, mt.BigInt()) == nil {
				panic("mint of external tokens failed")
			}
		}
		o.Owner = 2
	case "dangling":
		a.AggregateKeeper.SetDenomMap(ctx, hookDenom, tmhash.Sum([]byte("no such pair")))
	case "keep":
		if p, found := a.AggregateKeeper.GetTokenPair(ctx, a.AggregateKeeper.GetDenomMap(ctx, hookDenom)); found {
			contract, hasContract = p.GetERC20Contract(), true
			o.Owner = int(p.ContractOwner)
			if p.Enabled == s.PairDisabled { // bring the pair to the requested switch position
				_, err := a.AggregateKeeper.ToggleRelay(ctx, hookDenom)
				must(err)
			}
		}
	}
	if s.PairDisabled && hasContract && s.Reg != "keep" {
		_, err := a.AggregateKeeper.ToggleRelay(ctx, hookDenom)
		must(err)
	}
	if s.Reg == "suicided" {
		db := statedb.New(ctx, a.EvmKeeper, statedb.NewEmptyTxConfig(common.BytesToHash(ctx.HeaderHash().Bytes())))
		if !db.Suicide(contract) {
			panic("suicide failed")
		}
		must(db.Commit())
	}
	if hasContract {
		o.Contract = hlib.Hex(contract.Bytes())
		acc := a.EvmKeeper.GetAccountWithoutBalance(ctx, contract)
		o.Alive = acc != nil && acc.IsContract()
	}
	if s.Decoy && o.Decoded && len(recv) > 0 && a.AggregateKeeper.GetParams(ctx).EnableAggregate {
		// a registered denomination that only LOOKS like the packet's voucher (same base denomination, the counterparty's
		// channel identifier) with enough coins in the receiver's account: the hook must leave it alone
		if decoy, _ := aggtypes.IBCDenom(port, src, ftpd.Denom); decoy != hookDenom && !a.AggregateKeeper.IsDenomRegistered(ctx, decoy) {
			e.fund(ctx, mod, decoy, sdk.OneInt())
			_, err := a.AggregateKeeper.RegisterCoin(ctx, meta(decoy))
			must(err)
			must(a.BankKeeper.BurnCoins(ctx, aggtypes.ModuleName, sdk.Coins{sdk.NewCoin(decoy, sdk.OneInt())}))
			if o.AmountOK && amt(o.AmountVal).IsPositive() && amt(o.AmountVal).BigInt().BitLen() < 250 {
				e.fund(ctx, recv, decoy, amt(o.AmountVal))
			}
		}
	}
	if p := a.AggregateKeeper.GetParams(ctx); p.EnableAggregate == s.AggDisabled {
		p.EnableAggregate = !s.AggDisabled
		a.AggregateKeeper.SetParams(ctx, p)
	}
	if s.SendDisabled && a.BankKeeper.IsSendEnabledCoin(ctx, sdk.Coin{Denom: hookDenom}) {
		p := a.BankKeeper.GetParams(ctx)
		p.SendEnabled = append(p.SendEnabled, &banktypes.SendEnabled{Denom: hookDenom, Enabled: false})
		a.BankKeeper.SetParams(ctx, p)
	}
	if a.IBCTransferKeeper.GetReceiveEnabled(ctx) == s.RecvDisabled {
		a.IBCTransferKeeper.SetParams(ctx, transfertypes.NewParams(true, !s.RecvDisabled))
	}
	if len(recv) > 0 {
		e.fund(ctx, recv, hookDenom, amt(s.PreVoucher))
	}
	e.fund(ctx, mod, hookDenom, amt(s.PreEscrow))
	if o.Returning && o.GotDenom != "" {
		e.fund(ctx, transfertypes.GetEscrowAddress(port, dst), o.GotDenom, amt(s.ChanEscrow))
	}
	o.Pre = e.snap(ctx, recv, hookDenom, o.GotDenom, contract, hasContract)
	escAddr := transfertypes.GetEscrowAddress(port, dst)
	tmodAddr := a.AccountKeeper.GetModuleAddress(transfertypes.ModuleName)
	trFunds := func(c sdk.Context) (string, string, string) {
		if o.GotDenom == "" {
			return "0", "0", "0"
		}
		return a.BankKeeper.GetBalance(c, escAddr, o.GotDenom).Amount.String(), a.BankKeeper.GetBalance(c, tmodAddr, o.GotDenom).Amount.String(),
			a.BankKeeper.GetSupply(c, o.GotDenom).Amount.String()
	}
	o.Tr = TrObs{RecvBlocked: len(recv) > 0 && a.BankKeeper.BlockedAddr(recv), RecvEnabled: a.IBCTransferKeeper.GetReceiveEnabled(ctx),
		DenomOK: o.Decoded && transfertypes.ValidatePrefixedDenom(ftpd.Denom) == nil, Escrow: hlib.Hex(escAddr), TModule: hlib.Hex(tmodAddr)}
	o.Tr.PreEsc, o.Tr.PreTmod, o.Tr.PreSupply = trFunds(ctx)
	o.ModsBlocked = a.BankKeeper.BlockedAddr(mod) && a.BankKeeper.BlockedAddr(tmodAddr)
	var afterBare func(c sdk.Context)

	call := func(f func(c sdk.Context) ibcexported.Acknowledgement) CallObs {
		c, _ := ctx.CacheContext()
		c = c.WithEventManager(sdk.NewEventManager())
		var ack ibcexported.Acknowledgement
		co := CallObs{Status: -1}
		p, val := hlib.Catch(func() { ack = f(c) })
		if p {
			co.Class, co.Panic = 2, val
			co.Post = e.snap(c, recv, hookDenom, o.GotDenom, contract, hasContract)
			if afterBare != nil {
				afterBare(c)
			}
			return co
		}
		co.Status = eventStatus(c)
		if ack == nil {
			co.AckNil = true
		} else {
			co.AckOK = ack.Success()
			co.Ack = hlib.Hex(ack.Acknowledgement())
		}
		co.Post = e.snap(c, recv, hookDenom, o.GotDenom, contract, hasContract)
		if afterBare != nil {
			afterBare(c)
		}
		return co
	}
	// (a) the wrapped application alone, (b) the stack as routed by app.go
	afterBare = func(c sdk.Context) { o.Tr.PostEsc, o.Tr.PostTmod, o.Tr.PostSupply = trFunds(c) }
	o.Bare = call(func(c sdk.Context) ibcexported.Acknowledgement { return e.bare.OnRecvPacket(c, pkt, e.relayer) })
	afterBare = nil
	o.Stack = call(func(c sdk.Context) ibcexported.Acknowledgement { return e.stack.OnRecvPacket(c, pkt, e.relayer) })
	// (b') the keeper hook called directly on the state BEFORE the packet with an acknowledgement of our own: reaches the
	// branches the transfer application shields (undecodable data, unparsable / negative amount) and shows that the hook
	// hands back the acknowledgement it was GIVEN
	given := channeltypes.NewResultAcknowledgement([]byte{0xc1, 0x60})
	o.HookAck = hlib.Hex(given.Acknowledgement())
	o.Hook = call(func(c sdk.Context) ibcexported.Acknowledgement { return a.AggregateKeeper.OnRecvPacket(c, pkt, given) })
	if o.Bare.Class == 0 && !o.Bare.AckNil {
		o.BareCommit = hlib.Hex(channeltypes.CommitAcknowledgement(hlib.UnHex(o.Bare.Ack)))
		o.Sha = append(o.Sha, [2]string{o.Bare.Ack, o.BareCommit})
	}
	if o.Stack.Class == 0 && !o.Stack.AckNil && o.Stack.Ack != o.Bare.Ack {
		addSha(hlib.UnHex(o.Stack.Ack))
	}

	// (c) ibc-go's core handler, when the packet is routable over the channel that exists
	o.Core = CallObs{Status: -1}
	if dst == dstChan && src == srcChan && s.Seq > 0 {
		c, _ := ctx.CacheContext()
		c = c.WithEventManager(sdk.NewEventManager())
		a.IBCKeeper.ClientKeeper.ClientStore(c, clientID).Set(host.PacketCommitmentKey(port, src, s.Seq), channeltypes.CommitPacket(a.AppCodec(), pkt))
		msg := channeltypes.NewMsgRecvPacket(pkt, []byte{1}, clienttypes.NewHeight(1, 1), e.relayer.String())
		var rerr error
		o.Core.Ran = true
		p, val := hlib.Catch(func() { _, rerr = a.IBCKeeper.RecvPacket(sdk.WrapSDKContext(c), msg) })
		switch {
		case p:
			o.Core.Class, o.Core.Panic = 2, val
		case rerr != nil:
			o.Core.Class, o.Core.Panic = 1, rerr.Error()
		}
		o.Core.Status = eventStatus(c)
		bz, found := a.IBCKeeper.ChannelKeeper.GetPacketAcknowledgement(c, port, dst, s.Seq)
		o.Core.AckStored, o.Core.AckCommit = found, hlib.Hex(bz)
		_, o.Core.Receipt = a.IBCKeeper.ChannelKeeper.GetPacketReceipt(c, port, dst, s.Seq)
		o.Core.Post = e.snap(c, recv, hookDenom, o.GotDenom, contract, hasContract)
		if o.Core.Class == 0 {
			e.chain = &c // baseapp commits a successful MsgRecvPacket; a failed / panicking one leaves the state as it was
		}
	}

	// (d) the other callbacks: the packet seen as one THIS chain had sent (refund on error ack / timeout)
	dctx, _ := ctx.CacheContext()
	cb := func(f func(m interface {
		OnAcknowledgementPacket(sdk.Context, channeltypes.Packet, []byte, sdk.AccAddress) error
		OnTimeoutPacket(sdk.Context, channeltypes.Packet, sdk.AccAddress) error
	}, c sdk.Context) error) CbObs {
		run := func(m interface {
			OnAcknowledgementPacket(sdk.Context, channeltypes.Packet, []byte, sdk.AccAddress) error
			OnTimeoutPacket(sdk.Context, channeltypes.Packet, sdk.AccAddress) error
		}) (int, string) {
			c, _ := dctx.CacheContext()
			var err error
			p, _ := hlib.Catch(func() { err = f(m, c) })
			cl := 0
			if p {
				cl = 2
			} else if err != nil {
				cl = 1
			}
			return cl, fullBank(e, c)
		}
		bc, bd := run(e.bare)
		sc, sd := run(e.stack)
		return CbObs{BareClass: bc, StackClass: sc, SamePost: bd == sd}
	}
	// outgoing view: source = our channel; fund the escrow so that a refund has something to move
	outData := data
	if o.Decoded {
		// a local sender, so that a refund has somebody to go to
		local := sdk.AccAddress([]byte("verif-c16-sender----"))
		if o.RecvOK && s.Seq%2 == 0 {
			local = recv
		}
		outData = transfertypes.NewFungibleTokenPacketData(ftpd.Denom, ftpd.Amount, local.String(), "remote-receiver").GetBytes()
	}
	out := channeltypes.NewPacket(outData, s.Seq, port, dst, port, src, clienttypes.NewHeight(1, 1000000), 0)
	if o.Decoded && o.AmountOK && sdk.ValidateDenom(ftpd.Denom) == nil && amt(o.AmountVal).IsPositive() && amt(o.AmountVal).BigInt().BitLen() < 200 {
		e.fund(dctx, transfertypes.GetEscrowAddress(port, dst), ftpd.Denom, amt(o.AmountVal))
	}
	errAck := channeltypes.NewErrorAcknowledgement("verif").Acknowledgement()
	okAck := channeltypes.NewResultAcknowledgement([]byte{1}).Acknowledgement()
	ackBz := errAck
	if s.Seq%3 == 0 {
		ackBz = okAck
	} else if s.Seq%7 == 0 {
		ackBz = []byte("not an ack")
	}
	o.AckCb = cb(func(m interface {
		OnAcknowledgementPacket(sdk.Context, channeltypes.Packet, []byte, sdk.AccAddress) error
		OnTimeoutPacket(sdk.Context, channeltypes.Packet, sdk.AccAddress) error
	}, c sdk.Context) error {
		return m.OnAcknowledgementPacket(c, out, ackBz, e.relayer)
	})
	o.ToCb = cb(func(m interface {
		OnAcknowledgementPacket(sdk.Context, channeltypes.Packet, []byte, sdk.AccAddress) error
		OnTimeoutPacket(sdk.Context, channeltypes.Packet, sdk.AccAddress) error
	}, c sdk.Context) error {
		return m.OnTimeoutPacket(c, out, e.relayer)
	})
	return res
}

func main() {
	seed := flag.Uint64("seed", 1, "PRNG seed")
	n := flag.Int("n", 80, "number of generated cases")
	in := flag.String("in", "", "replay: file of specs (JSON lines) instead of generating")
	out := flag.String("out", "/dev/stdout", "output file (JSON lines)")
	flag.Parse()

	e := newEnv()
	var specs []Spec
	if *in != "" {
		hlib.ReadLines(*in, func(line []byte) {
			var wrap struct {
				Spec *Spec `json:"spec"`
			}
			if err := json.Unmarshal(line, &wrap); err == nil && wrap.Spec != nil {
				specs = append(specs, *wrap.Spec)
				return
			}
			var s Spec
			must(json.Unmarshal(line, &s))
			specs = append(specs, s)
		})
	} else {
		// the directed corpus runs first on every run (one case per code path / past failure), then the generated cases
		specs = directed()
		if len(specs) > *n {
			specs = specs[:*n]
		}
		root := hlib.NewRand(*seed)
		for i := len(specs); i < *n; i++ {
			var prev *Spec
			if len(specs) > 0 {
				prev = &specs[len(specs)-1]
			}
			specs = append(specs, genSpec(root.Fork(uint64(i)), i, prev))
		}
	}
	w := hlib.NewOut(*out)
	defer w.Close()
	for _, s := range specs {
		w.Emit(runSpec(e, s))
	}
	_ = distrtypes.ModuleName
}
