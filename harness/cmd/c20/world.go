// c20, modes "world" and "genesis".
//
// world:   histories interleaving the real rvesting BeginBlocker (or whole blocks of a TestChain: every module's
//          BeginBlocker, among them x/distribution's AllocateTokens that sweeps the fee collector) with governance
//          parameter changes (registered and unregistered keys, well- and ill-typed JSON) and bank operations of
//          OTHER modules (SendCoins between the pool, the fee collector, the distribution account, a minting module
//          and two plain accounts; MintCoins / BurnCoins).  After every operation: outcome class, the balances of
//          the six tracked accounts, the bank's stored supply, the sum of ALL balances per denomination, whether
//          any untracked account changed, and the raw content of the params store under "rvesting/".
// genesis: ValidateGenesis / keeper.InitGenesis / ExportGenesis / re-import of generated rvesting genesis states
//          (valid and invalid parameters, From empty / not bech32 / funded / under-funded, InitReward valid /
//          unsorted / duplicated / non-positive).
package main

import (
	"encoding/json"
	"fmt"
	"sort"
	"strings"
	"testing"

	sdk "github.com/cosmos/cosmos-sdk/types"
	authtypes "github.com/cosmos/cosmos-sdk/x/auth/types"
	distrtypes "github.com/cosmos/cosmos-sdk/x/distribution/types"
	"github.com/cosmos/cosmos-sdk/x/params"
	paramstypes "github.com/cosmos/cosmos-sdk/x/params/types"
	proposaltypes "github.com/cosmos/cosmos-sdk/x/params/types/proposal"

	"github.com/teleport-network/teleport/app"
	rvesting "github.com/teleport-network/teleport/x/rvesting/module"
	rvtypes "github.com/teleport-network/teleport/x/rvesting/types"
	xibctesting "github.com/teleport-network/teleport/x/xibc/testing"

	"verifharness/hlib"
)

const nTracked = 6 // 0 pool, 1 fee collector, 2 distribution, 3 aggregate (minter/burner), 4 and 5 plain accounts

type WOp struct {
	Kind string `json:"k"` // begin | block | param | send | mint | burn
	// param
	Key   string `json:"key,omitempty"`
	Value string `json:"value,omitempty"` // JSON text handed to the proposal handler
	// send / mint / burn
	I     int    `json:"i,omitempty"`
	J     int    `json:"j,omitempty"`
	Coins []Pair `json:"coins,omitempty"` // as given: not sorted, not merged
}

type WSpec struct {
	ID    int      `json:"id"`
	Full  bool     `json:"full,omitempty"`
	Accts [][]Pair `json:"accts"` // initial funding per tracked account
	Ops   []WOp    `json:"ops"`
}

type WObs struct {
	Class    int        `json:"class"` // 0 done, 1 rejected (state unchanged), 2 panicked
	Panic    string     `json:"panic,omitempty"`
	Role     string     `json:"role,omitempty"` // param ops: "enable" | "rewards" | "other" (which parameter the key names in the CODE)
	Bal      [][]string `json:"bal"`            // per tracked account, per denom
	Supply   []string   `json:"supply"`         // stored supply per denom
	Total    []string   `json:"total"`          // sum of all balances per denom
	RestSame bool       `json:"rest_same"`
	Store    [][2]string `json:"store"` // params store under "rvesting/": key, value
	Height   int64      `json:"height"`
}

type WResult struct {
	Mode   string   `json:"mode"`
	Spec   WSpec    `json:"spec"`
	Denoms []string `json:"denoms"`
	Init   WObs     `json:"init"`
	Obs    []WObs   `json:"obs"`
}

// the module accounts exist on a running chain (created at genesis / first use); a bare app.Setup context has not
// created all of them yet, and a plain SendCoins to a module address would create a BASE account there
func ensureModuleAccounts(ctx sdk.Context, a *app.Teleport) {
	for _, n := range []string{rvtypes.ModuleName, authtypes.FeeCollectorName, distrtypes.ModuleName, "aggregate"} {
		a.AccountKeeper.GetModuleAccount(ctx, n)
	}
}

func trackedAddrs(a *app.Teleport) []sdk.AccAddress {
	return []sdk.AccAddress{
		a.AccountKeeper.GetModuleAddress(rvtypes.ModuleName),
		a.AccountKeeper.GetModuleAddress(authtypes.FeeCollectorName),
		a.AccountKeeper.GetModuleAddress(distrtypes.ModuleName),
		a.AccountKeeper.GetModuleAddress("aggregate"),
		sdk.AccAddress([]byte("verif-other-account-")),
		sdk.AccAddress([]byte("verif-third-account-")),
	}
}

func observe(ctx sdk.Context, a *app.Teleport, denoms []string) (WObs, string) {
	addrs := trackedAddrs(a)
	o := WObs{Height: ctx.BlockHeight()}
	bal := make([]map[string]sdk.Int, nTracked)
	for i := range bal {
		bal[i] = map[string]sdk.Int{}
	}
	total := map[string]sdk.Int{}
	var rest []string
	a.BankKeeper.IterateAllBalances(ctx, func(addr sdk.AccAddress, c sdk.Coin) bool {
		if t, ok := total[c.Denom]; ok {
			total[c.Denom] = t.Add(c.Amount)
		} else {
			total[c.Denom] = c.Amount
		}
		for i, ta := range addrs {
			if addr.Equals(ta) {
				bal[i][c.Denom] = c.Amount
				return false
			}
		}
		rest = append(rest, addr.String()+"/"+c.String())
		return false
	})
	sort.Strings(rest)
	for i := 0; i < nTracked; i++ {
		row := []string{}
		for _, d := range denoms {
			if v, ok := bal[i][d]; ok {
				row = append(row, v.String())
			} else {
				row = append(row, "0")
			}
		}
		o.Bal = append(o.Bal, row)
	}
	for _, d := range denoms {
		o.Supply = append(o.Supply, a.BankKeeper.GetSupply(ctx, d).Amount.String())
		if v, ok := total[d]; ok {
			o.Total = append(o.Total, v.String())
		} else {
			o.Total = append(o.Total, "0")
		}
	}
	st := ctx.KVStore(a.GetKey(paramstypes.StoreKey))
	pre := []byte(rvtypes.ModuleName + "/")
	it := sdk.KVStorePrefixIterator(st, pre)
	for ; it.Valid(); it.Next() {
		o.Store = append(o.Store, [2]string{string(it.Key()), string(it.Value())})
	}
	it.Close()
	if o.Store == nil {
		o.Store = [][2]string{}
	}
	return o, strings.Join(rest, ";")
}

// coins exactly as listed (no sorting, no merging, any sign); ok=false if an amount is not an integer
func rawCoins(ps []Pair) (sdk.Coins, bool) {
	cs := sdk.Coins{}
	for _, p := range ps {
		a, ok := sdk.NewIntFromString(p[1])
		if !ok {
			return nil, false
		}
		cs = append(cs, sdk.Coin{Denom: p[0], Amount: a})
	}
	return cs, true
}

func worldDenoms(s WSpec) []string {
	dset := map[string]bool{}
	for _, d := range validDenoms {
		dset[d] = true
	}
	add := func(d string) {
		if sdk.ValidateDenom(d) == nil {
			dset[d] = true
		}
	}
	for _, op := range s.Ops {
		for _, p := range op.Coins {
			add(p[0])
		}
		if op.Kind == "param" {
			var l []struct {
				Denom string `json:"denom"`
			}
			if json.Unmarshal([]byte(op.Value), &l) == nil {
				for _, c := range l {
					add(c.Denom)
				}
			}
		}
	}
	var out []string
	for d := range dset {
		out = append(out, d)
	}
	sort.Strings(out)
	return out
}

func runWorld(a *app.Teleport, base sdk.Context, s WSpec) WResult {
	ctx, _ := base.CacheContext()
	var chain *xibctesting.TestChain
	if s.Full {
		// starting a chain runs InitChain and the first BeginBlock of every module: a panic there is reported as a
		// panicking first operation of this history
		if p, val := hlib.Catch(func() {
			coord := xibctesting.NewCoordinator(&testing.T{}, 1)
			chain = coord.GetChain(xibctesting.GetChainID(0))
		}); p {
			res := WResult{Mode: "world", Spec: s, Denoms: worldDenoms(s)}
			res.Init, _ = observe(ctx, a, res.Denoms)
			res.Init.RestSame = true
			o := res.Init
			o.Class = 2
			o.Panic = "chain start: " + val
			res.Spec.Ops = append([]WOp{{Kind: "block"}}, res.Spec.Ops...)
			res.Obs = []WObs{o}
			return res
		}
		a = chain.App
		ctx = chain.GetContext()
	}
	res := WResult{Mode: "world", Spec: s, Denoms: worldDenoms(s)}
	ensureModuleAccounts(ctx, a)
	addrs := trackedAddrs(a)
	for i, ps := range s.Accts {
		if i >= nTracked {
			break
		}
		cs := toCoins(ps)
		if cs.Empty() {
			continue
		}
		if err := a.BankKeeper.MintCoins(ctx, "aggregate", cs); err != nil {
			panic(err)
		}
		if i != 3 {
			if err := a.BankKeeper.SendCoins(ctx, addrs[3], addrs[i], cs); err != nil {
				panic(err)
			}
		}
	}
	handler := params.NewParamChangeProposalHandler(a.ParamsKeeper)
	var rest0 string
	res.Init, rest0 = observe(ctx, a, res.Denoms)
	res.Init.RestSame = true
	prevRest := rest0
	for _, op := range s.Ops {
		var o WObs
		var p bool
		var val string
		var err error
		role := ""
		// every operation other than BeginBlock runs the way a transaction / a passed proposal does: on a cache
		// context that is written only on success
		cctx, write := ctx.CacheContext()
		switch op.Kind {
		case "begin":
			p, val = hlib.Catch(func() { rvesting.BeginBlocker(ctx, a.RVestingKeeper) })
		case "block":
			if chain == nil {
				panic("block operation in a non-full history")
			}
			p, val = hlib.Catch(func() { chain.App.Commit(); chain.NextBlock() })
			ctx = chain.GetContext()
		case "param":
			switch op.Key {
			case string(rvtypes.KeyEnableVesting):
				role = "enable"
			case string(rvtypes.KeyPerBlockReward):
				role = "rewards"
			default:
				role = "other"
			}
			p, val = hlib.Catch(func() {
				err = handler(cctx, proposaltypes.NewParameterChangeProposal("t", "d",
					[]proposaltypes.ParamChange{proposaltypes.NewParamChange(rvtypes.ModuleName, op.Key, op.Value)}))
			})
		case "send", "mint", "burn":
			cs, ok := rawCoins(op.Coins)
			if !ok || op.I < 0 || op.I >= nTracked || op.J < 0 || op.J >= nTracked {
				panic("bad bank operation in spec")
			}
			p, val = hlib.Catch(func() {
				switch op.Kind {
				case "send":
					err = a.BankKeeper.SendCoins(cctx, addrs[op.I], addrs[op.J], cs)
				case "mint":
					err = a.BankKeeper.MintCoins(cctx, "aggregate", cs)
				case "burn":
					err = a.BankKeeper.BurnCoins(cctx, "aggregate", cs)
				}
			})
		default:
			panic("unknown op " + op.Kind)
		}
		if op.Kind != "begin" && op.Kind != "block" && !p && err == nil {
			write()
		}
		var rest string
		o, rest = observe(ctx, a, res.Denoms)
		o.Role = role
		o.RestSame = rest == prevRest
		prevRest = rest
		switch {
		case p:
			o.Class = 2
			o.Panic = val
		case err != nil:
			o.Class = 1
		}
		res.Obs = append(res.Obs, o)
		if p {
			break
		}
	}
	return res
}

// ---------------------------------------------------------------- generator (world)

func genCoinsRaw(r *hlib.Rand) []Pair {
	n := 1 + r.Intn(3)
	if r.Chance(1, 20) {
		n = 0
	}
	out := []Pair{}
	for i := 0; i < n; i++ {
		d := validDenoms[r.Intn(len(validDenoms))]
		if r.Chance(1, 25) {
			d = badDenoms[r.Intn(len(badDenoms))]
		}
		a := genAmount(r)
		if r.Chance(1, 25) {
			a = "-" + a
		}
		out = append(out, Pair{d, a})
	}
	// mostly valid: sorted, distinct
	if !r.Chance(1, 6) {
		seen := map[string]bool{}
		ded := []Pair{}
		for _, p := range out {
			if !seen[p[0]] {
				seen[p[0]] = true
				ded = append(ded, p)
			}
		}
		sort.Slice(ded, func(i, j int) bool { return ded[i][0] < ded[j][0] })
		out = ded
	}
	return out
}

// coins a holder funded with `bal` can probably pay (a fraction of its initial funding), sometimes arbitrary
func genAffordable(r *hlib.Rand, bal []Pair) []Pair {
	if len(bal) == 0 || r.Chance(1, 5) {
		return genCoinsRaw(r)
	}
	out := []Pair{}
	seen := map[string]bool{}
	n := 1 + r.Intn(2)
	for i := 0; i < n; i++ {
		p := bal[r.Intn(len(bal))]
		if seen[p[0]] {
			continue
		}
		seen[p[0]] = true
		v, _ := sdk.NewIntFromString(p[1])
		q := v.QuoRaw(int64(2 + r.Intn(6)))
		if !q.IsPositive() {
			q = sdk.OneInt()
		}
		out = append(out, Pair{p[0], q.String()})
	}
	sort.Slice(out, func(i, j int) bool { return out[i][0] < out[j][0] })
	return out
}

func rewardsJSONRaw(ps []Pair, dropAmountAt int) string {
	parts := []string{}
	for i, p := range ps {
		d, _ := json.Marshal(p[0])
		if i == dropAmountAt {
			parts = append(parts, fmt.Sprintf(`{"denom":%s}`, d))
		} else {
			parts = append(parts, fmt.Sprintf(`{"denom":%s,"amount":"%s"}`, d, p[1]))
		}
	}
	return "[" + strings.Join(parts, ",") + "]"
}

func genWorld(r *hlib.Rand, id, steps int, full bool) WSpec {
	s := WSpec{ID: id, Full: full}
	probs := []int{7, 3, 2, 7, 6, 5}
	for i := 0; i < nTracked; i++ {
		s.Accts = append(s.Accts, genBal(r, probs[i]))
	}
	n := 3 + r.Intn(steps)
	enabled := false
	tick := "begin"
	if full {
		tick = "block"
	}
	for i := 0; i < n; i++ {
		switch x := r.Intn(20); {
		case i == 0 || x < 3: // reward change (+ usually a block afterwards)
			rw := genRewards(r)
			drop := -1
			if len(rw) > 0 && r.Chance(1, 20) {
				drop = r.Intn(len(rw))
			}
			s.Ops = append(s.Ops, WOp{Kind: "param", Key: string(rvtypes.KeyPerBlockReward), Value: rewardsJSONRaw(rw, drop)})
		case x < 5 || !enabled && x < 9:
			e := !enabled || r.Chance(1, 3)
			v := "false"
			if e {
				v = "true"
			}
			enabled = e
			s.Ops = append(s.Ops, WOp{Kind: "param", Key: string(rvtypes.KeyEnableVesting), Value: v})
		case x < 6: // ill-typed / unregistered / malformed
			switch r.Intn(6) {
			case 0:
				s.Ops = append(s.Ops, WOp{Kind: "param", Key: string(rvtypes.KeyEnableVesting), Value: `[{"denom":"atele","amount":"1"}]`})
			case 1:
				s.Ops = append(s.Ops, WOp{Kind: "param", Key: string(rvtypes.KeyPerBlockReward), Value: "true"})
			case 2:
				s.Ops = append(s.Ops, WOp{Kind: "param", Key: string(rvtypes.KeyPerBlockReward), Value: `[{"denom":"atele","amount":"x1"}]`})
			case 3:
				s.Ops = append(s.Ops, WOp{Kind: "param", Key: string(rvtypes.KeyEnableVesting), Value: "{"})
			case 4:
				s.Ops = append(s.Ops, WOp{Kind: "param", Key: string(rvtypes.KeyPerBlockReward), Value: `{"denom":"atele","amount":"1"}`})
			default:
				// an unregistered key: Subspace.Update panics; the history ends there
				s.Ops = append(s.Ops, WOp{Kind: "param", Key: []string{"enablevesting", "Bogus", "PerBlockRewards"}[r.Intn(3)], Value: "true"})
			}
		case x < 9: // another module moves coins (mostly amounts the sender can afford; the pool is refilled / drained too)
			i0, j0 := r.Intn(nTracked), r.Intn(nTracked)
			if r.Chance(1, 3) {
				j0 = 0
			}
			s.Ops = append(s.Ops, WOp{Kind: "send", I: i0, J: j0, Coins: genAffordable(r, s.Accts[i0])})
		case x < 10:
			s.Ops = append(s.Ops, WOp{Kind: "mint", I: 3, Coins: genCoinsRaw(r)})
		case x < 11:
			s.Ops = append(s.Ops, WOp{Kind: "burn", I: 3, Coins: genAffordable(r, s.Accts[3])})
		default:
			s.Ops = append(s.Ops, WOp{Kind: tick})
		}
	}
	s.Ops = append(s.Ops, WOp{Kind: tick})
	return s
}

// directed world histories that run first on every run
func worldCorpus() []WSpec {
	en := WOp{Kind: "param", Key: string(rvtypes.KeyEnableVesting), Value: "true"}
	rw := func(v string) WOp { return WOp{Kind: "param", Key: string(rvtypes.KeyPerBlockReward), Value: v} }
	b := WOp{Kind: "begin"}
	bl := WOp{Kind: "block"}
	empty := [][]Pair{{}, {}, {}, {}, {}, {}}
	return []WSpec{
		// multi-denomination reward given out of denomination order; one denomination dry from the start, one
		// running dry, a refill of the dry one by another module in between
		{ID: -1, Accts: [][]Pair{{{"atele", "25"}, {"ufoo", "100"}}, {}, {}, {{"stake", "50"}}, {}, {}},
			Ops: []WOp{rw(`[{"denom":"ufoo","amount":"10"},{"denom":"stake","amount":"3"},{"denom":"atele","amount":"10"}]`), en, b, b, b, b,
				{Kind: "send", I: 3, J: 0, Coins: []Pair{{"stake", "7"}}}, b, b, b, b}},
		// default parameters, only enabled; the pool holds less than one reward
		{ID: -2, Accts: [][]Pair{{{"atele", "99999999999999999"}}, {{"atele", "5"}}, {}, {}, {}, {}}, Ops: []WOp{en, b, b}},
		// a zero reward amount and a denomination the pool never held
		{ID: -3, Accts: [][]Pair{{{"atele", "7"}}, {}, {}, {}, {}, {}},
			Ops: []WOp{rw(`[{"denom":"atele","amount":"0"},{"denom":"Zed9","amount":"4"}]`), en, b, rw(`[{"denom":"atele","amount":"5"}]`), b, b, b}},
		// whole blocks: the fee collector is swept by distribution in the same BeginBlock
		{ID: -4, Full: true, Accts: [][]Pair{{{"ufoo", "25"}, {"stake", "9"}}, {{"ufoo", "4"}}, {}, {}, {}, {}},
			Ops: []WOp{rw(`[{"denom":"ufoo","amount":"10"},{"denom":"stake","amount":"2"}]`), en, bl, bl, bl, bl}},
		// rejected changes leave the schedule alone; mint / burn by another module change the supply, vesting does not
		{ID: -5, Accts: [][]Pair{{{"ufoo", "30"}}, {}, {}, {{"ufoo", "50"}}, {}, {}},
			Ops: []WOp{rw(`[{"denom":"ufoo","amount":"10"}]`), en, b, rw(`[{"denom":"ufoo","amount":"1"},{"denom":"ufoo","amount":"2"}]`), b,
				rw(`[{"denom":"ufoo"}]`), rw(`[]`), rw(`[{"denom":"1","amount":"2"}]`), {Kind: "mint", I: 3, Coins: []Pair{{"ufoo", "5"}}},
				{Kind: "burn", I: 3, Coins: []Pair{{"ufoo", "8"}}}, b, b}},
		{ID: -6, Accts: empty, Ops: []WOp{en, b, {Kind: "param", Key: "Bogus", Value: "true"}}},
		// a zero-amount entry beside a positive one: the positive denomination still vests; a denomination repeated
		// with another one in between is refused (the earlier list stays in force)
		{ID: -7, Accts: [][]Pair{{{"atele", "7"}, {"ufoo", "9"}}, {}, {}, {}, {}, {}},
			Ops: []WOp{rw(`[{"denom":"atele","amount":"0"},{"denom":"ufoo","amount":"4"}]`), en, b,
				rw(`[{"denom":"ufoo","amount":"5"},{"denom":"atele","amount":"3"},{"denom":"ufoo","amount":"5"}]`), b, b, b}},
	}
}

// ---------------------------------------------------------------- genesis

type RPair struct {
	Denom  string  `json:"denom"`
	Amount *string `json:"amount"` // nil = no amount (sdk.Int{})
}

type GSpec struct {
	ID      int     `json:"id"`
	Enable  bool    `json:"enable"`
	Rewards []RPair `json:"rewards"`
	From    string  `json:"from"` // "" | "bad" | "acct"
	FromBal []Pair  `json:"from_bal"`
	Init    []Pair  `json:"init"`
	Pool    []Pair  `json:"pool"`
}

type GParams struct {
	Enable  bool   `json:"enable"`
	Rewards []Pair `json:"rewards"`
}

type GResult struct {
	Mode     string   `json:"mode"`
	Spec     GSpec    `json:"spec"`
	Denoms   []string `json:"denoms"`
	Validate int      `json:"validate"` // ValidateGenesis: 0 nil, 1 error, 2 panic
	Before   WObs     `json:"before"`
	Init     int      `json:"init"` // InitGenesis: 0 returned, 2 panicked
	Panic    string   `json:"panic,omitempty"`
	After    WObs     `json:"after"`
	// only when InitGenesis returned:
	Exported     *GParams `json:"exported,omitempty"`
	ExportedFrom string   `json:"exported_from"`
	ExportedInit int      `json:"exported_init"` // len(InitReward) of the export
	Revalidate   int      `json:"revalidate"`    // ValidateGenesis(export)
	Reinit       int      `json:"reinit"`        // InitGenesis(export)
	After2       *WObs    `json:"after2,omitempty"`
}

func classOf(p bool, err error) int {
	if p {
		return 2
	}
	if err != nil {
		return 1
	}
	return 0
}

func runGenesis(a *app.Teleport, base sdk.Context, s GSpec) GResult {
	ctx, _ := base.CacheContext()
	res := GResult{Mode: "genesis", Spec: s}
	dset := map[string]bool{}
	for _, d := range validDenoms {
		dset[d] = true
	}
	for _, p := range s.Rewards {
		if sdk.ValidateDenom(p.Denom) == nil {
			dset[p.Denom] = true
		}
	}
	for _, p := range s.Init {
		if sdk.ValidateDenom(p[0]) == nil {
			dset[p[0]] = true
		}
	}
	for d := range dset {
		res.Denoms = append(res.Denoms, d)
	}
	sort.Strings(res.Denoms)
	ensureModuleAccounts(ctx, a)
	addrs := trackedAddrs(a)
	fund := func(i int, ps []Pair) {
		cs := toCoins(ps)
		if cs.Empty() {
			return
		}
		if err := a.BankKeeper.MintCoins(ctx, "aggregate", cs); err != nil {
			panic(err)
		}
		if err := a.BankKeeper.SendCoins(ctx, addrs[3], addrs[i], cs); err != nil {
			panic(err)
		}
	}
	fund(0, s.Pool)
	fund(4, s.FromBal)

	gs := rvtypes.GenesisState{Params: rvtypes.Params{EnableVesting: s.Enable, PerBlockReward: sdk.Coins{}}}
	for _, p := range s.Rewards {
		c := sdk.Coin{Denom: p.Denom}
		if p.Amount != nil {
			v, ok := sdk.NewIntFromString(*p.Amount)
			if !ok {
				panic("bad amount in spec")
			}
			c.Amount = v
		}
		gs.Params.PerBlockReward = append(gs.Params.PerBlockReward, c)
	}
	switch s.From {
	case "":
	case "bad":
		gs.From = "teleport1notanaddress"
	case "acct":
		gs.From = addrs[4].String()
	default:
		panic("bad from kind")
	}
	init, ok := rawCoins(s.Init)
	if !ok {
		panic("bad init amount")
	}
	gs.InitReward = init

	var err error
	p, _ := hlib.Catch(func() { err = rvtypes.ValidateGenesis(&gs) })
	res.Validate = classOf(p, err)

	res.Before, _ = observe(ctx, a, res.Denoms)
	res.Before.RestSame = true
	_, restB := observe(ctx, a, res.Denoms)
	ictx, _ := ctx.CacheContext()
	p, val := hlib.Catch(func() { a.RVestingKeeper.InitGenesis(ictx, &gs) })
	if p {
		res.Init = 2
		res.Panic = val
		res.After = res.Before
		return res
	}
	var restA string
	res.After, restA = observe(ictx, a, res.Denoms)
	res.After.RestSame = restA == restB

	var exp *rvtypes.GenesisState
	p, _ = hlib.Catch(func() { exp = a.RVestingKeeper.ExportGenesis(ictx) })
	if p || exp == nil {
		res.Reinit = 2
		return res
	}
	gp := GParams{Enable: exp.Params.EnableVesting, Rewards: []Pair{}}
	for _, c := range exp.Params.PerBlockReward {
		gp.Rewards = append(gp.Rewards, Pair{c.Denom, c.Amount.String()})
	}
	res.Exported = &gp
	res.ExportedFrom = exp.From
	res.ExportedInit = len(exp.InitReward)
	p, _ = hlib.Catch(func() { err = rvtypes.ValidateGenesis(exp) })
	res.Revalidate = classOf(p, err)
	// the exported state travels as JSON: round-trip it through the module's codec path
	bz := a.AppCodec().MustMarshalJSON(exp)
	var back rvtypes.GenesisState
	a.AppCodec().MustUnmarshalJSON(bz, &back)
	rctx, _ := ictx.CacheContext()
	p, _ = hlib.Catch(func() { a.RVestingKeeper.InitGenesis(rctx, &back) })
	res.Reinit = classOf(p, nil)
	if !p {
		o2, rest2 := observe(rctx, a, res.Denoms)
		o2.RestSame = rest2 == restA
		res.After2 = &o2
	}
	return res
}

func strp(s string) *string { return &s }

func genGenesis(r *hlib.Rand, id int) GSpec {
	s := GSpec{ID: id, Enable: r.Bool(), Pool: genBal(r, 3)}
	for _, p := range genRewards(r) {
		rp := RPair{Denom: p[0], Amount: strp(p[1])}
		if r.Chance(1, 30) {
			rp.Amount = nil
		}
		s.Rewards = append(s.Rewards, rp)
	}
	if s.Rewards == nil {
		s.Rewards = []RPair{}
	}
	switch x := r.Intn(10); {
	case x < 3:
		s.From = ""
	case x < 4:
		s.From = "bad"
	default:
		s.From = "acct"
	}
	s.Init = genCoinsRaw(r)
	if r.Chance(1, 6) {
		s.Init = []Pair{}
	}
	// the funding account: mostly covers InitReward, sometimes short or empty (C15 known finding
	// rvesting-genesis-unfunded-from: InitGenesis panics)
	s.FromBal = []Pair{}
	if s.From == "acct" && !r.Chance(1, 8) {
		for _, p := range s.Init {
			if sdk.ValidateDenom(p[0]) != nil || strings.HasPrefix(p[1], "-") {
				continue
			}
			amt := p[1]
			if r.Chance(1, 8) && amt != "0" {
				v, _ := sdk.NewIntFromString(amt)
				amt = v.SubRaw(1).String()
			} else if r.Chance(1, 3) {
				v, _ := sdk.NewIntFromString(amt)
				amt = v.AddRaw(int64(r.Intn(50))).String()
			}
			dup := false
			for _, q := range s.FromBal {
				if q[0] == p[0] {
					dup = true
				}
			}
			if !dup {
				s.FromBal = append(s.FromBal, Pair{p[0], amt})
			}
		}
	}
	return s
}

func genesisCorpus() []GSpec {
	return []GSpec{
		{ID: -1, Enable: false, Rewards: []RPair{{"atele", strp("100000000000000000")}}, From: "", FromBal: []Pair{}, Init: []Pair{}, Pool: []Pair{}},
		{ID: -2, Enable: true, Rewards: []RPair{{"ufoo", strp("10")}, {"atele", strp("3")}}, From: "acct",
			FromBal: []Pair{{"atele", "1000"}, {"ufoo", "77"}}, Init: []Pair{{"atele", "1000"}, {"ufoo", "70"}}, Pool: []Pair{{"ufoo", "5"}}},
		{ID: -3, Enable: false, Rewards: []RPair{{"atele", strp("5")}, {"atele", strp("7")}}, From: "", FromBal: []Pair{}, Init: []Pair{}, Pool: []Pair{}},
		{ID: -4, Enable: true, Rewards: []RPair{{"stake", strp("1")}}, From: "acct", FromBal: []Pair{{"stake", "4"}}, Init: []Pair{{"stake", "5"}}, Pool: []Pair{}},
		{ID: -5, Enable: true, Rewards: []RPair{{"stake", strp("1")}}, From: "", FromBal: []Pair{}, Init: []Pair{{"stake", "5"}}, Pool: []Pair{{"stake", "2"}}},
	}
}
