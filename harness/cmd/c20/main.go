// c20: drives the real x/rvesting BeginBlocker and the real parameter-change
// path (params proposal handler -> Subspace.Update -> validatePerBlockReward)
// over generated block histories and records the projected observables.
package main

import (
	"encoding/json"
	"flag"
	"fmt"
	"math/big"
	"sort"
	"strings"
	"testing"

	sdk "github.com/cosmos/cosmos-sdk/types"
	authtypes "github.com/cosmos/cosmos-sdk/x/auth/types"
	banktypes "github.com/cosmos/cosmos-sdk/x/bank/types"
	distrtypes "github.com/cosmos/cosmos-sdk/x/distribution/types"
	"github.com/cosmos/cosmos-sdk/x/params"
	proposaltypes "github.com/cosmos/cosmos-sdk/x/params/types/proposal"
	tmproto "github.com/tendermint/tendermint/proto/tendermint/types"

	"github.com/teleport-network/teleport/app"
	rvesting "github.com/teleport-network/teleport/x/rvesting/module"
	rvtypes "github.com/teleport-network/teleport/x/rvesting/types"
	xibctesting "github.com/teleport-network/teleport/x/xibc/testing"

	"verifharness/hlib"
)

type Pair [2]string // denom, amount (decimal)

type Change struct {
	Rewards []Pair `json:"rewards,omitempty"` // set PerBlockReward (nil = no change)
	HasRew  bool   `json:"has_rewards"`
	Enable  *bool  `json:"enable,omitempty"`
}

type Spec struct {
	ID    int      `json:"id"`
	Full  bool     `json:"full,omitempty"` // run through real blocks (app.BeginBlock on a TestChain) instead of calling BeginBlocker directly
	Pool  []Pair   `json:"pool"`
	Fee   []Pair   `json:"fee"`
	Other []Pair   `json:"other"`
	Steps []Change `json:"steps"`
}

type StepObs struct {
	RewardsClass int    `json:"rewards_class"` // -1 none, 0 accepted, 1 rejected, 2 panic
	EnableClass  int    `json:"enable_class"`
	Class        int    `json:"class"` // BeginBlocker: 0 returned, 2 panicked
	Panic        string `json:"panic,omitempty"`
	Pool         []Pair `json:"pool"`
	Fee          []Pair `json:"fee"`
	RestSame     bool   `json:"rest_same"` // every other account's balances and the total supply unchanged
}

type Result struct {
	Spec   Spec      `json:"spec"`
	Denoms []string  `json:"denoms"`
	Obs    []StepObs `json:"obs"`
}

var validDenoms = []string{"atele", "stake", "ufoo", "a/b-c", "Zed9"}
var badDenoms = []string{"1", "ab", "9abc", "x y z", "a", "-abc", strings.Repeat("a", 129), "abc!", "a/b:c.d_e-f", "ab\n", "abc\n"}

func genAmount(r *hlib.Rand) string {
	switch r.Intn(8) {
	case 0:
		return "0"
	case 1:
		return "1"
	case 2:
		return fmt.Sprint(r.Intn(10))
	case 3:
		return new(big.Int).Lsh(big.NewInt(1), uint(r.Intn(200))).String()
	case 4:
		return "100000000000000000"
	default:
		return fmt.Sprint(r.Intn(1000))
	}
}

func genRewards(r *hlib.Rand) []Pair {
	n := 1 + r.Intn(4)
	if r.Chance(1, 25) {
		n = 0
	}
	out := []Pair{}
	for i := 0; i < n; i++ {
		d := validDenoms[r.Intn(len(validDenoms))]
		if r.Chance(1, 10) {
			d = badDenoms[r.Intn(len(badDenoms))]
		}
		if r.Chance(1, 40) {
			d = ""
		}
		a := genAmount(r)
		if r.Chance(1, 15) {
			a = "-" + a
		}
		out = append(out, Pair{d, a})
	}
	// mostly-valid stream: three quarters of the lists are de-duplicated
	if !r.Chance(1, 4) {
		seen := map[string]bool{}
		ded := []Pair{}
		for _, p := range out {
			if !seen[p[0]] {
				seen[p[0]] = true
				ded = append(ded, p)
			}
		}
		out = ded
	}
	return out
}

func genBal(r *hlib.Rand, p int) []Pair {
	out := []Pair{}
	for _, d := range validDenoms {
		if r.Chance(p, 10) {
			out = append(out, Pair{d, genAmount(r)})
		}
	}
	return out
}

func genSpec(r *hlib.Rand, id, steps int) Spec {
	s := Spec{ID: id, Pool: genBal(r, 7), Fee: genBal(r, 3), Other: genBal(r, 5)}
	n := 2 + r.Intn(steps)
	enabled := false
	for i := 0; i < n; i++ {
		c := Change{}
		if i == 0 || r.Chance(1, 3) {
			c.Rewards = genRewards(r)
			c.HasRew = true
		}
		if (!enabled && r.Chance(2, 3)) || r.Chance(1, 8) {
			e := !enabled || r.Chance(1, 2)
			if enabled && r.Chance(1, 2) {
				e = false
			}
			c.Enable = &e
			enabled = e
		}
		s.Steps = append(s.Steps, c)
	}
	return s
}

func toCoins(ps []Pair) sdk.Coins {
	cs := sdk.Coins{}
	for _, p := range ps {
		a, ok := sdk.NewIntFromString(p[1])
		if !ok {
			panic("bad amount " + p[1])
		}
		if a.IsPositive() {
			cs = cs.Add(sdk.NewCoin(p[0], a))
		}
	}
	return cs
}

func rewardsJSON(ps []Pair) string {
	type c struct {
		Denom  string `json:"denom"`
		Amount string `json:"amount"`
	}
	l := []c{}
	for _, p := range ps {
		l = append(l, c{p[0], p[1]})
	}
	bz, _ := json.Marshal(l)
	return string(bz)
}

type snapshot struct {
	pool, fee map[string]string
	rest      string
}

// snap reads every balance and the supply.  withDistr: the distribution module account is counted together
// with the fee collector (in a real block the distribution BeginBlocker, which runs after rvesting, sweeps the
// fee collector into it).
func snap(ctx sdk.Context, a *app.Teleport, withDistr bool) snapshot {
	poolAddr := a.AccountKeeper.GetModuleAddress(rvtypes.ModuleName)
	feeAddr := a.AccountKeeper.GetModuleAddress(authtypes.FeeCollectorName)
	distrAddr := a.AccountKeeper.GetModuleAddress(distrtypes.ModuleName)
	s := snapshot{pool: map[string]string{}, fee: map[string]string{}}
	var rest []string
	a.BankKeeper.IterateAllBalances(ctx, func(addr sdk.AccAddress, c sdk.Coin) bool {
		switch {
		case addr.Equals(poolAddr):
			s.pool[c.Denom] = c.Amount.String()
		case addr.Equals(feeAddr), withDistr && addr.Equals(distrAddr):
			prev, ok := sdk.NewIntFromString(s.fee[c.Denom])
			if !ok {
				prev = sdk.ZeroInt()
			}
			s.fee[c.Denom] = prev.Add(c.Amount).String()
		default:
			rest = append(rest, addr.String()+"/"+c.String())
		}
		return false
	})
	a.BankKeeper.IterateTotalSupply(ctx, func(c sdk.Coin) bool {
		rest = append(rest, "supply/"+c.String())
		return false
	})
	sort.Strings(rest)
	s.rest = strings.Join(rest, ";")
	return s
}

func project(m map[string]string, denoms []string) []Pair {
	out := []Pair{}
	for _, d := range denoms {
		v, ok := m[d]
		if !ok {
			v = "0"
		}
		out = append(out, Pair{d, v})
	}
	return out
}

func runSpec(a *app.Teleport, base sdk.Context, s Spec) Result {
	ctx, _ := base.CacheContext()
	var coord *xibctesting.Coordinator
	var chain *xibctesting.TestChain
	if s.Full {
		// starting a chain runs InitChain and the first BeginBlock of every module: a panic there is the
		// observation "BeginBlocker panicked" for the first block of this history
		if p, val := hlib.Catch(func() {
			coord = xibctesting.NewCoordinator(&testing.T{}, 1)
			chain = coord.GetChain(xibctesting.GetChainID(0))
		}); p {
			res := Result{Spec: s, Denoms: append([]string{}, validDenoms...)}
			sort.Strings(res.Denoms)
			zero := project(map[string]string{}, res.Denoms)
			res.Obs = []StepObs{{RewardsClass: -1, EnableClass: -1, Class: 2, Panic: "chain start: " + val, Pool: zero, Fee: zero, RestSame: true}}
			return res
		}
		a = chain.App
		ctx = chain.GetContext()
	}
	res := Result{Spec: s}
	// denominations observed: every valid denomination of the universe plus those in the spec that the bank accepts
	dset := map[string]bool{}
	for _, d := range validDenoms {
		dset[d] = true
	}
	for _, st := range s.Steps {
		for _, p := range st.Rewards {
			if sdk.ValidateDenom(p[0]) == nil {
				dset[p[0]] = true
			}
		}
	}
	for d := range dset {
		res.Denoms = append(res.Denoms, d)
	}
	sort.Strings(res.Denoms)

	fund := func(module string, ps []Pair) {
		cs := toCoins(ps)
		if cs.Empty() {
			return
		}
		if err := a.BankKeeper.MintCoins(ctx, "aggregate", cs); err != nil {
			panic(err)
		}
		if err := a.BankKeeper.SendCoinsFromModuleToModule(ctx, "aggregate", module, cs); err != nil {
			panic(err)
		}
	}
	fund(rvtypes.ModuleName, s.Pool)
	fund(authtypes.FeeCollectorName, s.Fee)
	if cs := toCoins(s.Other); !cs.Empty() {
		if err := a.BankKeeper.MintCoins(ctx, "aggregate", cs); err != nil {
			panic(err)
		}
		other := sdk.AccAddress([]byte("verif-other-account-"))
		if err := a.BankKeeper.SendCoinsFromModuleToAccount(ctx, "aggregate", other, cs); err != nil {
			panic(err)
		}
	}
	handler := params.NewParamChangeProposalHandler(a.ParamsKeeper)
	change := func(key, value string) int {
		var err error
		// executed the way gov's EndBlocker does: cache context, written only on success, no recover
		cctx, write := ctx.CacheContext()
		p, _ := hlib.Catch(func() {
			err = handler(cctx, proposaltypes.NewParameterChangeProposal("t", "d",
				[]proposaltypes.ParamChange{proposaltypes.NewParamChange(rvtypes.ModuleName, key, value)}))
		})
		if p {
			return 2
		}
		if err != nil {
			return 1
		}
		write()
		return 0
	}
	for _, st := range s.Steps {
		o := StepObs{RewardsClass: -1, EnableClass: -1}
		if st.HasRew {
			o.RewardsClass = change(string(rvtypes.KeyPerBlockReward), rewardsJSON(st.Rewards))
		}
		if st.Enable != nil {
			v := "false"
			if *st.Enable {
				v = "true"
			}
			o.EnableClass = change(string(rvtypes.KeyEnableVesting), v)
		}
		before := snap(ctx, a, s.Full)
		var p bool
		var val string
		if s.Full {
			// end the current block and begin the next one: app.BeginBlock runs every module's BeginBlocker
			// (not coord.CommitBlock: the coordinator's IncrementTime calls BeginBlock a second time for the same
			// height, which is an artefact of the test coordinator, not of the chain)
			p, val = hlib.Catch(func() { chain.App.Commit(); chain.NextBlock() })
			ctx = chain.GetContext()
		} else {
			p, val = hlib.Catch(func() { rvesting.BeginBlocker(ctx, a.RVestingKeeper) })
		}
		after := snap(ctx, a, s.Full)
		if p {
			o.Class = 2
			o.Panic = val
		}
		o.Pool = project(after.pool, res.Denoms)
		o.Fee = project(after.fee, res.Denoms)
		o.RestSame = before.rest == after.rest
		res.Obs = append(res.Obs, o)
		if p {
			break
		}
	}
	return res
}

func main() {
	seed := flag.Uint64("seed", 1, "PRNG seed")
	n := flag.Int("n", 50, "number of generated histories")
	steps := flag.Int("steps", 8, "max extra steps per history")
	in := flag.String("in", "", "replay: file of specs (JSON lines) instead of generating")
	out := flag.String("out", "/dev/stdout", "output file (JSON lines)")
	mode := flag.String("mode", "hist", "hist: parameter changes + BeginBlocker (pool / fee collector); world: interleaved with other modules' bank operations, whole blocks, raw params store; genesis: ValidateGenesis / InitGenesis / ExportGenesis")
	flag.Parse()

	// the application is started from its DEFAULT genesis (InitChain, then the first BeginBlock): a panic here is
	// itself an observation (input = the default genesis state), not a harness failure
	var a *app.Teleport
	if p, val := hlib.Catch(func() { a = app.Setup(false, nil) }); p {
		w := hlib.NewOut(*out)
		w.Emit(map[string]interface{}{"mode": "setup", "setup_panic": val})
		w.Close()
		return
	}
	base := a.BaseApp.NewContext(false, tmproto.Header{Height: 1, ChainID: "teleport_9000-1"})
	_ = banktypes.ModuleName

	if *mode == "world" || *mode == "genesis" {
		runOther(a, base, *mode, *in, *out, *seed, *n, *steps)
		return
	}
	var specs []Spec
	if *in != "" {
		hlib.ReadLines(*in, func(line []byte) {
			var s Spec
			// accept either a bare spec or a result line with a "spec" member
			var wrap struct {
				Spec *Spec `json:"spec"`
			}
			if err := json.Unmarshal(line, &wrap); err == nil && wrap.Spec != nil {
				specs = append(specs, *wrap.Spec)
				return
			}
			if err := json.Unmarshal(line, &s); err != nil {
				panic(err)
			}
			specs = append(specs, s)
		})
	} else {
		root := hlib.NewRand(*seed)
		for i := 0; i < *n; i++ {
			sp := genSpec(root.Fork(uint64(i)), i, *steps)
			sp.Full = i%10 == 9
			specs = append(specs, sp)
		}
	}
	w := hlib.NewOut(*out)
	defer w.Close()
	for _, s := range specs {
		w.Emit(runSpec(a, base, s))
	}
}

// modes "world" and "genesis" (world.go): directed corpus first, then generated cases
func runOther(a *app.Teleport, base sdk.Context, mode, in, out string, seed uint64, n, steps int) {
	w := hlib.NewOut(out)
	defer w.Close()
	root := hlib.NewRand(seed ^ 0x5eed0c20)
	switch mode {
	case "world":
		var specs []WSpec
		if in != "" {
			hlib.ReadLines(in, func(line []byte) {
				var wrap struct {
					Spec *WSpec `json:"spec"`
				}
				if err := json.Unmarshal(line, &wrap); err == nil && wrap.Spec != nil && wrap.Spec.Ops != nil {
					specs = append(specs, *wrap.Spec)
					return
				}
				var s WSpec
				if err := json.Unmarshal(line, &s); err != nil {
					panic(err)
				}
				specs = append(specs, s)
			})
		} else {
			specs = worldCorpus()
			for i := 0; i < n; i++ {
				specs = append(specs, genWorld(root.Fork(uint64(i)), i, steps, i%8 == 7))
			}
		}
		for _, s := range specs {
			w.Emit(runWorld(a, base, s))
		}
	case "genesis":
		var specs []GSpec
		if in != "" {
			hlib.ReadLines(in, func(line []byte) {
				var wrap struct {
					Spec *GSpec `json:"spec"`
				}
				if err := json.Unmarshal(line, &wrap); err == nil && wrap.Spec != nil && wrap.Spec.Rewards != nil {
					specs = append(specs, *wrap.Spec)
					return
				}
				var s GSpec
				if err := json.Unmarshal(line, &s); err != nil {
					panic(err)
				}
				specs = append(specs, s)
			})
		} else {
			specs = genesisCorpus()
			for i := 0; i < n; i++ {
				specs = append(specs, genGenesis(root.Fork(uint64(i)+1000000), i))
			}
		}
		for _, s := range specs {
			w.Emit(runGenesis(a, base, s))
		}
	}
}
