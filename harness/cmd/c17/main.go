package main

import (
	"encoding/json"
	"fmt"
	"math/big"
	"os"
	"strings"
	"time"

	ethabi "github.com/ethereum/go-ethereum/accounts/abi"

	govcontract "github.com/teleport-network/teleport/syscontracts/gov"
	stakingcontract "github.com/teleport-network/teleport/syscontracts/staking"
)

var (
	stakingABI ethabi.ABI
	govABI     ethabi.ABI
)

func init() {
	var err error
	stakingABI, err = ethabi.JSON(strings.NewReader(stakingcontract.StakingMetaData.ABI))
	must(err)
	govABI, err = ethabi.JSON(strings.NewReader(govcontract.GovMetaData.ABI))
	must(err)
}

func smoke() {
	t0 := time.Now()
	e := NewEnv()
	fmt.Println("setup", time.Since(t0))
	pre := e.Snapshot(true)
	data, err := stakingABI.Pack("delegate", e.valOper[0].String(), big.NewInt(12345))
	must(err)
	t1 := time.Now()
	out := e.SendEth(e.eoas[0], &stakingAddr, data, 2_000_000)
	fmt.Println("tx", time.Since(t1), out.Class, out.VmErr, out.Log, len(out.Logs))
	post := e.Snapshot(true)
	bz, _ := json.Marshal(pre)
	fmt.Println(string(bz))
	bz, _ = json.Marshal(post)
	fmt.Println(string(bz))
	// nested through proxy 0
	payload := append([]byte{0}, stakingAddr.Bytes()...)
	payload = append(payload, data...)
	out = e.SendEth(e.eoas[1], &e.proxies[0], payload, 2_000_000)
	fmt.Println("proxy tx", out.Class, out.VmErr, out.Log, len(out.Logs))
	// failing: unknown validator
	data, _ = stakingABI.Pack("delegate", "nonsense", big.NewInt(5))
	out = e.SendEth(e.eoas[0], &stakingAddr, data, 2_000_000)
	fmt.Println("bad val", out.Class, out.VmErr, out.Log, len(out.Logs))
	// undelegate huge
	data, _ = stakingABI.Pack("undelegate", e.valOper[0].String(), new(big.Int).Sub(new(big.Int).Lsh(big.NewInt(1), 256), big.NewInt(1)))
	out = e.SendEth(e.eoas[0], &stakingAddr, data, 2_000_000)
	fmt.Println("undelegate huge", out.Class, out.VmErr, out.Log, len(out.Logs))
	// emitter look-alike
	ev := stakingABI.Events["Delegated"]
	evData, _ := ev.Inputs.Pack(e.eoas[2].addr, e.valOper[0].String(), big.NewInt(777))
	pl := append([]byte{1}, ev.ID.Bytes()...)
	pl = append(pl, evData...)
	out = e.SendEth(e.eoas[0], &e.emitter, pl, 2_000_000)
	fmt.Println("emitter", out.Class, out.VmErr, out.Log, len(out.Logs), out.Logs[0].Address, out.Logs[0].Topics)
	// delegatecall into staking
	data, _ = stakingABI.Pack("delegate", e.valOper[1].String(), big.NewInt(999))
	payload = append([]byte{1}, stakingAddr.Bytes()...)
	payload = append(payload, data...)
	out = e.SendEth(e.eoas[1], &e.proxies[1], payload, 2_000_000)
	fmt.Println("delegatecall", out.Class, out.VmErr, out.Log, len(out.Logs), out.Logs[0].Address)
	t2 := time.Now()
	e.NextBlock(5 * time.Second)
	fmt.Println("block", time.Since(t2))
	post = e.Snapshot(true)
	bz, _ = json.Marshal(post)
	fmt.Println(string(bz))
}

func main() {
	if len(os.Args) > 1 && os.Args[1] == "smoke" {
		smoke()
		return
	}
}
