// c17: correspondence harness of property C17 (system-contract staking / governance adapters).
//
//	-mode hook : the real PostTxProcessing hooks on generated receipts with a recording message router
//	-mode app  : Ethereum transactions through DeliverTx on a real application (three bonded validators)
//
// One JSON line per case: the input spec and the projected observables.
package main

import (
	"encoding/json"
	"flag"
	"strings"

	ethabi "github.com/ethereum/go-ethereum/accounts/abi"
	"github.com/ethereum/go-ethereum/common"

	govcontract "github.com/teleport-network/teleport/syscontracts/gov"
	stakingcontract "github.com/teleport-network/teleport/syscontracts/staking"

	"verifharness/hlib"
)

var (
	stakingABI ethabi.ABI
	govABI     ethabi.ABI
)

func init() {
	var err error
	stakingABI, err = ethabi.JSON(strings.NewReader(stakingcontract.StakingMetaData.ABI))
	must(err)
	govABI, err = ethabi.JSON(strings.NewReader(govcontract.GovMetaData.ABI))
	must(err)
}

func main() {
	mode := flag.String("mode", "hook", "hook | app")
	seed := flag.Uint64("seed", 1, "PRNG seed")
	n := flag.Int("n", 50, "number of generated cases")
	from := flag.Int("from", 0, "index of the first generated case (sharding)")
	steps := flag.Int("steps", 10, "app mode: max extra steps per history")
	in := flag.String("in", "", "replay: file of specs (JSON lines) instead of generating")
	corpus := flag.Bool("corpus", false, "app mode: run the directed corpus (corpus.go) instead of generating")
	sweep := flag.Bool("sweep", false, "app mode: run the exhaustive depth-2 call-shape sweep (corpus.go) instead of generating")
	out := flag.String("out", "/dev/stdout", "output file (JSON lines)")
	flag.Parse()

	w := hlib.NewOut(*out)
	defer w.Close()
	root := hlib.NewRand(*seed)

	switch *mode {
	case "hook":
		h := NewHookEnv()
		var valid []string
		for _, v := range h.env.valOper {
			valid = append(valid, v.String())
		}
		others := append([]common.Address{}, h.env.proxies...)
		others = append(others, h.env.emitter, h.env.eoas[0].addr, common.Address{})
		var specs []HookSpec
		if *in != "" {
			hlib.ReadLines(*in, func(line []byte) {
				var wrap struct {
					Spec *HookSpec `json:"spec"`
				}
				if err := json.Unmarshal(line, &wrap); err == nil && wrap.Spec != nil {
					specs = append(specs, *wrap.Spec)
					return
				}
				var s HookSpec
				must(json.Unmarshal(line, &s))
				specs = append(specs, s)
			})
		} else {
			for i := *from; i < *from+*n; i++ {
				specs = append(specs, genHookSpec(root.Fork(uint64(i)), i, valid, others))
			}
		}
		w.Emit(map[string]interface{}{"env": h.env.info()})
		for _, s := range specs {
			w.Emit(h.Run(s))
		}
	case "app":
		var specs []Spec
		if *in != "" {
			hlib.ReadLines(*in, func(line []byte) {
				var wrap struct {
					Spec *Spec `json:"spec"`
				}
				if err := json.Unmarshal(line, &wrap); err == nil && wrap.Spec != nil {
					specs = append(specs, *wrap.Spec)
					return
				}
				var s Spec
				must(json.Unmarshal(line, &s))
				specs = append(specs, s)
			})
		} else {
			e := NewEnv()
			var valStr []string
			for _, v := range e.valOper {
				valStr = append(valStr, v.String())
			}
			var eoas []common.Address
			for _, x := range e.eoas {
				eoas = append(eoas, x.addr)
			}
			if *sweep {
				*corpus = true
			}
			if *corpus {
				all := corpusSpecs(valStr, eoas)
				if *sweep {
					all = sweepSpecs(valStr, eoas)
				}
				for i := *from; i < *from+*n && i < len(all); i++ {
					specs = append(specs, all[i])
				}
			}
			for i := *from; i < *from+*n && !*corpus; i++ {
				specs = append(specs, genSpec(root.Fork(uint64(1000000+i)), i, *steps, valStr, eoas))
			}
		}
		for _, s := range specs {
			w.Emit(runSpec(s))
		}
	default:
		panic("unknown mode")
	}
}
