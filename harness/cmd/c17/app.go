// Real-application environment of the C17 harness: a Teleport app with three bonded validators (exchange rate 1),
// funded externally owned accounts, helper contracts (hand-assembled byte code) and governance proposals;
// Ethereum transactions go through BaseApp.DeliverTx (ante handler + ethermint ApplyTransaction + hooks).
package main

import (
	"crypto/sha256"
	"encoding/json"
	"fmt"
	"math/big"
	"sort"
	"strings"
	"time"

	"github.com/cosmos/cosmos-sdk/client"
	codectypes "github.com/cosmos/cosmos-sdk/codec/types"
	cryptocodec "github.com/cosmos/cosmos-sdk/crypto/codec"
	"github.com/cosmos/cosmos-sdk/crypto/keys/ed25519"
	"github.com/cosmos/cosmos-sdk/simapp"
	sdk "github.com/cosmos/cosmos-sdk/types"
	authtypes "github.com/cosmos/cosmos-sdk/x/auth/types"
	banktypes "github.com/cosmos/cosmos-sdk/x/bank/types"
	distrtypes "github.com/cosmos/cosmos-sdk/x/distribution/types"
	govtypes "github.com/cosmos/cosmos-sdk/x/gov/types"
	stakingtypes "github.com/cosmos/cosmos-sdk/x/staking/types"
	"github.com/ethereum/go-ethereum/common"
	ethtypes "github.com/ethereum/go-ethereum/core/types"
	"github.com/ethereum/go-ethereum/crypto"
	abci "github.com/tendermint/tendermint/abci/types"
	"github.com/tendermint/tendermint/libs/log"
	tmproto "github.com/tendermint/tendermint/proto/tendermint/types"
	dbm "github.com/tendermint/tm-db"
	"github.com/tharsis/ethermint/crypto/ethsecp256k1"
	"github.com/tharsis/ethermint/encoding"
	"github.com/tharsis/ethermint/tests"
	ethermint "github.com/tharsis/ethermint/types"
	evmtypes "github.com/tharsis/ethermint/x/evm/types"
	feemarkettypes "github.com/tharsis/ethermint/x/feemarket/types"

	"github.com/teleport-network/teleport/app"
	cmdcfg "github.com/teleport-network/teleport/cmd/config"
	"github.com/teleport-network/teleport/syscontracts"
	teletypes "github.com/teleport-network/teleport/types"

	"verifharness/hlib"
)

const (
	nVals    = 3
	nEOAs    = 3
	nProxies = 3
	nBatches = 2
	chainID  = "teleport_9000-1"
)

var (
	valTokens   = new(big.Int).Exp(big.NewInt(10), big.NewInt(18), nil) // genesis tokens of each validator
	eoaFunds    = new(big.Int).Exp(big.NewInt(10), big.NewInt(24), nil)
	helperFunds = new(big.Int).Exp(big.NewInt(10), big.NewInt(21), nil)
	stakingAddr = common.HexToAddress(syscontracts.StakingContractAddress)
	govAddr     = common.HexToAddress(syscontracts.GovContractAddress)
)

type eoa struct {
	priv *ethsecp256k1.PrivKey
	addr common.Address
}

type Env struct {
	app     *app.Teleport
	txCfg   client.TxConfig
	header  tmproto.Header
	denom   string
	eoas    []eoa
	faucet  eoa
	genDel  sdk.AccAddress
	valOper []sdk.ValAddress
	valCons []sdk.ConsAddress
	proxies []common.Address
	batches []common.Address
	emitter common.Address
	created []common.Address // addresses created by constructor-caller transactions (tracked for counters)
	inBlock bool
}

func detKey(tag string) *ethsecp256k1.PrivKey {
	h := sha256.Sum256([]byte("verif-c17-" + tag))
	return &ethsecp256k1.PrivKey{Key: h[:]}
}

func mkEOA(tag string) eoa {
	p := detKey(tag)
	return eoa{priv: p, addr: common.BytesToAddress(p.PubKey().Address().Bytes())}
}

func must(err error) {
	if err != nil {
		panic(err)
	}
}

// NewEnv builds the application and its genesis.
func NewEnv() *Env {
	sdk.DefaultPowerReduction = teletypes.PowerReduction
	cfg := sdk.GetConfig()
	cmdcfg.SetBech32Prefixes(cfg)

	e := &Env{denom: sdk.DefaultBondDenom}
	encCdc := encoding.MakeConfig(app.ModuleBasics)
	e.txCfg = encCdc.TxConfig
	a := app.NewTeleport(log.NewNopLogger(), dbm.NewMemDB(), nil, true, map[int64]bool{}, app.DefaultNodeHome, 5, encCdc, simapp.EmptyAppOptions{})
	e.app = a
	gen := app.NewDefaultGenesisState()

	for i := 0; i < nEOAs; i++ {
		e.eoas = append(e.eoas, mkEOA(fmt.Sprintf("eoa-%d", i)))
	}
	e.faucet = mkEOA("faucet")
	e.genDel = sdk.AccAddress(mkEOA("genesis-delegator").addr.Bytes())

	// validators, all bonded, tokens = shares (exchange rate 1)
	var validators []stakingtypes.Validator
	var delegations []stakingtypes.Delegation
	bond := sdk.NewIntFromBigInt(valTokens)
	for i := 0; i < nVals; i++ {
		pk := ed25519.GenPrivKeyFromSecret([]byte(fmt.Sprintf("verif-c17-val-%d", i))).PubKey()
		pkAny, err := codectypes.NewAnyWithValue(pk)
		must(err)
		oper := sdk.ValAddress(pk.Address())
		e.valOper = append(e.valOper, oper)
		e.valCons = append(e.valCons, sdk.ConsAddress(pk.Address()))
		validators = append(validators, stakingtypes.Validator{
			OperatorAddress: oper.String(), ConsensusPubkey: pkAny, Jailed: false, Status: stakingtypes.Bonded,
			Tokens: bond, DelegatorShares: bond.ToDec(), Description: stakingtypes.Description{},
			UnbondingHeight: 0, UnbondingTime: time.Unix(0, 0).UTC(),
			Commission:        stakingtypes.NewCommission(sdk.ZeroDec(), sdk.ZeroDec(), sdk.ZeroDec()),
			MinSelfDelegation: sdk.ZeroInt(),
		})
		delegations = append(delegations, stakingtypes.NewDelegation(e.genDel, oper, bond.ToDec()))
		_ = cryptocodec.FromTmPubKeyInterface
	}
	sp := stakingtypes.DefaultParams()
	gen[stakingtypes.ModuleName] = a.AppCodec().MustMarshalJSON(stakingtypes.NewGenesisState(sp, validators, delegations))

	evmGen := evmtypes.DefaultGenesisState()
	evmGen.Params.EvmDenom = e.denom
	gen[evmtypes.ModuleName] = a.AppCodec().MustMarshalJSON(evmGen)

	fm := feemarkettypes.DefaultGenesisState()
	fm.Params.NoBaseFee = true // gas price 0 transactions: balances change by native actions only
	must(fm.Validate())
	gen[feemarkettypes.ModuleName] = a.AppCodec().MustMarshalJSON(fm)

	// auth: EOAs and faucet as EthAccounts
	var genAccs []authtypes.GenesisAccount
	for _, x := range append(append([]eoa{}, e.eoas...), e.faucet) {
		genAccs = append(genAccs, &ethermint.EthAccount{
			BaseAccount: authtypes.NewBaseAccount(x.addr.Bytes(), nil, 0, 0),
			CodeHash:    common.BytesToHash(crypto.Keccak256(nil)).String(),
		})
	}
	gen[authtypes.ModuleName] = a.AppCodec().MustMarshalJSON(authtypes.NewGenesisState(authtypes.DefaultParams(), genAccs))

	// bank: EOAs, faucet, bonded pool
	var balances []banktypes.Balance
	total := sdk.NewCoins()
	add := func(addr sdk.AccAddress, amt *big.Int) {
		c := sdk.NewCoins(sdk.NewCoin(e.denom, sdk.NewIntFromBigInt(amt)))
		balances = append(balances, banktypes.Balance{Address: addr.String(), Coins: c})
		total = total.Add(c...)
	}
	for _, x := range e.eoas {
		add(x.addr.Bytes(), eoaFunds)
	}
	add(e.faucet.addr.Bytes(), new(big.Int).Mul(eoaFunds, big.NewInt(1000)))
	add(authtypes.NewModuleAddress(stakingtypes.BondedPoolName), new(big.Int).Mul(valTokens, big.NewInt(nVals)))
	gen[banktypes.ModuleName] = a.AppCodec().MustMarshalJSON(banktypes.NewGenesisState(
		banktypes.DefaultGenesisState().Params, balances, total, []banktypes.Metadata{}))

	stateBytes, err := json.MarshalIndent(gen, "", " ")
	must(err)
	a.InitChain(abci.RequestInitChain{ChainId: chainID, Validators: []abci.ValidatorUpdate{},
		ConsensusParams: app.DefaultConsensusParams, AppStateBytes: stateBytes})
	a.Commit()
	e.header = tmproto.Header{ChainID: chainID, Height: a.LastBlockHeight() + 1, Time: time.Unix(1700000000, 0).UTC(),
		AppHash: a.LastCommitID().Hash, ProposerAddress: e.valCons[0]}
	a.BeginBlock(abci.RequestBeginBlock{Header: e.header})
	e.inBlock = true

	// helper contracts
	for i := 0; i < nProxies; i++ {
		e.proxies = append(e.proxies, e.deploy(deployer(proxyRuntime())))
	}
	e.emitter = e.deploy(deployer(emitterRuntime()))
	for i := 0; i < nBatches; i++ {
		e.batches = append(e.batches, e.deploy(deployer(batchRuntime())))
	}
	for _, p := range append(append([]common.Address{}, e.proxies...), e.batches...) {
		e.Fund(p, helperFunds)
	}
	e.Fund(e.emitter, helperFunds)
	e.Fund(stakingAddr, helperFunds) // the system contracts themselves hold coins: a look-alike must not spend them
	e.Fund(govAddr, helperFunds)

	// proposals: 1, 3 = voting period (full deposit), 2 = deposit period (inactive for votes) holding HALF the minimum
	// deposit: when its deposit period ends the deposit is burned (gov EndBlocker -> DeleteDeposits -> BurnCoins)
	ctx := e.Ctx()
	minDep := a.GovKeeper.GetDepositParams(ctx).MinDeposit
	p1, err := a.GovKeeper.SubmitProposal(ctx, govtypes.NewTextProposal("p1", "voting"))
	must(err)
	_, err = a.GovKeeper.AddDeposit(ctx, p1.ProposalId, e.faucet.addr.Bytes(), minDep)
	must(err)
	p2, err := a.GovKeeper.SubmitProposal(ctx, govtypes.NewTextProposal("p2", "deposit"))
	must(err)
	var half sdk.Coins
	for _, c := range minDep {
		half = append(half, sdk.NewCoin(c.Denom, c.Amount.QuoRaw(2)))
	}
	_, err = a.GovKeeper.AddDeposit(ctx, p2.ProposalId, e.faucet.addr.Bytes(), half)
	must(err)
	p3, err := a.GovKeeper.SubmitProposal(ctx, govtypes.NewTextProposal("p3", "voting"))
	must(err)
	_, err = a.GovKeeper.AddDeposit(ctx, p3.ProposalId, e.faucet.addr.Bytes(), minDep)
	must(err)
	e.NextBlock(5 * time.Second)
	return e
}

func (e *Env) Ctx() sdk.Context { return e.app.BaseApp.NewContext(false, e.header) }

// NextBlock ends the current block, commits and begins the next one dt later.
func (e *Env) NextBlock(dt time.Duration) {
	e.app.EndBlock(abci.RequestEndBlock{Height: e.header.Height})
	e.app.Commit()
	e.header = tmproto.Header{ChainID: chainID, Height: e.app.LastBlockHeight() + 1, Time: e.header.Time.Add(dt),
		AppHash: e.app.LastCommitID().Hash, ProposerAddress: e.valCons[0]}
	e.app.BeginBlock(abci.RequestBeginBlock{Header: e.header})
}

// Fund moves coins from the faucet (supply unchanged).
func (e *Env) Fund(to common.Address, amt *big.Int) {
	must(e.app.BankKeeper.SendCoins(e.Ctx(), e.faucet.addr.Bytes(), to.Bytes(),
		sdk.NewCoins(sdk.NewCoin(e.denom, sdk.NewIntFromBigInt(amt)))))
}

// Reward allocates distribution rewards to a validator's delegators (coins from the faucet).
func (e *Env) Reward(val int, amt *big.Int) {
	ctx := e.Ctx()
	c := sdk.NewCoins(sdk.NewCoin(e.denom, sdk.NewIntFromBigInt(amt)))
	must(e.app.BankKeeper.SendCoinsFromAccountToModule(ctx, e.faucet.addr.Bytes(), distrtypes.ModuleName, c))
	v := e.app.StakingKeeper.Validator(ctx, e.valOper[val])
	e.app.DistrKeeper.AllocateTokensToValidator(ctx, v, sdk.NewDecCoinsFromCoins(c...))
}

// Tx result classes.
const (
	clsOK       = 0 // executed, EVM and hooks succeeded
	clsEVMFail  = 1 // EVM execution failed (revert, out of gas, ...)
	clsHookFail = 2 // EVM fine, a post-processing hook returned an error
	clsTxErr    = 3 // the transaction was rejected with an SDK error
	clsPanic    = 4 // a panic was recovered by BaseApp.runTx
)

type TxOut struct {
	Class int
	Logs  []*ethtypes.Log
	VmErr string
	Log   string
}

// SendEth signs and delivers an Ethereum transaction (gas price 0) through DeliverTx.
func (e *Env) SendEth(from eoa, to *common.Address, data []byte, gas uint64) TxOut {
	ctx := e.Ctx()
	cid := e.app.EvmKeeper.ChainID()
	nonce := e.app.EvmKeeper.GetNonce(ctx, from.addr)
	var msg *evmtypes.MsgEthereumTx
	if to == nil {
		msg = evmtypes.NewTxContract(cid, nonce, nil, gas, big.NewInt(0), nil, nil, data, nil)
	} else {
		msg = evmtypes.NewTx(cid, nonce, to, nil, gas, big.NewInt(0), nil, nil, data, nil)
	}
	msg.From = from.addr.Hex()
	must(msg.Sign(ethtypes.LatestSignerForChainID(cid), tests.NewSigner(from.priv)))
	tx, err := msg.BuildTx(e.txCfg.NewTxBuilder(), e.denom)
	must(err)
	bz, err := e.txCfg.TxEncoder()(tx)
	must(err)
	res := e.app.BaseApp.DeliverTx(abci.RequestDeliverTx{Tx: bz})
	out := TxOut{Log: res.Log}
	if res.Code != 0 {
		out.Class = clsTxErr
		if res.Codespace == "undefined" && res.Code == 111222 {
			out.Class = clsPanic
		}
		return out
	}
	rsp, err := evmtypes.DecodeTxResponse(res.Data)
	must(err)
	out.Logs = evmtypes.LogsToEthereum(rsp.Logs)
	out.VmErr = rsp.VmError
	switch {
	case rsp.VmError == "":
		out.Class = clsOK
	case rsp.VmError == evmtypes.ErrPostTxProcessing.Error():
		out.Class = clsHookFail
	default:
		out.Class = clsEVMFail
	}
	return out
}

func (e *Env) deploy(initCode []byte) common.Address {
	nonce := e.app.EvmKeeper.GetNonce(e.Ctx(), e.faucet.addr)
	out := e.SendEth(e.faucet, nil, initCode, 3_000_000)
	if out.Class != clsOK {
		panic(fmt.Sprintf("deploy failed: class %d %s %s", out.Class, out.VmErr, out.Log))
	}
	return crypto.CreateAddress(e.faucet.addr, nonce)
}

// ---------------------------------------------------------------------------------------------------
// Snapshot of the projected observables
// ---------------------------------------------------------------------------------------------------

type KV struct {
	K string   `json:"k"`
	V []string `json:"v"`
}

type Snap struct {
	Bal    [][2]string `json:"bal"`    // every bank balance in the bond denomination: hex address, amount (sorted)
	Supply string      `json:"supply"` // total supply of the bond denomination
	VTok   []string    `json:"vtok"`   // tokens of validator 0..n-1
	VShr   []string    `json:"vshr"`   // delegator shares of validator i (scaled by 10^18)
	Dels   []KV        `json:"dels"`   // "delegatorhex/valindex" -> [shares scaled]
	Ubds   []KV        `json:"ubds"`   // "delegatorhex/valindex" -> entry balances
	Reds   []KV        `json:"reds"`   // "delegatorhex/src/dst" -> entry initial balances
	Votes  []KV        `json:"votes"`  // "proposal/voterhex" -> option,weight(scaled) ...
	Props  [][2]string `json:"props"`  // proposal id, status (2 = voting period)
	Ctr    [][2]string `json:"ctr"`    // storage slot 0 of each helper contract (EVM-visible state)
	Rew    []KV        `json:"rew"`    // pending rewards oracle: "delegatorhex/valindex" -> [truncated amount]
	Other  string      `json:"other"`  // digest of balances in other denominations / unknown validators (must stay empty)
}

func (e *Env) valIndex(oper string) int {
	for i, v := range e.valOper {
		if v.String() == oper {
			return i
		}
	}
	return -1
}

func hexAcc(bech string) string {
	a, err := sdk.AccAddressFromBech32(bech)
	must(err)
	return hlib.Hex(a)
}

func (e *Env) Snapshot(withRewards bool) Snap {
	ctx := e.Ctx()
	a := e.app
	var s Snap
	var other []string
	a.BankKeeper.IterateAllBalances(ctx, func(addr sdk.AccAddress, c sdk.Coin) bool {
		if c.Denom == e.denom {
			s.Bal = append(s.Bal, [2]string{hlib.Hex(addr), c.Amount.String()})
		} else {
			other = append(other, hlib.Hex(addr)+":"+c.String())
		}
		return false
	})
	sort.Slice(s.Bal, func(i, j int) bool { return s.Bal[i][0] < s.Bal[j][0] })
	s.Supply = a.BankKeeper.GetSupply(ctx, e.denom).Amount.String()
	a.BankKeeper.IterateTotalSupply(ctx, func(c sdk.Coin) bool {
		if c.Denom != e.denom {
			other = append(other, "supply:"+c.String())
		}
		return false
	})
	for _, op := range e.valOper {
		v, found := a.StakingKeeper.GetValidator(ctx, op)
		if !found {
			s.VTok = append(s.VTok, "-1")
			s.VShr = append(s.VShr, "-1")
			continue
		}
		s.VTok = append(s.VTok, v.Tokens.String())
		s.VShr = append(s.VShr, v.DelegatorShares.BigInt().String())
	}
	type delKey struct {
		d string
		v int
	}
	var delKeys []delKey
	a.StakingKeeper.IterateAllDelegations(ctx, func(d stakingtypes.Delegation) bool {
		vi := e.valIndex(d.ValidatorAddress)
		if vi < 0 {
			other = append(other, "del:"+d.String())
			return false
		}
		s.Dels = append(s.Dels, KV{fmt.Sprintf("%s/%d", hexAcc(d.DelegatorAddress), vi), []string{d.Shares.BigInt().String()}})
		delKeys = append(delKeys, delKey{d.DelegatorAddress, vi})
		return false
	})
	a.StakingKeeper.IterateUnbondingDelegations(ctx, func(_ int64, u stakingtypes.UnbondingDelegation) bool {
		vi := e.valIndex(u.ValidatorAddress)
		var es []string
		for _, en := range u.Entries {
			es = append(es, en.Balance.String())
		}
		if vi < 0 {
			other = append(other, "ubd:"+u.String())
			return false
		}
		s.Ubds = append(s.Ubds, KV{fmt.Sprintf("%s/%d", hexAcc(u.DelegatorAddress), vi), es})
		return false
	})
	a.StakingKeeper.IterateRedelegations(ctx, func(_ int64, r stakingtypes.Redelegation) bool {
		si, di := e.valIndex(r.ValidatorSrcAddress), e.valIndex(r.ValidatorDstAddress)
		var es []string
		for _, en := range r.Entries {
			es = append(es, en.InitialBalance.String())
		}
		if si < 0 || di < 0 {
			other = append(other, "red:"+r.String())
			return false
		}
		s.Reds = append(s.Reds, KV{fmt.Sprintf("%s/%d/%d", hexAcc(r.DelegatorAddress), si, di), es})
		return false
	})
	a.GovKeeper.IterateAllVotes(ctx, func(v govtypes.Vote) bool {
		var os []string
		for _, o := range v.Options {
			os = append(os, fmt.Sprintf("%d", int32(o.Option)), o.Weight.BigInt().String())
		}
		s.Votes = append(s.Votes, KV{fmt.Sprintf("%020d/%s", v.ProposalId, hexAcc(v.Voter)), os})
		return false
	})
	a.GovKeeper.IterateProposals(ctx, func(p govtypes.Proposal) bool {
		s.Props = append(s.Props, [2]string{fmt.Sprint(p.ProposalId), fmt.Sprint(int(p.Status))})
		return false
	})
	for _, l := range [][]KV{s.Dels, s.Ubds, s.Reds, s.Votes} {
		l := l
		sort.Slice(l, func(i, j int) bool { return l[i].K < l[j].K })
	}
	ctrAddrs := append(append([]common.Address{}, e.proxies...), e.emitter)
	ctrAddrs = append(ctrAddrs, e.batches...)
	ctrAddrs = append(ctrAddrs, e.created...)
	for _, p := range ctrAddrs {
		v := a.EvmKeeper.GetState(ctx, p, common.Hash{})
		s.Ctr = append(s.Ctr, [2]string{hlib.Hex(p.Bytes()), new(big.Int).SetBytes(v.Bytes()).String()})
	}
	if withRewards {
		for _, k := range delKeys {
			cctx, _ := ctx.CacheContext()
			da, _ := sdk.AccAddressFromBech32(k.d)
			var cs sdk.Coins
			var err error
			if p, val := hlib.Catch(func() { cs, err = a.DistrKeeper.WithdrawDelegationRewards(cctx, da, e.valOper[k.v]) }); p {
				other = append(other, "rew-panic:"+val)
				continue
			}
			if err != nil {
				other = append(other, "rew-err:"+err.Error())
				continue
			}
			amt := cs.AmountOf(e.denom)
			if !amt.IsZero() {
				s.Rew = append(s.Rew, KV{fmt.Sprintf("%s/%d", hlib.Hex(da), k.v), []string{amt.String()}})
			}
		}
		sort.Slice(s.Rew, func(i, j int) bool { return s.Rew[i].K < s.Rew[j].K })
	}
	sort.Strings(other)
	s.Other = strings.Join(other, ";")
	return s
}
