// Directed application histories that run FIRST on every check (independent of the seed): one per code path a
// past or conceivable defect of the adapters would show on — several events in one receipt with a failing native
// action at each position, staking + governance in one transaction, look-alike emitters, every way a governance
// deposit or staked coins get "burned", the cast boundaries of the vote option and the argument order of redelegate.
package main

import (
	"math/big"

	"github.com/ethereum/go-ethereum/common"

	"verifharness/hlib"
)

func corpusSpecs(valStr []string, eoas []common.Address) []Spec {
	v := func(i int) string { return hlib.Hex([]byte(valStr[i])) }
	big23 := new(big.Int).Exp(big.NewInt(10), big.NewInt(23), nil).String() // far more than the validators' own 3*10^18
	tooMuch := new(big.Int).Add(new(big.Int).Mul(eoaFunds, big.NewInt(1000)), big.NewInt(1)).String()
	del := func(val int, a string) *Node { return &Node{K: "sys", C: "staking", Fn: "delegate", V: v(val), A: a} }
	undel := func(val int, a string) *Node { return &Node{K: "sys", C: "staking", Fn: "undelegate", V: v(val), A: a} }
	redel := func(src, dst int, a string) *Node {
		return &Node{K: "sys", C: "staking", Fn: "redelegate", V: v(src), W: v(dst), A: a}
	}
	withdraw := func(val int) *Node { return &Node{K: "sys", C: "staking", Fn: "withdraw", V: v(val)} }
	vote := func(pid, opt string) *Node { return &Node{K: "sys", C: "gov", Fn: "vote", Pid: pid, Opt: opt} }
	votew := func(pid string, ow ...string) *Node {
		n := &Node{K: "sys", C: "gov", Fn: "votew", Pid: pid, Opts: [][2]string{}}
		for i := 0; i+1 < len(ow); i += 2 {
			n.Opts = append(n.Opts, [2]string{ow[i], ow[i+1]})
		}
		return n
	}
	batch := func(b int, items ...*Node) *Node {
		n := &Node{K: "batch", P: b}
		for _, it := range items {
			n.Items = append(n.Items, BatchItem{Inner: it})
		}
		return n
	}
	proxy := func(p, flags int, inner *Node) *Node { return &Node{K: "proxy", P: p, Flags: flags, Inner: inner} }
	tx := func(from int, call *Node) Step { return Step{T: "tx", From: from, Call: call} }
	txNB := func(from int, call *Node) Step { return Step{T: "tx", From: from, Call: call, NB: true} }
	days := func(n int64) Step { return Step{T: "advance", Secs: n * 86400, NB: true} }

	pw := func(n uint, plus int64) string { return new(big.Int).Add(pow2(n), big.NewInt(plus)).String() }
	tele := func(n int64) string { return new(big.Int).Mul(valTokens, big.NewInt(n)).String() } // n * 10^18 base units

	hs := [][]Step{
		// several events in one receipt; the failing native action first / in the middle / last; all fine
		{tx(0, batch(0, del(0, tooMuch), del(0, "1000000")))},
		{tx(0, batch(0, del(0, "1000000"), del(1, tooMuch), del(2, "2000000")))},
		{tx(0, batch(0, del(0, "1000000"), undel(0, "1000001")))},
		{tx(0, batch(1, del(0, "1000000"), del(1, "2000000"), undel(0, "400000"))), tx(1, batch(1, withdraw(0), redel(1, 2, "5")))},
		{tx(0, batch(0, undel(1, "5"), del(0, "7")))}, // undelegate without a delegation, then a fine delegate
		{tx(0, batch(0, withdraw(2), del(0, "7")))},   // withdraw without a delegation, then a fine delegate
		{tx(0, batch(0, redel(0, 0, "5"), del(0, "7")))},
		// the same through a constructor and through a proxy in front of the batch
		{tx(1, proxy(0, 0, batch(0, del(0, tooMuch), del(0, "1000000"))))},
		// staking and governance in one transaction, both orders, and a failing vote with a fine delegate (and back)
		{tx(0, batch(0, vote("1", "1"), del(0, "1000000")))},
		{tx(0, batch(0, del(0, "1000000"), vote("1", "3")))},
		{tx(0, batch(0, vote("2", "1"), del(0, "1000000")))}, // proposal 2 is not in its voting period
		{tx(0, batch(0, vote("1", "1"), del(0, tooMuch)))},
		{tx(0, batch(0, vote("99", "1"), vote("1", "2")))}, // two gov events, the first fails
		{tx(0, batch(0, votew("1", "1", "60", "2", "41"), vote("3", "2")))},
		// two contracts acting in one transaction: each for itself
		{tx(2, batch(0, proxy(1, 0, del(0, "1000")), del(1, "2000"), proxy(2, 0, vote("1", "4"))))},
		// look-alike events (topic + canonical data naming a victim) from other addresses, alone and next to a real call
		{tx(1, lookalike(del(0, "1000000"), eoas[0]))},
		{tx(1, batch(0, lookalike(del(0, "1000000"), eoas[0]), del(1, "5"), lookalike(vote("1", "4"), eoas[0])))},
		{tx(1, proxy(0, 1, del(0, "1000000")))}, // DELEGATECALL: Staking's code at the proxy's address
		{tx(1, proxy(0, 3, del(0, "1000000")))}, // CALLCODE
		{tx(1, batch(0, undel(0, "1")))},        // the batch undelegating what eoa 0 ... nobody delegated
		// argument order of redelegate: the caller holds a delegation with BOTH validators
		{tx(0, del(0, "1000000")), txNB(0, del(1, "3000000")), tx(0, redel(0, 1, "250000"))},
		{tx(0, del(1, "3000000")), tx(0, redel(0, 1, "250000"))}, // only the destination is held: must fail
		// cast boundaries of options and weights
		{tx(0, vote("1", "257"))}, {tx(0, vote("1", "65538"))}, {tx(0, vote("1", "4294967297"))}, {tx(0, vote("1", "2147483649"))},
		{tx(0, votew("1", "1", "18446744073709551566", "2", "150"))}, {tx(0, votew("1", "257", "100"))},
		{tx(0, votew("1", "1", "4294967396"))},
		{tx(0, vote("1", "4")), tx(0, votew("1", "1", "50", "2", "50")), tx(0, vote("1", "2"))}, // a later vote replaces the earlier one
		// "burned" coins: governance deposits of (a) a proposal dropped below the minimum deposit and of proposals missing
		// quorum, (b) a proposal vetoed through the Gov contract, (c) nothing burned when the proposal passes; staking slashes
		{days(3)},
		{txNB(0, del(0, big23)), tx(0, vote("1", "4")), tx(0, vote("3", "4")), days(3)},
		{txNB(0, del(0, big23)), tx(0, proxy(0, 0, vote("1", "4"))), tx(0, vote("1", "1")), days(3)},
		{txNB(0, del(0, big23)), tx(0, votew("1", "4", "40", "1", "60")), days(3)},
		{txNB(0, del(0, "1000000")), txNB(0, undel(0, "400000")), {T: "slash", Val: 0, Frac: "50", Inf: 1}},
		{txNB(0, del(0, "1000000")), txNB(0, redel(0, 1, "400000")), {T: "slash", Val: 0, Frac: "100", Inf: 1}},
		{txNB(1, proxy(0, 0, del(2, "77777"))), {T: "slash", Val: 2, Frac: "10", Inf: 0}},
		// undelegation matures: coins come back to the caller only
		{txNB(0, del(0, "1000000")), txNB(0, undel(0, "400000")), days(22)},
		// rewards are paid to the delegator on the next action
		{txNB(0, del(0, "1000000")), {T: "reward", Val: 0, Amt: "900000000", NB: true}, tx(0, withdraw(0)), tx(0, del(0, "5"))},
		// AMOUNTS at and above 2^63, 2^64, 2^64+small, 2^128+small, 2^256-1 — one history per handler's amount path
		// (40 TELE delegated first; 2^64 base units = 18.45 TELE), called directly, through a proxy and from a batch
		{txNB(0, del(0, pw(63, 0))), txNB(0, del(1, pw(64, 0))), txNB(0, del(2, pw(64, 5))), tx(0, del(0, pw(63, -1)))},
		{tx(0, del(0, pw(128, 5)))}, {tx(0, del(0, pw(255, 0)))}, {tx(0, del(0, pw(256, -1)))},
		{txNB(0, del(0, tele(40))), txNB(0, undel(0, pw(63, 0))), tx(0, undel(0, pw(64, 7)))},
		{txNB(0, del(0, tele(40))), tx(0, undel(0, pw(64, 0)))},
		{txNB(0, del(0, tele(40))), tx(0, undel(0, pw(64, -1)))},
		{txNB(0, del(0, tele(40))), tx(0, undel(0, pw(128, 5)))}, // must fail: more than the delegation
		{txNB(0, del(0, tele(40))), tx(0, undel(0, pw(256, -1)))},
		{txNB(0, del(0, tele(40))), txNB(0, redel(0, 1, pw(63, 0))), tx(0, redel(0, 2, pw(64, 9)))},
		{txNB(0, del(0, tele(40))), tx(0, redel(0, 1, pw(64, 0)))},
		{txNB(0, del(0, tele(40))), tx(0, redel(0, 1, pw(128, 5)))},
		{txNB(1, proxy(0, 0, del(0, tele(30)))), txNB(1, proxy(0, 0, undel(0, pw(64, 11)))), tx(1, proxy(0, 0, redel(0, 1, pw(63, 3))))},
		{tx(2, batch(0, del(0, tele(30)), undel(0, pw(64, 3)), redel(0, 1, pw(63, 1)), del(2, pw(64, 1))))},
		// proposal ids and weights at the uint64 / int64 boundaries
		{tx(0, vote(pw(63, 0), "1"))}, {tx(0, vote(pw(64, -1), "1"))},
		{tx(0, votew("1", "1", pw(63, 0)))}, {tx(0, votew("1", "1", pw(64, -1)))}, {tx(0, votew("1", "1", pw(63, 100)))},
		{tx(0, votew(pw(64, -1), "1", "100"))},
	}
	var out []Spec
	for i, st := range hs {
		out = append(out, Spec{ID: -100 - i, Steps: st})
	}
	// the constructor as caller
	out = append(out, Spec{ID: -100 - len(hs), Steps: []Step{
		{T: "fund", From: 0, Addr: "created", Amt: "100000000"}, {T: "create", From: 0, Call: del(0, "1000000")}}})
	return out
}

// sweepSpecs: the complete space of depth-2 call shapes the helper contracts can build — every proxy flag
// combination (call kind x ignore-failure x revert-after x twice = 32) around every kind of inner call, reached
// directly, behind another proxy, and as an item of a batch followed by a fine delegation.  One transaction per
// history.  (Thorough tier: validates the call-tree model of Model/AdapterEvm.v exhaustively over its constructors.)
func sweepSpecs(valStr []string, eoas []common.Address) []Spec {
	v := func(i int) string { return hlib.Hex([]byte(valStr[i])) }
	tooMuch := new(big.Int).Add(new(big.Int).Mul(eoaFunds, big.NewInt(1000)), big.NewInt(1)).String()
	inners := []func() *Node{
		func() *Node { return &Node{K: "sys", C: "staking", Fn: "delegate", V: v(0), A: "1000"} },
		func() *Node { return &Node{K: "sys", C: "staking", Fn: "delegate", V: v(0), A: tooMuch} },
		func() *Node { return &Node{K: "sys", C: "gov", Fn: "vote", Pid: "1", Opt: "2"} },
		func() *Node {
			return lookalike(&Node{K: "sys", C: "staking", Fn: "delegate", V: v(1), A: "777"}, eoas[0])
		},
		func() *Node { return &Node{K: "sys", C: "gov", Fn: "delegate", V: v(0), A: "1000"} }, // unknown selector at Gov
	}
	var out []Spec
	id := -1000
	add := func(call *Node) {
		out = append(out, Spec{ID: id, Steps: []Step{{T: "tx", From: 1, Call: call}}})
		id--
	}
	for _, mk := range inners {
		for f := 0; f < 32; f++ {
			add(&Node{K: "proxy", P: 0, Flags: f, Inner: mk()})
			add(&Node{K: "proxy", P: 1, Flags: 0, Inner: &Node{K: "proxy", P: 0, Flags: f, Inner: mk()}})
			// batch items know kind and ignore-failure only; revert-after / twice are realised by a proxy item
			var first BatchItem
			if f < 8 {
				first = BatchItem{Flags: f, Inner: mk()}
			} else {
				first = BatchItem{Inner: &Node{K: "proxy", P: 2, Flags: f, Inner: mk()}}
			}
			add(&Node{K: "batch", P: 0, Items: []BatchItem{first,
				{Inner: &Node{K: "sys", C: "staking", Fn: "delegate", V: v(2), A: "55"}}}})
		}
	}
	return out
}
