// Generators of the C17 harness: receipts for the pure-hook mode and transaction histories for the application mode.
package main

import (
	"fmt"
	"math/big"
	"strings"

	sdk "github.com/cosmos/cosmos-sdk/types"
	"github.com/ethereum/go-ethereum/common"

	govcontract "github.com/teleport-network/teleport/syscontracts/gov"

	"verifharness/hlib"
)

func pow2(n uint) *big.Int     { return new(big.Int).Lsh(big.NewInt(1), n) }
func sub1(x *big.Int) *big.Int { return new(big.Int).Sub(x, big.NewInt(1)) }

func genAmount(r *hlib.Rand) *big.Int {
	switch r.Intn(24) {
	case 0:
		return big.NewInt(0)
	case 1:
		return big.NewInt(1)
	case 2:
		return sub1(pow2(63))
	case 3:
		return pow2(63)
	case 4:
		return pow2(64)
	case 5:
		return sub1(pow2(255))
	case 6:
		return pow2(255)
	case 7:
		return sub1(pow2(256))
	case 8:
		return pow2(uint(r.Intn(256)))
	default:
		return big.NewInt(int64(1 + r.Intn(100000)))
	}
}

func genU64(r *hlib.Rand) *big.Int {
	switch r.Intn(10) {
	case 0:
		return big.NewInt(0)
	case 1:
		return sub1(pow2(63))
	case 2:
		return pow2(63)
	case 3:
		return sub1(pow2(64))
	case 4:
		return new(big.Int).SetUint64(r.U64())
	default:
		return big.NewInt(int64(r.Intn(5)))
	}
}

func genOpt(r *hlib.Rand) *big.Int {
	switch r.Intn(28) {
	case 0:
		return big.NewInt(0)
	case 1:
		return big.NewInt(5)
	case 2:
		return sub1(pow2(31))
	case 3:
		return pow2(31)
	case 4:
		return sub1(pow2(32))
	case 5:
		return new(big.Int).Add(pow2(31), big.NewInt(int64(1+r.Intn(4)))) // wraps to a negative int32
	case 6:
		return new(big.Int).SetUint64(r.U64() & 0xffffffff)
	case 7: // a valid option in the low bits only: accepted if the code truncated to 8 / 16 / 24 bits
		return new(big.Int).Add(pow2(uint(8*(1+r.Intn(3)))), big.NewInt(int64(1+r.Intn(4))))
	default:
		return big.NewInt(int64(1 + r.Intn(4)))
	}
}

// genWeights returns (option, weight) pairs: mostly valid splits of 100, plus the boundary families.
func genWeights(r *hlib.Rand) [][2]*big.Int {
	mk := func(ps ...int64) [][2]*big.Int {
		var out [][2]*big.Int
		for i := 0; i+1 < len(ps); i += 2 {
			out = append(out, [2]*big.Int{big.NewInt(ps[i]), big.NewInt(ps[i+1])})
		}
		return out
	}
	switch r.Intn(32) {
	case 0:
		return nil
	case 1:
		return mk(1, 99)
	case 2:
		return mk(1, 101)
	case 3:
		return mk(1, 50, 1, 50)
	case 4:
		return mk(1, 0, 2, 100)
	case 5:
		return [][2]*big.Int{{big.NewInt(1), pow2(63)}}
	case 6:
		return [][2]*big.Int{{big.NewInt(1), sub1(pow2(64))}, {big.NewInt(2), big.NewInt(101)}}
	case 7:
		return [][2]*big.Int{{big.NewInt(1), new(big.Int).Sub(pow2(64), big.NewInt(50))}, {big.NewInt(2), big.NewInt(150)}}
	case 8:
		return [][2]*big.Int{{genOpt(r), big.NewInt(100)}}
	case 9:
		return mk(1, 25, 2, 25, 3, 25, 4, 25)
	case 10:
		return mk(1, 30, 2, 30, 3, 40)
	case 11:
		return [][2]*big.Int{{genOpt(r), genU64(r)}, {genOpt(r), genU64(r)}}
	case 12:
		return mk(4, 100)
	case 13: // a valid weight in the low bits only
		return [][2]*big.Int{{big.NewInt(1), new(big.Int).Add(pow2(uint(8*(1+r.Intn(7)))), big.NewInt(100))}}
	case 14:
		return [][2]*big.Int{{big.NewInt(1), big.NewInt(60)}, {big.NewInt(2), new(big.Int).Add(pow2(32), big.NewInt(40))}}
	default:
		a := int64(1 + r.Intn(99))
		return mk(int64(1+r.Intn(2)), a, int64(3+r.Intn(2)), 100-a)
	}
}

func randAddr(r *hlib.Rand) common.Address { return common.BytesToAddress(r.Bytes(20)) }

// genValString: validator strings for the pure hook (any bytes are possible in an event).
func genValString(r *hlib.Rand, valid []string) string {
	switch r.Intn(24) {
	case 0:
		return ""
	case 1:
		return strings.Repeat("v", 31)
	case 2:
		return strings.Repeat("v", 32)
	case 3:
		return strings.Repeat("v", 33)
	case 4:
		return strings.Repeat("long", 50)
	case 5:
		return string(r.Bytes(1 + r.Intn(40))) // arbitrary bytes, not UTF-8
	case 6:
		return strings.ToUpper(valid[r.Intn(len(valid))])
	case 7:
		return sdk.ValAddress(r.Bytes(20)).String()
	default:
		return valid[r.Intn(len(valid))]
	}
}

var evNames = []string{"Delegated", "Undelegated", "Redelegated", "Withdrew", "Voted", "VotedWeighted"}

func isStakingEvent(n string) bool { return n != "Voted" && n != "VotedWeighted" }

func eventID(n string) common.Hash {
	if isStakingEvent(n) {
		return stakingABI.Events[n].ID
	}
	return govABI.Events[n].ID
}

// canonical event data for random field values (go-ethereum's encoder = the ABI encoding Solidity emits).
func genEventData(r *hlib.Rand, name string, valid []string) []byte {
	var bz []byte
	var err error
	d := randAddr(r)
	if r.Chance(1, 12) {
		d = common.Address{}
	}
	switch name {
	case "Delegated", "Undelegated":
		bz, err = stakingABI.Events[name].Inputs.Pack(d, genValString(r, valid), genAmount(r))
	case "Redelegated":
		bz, err = stakingABI.Events[name].Inputs.Pack(d, genValString(r, valid), genValString(r, valid), genAmount(r))
	case "Withdrew":
		bz, err = stakingABI.Events[name].Inputs.Pack(d, genValString(r, valid))
	case "Voted":
		bz, err = govABI.Events[name].Inputs.Pack(d, genU64(r).Uint64(), uint32(genOpt(r).Uint64()))
	case "VotedWeighted":
		var ws []govcontract.GovOptionWeight
		for _, w := range genWeights(r) {
			ws = append(ws, govcontract.GovOptionWeight{Option: uint32(w[0].Uint64()), Weight: w[1].Uint64()})
		}
		if ws == nil {
			ws = []govcontract.GovOptionWeight{}
		}
		bz, err = govABI.Events[name].Inputs.Pack(d, genU64(r).Uint64(), ws)
	}
	must(err)
	return bz
}

func mutate(r *hlib.Rand, bz []byte) []byte {
	out := append([]byte(nil), bz...)
	switch r.Intn(12) {
	case 0:
		return nil
	case 1:
		if len(out) > 0 {
			return out[:r.Intn(len(out))]
		}
	case 2:
		return append(out, r.Bytes(1+r.Intn(70))...)
	case 3:
		if len(out) > 0 {
			out[r.Intn(len(out))] ^= byte(1 << uint(r.Intn(8)))
		}
	case 4: // overwrite a whole word with a boundary value
		if len(out) >= 32 {
			w := r.Intn(len(out) / 32)
			v := []*big.Int{big.NewInt(0), big.NewInt(int64(len(out))), big.NewInt(int64(len(out) - 32)), big.NewInt(int64(len(out) - 31)),
				sub1(pow2(256)), pow2(63), sub1(pow2(63)), big.NewInt(32), big.NewInt(64), big.NewInt(int64(32 * r.Intn(12)))}[r.Intn(10)]
			copy(out[32*w:32*w+32], common.LeftPadBytes(v.Bytes(), 32))
		}
	case 5: // dirty high bytes of the first word (address) or of another word
		if len(out) >= 32 {
			w := r.Intn(len(out) / 32)
			copy(out[32*w:32*w+12], r.Bytes(12))
		}
	case 6:
		return r.Bytes(r.Intn(300))
	case 7:
		return r.Bytes(32 * r.Intn(10))
	case 8:
		if len(out) > 32 {
			return out[:32*(1+r.Intn(len(out)/32))]
		}
	default:
		if len(out) > 0 {
			out[len(out)-1-r.Intn(minInt(len(out), 40))] = byte(r.U64())
		}
	}
	return out
}

func minInt(a, b int) int {
	if a < b {
		return a
	}
	return b
}

func genHookSpec(r *hlib.Rand, id int, valid []string, others []common.Address) HookSpec {
	s := HookSpec{ID: id, Which: []string{"staking", "gov", "multi", "multi"}[r.Intn(4)], FailAt: -1}
	if r.Chance(1, 5) {
		s.FailAt = r.Intn(4)
	}
	n := r.Intn(7)
	for i := 0; i < n; i++ {
		name := evNames[r.Intn(len(evNames))]
		data := genEventData(r, name, valid)
		if r.Chance(1, 4) {
			data = mutate(r, data)
		}
		addr := stakingAddr
		if !isStakingEvent(name) {
			addr = govAddr
		}
		switch r.Intn(12) {
		case 0: // look-alike from another address
			addr = others[r.Intn(len(others))]
		case 1: // the other system contract
			if addr == stakingAddr {
				addr = govAddr
			} else {
				addr = stakingAddr
			}
		case 2: // near miss
			b := addr.Bytes()
			b[r.Intn(20)] ^= byte(1 << uint(r.Intn(8)))
			addr = common.BytesToAddress(b)
		}
		topics := []string{hlib.Hex(eventID(name).Bytes())}
		switch r.Intn(25) {
		case 0:
			topics = nil
		case 1:
			topics = append(topics, hlib.Hex(r.Bytes(32)))
		case 2:
			topics = []string{hlib.Hex(r.Bytes(32))}
		case 3:
			t := eventID(name).Bytes()
			t[31] ^= 1
			topics = []string{hlib.Hex(t)}
		case 4:
			topics = []string{hlib.Hex(eventID(evNames[r.Intn(len(evNames))]).Bytes())} // data of one event under the topic of another
		}
		s.Logs = append(s.Logs, HLog{Addr: hlib.Hex(addr.Bytes()), Topics: topics, Data: hlib.Hex(data)})
	}
	return s
}

// ---------------------------------------------------------------------------------------------------
// Application mode
// ---------------------------------------------------------------------------------------------------

// Node is a call tree: what the transaction's target code does.
type Node struct {
	K string `json:"k"` // sys | emit | proxy
	// sys: a call of a system-contract function (c = contract whose address is called)
	C    string      `json:"c,omitempty"`  // staking | gov
	Fn   string      `json:"fn,omitempty"` // delegate undelegate redelegate withdraw vote votew
	V    string      `json:"v,omitempty"`  // validator (source) string, hex
	W    string      `json:"w,omitempty"`  // destination validator string, hex
	A    string      `json:"a,omitempty"`  // amount
	Pid  string      `json:"pid,omitempty"`
	Opt  string      `json:"opt,omitempty"`
	Opts [][2]string `json:"opts,omitempty"`
	// emit: LOGn from the emitter's code
	Topics []string `json:"topics,omitempty"`
	Data   string   `json:"data,omitempty"`
	// proxy
	P     int   `json:"p,omitempty"`
	Flags int   `json:"flags,omitempty"`
	Inner *Node `json:"inner,omitempty"`
	// batch: contract P (index into the batch contracts) performs the calls of Items in order, from one frame
	Items []BatchItem `json:"items,omitempty"`
}

// BatchItem: one call of a batch (flags: bits 0-1 call kind, bit 2 ignore a failing call).
type BatchItem struct {
	Flags int   `json:"flags,omitempty"`
	Inner *Node `json:"inner"`
}

type Step struct {
	T    string `json:"t"` // tx create fund reward advance slash block
	From int    `json:"from,omitempty"`
	Call *Node  `json:"call,omitempty"`
	Addr string `json:"addr,omitempty"` // fund: "created" = the address the next create of eoa `from` will produce, or hex
	Amt  string `json:"amt,omitempty"`
	Val  int    `json:"val,omitempty"`
	Secs int64  `json:"secs,omitempty"`
	Frac string `json:"frac,omitempty"` // slash fraction in percent
	Inf  int64  `json:"inf,omitempty"`  // slash infraction height: 0 = current height, else that height
	NB   bool   `json:"nb,omitempty"`   // start a new block after the step
}

type Spec struct {
	ID    int    `json:"id"`
	Steps []Step `json:"steps"`
}

type genState struct {
	eoas   []common.Address
	valStr []string
	deleg  map[string]*big.Int // approximate: caller key + "/" + validator index -> delegated so far
}

func (g *genState) appValString(r *hlib.Rand) string {
	switch r.Intn(20) {
	case 0:
		return ""
	case 1:
		return "nonsense"
	case 2:
		return strings.ToUpper(g.valStr[r.Intn(len(g.valStr))])
	case 3:
		return sdk.ValAddress(r.Bytes(20)).String() // well-formed, unknown validator
	case 4:
		return sdk.AccAddress(r.Bytes(20)).String() // wrong prefix
	case 5:
		return string(r.Bytes(1 + r.Intn(20)))
	default:
		return g.valStr[r.Intn(len(g.valStr))]
	}
}

func (g *genState) appCredit(callerKey, v string, a *big.Int) {
	for i, s := range g.valStr {
		if s == v && a.BitLen() < 100 {
			key := fmt.Sprintf("%s/%d", callerKey, i)
			if g.deleg[key] == nil {
				g.deleg[key] = new(big.Int)
			}
			g.deleg[key].Add(g.deleg[key], a)
		}
	}
}

func (g *genState) appAmount(r *hlib.Rand, callerKey string, v string, action string) *big.Int {
	vi := -1
	for i, s := range g.valStr {
		if s == v {
			vi = i
		}
	}
	key := fmt.Sprintf("%s/%d", callerKey, vi)
	have := g.deleg[key]
	if r.Chance(1, 7) {
		return genAmount(r)
	}
	switch action {
	case "delegate":
		switch r.Intn(12) {
		case 0:
			return new(big.Int).Add(eoaFunds, big.NewInt(1)) // more than any account owns
		case 1:
			return new(big.Int).Set(helperFunds)
		default:
			a := big.NewInt(int64(1000 + r.Intn(1000000)))
			if have == nil {
				g.deleg[key] = new(big.Int).Set(a)
			} else {
				have.Add(have, a)
			}
			return a
		}
	default:
		if have == nil || have.Sign() == 0 {
			return big.NewInt(int64(1 + r.Intn(1000)))
		}
		switch r.Intn(8) {
		case 0:
			return new(big.Int).Add(have, big.NewInt(1))
		case 1:
			a := new(big.Int).Set(have)
			have.SetInt64(0)
			return a
		default:
			a := new(big.Int).Div(have, big.NewInt(int64(2+r.Intn(4))))
			if a.Sign() == 0 {
				a = big.NewInt(1)
			}
			have.Sub(have, a)
			return a
		}
	}
}

// heldVal returns a validator string the caller (probably) has a delegation with, or "".
func (g *genState) heldVal(r *hlib.Rand, callerKey string) string {
	var c []string
	for i, v := range g.valStr {
		if h := g.deleg[fmt.Sprintf("%s/%d", callerKey, i)]; h != nil && h.Sign() > 0 {
			c = append(c, v)
		}
	}
	if len(c) == 0 || r.Chance(1, 5) {
		return ""
	}
	return c[r.Intn(len(c))]
}

func (g *genState) genSys(r *hlib.Rand, callerKey string) *Node {
	n := &Node{K: "sys"}
	x := r.Intn(20)
	if len(g.deleg) < 2 && r.Chance(2, 3) {
		x = 0
	} else if g.heldVal(r, callerKey) != "" && r.Chance(1, 2) {
		x = 6 + r.Intn(8) // the caller holds a delegation: undelegate / redelegate / withdraw more often
	}
	switch {
	case x < 6:
		n.C, n.Fn = "staking", "delegate"
	case x < 9:
		n.C, n.Fn = "staking", "undelegate"
	case x < 12:
		n.C, n.Fn = "staking", "redelegate"
	case x < 14:
		n.C, n.Fn = "staking", "withdraw"
	case x < 17:
		n.C, n.Fn = "gov", "vote"
	default:
		n.C, n.Fn = "gov", "votew"
	}
	if (n.Fn == "undelegate" || n.Fn == "redelegate" || n.Fn == "withdraw") && g.heldVal(r, callerKey) == "" && r.Chance(3, 4) {
		n.Fn = "delegate" // nothing to undelegate yet: build up a delegation first (mostly)
	}
	switch n.Fn {
	case "delegate", "undelegate":
		v := g.appValString(r)
		if h := g.heldVal(r, callerKey); n.Fn == "undelegate" && h != "" {
			v = h
		}
		n.V = hlib.Hex([]byte(v))
		n.A = g.appAmount(r, callerKey, v, n.Fn).String()
	case "redelegate":
		v, w := g.appValString(r), g.appValString(r)
		if h := g.heldVal(r, callerKey); h != "" {
			v = h
			if w == v && r.Chance(4, 5) {
				for _, x := range g.valStr {
					if x != v {
						w = x
					}
				}
			}
		}
		n.V, n.W = hlib.Hex([]byte(v)), hlib.Hex([]byte(w))
		n.A = g.appAmount(r, callerKey, v, n.Fn).String()
		if r.Chance(1, 2) { // the model of redelegation tracks the destination too
			g.appCredit(callerKey, w, bigOf(n.A))
		}
	case "withdraw":
		v := g.appValString(r)
		if h := g.heldVal(r, callerKey); h != "" {
			v = h
		}
		n.V = hlib.Hex([]byte(v))
	case "vote":
		n.Pid = []string{"1", "1", "1", "3", "2", "99", "0"}[r.Intn(7)]
		if r.Chance(1, 12) {
			n.Pid = genU64(r).String()
		}
		if r.Chance(1, 30) {
			n.Pid = pow2(64).String() // not a uint64: the contract's ABI decoder reverts
		}
		n.Opt = big.NewInt(int64(1 + r.Intn(4))).String()
		if r.Chance(1, 5) {
			n.Opt = genOpt(r).String()
		}
		if r.Chance(1, 30) {
			n.Opt = pow2(32).String()
		}
	case "votew":
		n.Pid = []string{"1", "1", "3", "2", "99"}[r.Intn(5)]
		n.Opts = [][2]string{}
		for _, w := range genWeights(r) {
			n.Opts = append(n.Opts, [2]string{w[0].String(), w[1].String()})
		}
	}
	if r.Chance(1, 40) { // function of the other contract: unknown selector
		if n.C == "staking" {
			n.C = "gov"
		} else {
			n.C = "staking"
		}
	}
	return n
}

// lookalike builds an emitter node with the topic and canonical data of the event the sys node would emit for `victim`.
func lookalike(sys *Node, victim common.Address) *Node {
	name, data := eventOf(sys, victim)
	return &Node{K: "emit", Topics: []string{hlib.Hex(eventID(name).Bytes())}, Data: hlib.Hex(data)}
}

func bigOf(s string) *big.Int {
	if s == "" {
		return big.NewInt(0)
	}
	b, ok := new(big.Int).SetString(s, 10)
	if !ok {
		panic("bad number " + s)
	}
	return b
}

// eventOf: the event (name, ABI data) the Solidity source emits for this call with msg.sender = sender.
func eventOf(n *Node, sender common.Address) (string, []byte) {
	var bz []byte
	var err error
	name := map[string]string{"delegate": "Delegated", "undelegate": "Undelegated", "redelegate": "Redelegated",
		"withdraw": "Withdrew", "vote": "Voted", "votew": "VotedWeighted"}[n.Fn]
	switch n.Fn {
	case "delegate", "undelegate":
		bz, err = stakingABI.Events[name].Inputs.Pack(sender, string(hlib.UnHex(n.V)), bigOf(n.A))
	case "redelegate":
		bz, err = stakingABI.Events[name].Inputs.Pack(sender, string(hlib.UnHex(n.V)), string(hlib.UnHex(n.W)), bigOf(n.A))
	case "withdraw":
		bz, err = stakingABI.Events[name].Inputs.Pack(sender, string(hlib.UnHex(n.V)))
	case "vote":
		bz, err = govABI.Events[name].Inputs.Pack(sender, bigOf(n.Pid).Uint64(), uint32(bigOf(n.Opt).Uint64()))
	case "votew":
		ws := []govcontract.GovOptionWeight{}
		for _, w := range n.Opts {
			ws = append(ws, govcontract.GovOptionWeight{Option: uint32(bigOf(w[0]).Uint64()), Weight: bigOf(w[1]).Uint64()})
		}
		bz, err = govABI.Events[name].Inputs.Pack(sender, bigOf(n.Pid).Uint64(), ws)
	}
	must(err)
	return name, bz
}

// failingDelegate: a Staking.delegate call whose native action must fail (more coins than any account owns).
func (g *genState) failingDelegate() *Node {
	return &Node{K: "sys", C: "staking", Fn: "delegate", V: hlib.Hex([]byte(g.valStr[0])),
		A: new(big.Int).Add(new(big.Int).Mul(eoaFunds, big.NewInt(1000)), big.NewInt(1)).String()}
}

// genBatch: one contract performing several calls in one transaction (the receipt then holds several events of
// the system contracts: failing and succeeding native actions mixed, staking and governance mixed, look-alikes in between).
func (g *genState) genBatch(r *hlib.Rand, p, q int) *Node {
	b := r.Intn(nBatches)
	bk, pk := fmt.Sprintf("b%d", b), fmt.Sprintf("p%d", p)
	item := func(n *Node) BatchItem { return BatchItem{Inner: n} }
	n := &Node{K: "batch", P: b}
	switch z := r.Intn(12); {
	case z < 4:
		for i, k := 0, 2+r.Intn(2); i < k; i++ {
			n.Items = append(n.Items, item(g.genSys(r, bk)))
		}
	case z == 4: // an earlier native action fails, the last one is fine
		n.Items = []BatchItem{item(g.failingDelegate()), item(g.genSys(r, bk))}
	case z == 5: // the failing action in the middle
		n.Items = []BatchItem{item(g.genSys(r, bk)), item(g.failingDelegate()), item(g.genSys(r, bk))}
	case z == 6: // ignoring the failure of an EVM-level failing call does not hide a native failure
		n.Items = []BatchItem{{Flags: fIgnoreFail, Inner: g.genSys(r, bk)}, {Flags: fIgnoreFail, Inner: g.genSys(r, bk)}}
	case z == 7: // a vote and a staking action in one transaction (the staking hook runs first)
		vote := &Node{K: "sys", C: "gov", Fn: "vote", Pid: "1", Opt: big.NewInt(int64(1 + r.Intn(4))).String()}
		n.Items = []BatchItem{item(vote), item(g.genSys(r, bk))}
		if r.Chance(1, 2) {
			n.Items[0], n.Items[1] = n.Items[1], n.Items[0]
		}
	case z == 8: // look-alike in between
		n.Items = []BatchItem{item(lookalike(g.genSys(r, "none"), g.victim(r))), item(g.genSys(r, bk))}
	case z == 9: // called through a proxy
		n.Items = []BatchItem{item(g.genSys(r, bk)), item(g.genSys(r, bk))}
		return &Node{K: "proxy", P: p, Flags: 0, Inner: n}
	case z == 10: // a proxy call and a direct call
		n.Items = []BatchItem{item(&Node{K: "proxy", P: p, Flags: 0, Inner: g.genSys(r, pk)}), item(g.genSys(r, bk))}
	default: // other call kinds from the batch: the Staking byte code at the batch's own address acts for nobody
		n.Items = []BatchItem{{Flags: 1 + r.Intn(3), Inner: g.genSys(r, "none")}, item(g.genSys(r, bk))}
	}
	return n
}

func (g *genState) victim(r *hlib.Rand) common.Address { return g.eoas[r.Intn(len(g.eoas))] }

func genSpec(r *hlib.Rand, id int, maxSteps int, valStr []string, eoas []common.Address) Spec {
	g := &genState{valStr: valStr, deleg: map[string]*big.Int{}, eoas: eoas}
	s := Spec{ID: id}
	n := 3 + r.Intn(maxSteps)
	for i := 0; i < n; i++ {
		st := Step{NB: r.Chance(1, 2)}
		switch x := r.Intn(100); {
		case x < 8:
			st.T, st.Val, st.Amt = "reward", r.Intn(nVals), big.NewInt(int64(1+r.Intn(1000000000))).String()
		case x < 13:
			st.T, st.Secs = "advance", []int64{86400, 3 * 86400, 22 * 86400}[r.Intn(3)]
		case x < 15:
			st.T = "block"
		default:
			st.From = r.Intn(len(eoas))
			if r.Chance(1, 2) {
				st.From = 0 // a main caller, so that later actions find its earlier delegations
			}
			p := r.Intn(nProxies)
			if r.Chance(1, 2) {
				p = 0
			}
			q := (p + 1 + r.Intn(nProxies-1)) % nProxies
			pk, qk, ek := fmt.Sprintf("p%d", p), fmt.Sprintf("p%d", q), fmt.Sprintf("e%d", st.From)
			st.T = "tx"
			switch y := r.Intn(122); {
			case y >= 100:
				st.Call = g.genBatch(r, p, q)
			case y < 34:
				st.Call = g.genSys(r, ek)
			case y < 49:
				st.Call = &Node{K: "proxy", P: p, Flags: 0, Inner: g.genSys(r, pk)}
			case y < 56:
				st.Call = &Node{K: "proxy", P: p, Flags: 0, Inner: &Node{K: "proxy", P: q, Flags: 0, Inner: g.genSys(r, qk)}}
			case y < 62:
				st.Call = &Node{K: "proxy", P: p, Flags: 1, Inner: g.genSys(r, "none")}
			case y < 65:
				st.Call = &Node{K: "proxy", P: p, Flags: 3, Inner: g.genSys(r, "none")}
			case y < 68:
				st.Call = &Node{K: "proxy", P: p, Flags: 2 | fIgnoreFail, Inner: g.genSys(r, "none")}
			case y < 70:
				st.Call = &Node{K: "proxy", P: p, Flags: 2, Inner: g.genSys(r, "none")}
			case y < 73:
				st.Call = &Node{K: "proxy", P: p, Flags: fThenRevert, Inner: g.genSys(r, "none")}
			case y < 77:
				st.Call = &Node{K: "proxy", P: p, Flags: fIgnoreFail, Inner: &Node{K: "proxy", P: q, Flags: fThenRevert, Inner: g.genSys(r, "none")}}
			case y < 82:
				st.Call = &Node{K: "proxy", P: p, Flags: fTwice, Inner: g.genSys(r, pk)}
			case y < 88:
				st.Call = lookalike(g.genSys(r, "none"), eoas[r.Intn(len(eoas))])
			case y < 90:
				st.Call = &Node{K: "proxy", P: p, Flags: 0, Inner: lookalike(g.genSys(r, "none"), eoas[r.Intn(len(eoas))])}
			case y < 92:
				st.Call = &Node{K: "proxy", P: p, Flags: 1, Inner: lookalike(g.genSys(r, "none"), eoas[r.Intn(len(eoas))])}
			case y < 94:
				st.Call = &Node{K: "proxy", P: p, Flags: r.Intn(32), Inner: g.genSys(r, "none")}
			default:
				if r.Chance(2, 3) {
					s.Steps = append(s.Steps, Step{T: "fund", From: st.From, Addr: "created", Amt: big.NewInt(int64(1 + r.Intn(100000000))).String()})
				}
				st.T = "create"
				st.Call = g.genSys(r, "none")
			}
		}
		s.Steps = append(s.Steps, st)
	}
	switch r.Intn(5) {
	case 0:
		s.Steps = append(s.Steps, Step{T: "slash", Val: r.Intn(nVals), Frac: []string{"10", "50", "100", "1"}[r.Intn(4)], Inf: int64(r.Intn(2))})
	case 1:
		s.Steps = append(s.Steps, Step{T: "advance", Secs: 3 * 86400, NB: true})
	}
	return s
}
