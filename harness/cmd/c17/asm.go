// Tiny EVM assembler + the hand-assembled helper contracts of the C17 harness (there is no solc in the sandbox).
package main

import (
	"encoding/binary"
	"fmt"
)

const (
	opSTOP         = 0x00
	opADD          = 0x01
	opMUL          = 0x02
	opSUB          = 0x03
	opEQ           = 0x14
	opISZERO       = 0x15
	opAND          = 0x16
	opSHR          = 0x1c
	opCALLDATALOAD = 0x35
	opCALLDATASIZE = 0x36
	opCALLDATACOPY = 0x37
	opCODECOPY     = 0x39
	opPOP          = 0x50
	opMLOAD        = 0x51
	opMSTORE       = 0x52
	opSLOAD        = 0x54
	opSSTORE       = 0x55
	opJUMP         = 0x56
	opJUMPI        = 0x57
	opGAS          = 0x5a
	opJUMPDEST     = 0x5b
	opDUP1         = 0x80
	opSWAP1        = 0x90
	opLOG0         = 0xa0
	opCALL         = 0xf1
	opCALLCODE     = 0xf2
	opRETURN       = 0xf3
	opDELEGATECALL = 0xf4
	opSTATICCALL   = 0xfa
	opREVERT       = 0xfd
)

type asm struct {
	code   []byte
	labels map[string]int
	fixups map[int]string
}

func newAsm() *asm { return &asm{labels: map[string]int{}, fixups: map[int]string{}} }

func (a *asm) op(bs ...byte) *asm { a.code = append(a.code, bs...); return a }

// push emits the shortest PUSHn for v.
func (a *asm) push(v uint64) *asm {
	var buf [8]byte
	binary.BigEndian.PutUint64(buf[:], v)
	i := 0
	for i < 7 && buf[i] == 0 {
		i++
	}
	a.code = append(a.code, byte(0x60+(7-i)))
	a.code = append(a.code, buf[i:]...)
	return a
}

func (a *asm) pushBytes(b []byte) *asm {
	if len(b) == 0 || len(b) > 32 {
		panic("pushBytes size")
	}
	a.code = append(a.code, byte(0x60+len(b)-1))
	a.code = append(a.code, b...)
	return a
}

func (a *asm) pushLabel(l string) *asm {
	a.code = append(a.code, 0x61, 0, 0)
	a.fixups[len(a.code)-2] = l
	return a
}

func (a *asm) label(l string) *asm {
	a.labels[l] = len(a.code)
	a.code = append(a.code, opJUMPDEST)
	return a
}

// mark records a position without emitting a JUMPDEST (data section).
func (a *asm) mark(l string) *asm { a.labels[l] = len(a.code); return a }

func (a *asm) bytes() []byte {
	out := append([]byte(nil), a.code...)
	for pos, l := range a.fixups {
		t, ok := a.labels[l]
		if !ok {
			panic("undefined label " + l)
		}
		out[pos] = byte(t >> 8)
		out[pos+1] = byte(t)
	}
	return out
}

// deployer wraps runtime code into init code that returns it.
func deployer(runtime []byte) []byte {
	a := newAsm()
	a.push(uint64(len(runtime))).op(opDUP1).pushLabel("rt").push(0).op(opCODECOPY).push(0).op(opRETURN)
	a.mark("rt")
	a.op(runtime...)
	return a.bytes()
}

// Scratch memory of the proxy (payload is copied to memory 0..n, n < scratch).
const (
	mN      = 0x8000
	mFlags  = 0x8020
	mTarget = 0x8040
	mLoop   = 0x8060
)

// Proxy flags (first call-data byte): bits 0-1 kind (0 CALL, 1 DELEGATECALL, 2 STATICCALL, 3 CALLCODE),
// bit 2 ignore a failing inner call, bit 3 revert after the inner call(s), bit 4 perform the inner call twice.
const (
	fKindMask   = 3
	fIgnoreFail = 4
	fThenRevert = 8
	fTwice      = 16
)

// proxyRuntime: call data = [1 byte flags][20 bytes target][payload].  Increments storage slot 0 (the
// EVM-visible state observed by the harness), then forwards the payload to the target as requested.
func proxyRuntime() []byte {
	a := newAsm()
	// slot0++
	a.push(0).op(opSLOAD).push(1).op(opADD).push(0).op(opSSTORE)
	// n = calldatasize - 21 ; mem[mN] = n
	a.push(21).op(opCALLDATASIZE).op(opSUB).push(mN).op(opMSTORE)
	// calldatacopy(0, 21, n)
	a.push(mN).op(opMLOAD).push(21).push(0).op(opCALLDATACOPY)
	// flags = calldataload(0) >> 248
	a.push(0).op(opCALLDATALOAD).push(248).op(opSHR).push(mFlags).op(opMSTORE)
	// target = calldataload(1) >> 96
	a.push(1).op(opCALLDATALOAD).push(96).op(opSHR).push(mTarget).op(opMSTORE)
	// loop = 1 + ((flags >> 4) & 1)
	a.push(mFlags).op(opMLOAD).push(4).op(opSHR).push(1).op(opAND).push(1).op(opADD).push(mLoop).op(opMSTORE)

	a.label("loop")
	emitDispatch(a)
	a.label("after") // stack: success
	a.pushLabel("ok").op(opJUMPI)
	// inner call failed: revert unless flags&4
	a.push(mFlags).op(opMLOAD).push(fIgnoreFail).op(opAND).pushLabel("ok").op(opJUMPI)
	a.push(0).push(0).op(opREVERT)
	a.label("ok")
	// loop--
	a.push(1).push(mLoop).op(opMLOAD).op(opSUB).op(opDUP1).push(mLoop).op(opMSTORE)
	a.pushLabel("loop").op(opJUMPI)
	// then-revert?
	a.push(mFlags).op(opMLOAD).push(fThenRevert).op(opAND).pushLabel("rev").op(opJUMPI)
	a.op(opSTOP)
	a.label("rev")
	a.push(0).push(0).op(opREVERT)
	return a.bytes()
}

// emitDispatch: performs the call described by mem[mFlags] (kind bits), mem[mTarget], payload mem[0..mem[mN]) and
// jumps to label "after" with the success flag on the stack (falls through for CALLCODE).
func emitDispatch(a *asm) {
	// dispatch on kind
	a.push(mFlags).op(opMLOAD).push(fKindMask).op(opAND) // kind
	a.op(opDUP1).push(1).op(opEQ).pushLabel("k_delegate").op(opJUMPI)
	a.op(opDUP1).push(2).op(opEQ).pushLabel("k_static").op(opJUMPI)
	a.op(opDUP1).push(3).op(opEQ).pushLabel("k_callcode").op(opJUMPI)
	// CALL(gas, addr, value, argsOff, argsSize, retOff, retSize)
	a.op(opPOP)
	a.push(0).push(0).push(mN).op(opMLOAD).push(0).push(0).push(mTarget).op(opMLOAD).op(opGAS).op(opCALL)
	a.pushLabel("after").op(opJUMP)
	a.label("k_delegate").op(opPOP)
	a.push(0).push(0).push(mN).op(opMLOAD).push(0).push(mTarget).op(opMLOAD).op(opGAS).op(opDELEGATECALL)
	a.pushLabel("after").op(opJUMP)
	a.label("k_static").op(opPOP)
	a.push(0).push(0).push(mN).op(opMLOAD).push(0).push(mTarget).op(opMLOAD).op(opGAS).op(opSTATICCALL)
	a.pushLabel("after").op(opJUMP)
	a.label("k_callcode").op(opPOP)
	a.push(0).push(0).push(mN).op(opMLOAD).push(0).push(0).push(mTarget).op(opMLOAD).op(opGAS).op(opCALLCODE)
}

// Scratch of the batch contract.
const (
	mPtr = 0x8080
)

// batchRuntime: call data = [1 byte count] then count entries [1 byte flags][20 bytes target][2 bytes len][payload].
// Increments storage slot 0, then performs the calls in order from this one frame (flags: bits 0-1 call kind,
// bit 2 ignore a failing call — otherwise the whole batch reverts).
func batchRuntime() []byte {
	a := newAsm()
	a.push(0).op(opSLOAD).push(1).op(opADD).push(0).op(opSSTORE)
	a.push(1).push(mPtr).op(opMSTORE)
	a.push(0).op(opCALLDATALOAD).push(248).op(opSHR).push(mLoop).op(opMSTORE)
	a.label("next")
	a.push(mLoop).op(opMLOAD).pushLabel("more").op(opJUMPI)
	a.op(opSTOP)
	a.label("more")
	// flags = calldataload(ptr) >> 248
	a.push(mPtr).op(opMLOAD).op(opCALLDATALOAD).push(248).op(opSHR).push(mFlags).op(opMSTORE)
	// target = calldataload(ptr+1) >> 96
	a.push(mPtr).op(opMLOAD).push(1).op(opADD).op(opCALLDATALOAD).push(96).op(opSHR).push(mTarget).op(opMSTORE)
	// len = calldataload(ptr+21) >> 240
	a.push(mPtr).op(opMLOAD).push(21).op(opADD).op(opCALLDATALOAD).push(240).op(opSHR).push(mN).op(opMSTORE)
	// calldatacopy(0, ptr+23, len)
	a.push(mN).op(opMLOAD).push(mPtr).op(opMLOAD).push(23).op(opADD).push(0).op(opCALLDATACOPY)
	// ptr += 23 + len
	a.push(mPtr).op(opMLOAD).push(23).op(opADD).push(mN).op(opMLOAD).op(opADD).push(mPtr).op(opMSTORE)
	emitDispatch(a)
	a.label("after") // stack: success
	a.pushLabel("ok").op(opJUMPI)
	a.push(mFlags).op(opMLOAD).push(fIgnoreFail).op(opAND).pushLabel("ok").op(opJUMPI)
	a.push(0).push(0).op(opREVERT)
	a.label("ok")
	a.push(1).push(mLoop).op(opMLOAD).op(opSUB).push(mLoop).op(opMSTORE)
	a.pushLabel("next").op(opJUMP)
	return a.bytes()
}

// emitterRuntime: call data = [1 byte n<=4][n*32 bytes topics][data]: emits LOGn(data, topics...) from its own address.
func emitterRuntime() []byte {
	a := newAsm()
	// n = calldataload(0) >> 248
	a.push(0).op(opCALLDATALOAD).push(248).op(opSHR).push(mFlags).op(opMSTORE)
	// off = 1 + 32*n
	a.push(mFlags).op(opMLOAD).push(32).op(opMUL).push(1).op(opADD).push(mTarget).op(opMSTORE)
	// size = calldatasize - off
	a.push(mTarget).op(opMLOAD).op(opCALLDATASIZE).op(opSUB).push(mN).op(opMSTORE)
	// calldatacopy(0, off, size)
	a.push(mN).op(opMLOAD).push(mTarget).op(opMLOAD).push(0).op(opCALLDATACOPY)
	for n := 0; n <= 4; n++ {
		a.push(mFlags).op(opMLOAD).push(uint64(n)).op(opEQ).pushLabel(fmt.Sprintf("log%d", n)).op(opJUMPI)
	}
	a.push(0).push(0).op(opREVERT)
	for n := 0; n <= 4; n++ {
		a.label(fmt.Sprintf("log%d", n))
		for t := n - 1; t >= 0; t-- { // topics pushed in reverse: LOGn pops offset, size, topic1..topicn
			a.push(uint64(1 + 32*t)).op(opCALLDATALOAD)
		}
		a.push(mN).op(opMLOAD).push(0).op(byte(opLOG0 + n))
		a.op(opSTOP)
	}
	return a.bytes()
}

// ctorCallerInit: init code that sets slot 0 := 1, CALLs target with payload (msg.sender = the address being
// created), reverts when the call fails, and deploys empty code.
func ctorCallerInit(target []byte, payload []byte) []byte {
	a := newAsm()
	a.push(1).push(0).op(opSSTORE)
	a.push(uint64(len(payload))).pushLabel("pl").push(0).op(opCODECOPY)
	a.push(0).push(0).push(uint64(len(payload))).push(0).push(0).pushBytes(target).op(opGAS).op(opCALL)
	a.pushLabel("ok").op(opJUMPI)
	a.push(0).push(0).op(opREVERT)
	a.label("ok")
	a.push(0).push(0).op(opRETURN)
	a.mark("pl")
	a.op(payload...)
	return a.bytes()
}
