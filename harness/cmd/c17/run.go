// Application mode: executes a history on a fresh real application and records the projected observables.
package main

import (
	"fmt"
	"math/big"
	"time"

	sdk "github.com/cosmos/cosmos-sdk/types"
	authtypes "github.com/cosmos/cosmos-sdk/x/auth/types"
	distrtypes "github.com/cosmos/cosmos-sdk/x/distribution/types"
	govtypes "github.com/cosmos/cosmos-sdk/x/gov/types"
	stakingtypes "github.com/cosmos/cosmos-sdk/x/staking/types"
	ethabi "github.com/ethereum/go-ethereum/accounts/abi"
	"github.com/ethereum/go-ethereum/common"
	"github.com/ethereum/go-ethereum/crypto"

	govcontract "github.com/teleport-network/teleport/syscontracts/gov"

	"verifharness/hlib"
)

type StepObs struct {
	Pre     Snap           `json:"pre"`
	Post    Snap           `json:"post"`
	Class   int            `json:"class"`             // transactions: result class; environment steps: 0
	Logs    []HLog         `json:"logs"`              // logs of the transaction response
	VRes    map[string]int `json:"vres,omitempty"`    // validator string (hex) -> validator index (-1: not a known validator)
	To      string         `json:"to,omitempty"`      // address called (or created)
	Sender  string         `json:"sender,omitempty"`  // the externally owned account
	Created string         `json:"created,omitempty"` // create: the new contract address
	Err     string         `json:"err,omitempty"`     // diagnostic only (never compared)
	Halt    string         `json:"halt,omitempty"`    // the step (or the block boundary after it) PANICKED outside any recovery: a chain halt
}

type EnvInfo struct {
	Staking  string            `json:"staking"`
	Gov      string            `json:"gov"`
	Topics   map[string]string `json:"topics"`
	EOAs     []string          `json:"eoas"`
	Proxies  []string          `json:"proxies"`
	Batches  []string          `json:"batches"`
	Emitter  string            `json:"emitter"`
	Bonded   string            `json:"bonded"`
	NotBond  string            `json:"notbonded"`
	Distr    string            `json:"distr"`
	FeeColl  string            `json:"feecoll"`
	GovMod   string            `json:"govmod"`
	Faucet   string            `json:"faucet"`
	Vals     []string          `json:"vals"` // operator strings (hex of the bech32 text)
	MaxEntry int               `json:"max_entries"`
}

type Result struct {
	Spec  Spec      `json:"spec"`
	Env   EnvInfo   `json:"env"`
	Obs   []StepObs `json:"obs"`
	Final Snap      `json:"final"` // after one more block (EndBlock / BeginBlock effects of the last step)
}

func word(v *big.Int) []byte { return common.LeftPadBytes(v.Bytes(), 32) }

// sysCallData: call data of a system-contract function.  Values outside the Solidity type's range are encoded
// as raw words (the contract's ABI decoder must revert on them).
func sysCallData(n *Node) []byte {
	var bz []byte
	var err error
	switch n.Fn {
	case "delegate", "undelegate":
		bz, err = stakingABI.Pack(n.Fn, string(hlib.UnHex(n.V)), bigOf(n.A))
	case "redelegate":
		bz, err = stakingABI.Pack(n.Fn, string(hlib.UnHex(n.V)), string(hlib.UnHex(n.W)), bigOf(n.A))
	case "withdraw":
		bz, err = stakingABI.Pack(n.Fn, string(hlib.UnHex(n.V)))
	case "vote":
		bz = append(append(append([]byte{}, govMethod(false).ID...), word(bigOf(n.Pid))...), word(bigOf(n.Opt))...)
	case "votew":
		ws := []govcontract.GovOptionWeight{}
		for _, w := range n.Opts {
			ws = append(ws, govcontract.GovOptionWeight{Option: uint32(bigOf(w[0]).Uint64()), Weight: bigOf(w[1]).Uint64()})
		}
		bz, err = govABI.Pack(govMethod(true).Name, bigOf(n.Pid).Uint64(), ws)
	default:
		panic("unknown fn " + n.Fn)
	}
	must(err)
	return bz
}

// govMethod picks the plain or the weighted overload of Gov.vote.
func govMethod(weighted bool) ethabi.Method {
	for _, m := range govABI.Methods {
		if m.RawName == "vote" && (m.Inputs[1].Type.T == ethabi.SliceTy) == weighted {
			return m
		}
	}
	panic("vote overload not found")
}

func (e *Env) sysAddr(c string) common.Address {
	if c == "gov" {
		return govAddr
	}
	return stakingAddr
}

// build returns the address to call and the call data realising the tree.
func (e *Env) build(n *Node) (common.Address, []byte) {
	switch n.K {
	case "sys":
		return e.sysAddr(n.C), sysCallData(n)
	case "emit":
		d := []byte{byte(len(n.Topics))}
		for _, t := range n.Topics {
			d = append(d, hlib.UnHex(t)...)
		}
		return e.emitter, append(d, hlib.UnHex(n.Data)...)
	case "proxy":
		to, data := e.build(n.Inner)
		d := append([]byte{byte(n.Flags)}, to.Bytes()...)
		return e.proxies[n.P], append(d, data...)
	case "batch":
		if len(n.Items) > 255 {
			panic("batch too long")
		}
		d := []byte{byte(len(n.Items))}
		for _, it := range n.Items {
			to, data := e.build(it.Inner)
			if len(data) > 0x7fff {
				panic("batch payload too long")
			}
			d = append(append(d, byte(it.Flags)), to.Bytes()...)
			d = append(d, byte(len(data)>>8), byte(len(data)))
			d = append(d, data...)
		}
		return e.batches[n.P], d
	}
	panic("unknown node " + n.K)
}

func collectVals(n *Node, out map[string]bool) {
	if n == nil {
		return
	}
	if n.K == "sys" {
		switch n.Fn {
		case "delegate", "undelegate", "withdraw":
			out[n.V] = true
		case "redelegate":
			out[n.V] = true
			out[n.W] = true
		}
	}
	collectVals(n.Inner, out)
	for _, it := range n.Items {
		collectVals(it.Inner, out)
	}
}

func (e *Env) resolveVal(hexStr string) int {
	va, err := sdk.ValAddressFromBech32(string(hlib.UnHex(hexStr)))
	if err != nil {
		return -1
	}
	if _, found := e.app.StakingKeeper.GetValidator(e.Ctx(), va); !found {
		return -1
	}
	for i, v := range e.valOper {
		if v.Equals(va) {
			return i
		}
	}
	return -2 // a validator outside the harness's universe: must not happen
}

func toHLogs(out TxOut) []HLog {
	ls := []HLog{}
	for _, l := range out.Logs {
		h := HLog{Addr: hlib.Hex(l.Address.Bytes()), Data: hlib.Hex(l.Data), Topics: []string{}}
		for _, t := range l.Topics {
			h.Topics = append(h.Topics, hlib.Hex(t.Bytes()))
		}
		ls = append(ls, h)
	}
	return ls
}

func (e *Env) info() EnvInfo {
	modHex := func(name string) string { return hlib.Hex(authtypes.NewModuleAddress(name)) }
	inf := EnvInfo{Staking: hlib.Hex(stakingAddr.Bytes()), Gov: hlib.Hex(govAddr.Bytes()), Topics: map[string]string{},
		Emitter: hlib.Hex(e.emitter.Bytes()), Bonded: modHex(stakingtypes.BondedPoolName), NotBond: modHex(stakingtypes.NotBondedPoolName),
		Distr: modHex(distrtypes.ModuleName), FeeColl: modHex(authtypes.FeeCollectorName), GovMod: modHex(govtypes.ModuleName),
		Faucet: hlib.Hex(e.faucet.addr.Bytes()), MaxEntry: int(e.app.StakingKeeper.MaxEntries(e.Ctx()))}
	for _, n := range evNames {
		inf.Topics[n] = hlib.Hex(eventID(n).Bytes())
	}
	for _, x := range e.eoas {
		inf.EOAs = append(inf.EOAs, hlib.Hex(x.addr.Bytes()))
	}
	for _, p := range e.proxies {
		inf.Proxies = append(inf.Proxies, hlib.Hex(p.Bytes()))
	}
	for _, p := range e.batches {
		inf.Batches = append(inf.Batches, hlib.Hex(p.Bytes()))
	}
	for _, v := range e.valOper {
		inf.Vals = append(inf.Vals, hlib.Hex([]byte(v.String())))
	}
	return inf
}

func runSpec(s Spec) Result {
	e := NewEnv()
	res := Result{Spec: s, Env: e.info()}
	for i, st := range s.Steps {
		o := StepObs{Logs: []HLog{}}
		// addresses whose storage is observed must be known before the pre-snapshot
		var created common.Address
		if st.T == "create" || (st.T == "fund" && st.Addr == "created") {
			from := e.eoas[st.From]
			created = crypto.CreateAddress(from.addr, e.app.EvmKeeper.GetNonce(e.Ctx(), from.addr))
			known := false
			for _, c := range e.created {
				known = known || c == created
			}
			if !known {
				e.created = append(e.created, created)
			}
		}
		o.Pre = e.Snapshot(st.T == "tx" || st.T == "create")
		// DeliverTx recovers panics of a transaction itself; anything else that panics here (EndBlock / BeginBlock of
		// the blocks an environment step contains, the crisis invariants they assert) would halt the chain
		halted, what := hlib.Catch(func() {
			switch st.T {
			case "tx", "create":
				from := e.eoas[st.From]
				o.Sender = hlib.Hex(from.addr.Bytes())
				vs := map[string]bool{}
				collectVals(st.Call, vs)
				o.VRes = map[string]int{}
				for v := range vs {
					o.VRes[v] = e.resolveVal(v)
				}
				to, data := e.build(st.Call)
				var out TxOut
				if st.T == "create" {
					o.Created = hlib.Hex(created.Bytes())
					o.To = o.Created
					out = e.SendEth(from, nil, ctorCallerInit(to.Bytes(), data), 3_000_000)
				} else {
					o.To = hlib.Hex(to.Bytes())
					out = e.SendEth(from, &to, data, 3_000_000)
				}
				o.Class = out.Class
				o.Logs = toHLogs(out)
				if out.Class != clsOK {
					o.Err = out.VmErr
					if len(out.Log) > 0 && out.Class >= clsTxErr {
						o.Err = out.Log
						if len(o.Err) > 200 {
							o.Err = o.Err[:200]
						}
					}
				}
			case "fund":
				to := created
				if st.Addr != "created" {
					to = common.BytesToAddress(hlib.UnHex(st.Addr))
				}
				e.Fund(to, bigOf(st.Amt))
			case "reward":
				e.Reward(st.Val, bigOf(st.Amt))
			case "advance":
				e.NextBlock(time.Duration(st.Secs) * time.Second)
				e.NextBlock(5 * time.Second)
			case "block":
				e.NextBlock(5 * time.Second)
			case "slash":
				ctx := e.Ctx()
				v, _ := e.app.StakingKeeper.GetValidator(ctx, e.valOper[st.Val])
				h := ctx.BlockHeight()
				if st.Inf != 0 {
					h = st.Inf
				}
				e.app.StakingKeeper.Slash(ctx, e.valCons[st.Val], h, v.ConsensusPower(sdk.DefaultPowerReduction),
					sdk.NewDecWithPrec(bigOf(st.Frac).Int64(), 2))
			default:
				panic(fmt.Sprintf("unknown step %q", st.T))
			}
		})
		if !halted {
			o.Post = e.Snapshot(false)
			if st.NB {
				halted, what = hlib.Catch(func() { e.NextBlock(5 * time.Second) })
			}
		}
		if halted {
			o.Halt = "panic: " + what
			if o.Post.Supply == "" {
				o.Post = o.Pre
			}
			res.Obs = append(res.Obs, o)
			res.Spec.Steps = res.Spec.Steps[:i+1]
			res.Final = o.Post
			return res
		}
		res.Obs = append(res.Obs, o)
	}
	if halted, what := hlib.Catch(func() { e.NextBlock(5 * time.Second) }); halted && len(res.Obs) > 0 {
		res.Obs[len(res.Obs)-1].Halt = "panic: " + what
		res.Final = res.Obs[len(res.Obs)-1].Post
		return res
	}
	res.Final = e.Snapshot(false)
	return res
}
