// Pure-hook mode: the REAL adapter hooks (adapter/staking, adapter/gov PostTxProcessing, combined by ethermint's
// MultiEvmHooks in the order of app.go) are run on generated receipts with a recording message router, so the
// list of native messages a log list is turned into can be compared with the model at high volume.
package main

import (
	"context"
	"errors"
	"math/big"

	"github.com/cosmos/cosmos-sdk/baseapp"
	sdk "github.com/cosmos/cosmos-sdk/types"
	distrtypes "github.com/cosmos/cosmos-sdk/x/distribution/types"
	govtypes "github.com/cosmos/cosmos-sdk/x/gov/types"
	stakingtypes "github.com/cosmos/cosmos-sdk/x/staking/types"
	"github.com/ethereum/go-ethereum/common"
	ethtypes "github.com/ethereum/go-ethereum/core/types"
	"github.com/tharsis/ethermint/encoding"
	evmkeeper "github.com/tharsis/ethermint/x/evm/keeper"
	evmtypes "github.com/tharsis/ethermint/x/evm/types"

	adgov "github.com/teleport-network/teleport/adapter/gov"
	adstaking "github.com/teleport-network/teleport/adapter/staking"
	"github.com/teleport-network/teleport/app"

	"verifharness/hlib"
)

// RMsg is a recorded native message (projection of the SDK message).
type RMsg struct {
	T    string      `json:"t"`              // delegate undelegate redelegate withdraw vote votew
	D    string      `json:"d"`              // signer (delegator / voter) as 20-byte hex (decoded from the bech32 string)
	V    string      `json:"v,omitempty"`    // validator (source) string, hex of the raw bytes
	W    string      `json:"w,omitempty"`    // destination validator string, hex
	A    string      `json:"a,omitempty"`    // amount, decimal
	Den  string      `json:"den,omitempty"`  // denomination of the amount
	Pid  string      `json:"pid,omitempty"`  // proposal id
	Opt  string      `json:"opt,omitempty"`  // vote option (signed decimal)
	Opts [][2]string `json:"opts,omitempty"` // weighted options: option, weight scaled by 10^18
}

type recorder struct {
	stakingtypes.UnimplementedMsgServer
	msgs   []RMsg
	failAt int
}

type distrRec struct {
	distrtypes.UnimplementedMsgServer
	r *recorder
}
type govRec struct {
	govtypes.UnimplementedMsgServer
	r *recorder
}

var errInjected = errors.New("injected native failure")

func accHex(bech string) string {
	a, err := sdk.AccAddressFromBech32(bech)
	if err != nil {
		return "!" + hlib.Hex([]byte(bech))
	}
	return hlib.Hex(a)
}

func (r *recorder) add(m RMsg) error {
	if r.failAt >= 0 && len(r.msgs) == r.failAt {
		return errInjected
	}
	r.msgs = append(r.msgs, m)
	return nil
}

func (r *recorder) Delegate(_ context.Context, m *stakingtypes.MsgDelegate) (*stakingtypes.MsgDelegateResponse, error) {
	return &stakingtypes.MsgDelegateResponse{}, r.add(RMsg{T: "delegate", D: accHex(m.DelegatorAddress), V: hlib.Hex([]byte(m.ValidatorAddress)),
		A: m.Amount.Amount.String(), Den: m.Amount.Denom})
}

func (r *recorder) Undelegate(_ context.Context, m *stakingtypes.MsgUndelegate) (*stakingtypes.MsgUndelegateResponse, error) {
	return &stakingtypes.MsgUndelegateResponse{}, r.add(RMsg{T: "undelegate", D: accHex(m.DelegatorAddress), V: hlib.Hex([]byte(m.ValidatorAddress)),
		A: m.Amount.Amount.String(), Den: m.Amount.Denom})
}

func (r *recorder) BeginRedelegate(_ context.Context, m *stakingtypes.MsgBeginRedelegate) (*stakingtypes.MsgBeginRedelegateResponse, error) {
	return &stakingtypes.MsgBeginRedelegateResponse{}, r.add(RMsg{T: "redelegate", D: accHex(m.DelegatorAddress),
		V: hlib.Hex([]byte(m.ValidatorSrcAddress)), W: hlib.Hex([]byte(m.ValidatorDstAddress)), A: m.Amount.Amount.String(), Den: m.Amount.Denom})
}

func (d distrRec) WithdrawDelegatorReward(_ context.Context, m *distrtypes.MsgWithdrawDelegatorReward) (*distrtypes.MsgWithdrawDelegatorRewardResponse, error) {
	return &distrtypes.MsgWithdrawDelegatorRewardResponse{}, d.r.add(RMsg{T: "withdraw", D: accHex(m.DelegatorAddress), V: hlib.Hex([]byte(m.ValidatorAddress))})
}

func (g govRec) Vote(_ context.Context, m *govtypes.MsgVote) (*govtypes.MsgVoteResponse, error) {
	return &govtypes.MsgVoteResponse{}, g.r.add(RMsg{T: "vote", D: accHex(m.Voter), Pid: new(big.Int).SetUint64(m.ProposalId).String(),
		Opt: big.NewInt(int64(int32(m.Option))).String()})
}

func (g govRec) VoteWeighted(_ context.Context, m *govtypes.MsgVoteWeighted) (*govtypes.MsgVoteWeightedResponse, error) {
	rm := RMsg{T: "votew", D: accHex(m.Voter), Pid: new(big.Int).SetUint64(m.ProposalId).String()}
	for _, o := range m.Options {
		rm.Opts = append(rm.Opts, [2]string{big.NewInt(int64(int32(o.Option))).String(), o.Weight.BigInt().String()})
	}
	return &govtypes.MsgVoteWeightedResponse{}, g.r.add(rm)
}

// HookEnv holds the real hooks wired to the recorder.
type HookEnv struct {
	env     *Env
	rec     *recorder
	staking evmtypes.EvmHooks
	gov     evmtypes.EvmHooks
	multi   evmtypes.EvmHooks
}

func NewHookEnv() *HookEnv {
	e := NewEnv()
	rec := &recorder{failAt: -1}
	router := baseapp.NewMsgServiceRouter()
	router.SetInterfaceRegistry(encoding.MakeConfig(app.ModuleBasics).InterfaceRegistry)
	stakingtypes.RegisterMsgServer(router, rec)
	distrtypes.RegisterMsgServer(router, &distrRec{r: rec})
	govtypes.RegisterMsgServer(router, &govRec{r: rec})
	sh := adstaking.NewHookAdapter(&e.app.AccountKeeper, &e.app.StakingKeeper, e.app.EvmKeeper, router)
	gh := adgov.NewHookAdapter(&e.app.AccountKeeper, e.app.EvmKeeper, router)
	return &HookEnv{env: e, rec: rec, staking: sh, gov: gh, multi: evmkeeper.NewMultiEvmHooks(sh, gh)}
}

type HLog struct {
	Addr   string   `json:"addr"`
	Topics []string `json:"topics"`
	Data   string   `json:"data"`
}

type HookSpec struct {
	ID     int    `json:"id"`
	Which  string `json:"which"` // staking | gov | multi
	Logs   []HLog `json:"logs"`
	FailAt int    `json:"fail_at"` // index of the native message whose handler fails (-1: none)
}

type HookResult struct {
	Spec  HookSpec `json:"spec"`
	Class int      `json:"class"` // 0 nil, 1 error, 2 panic
	Msgs  []RMsg   `json:"msgs"`
	Panic string   `json:"panic,omitempty"`
}

func toEthLogs(ls []HLog) []*ethtypes.Log {
	var out []*ethtypes.Log
	for _, l := range ls {
		el := &ethtypes.Log{Address: common.BytesToAddress(hlib.UnHex(l.Addr)), Data: hlib.UnHex(l.Data)}
		for _, t := range l.Topics {
			el.Topics = append(el.Topics, common.BytesToHash(hlib.UnHex(t)))
		}
		out = append(out, el)
	}
	return out
}

func (h *HookEnv) Run(s HookSpec) HookResult {
	h.rec.msgs = nil
	h.rec.failAt = s.FailAt
	hook := h.multi
	switch s.Which {
	case "staking":
		hook = h.staking
	case "gov":
		hook = h.gov
	}
	ctx, _ := h.env.Ctx().CacheContext()
	receipt := &ethtypes.Receipt{Logs: toEthLogs(s.Logs), Status: ethtypes.ReceiptStatusSuccessful}
	res := HookResult{Spec: s}
	var err error
	p, val := hlib.Catch(func() { err = hook.PostTxProcessing(ctx, nil, receipt) })
	switch {
	case p:
		res.Class = 2
		res.Panic = val
	case err != nil:
		res.Class = 1
	}
	res.Msgs = append([]RMsg{}, h.rec.msgs...)
	return res
}
