// MPT-level cases for C08: go-ethereum's trie.VerifyProof is run directly on
//
//	(a) proofs taken with Trie.Prove from tries with short / prefix-related keys and small values (embedded
//	    nodes, values in branch nodes), present and absent keys, with node-list mutations, and
//	(b) hand-crafted node trees whose hashes are consistent (so the walk gets past the root) but whose nodes
//	    carry every quirk the decoder has a branch for: empty / flagged compact keys, non-canonical RLP sizes,
//	    wrong element counts, trailing bytes after the list, oversized embedded nodes, string children of
//	    other sizes, single-byte children, list-valued value slots, empty values, hash references to small
//	    nodes ...
//
// Each record carries the Keccak hash of every node of the list, so that the Gallina transcription
// (Model/EvmProofMpt.v: mpt_verify_g) can be evaluated on the same input and compared with the result.
//
// Also here: the sweep of GetDelayBlock / GetDelayTime of both client copies over validator counts.
package main

import (
	"fmt"

	"github.com/ethereum/go-ethereum/common"
	"github.com/ethereum/go-ethereum/crypto"
	"github.com/ethereum/go-ethereum/ethdb/memorydb"
	"github.com/ethereum/go-ethereum/light"
	"github.com/ethereum/go-ethereum/trie"

	bsctypes "github.com/teleport-network/teleport/x/xibc/clients/light-clients/bsc/types"
	ethtypes "github.com/teleport-network/teleport/x/xibc/clients/light-clients/eth/types"

	"verifharness/hlib"
)

type MCase struct {
	ID     int         `json:"id"`
	Family string      `json:"family"`
	Root   string      `json:"root"`
	Key    string      `json:"key"`
	Nodes  []string    `json:"nodes"`
	Res    *string     `json:"res"` // nil: error; "": (nil, nil) or an empty value; else the value
	Panic  bool        `json:"panic"`
	Keccak [][2]string `json:"keccak"`
	// full-db cases only: what Trie.TryGet of a trie opened on the committed database returns for the key
	// ("" = absent); HasTryGet tells whether the field is meaningful
	HasTryGet bool   `json:"has_tryget"`
	TryGet    string `json:"tryget"`
}

func runMpt(id int, family string, root common.Hash, key []byte, nodes [][]byte) MCase {
	c := MCase{ID: id, Family: family, Root: hx(root.Bytes()), Key: hx(key), Nodes: []string{}, Keccak: [][2]string{}}
	nl := new(light.NodeList)
	seen := map[string]bool{}
	for _, n := range nodes {
		c.Nodes = append(c.Nodes, hx(n))
		_ = nl.Put(nil, n)
		if !seen[string(n)] {
			seen[string(n)] = true
			c.Keccak = append(c.Keccak, [2]string{hx(n), hx(crypto.Keccak256(n))})
		}
	}
	p, _ := hlib.Catch(func() {
		val, err := trie.VerifyProof(root, key, nl.NodeSet())
		if err == nil {
			c.Res = sptr(hx(val))
		}
	})
	c.Panic = p
	return c
}

// ---------------------------------------------------------------------------------------------------
// (a) tries built by go-ethereum
// ---------------------------------------------------------------------------------------------------

func mutateNodeList(r *hlib.Rand, ns [][]byte, fam *string) [][]byte {
	out := make([][]byte, len(ns))
	for i := range ns {
		out[i] = append([]byte{}, ns[i]...)
	}
	switch r.Intn(12) {
	case 0:
		if len(out) > 0 {
			out = out[:len(out)-1]
			*fam += "+drop-last"
		}
	case 1:
		if len(out) > 0 {
			out = out[1:]
			*fam += "+drop-first"
		}
	case 2:
		if len(out) > 0 {
			i := r.Intn(len(out))
			if len(out[i]) > 0 {
				out[i][r.Intn(len(out[i]))] ^= byte(1 + r.Intn(255))
				*fam += "+flip-byte"
			}
		}
	case 3:
		if len(out) > 0 {
			i := r.Intn(len(out))
			out[i] = append(out[i], r.Bytes(1+r.Intn(3))...)
			*fam += "+node-tail"
		}
	case 4:
		if len(out) > 0 {
			i := r.Intn(len(out))
			if len(out[i]) > 1 {
				out[i] = out[i][:len(out[i])-1]
				*fam += "+node-truncated"
			}
		}
	case 5:
		for i, j := 0, len(out)-1; i < j; i, j = i+1, j-1 {
			out[i], out[j] = out[j], out[i]
		}
		*fam += "+reversed"
	case 6:
		if len(out) > 0 {
			out = append(out, out[r.Intn(len(out))])
			*fam += "+duplicate"
		}
	case 7:
		out = append([][]byte{r.Bytes(r.Intn(40))}, out...)
		*fam += "+junk-node"
	case 8:
		out = [][]byte{}
		*fam += "+empty-list"
	}
	return out
}

func genGethTrie(r *hlib.Rand, id int) MCase {
	t := newTrie()
	n := 1 + r.Intn(24)
	keys := [][]byte{}
	maxKey := 1 + r.Intn(4)
	if r.Chance(1, 5) {
		maxKey = 32
	}
	alphabet := 2 + r.Intn(6) // few distinct byte values => shared prefixes, keys that are prefixes of others
	mkKey := func() []byte {
		l := r.Intn(maxKey + 1)
		if maxKey == 32 && r.Chance(2, 3) {
			l = 32
		}
		k := make([]byte, l)
		for i := range k {
			switch r.Intn(3) {
			case 0:
				k[i] = byte(r.Intn(alphabet))
			case 1:
				k[i] = byte(r.Intn(alphabet) << 4)
			default:
				k[i] = byte(r.Intn(256))
			}
		}
		return k
	}
	for i := 0; i < n; i++ {
		k := mkKey()
		var v []byte
		switch r.Intn(4) {
		case 0:
			v = r.Bytes(1)
		case 1:
			v = r.Bytes(1 + r.Intn(6))
		case 2:
			v = r.Bytes(20 + r.Intn(30))
		default:
			v = r.Bytes(1 + r.Intn(120))
		}
		if err := t.TryUpdate(k, v); err != nil {
			panic(err)
		}
		keys = append(keys, k)
	}
	fam := "geth-trie"
	var key []byte
	switch r.Intn(4) {
	case 0: // absent (probably)
		key = mkKey()
		fam += ":random-key"
	case 1: // prefix / extension of a present key
		k := keys[r.Intn(len(keys))]
		if len(k) > 0 && r.Bool() {
			key = k[:r.Intn(len(k))]
		} else {
			key = append(append([]byte{}, k...), r.Bytes(1+r.Intn(2))...)
		}
		fam += ":prefix-or-extension"
	default:
		key = keys[r.Intn(len(keys))]
		fam += ":present-key"
	}
	nodes := prove(t, key)
	root := t.Hash()
	if r.Chance(1, 3) {
		nodes = mutateNodeList(r, nodes, &fam)
	}
	if r.Chance(1, 12) { // another key with this proof
		key = mkKey()
		fam += "+other-key"
	}
	if r.Chance(1, 20) {
		root = common.BytesToHash(r.Bytes(32))
		fam += "+other-root"
	}
	return runMpt(id, fam, root, key, nodes)
}

// genFullDB: the node list is the ENTIRE committed node database of a geth-built trie (every node under its hash, in
// the database's iteration order) -- the notion of "world" of the theorems (Proofs/EvmProofMpt.v: resolves / db_value /
// commits_db).  Recorded besides trie.VerifyProof's answer: what geth's own reader (Trie.TryGet on a trie re-opened
// from the database by root hash) finds for the key.
func genFullDB(r *hlib.Rand, id int) MCase {
	disk := memorydb.New()
	tdb := trie.NewDatabase(disk)
	t, err := trie.New(common.Hash{}, tdb)
	if err != nil {
		panic(err)
	}
	n := 1 + r.Intn(14)
	secure := r.Chance(1, 3)
	keys := [][]byte{}
	for i := 0; i < n; i++ {
		var k []byte
		if secure {
			k = crypto.Keccak256(r.Bytes(4))
		} else {
			k = make([]byte, r.Intn(4))
			for j := range k {
				k[j] = byte(r.Intn(4)) << uint(4*r.Intn(2))
			}
		}
		v := r.Bytes(1 + r.Intn(40))
		if r.Chance(1, 3) {
			v = r.Bytes(1)
		}
		if err := t.TryUpdate(k, v); err != nil {
			panic(err)
		}
		keys = append(keys, k)
	}
	root, _, err := t.Commit(nil)
	if err != nil {
		panic(err)
	}
	if err := tdb.Commit(root, false, nil); err != nil {
		panic(err)
	}
	nodes := [][]byte{}
	it := disk.NewIterator(nil, nil)
	for it.Next() {
		nodes = append(nodes, append([]byte{}, it.Value()...))
	}
	it.Release()
	fam := "geth-trie:full-db"
	key := keys[r.Intn(len(keys))]
	switch r.Intn(3) {
	case 0:
		if secure {
			key = crypto.Keccak256(r.Bytes(5))
		} else {
			key = r.Bytes(r.Intn(4))
		}
		fam += ":random-key"
	case 1:
		if len(key) > 0 {
			key = key[:r.Intn(len(key))]
		} else {
			key = []byte{byte(r.Intn(256))}
		}
		fam += ":prefix-key"
	default:
		fam += ":present-key"
	}
	mc := runMpt(id, fam, root, key, nodes)
	t2, err := trie.New(root, trie.NewDatabase(disk))
	if err == nil {
		if v, err := t2.TryGet(key); err == nil {
			mc.HasTryGet = true
			mc.TryGet = hx(v)
		}
	}
	return mc
}

// ---------------------------------------------------------------------------------------------------
// (b) crafted node trees
// ---------------------------------------------------------------------------------------------------

func beBytes(n uint64) []byte {
	out := []byte{}
	for n > 0 {
		out = append([]byte{byte(n)}, out...)
		n >>= 8
	}
	return out
}

// rlpHead: header of a string (base 0x80) / list (base 0xc0); quirk 1: long form although short, quirk 2: long form
// with a leading zero size byte, quirk 3: declared size one larger than the payload
func rlpHead(base byte, n int, quirk int) []byte {
	switch quirk {
	case 1:
		return append([]byte{base + 55 + 1}, byte(n))
	case 2:
		sz := append([]byte{0}, beBytes(uint64(n))...)
		if n == 0 {
			sz = []byte{0, 0}
		}
		return append([]byte{base + 55 + byte(len(sz))}, sz...)
	case 3:
		n++
	}
	if n <= 55 {
		return []byte{base + byte(n)}
	}
	sz := beBytes(uint64(n))
	return append([]byte{base + 55 + byte(len(sz))}, sz...)
}

type crafter struct {
	r      *hlib.Rand
	nodes  [][]byte
	quirks map[string]bool
	pq     int // probability (percent) of a quirk at each decision point
}

func (c *crafter) q(name string) bool {
	if forced != nil { // directed case: exactly the named quirk fires, at its first opportunity
		if name == forced.name && !forced.fired {
			forced.fired = true
			c.quirks[name] = true
			return true
		}
		if forced.name == "compact-empty-string" && name == "extension-empty-key" {
			return true // prerequisite: only an extension without nibbles can have the empty string as its key
		}
		return false
	}
	if c.r.Intn(100) < c.pq {
		c.quirks[name] = true
		return true
	}
	return false
}

func (c *crafter) str(b []byte) []byte {
	if len(b) == 1 && b[0] < 0x80 {
		if c.q("byte-in-string-form") {
			return []byte{0x81, b[0]} // non-canonical
		}
		return b
	}
	quirk := 0
	if len(b) <= 55 && c.q("string-long-form") {
		quirk = 1
	} else if c.q("string-size-leading-zero") {
		quirk = 2
	} else if c.q("string-size-too-large") {
		quirk = 3
	}
	return append(rlpHead(0x80, len(b), quirk), b...)
}

func (c *crafter) list(items ...[]byte) []byte {
	p := []byte{}
	for _, it := range items {
		p = append(p, it...)
	}
	quirk := 0
	if len(p) <= 55 && c.q("list-long-form") {
		quirk = 1
	} else if c.q("list-size-leading-zero") {
		quirk = 2
	} else if c.q("list-size-too-large") {
		quirk = 3
	}
	return append(rlpHead(0xc0, len(p), quirk), p...)
}

// compact encoding of hex nibbles (terminator 16 allowed at the end), with flag quirks
func (c *crafter) compact(hexk []byte) []byte {
	term := byte(0)
	if len(hexk) > 0 && hexk[len(hexk)-1] == 16 {
		term = 1
		hexk = hexk[:len(hexk)-1]
	}
	if len(hexk) == 0 && term == 0 && c.q("compact-empty-string") {
		return []byte{} // compactToHex returns the empty key
	}
	buf := []byte{term << 5}
	if len(hexk)&1 == 1 {
		buf[0] |= 1<<4 | hexk[0]
		hexk = hexk[1:]
	}
	for i := 0; i+1 < len(hexk); i += 2 {
		buf = append(buf, hexk[i]<<4|hexk[i+1])
	}
	if c.q("compact-high-flag-bits") {
		buf[0] |= byte(1+c.r.Intn(3)) << 6
	}
	if len(hexk)&1 == 0 && term == 0 && len(buf) >= 1 && c.q("compact-even-low-nibble") {
		buf[0] |= byte(1 + c.r.Intn(15)) // ignored by compactToHex for even keys
	}
	return buf
}

// ref: how a parent refers to the child with encoding raw
func (c *crafter) ref(raw []byte) []byte {
	embed := len(raw) < 32
	if embed && c.q("hash-ref-to-small-node") {
		embed = false
	} else if !embed && len(raw) < 60 && c.q("oversized-embedded-node") {
		embed = true
	}
	if embed {
		return raw
	}
	c.nodes = append(c.nodes, raw)
	h := crypto.Keccak256(raw)
	if c.q("ref-string-31") {
		return c.str(h[:31])
	}
	if c.q("ref-string-33") {
		return c.str(append([]byte{1}, h...))
	}
	return append([]byte{0xa0}, h...)
}

func (c *crafter) junkRef() []byte {
	switch c.r.Intn(8) {
	case 0:
		return append([]byte{0xa0}, c.r.Bytes(32)...) // dangling hash
	case 1: // small embedded leaf
		return c.list(c.str(c.compact([]byte{byte(c.r.Intn(16)), 16})), c.str(c.r.Bytes(1+c.r.Intn(3))))
	case 2:
		if c.q("child-single-byte") {
			return []byte{byte(c.r.Intn(0x80))}
		}
		return []byte{0x80}
	case 3:
		if c.q("child-short-string") {
			return c.str(c.r.Bytes(2 + c.r.Intn(20)))
		}
		return []byte{0x80}
	default:
		return []byte{0x80}
	}
}

// node builds a node that consumes the remaining nibbles key (ending in 16) and leads to value val
func (c *crafter) node(key []byte, val []byte, depth int) []byte {
	kind := c.r.Intn(10)
	if depth > 6 {
		kind = 0
	}
	switch {
	case kind < 3 || len(key) == 0: // leaf
		k := append([]byte{}, key...)
		if c.q("leaf-key-mismatch") && len(k) > 1 {
			k[c.r.Intn(len(k)-1)] ^= 1
		} else if c.q("leaf-key-longer") {
			k = append([]byte{byte(c.r.Intn(16))}, k...)
		} else if c.q("leaf-key-shorter") && len(k) > 1 {
			k = k[1:]
		} else if c.q("leaf-without-terminator") {
			k = k[:len(k)-1] // an extension whose "child" is the value string
		}
		v := c.str(val)
		if c.q("leaf-value-is-list") {
			v = c.list(c.str(val))
		}
		items := [][]byte{c.str(c.compact(k)), v}
		if c.q("short-node-three-items") {
			items = append(items, c.str([]byte{1}))
		} else if c.q("short-node-one-item") {
			items = items[:1]
		}
		return c.list(items...)
	case kind < 6: // extension consuming 0..len-1 nibbles
		n := c.r.Intn(len(key))
		if n == 0 && !c.q("extension-empty-key") {
			n = 1
			if len(key) == 1 {
				n = 0
			}
		}
		k := append([]byte{}, key[:n]...)
		if c.q("extension-key-mismatch") && n > 0 {
			k[c.r.Intn(n)] ^= 2
		}
		child := c.ref(c.node(key[n:], val, depth+1))
		return c.list(c.str(c.compact(k)), child)
	default: // branch
		items := make([][]byte, 17)
		for i := 0; i < 16; i++ {
			items[i] = c.junkRef()
		}
		items[16] = []byte{0x80}
		if c.r.Chance(1, 4) {
			items[16] = c.str(c.r.Bytes(1 + c.r.Intn(5)))
		}
		if key[0] == 16 {
			items[16] = c.str(val)
			if c.q("branch-value-is-list") {
				items[16] = c.list(c.str(val))
			}
		} else {
			items[key[0]] = c.ref(c.node(key[1:], val, depth+1))
			if c.q("branch-child-empty") {
				items[key[0]] = []byte{0x80}
			}
		}
		if c.q("branch-16-items") {
			items = items[:16]
		} else if c.q("branch-18-items") {
			items = append(items, []byte{0x80})
		}
		return c.list(items...)
	}
}

func keyHex(k []byte) []byte {
	out := make([]byte, 0, 2*len(k)+1)
	for _, b := range k {
		out = append(out, b>>4, b&15)
	}
	return append(out, 16)
}

func genCrafted(r *hlib.Rand, id int) MCase {
	c := &crafter{r: r, quirks: map[string]bool{}}
	switch r.Intn(4) {
	case 0:
		c.pq = 0
	case 1:
		c.pq = 2
	case 2:
		c.pq = 6
	default:
		c.pq = 15
	}
	kl := r.Intn(5)
	if r.Chance(1, 4) {
		kl = 32
	}
	key := r.Bytes(kl)
	var val []byte
	switch r.Intn(5) {
	case 0:
		val = []byte{}
	case 1:
		val = []byte{byte(r.Intn(256))}
	case 2:
		val = r.Bytes(1 + r.Intn(8))
	default:
		val = r.Bytes(1 + r.Intn(70))
	}
	rootRaw := c.node(keyHex(key), val, 0)
	if r.Chance(1, 10) {
		rootRaw = append(rootRaw, r.Bytes(1+r.Intn(4))...) // bytes after the root list: SplitList ignores them
		c.quirks["root-tail"] = true
	}
	nodes := append([][]byte{rootRaw}, c.nodes...)
	root := common.BytesToHash(crypto.Keccak256(rootRaw))
	fam := "crafted"
	if len(c.quirks) == 0 {
		fam += ":clean"
	} else {
		names := []string{}
		for q := range c.quirks {
			names = append(names, q)
		}
		sortStrings(names)
		for _, q := range names {
			fam += ":" + q
		}
	}
	if r.Chance(1, 8) {
		nodes = mutateNodeList(r, nodes, &fam)
	}
	if r.Chance(1, 15) { // ask for a sibling key
		k2 := append([]byte{}, key...)
		if len(k2) > 0 {
			k2[r.Intn(len(k2))] ^= byte(1 << uint(r.Intn(8)))
		} else {
			k2 = []byte{byte(r.Intn(256))}
		}
		key = k2
		fam += "+sibling-key"
	}
	return runMpt(id, fam, root, key, nodes)
}

func sortStrings(a []string) {
	for i := 1; i < len(a); i++ {
		for j := i; j > 0 && a[j] < a[j-1]; j-- {
			a[j], a[j-1] = a[j-1], a[j]
		}
	}
}

// directed cases that run first on every check: one per decoder quirk with the probability forced to 100 for
// that quirk only
func directedMpt() []MCase {
	quirks := []string{"byte-in-string-form", "string-long-form", "string-size-leading-zero", "string-size-too-large",
		"list-long-form", "list-size-leading-zero", "list-size-too-large", "compact-empty-string", "compact-high-flag-bits",
		"compact-even-low-nibble", "hash-ref-to-small-node", "oversized-embedded-node", "ref-string-31", "ref-string-33",
		"child-single-byte", "child-short-string", "leaf-key-mismatch", "leaf-key-longer", "leaf-key-shorter",
		"leaf-without-terminator", "leaf-value-is-list", "short-node-three-items", "short-node-one-item",
		"extension-empty-key", "extension-key-mismatch", "branch-value-is-list", "branch-child-empty", "branch-16-items",
		"branch-18-items"}
	out := []MCase{}
	id := 800000
	for qi, qn := range quirks {
		for rep := 0; rep < 2; rep++ {
			var mc MCase
			for try := 0; try < 400; try++ { // the node shapes are random: search for a shape that offers the quirk
				f := &forcedCrafter{name: qn}
				mc = genForced(hlib.NewRand(uint64(7919*qi+1000*rep+try+1)), id, f, rep == 1)
				if f.fired {
					break
				}
			}
			out = append(out, mc)
			id++
		}
	}
	// embedded-node size boundary: a leaf of exactly 29..35 encoded bytes under a branch, embedded or referred to by hash
	// (decodeRef accepts an embedded node of up to 32 bytes)
	for vl := 26; vl <= 32; vl++ {
		for _, embed := range []bool{true, false} {
			r := hlib.NewRand(uint64(31337 + vl))
			key := []byte{byte(r.Intn(256))}
			val := r.Bytes(vl)
			hk := keyHex(key)
			leaf := append([]byte{0xc0 + byte(2+vl), 0x30 | hk[1], 0x80 + byte(vl)}, val...)
			items := []byte{}
			nodes := [][]byte{}
			for i := 0; i < 16; i++ {
				if byte(i) == hk[0] {
					if embed {
						items = append(items, leaf...)
					} else {
						items = append(items, 0xa0)
						items = append(items, crypto.Keccak256(leaf)...)
						nodes = append(nodes, leaf)
					}
				} else {
					items = append(items, 0x80)
				}
			}
			items = append(items, 0x80)
			rootRaw := append(rlpHead(0xc0, len(items), 0), items...)
			nodes = append([][]byte{rootRaw}, nodes...)
			fam := fmt.Sprintf("directed:embedded-size-%d", len(leaf))
			if !embed {
				fam = fmt.Sprintf("directed:hashed-size-%d", len(leaf))
			}
			out = append(out, runMpt(id, fam, common.BytesToHash(crypto.Keccak256(rootRaw)), key, nodes))
			id++
		}
	}
	return out
}

type forcedCrafter struct {
	name  string
	fired bool
}

var forced *forcedCrafter

func genForced(r *hlib.Rand, id int, f *forcedCrafter, big bool) MCase {
	c := &crafter{r: r, quirks: map[string]bool{}}
	forced = f
	defer func() { forced = nil }()
	key := r.Bytes(1 + r.Intn(3))
	val := r.Bytes(1 + r.Intn(40))
	if big { // payloads of 56 bytes and more: the long-form size checks decide
		val = r.Bytes(56 + r.Intn(30))
	}
	rootRaw := c.node(keyHex(key), val, 0)
	nodes := append([][]byte{rootRaw}, c.nodes...)
	root := common.BytesToHash(crypto.Keccak256(rootRaw))
	fam := "directed:" + f.name
	if big {
		fam += ":big"
	}
	if !f.fired {
		fam += ":not-fired"
	}
	return runMpt(id, fam, root, key, nodes)
}

// ---------------------------------------------------------------------------------------------------
// GetDelayBlock / GetDelayTime of both copies
// ---------------------------------------------------------------------------------------------------

type DCase struct {
	NVals         int    `json:"nvals"`
	BlockInterval uint64 `json:"block_interval"`
	EthBlockDelay uint64 `json:"eth_block_delay"`
	EthTimeDelay  uint64 `json:"eth_time_delay"`
	// observed
	BscDelayBlock uint64 `json:"bsc_delay_block"`
	BscDelayTime  uint64 `json:"bsc_delay_time"`
	EthDelayBlock uint64 `json:"eth_delay_block"`
	EthDelayTime  uint64 `json:"eth_delay_time"`
}

func runDelay(nvals int, interval, ebd, etd uint64) DCase {
	b := bsctypes.ClientState{Validators: make([][]byte, nvals), BlockInteval: interval}
	e := ethtypes.ClientState{BlockDelay: ebd, TimeDelay: etd}
	return DCase{NVals: nvals, BlockInterval: interval, EthBlockDelay: ebd, EthTimeDelay: etd,
		BscDelayBlock: b.GetDelayBlock(), BscDelayTime: b.GetDelayTime(), EthDelayBlock: e.GetDelayBlock(), EthDelayTime: e.GetDelayTime()}
}

func delaySweep(r *hlib.Rand, maxVals int, emit func(DCase)) {
	ivs := []uint64{0, 1, 3, 1 << 32, 1 << 63, ^uint64(0)}
	for n := 0; n <= maxVals; n++ {
		iv := ivs[n%len(ivs)]
		if n%7 == 3 {
			iv = r.U64()
		}
		if n%11 == 5 { // around the wrap of (n/2+1) * interval
			iv = ^uint64(0)/uint64(n/2+1) + uint64(r.Intn(3))
		}
		ebd, etd := r.U64(), r.U64()
		switch n % 5 {
		case 0:
			ebd, etd = 0, 0
		case 1:
			ebd, etd = ^uint64(0), ^uint64(0)
		case 2:
			ebd, etd = uint64(r.Intn(100)), uint64(r.Intn(100000))
		}
		emit(runDelay(n, iv, ebd, etd))
	}
}
