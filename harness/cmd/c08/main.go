// c08: drives the real ClientState.VerifyPacketCommitment / VerifyPacketAcknowledgement of BOTH EVM light
// clients (x/xibc/clients/light-clients/eth and .../bsc) on generated worlds: state and storage tries built
// with go-ethereum's trie package, proofs obtained with Trie.Prove, every proof component mutated, client
// stores populated with consensus states at varying heights / revisions.
//
// For every case it records
//   - the concrete inputs of the call (spec), from which the case can be replayed (-in),
//   - the outcome class of the ETH copy and of the BSC copy (0 ok, 1 error, 2 panic),
//   - the oracle tables the Gallina model needs: encoding/json decoding of the proof bytes into the real
//     Proof type (both copies, compared), the decoded consensus-state roots of the client store, real
//     crypto.Keccak256 and real trie.VerifyProof on the arguments the model will ask for,
//   - the ground truth of the generated world (what the state/storage tries really contain at the proof
//     height) for the property monitor.
package main

import (
	"bytes"
	"encoding/json"
	"flag"
	"fmt"
	"math/big"
	"sort"
	"strings"

	"github.com/cosmos/cosmos-sdk/codec"
	codectypes "github.com/cosmos/cosmos-sdk/codec/types"
	"github.com/cosmos/cosmos-sdk/store/dbadapter"
	sdk "github.com/cosmos/cosmos-sdk/types"
	"github.com/ethereum/go-ethereum/common"
	"github.com/ethereum/go-ethereum/crypto"
	"github.com/ethereum/go-ethereum/ethdb/memorydb"
	"github.com/ethereum/go-ethereum/light"
	"github.com/ethereum/go-ethereum/rlp"
	"github.com/ethereum/go-ethereum/trie"
	dbm "github.com/tendermint/tm-db"

	bsctypes "github.com/teleport-network/teleport/x/xibc/clients/light-clients/bsc/types"
	ethtypes "github.com/teleport-network/teleport/x/xibc/clients/light-clients/eth/types"
	tmtypes "github.com/teleport-network/teleport/x/xibc/clients/light-clients/tendermint/types"
	clienttypes "github.com/teleport-network/teleport/x/xibc/core/client/types"
	"github.com/teleport-network/teleport/x/xibc/core/host"
	"github.com/teleport-network/teleport/x/xibc/exported"

	"verifharness/hlib"
)

// ----------------------------------------------------------------------------------------------------
// Spec: the concrete inputs of one call (replayable)
// ----------------------------------------------------------------------------------------------------

type SlotSpec struct {
	Key string `json:"key"` // hex, the 32-byte slot (pre-image of the storage-trie key)
	Raw string `json:"raw"` // hex, the value stored in the storage trie (RLP as stored)
}

type AcctSpec struct {
	Addr     string     `json:"addr"`              // hex (normally 20 bytes)
	Nonce    string     `json:"nonce"`             // decimal
	Balance  string     `json:"balance"`           // decimal
	CodeHash string     `json:"code_hash"`         // hex 32 bytes
	Storage  []SlotSpec `json:"storage,omitempty"` // explicit slots
	FillSeed uint64     `json:"fill_seed,omitempty"`
	FillN    int        `json:"fill_n,omitempty"`   // pseudo-random filler slots
	RawAcct  string     `json:"raw_acct,omitempty"` // if set: this value is stored in the state trie instead of the account RLP
}

type WorldSpec struct {
	Accounts []AcctSpec `json:"accounts"`
	FillSeed uint64     `json:"fill_seed,omitempty"`
	FillN    int        `json:"fill_n,omitempty"` // pseudo-random filler accounts
}

type ConsSpec struct {
	Rev   uint64 `json:"rev"`
	H     uint64 `json:"h"`
	Kind  string `json:"kind"`            // world | root | garbage | othertype
	World int    `json:"world,omitempty"` // kind=world: Root = root of worlds[World]
	Root  string `json:"root,omitempty"`  // kind=root: explicit root bytes (any length)
}

type Spec struct {
	ID         int         `json:"id"`
	Family     string      `json:"family"` // generator family (statistics only)
	Honest     bool        `json:"honest"` // generator's claim: honest rendering of an honest proof (monitor, completeness direction)
	Ack        bool        `json:"ack"`
	Head       [2]uint64   `json:"head"` // revision number, revision height of ClientState.Header.Height
	EthDelay   uint64      `json:"eth_delay"`
	BscVals    int         `json:"bsc_vals"`
	Contract   string      `json:"contract"` // hex
	Worlds     []WorldSpec `json:"worlds"`
	Store      []ConsSpec  `json:"store"`
	Height     *[2]uint64  `json:"height"` // nil: a nil exported.Height is passed
	Proof      *string     `json:"proof"`  // hex of the proof bytes; nil: nil slice
	Src        string      `json:"src"`    // hex of the string bytes
	Dst        string      `json:"dst"`
	Seq        uint64      `json:"seq"`
	Commitment string      `json:"commitment"` // hex
}

// ----------------------------------------------------------------------------------------------------
// Result
// ----------------------------------------------------------------------------------------------------

type SRRec struct {
	Key   string   `json:"key"` // hex of the string's bytes
	Value string   `json:"value"`
	Proof []string `json:"proof"`
}

type ProofRec struct { // every string as hex of its bytes
	Address      string   `json:"address"`
	Balance      string   `json:"balance"`
	CodeHash     string   `json:"code_hash"`
	Nonce        string   `json:"nonce"`
	StorageHash  string   `json:"storage_hash"`
	AccountProof []string `json:"account_proof"`
	StorageProof []*SRRec `json:"storage_proof"` // nil element = JSON null
}

type StoreEnt struct {
	Key  string  `json:"key"`  // hex of the store key
	Root *string `json:"root"` // hex of ConsensusState.Root if the value unmarshals to this client's ConsensusState; else nil
}

type MptEnt struct {
	Root  string   `json:"root"`
	Key   string   `json:"key"`
	Nodes []string `json:"nodes"`
	Res   *string  `json:"res"` // nil: VerifyProof returned an error; "" : (nil, nil) = key absent; else the value
	Panic bool     `json:"panic,omitempty"`
}

type GT struct {
	HasCons     bool    `json:"has_cons"`     // a decodable consensus state is stored at the proof height
	KnownWorld  bool    `json:"known_world"`  // its (normalised) root is the root of one of the generated worlds
	AcctRaw     *string `json:"acct_raw"`     // value of the state trie at keccak(contract) (nil: absent / unknown world)
	StorageRoot *string `json:"storage_root"` // storage root of the contract account in that world
	SlotRaw     *string `json:"slot_raw"`     // raw value at keccak(slot(path)) in the contract's storage trie
	SlotWord    *string `json:"slot_word"`    // the 32-byte word geth reads there (rlp.Split + SetBytes), nil if absent / unreadable
	Slot        string  `json:"slot"`         // keccak(path ++ pad32(208)) for the call's path
	Path        string  `json:"path"`
}

type Result struct {
	Spec        Spec        `json:"spec"`
	EthClass    int         `json:"eth_class"`
	BscClass    int         `json:"bsc_class"`
	EthErr      string      `json:"eth_err,omitempty"`
	BscErr      string      `json:"bsc_err,omitempty"`
	Decoded     *ProofRec   `json:"decoded"` // nil: json.Unmarshal failed (or nil proof)
	CopiesAgree bool        `json:"copies_agree"`
	Store       []StoreEnt  `json:"store"`
	Keccak      [][2]string `json:"keccak"`
	Mpt         []MptEnt    `json:"mpt"`
	GT          GT          `json:"gt"`
}

// ----------------------------------------------------------------------------------------------------
// Worlds
// ----------------------------------------------------------------------------------------------------

type builtAcct struct {
	spec    AcctSpec
	storage *trie.Trie
	root    common.Hash
	value   []byte // what is stored in the state trie
}

type builtWorld struct {
	state *trie.Trie
	root  common.Hash
	accts map[string]*builtAcct // by hex(addr)
}

type acctRLP struct {
	Nonce    *big.Int
	Balance  *big.Int
	Root     common.Hash
	CodeHash []byte
}

func newTrie() *trie.Trie {
	t, err := trie.New(common.Hash{}, trie.NewDatabase(memorydb.New()))
	if err != nil {
		panic(err)
	}
	return t
}

func bigDec(s string) *big.Int {
	b, ok := new(big.Int).SetString(s, 10)
	if !ok {
		panic("bad decimal " + s)
	}
	return b
}

func trimZeros(b []byte) []byte {
	i := 0
	for i < len(b) && b[i] == 0 {
		i++
	}
	return b[i:]
}

func rlpBytes(b []byte) []byte {
	out, err := rlp.EncodeToBytes(b)
	if err != nil {
		panic(err)
	}
	return out
}

func buildAcct(a AcctSpec) *builtAcct {
	st := newTrie()
	for _, s := range a.Storage {
		raw := hlib.UnHex(s.Raw)
		if len(raw) == 0 {
			continue
		}
		if err := st.TryUpdate(crypto.Keccak256(hlib.UnHex(s.Key)), raw); err != nil {
			panic(err)
		}
	}
	if a.FillN > 0 {
		r := hlib.NewRand(a.FillSeed)
		for i := 0; i < a.FillN; i++ {
			k := r.Bytes(32)
			v := r.Bytes(1 + r.Intn(32))
			v = trimZeros(v)
			if len(v) == 0 {
				v = []byte{1}
			}
			if err := st.TryUpdate(crypto.Keccak256(k), rlpBytes(v)); err != nil {
				panic(err)
			}
		}
	}
	ba := &builtAcct{spec: a, storage: st, root: st.Hash()}
	if a.RawAcct != "" {
		ba.value = hlib.UnHex(a.RawAcct)
	} else {
		v, err := rlp.EncodeToBytes(&acctRLP{Nonce: bigDec(a.Nonce), Balance: bigDec(a.Balance), Root: ba.root, CodeHash: hlib.UnHex(a.CodeHash)})
		if err != nil {
			panic(err)
		}
		ba.value = v
	}
	return ba
}

func buildWorld(w WorldSpec) *builtWorld {
	bw := &builtWorld{state: newTrie(), accts: map[string]*builtAcct{}}
	for _, a := range w.Accounts {
		ba := buildAcct(a)
		bw.accts[strings.ToLower(a.Addr)] = ba
		if err := bw.state.TryUpdate(crypto.Keccak256(hlib.UnHex(a.Addr)), ba.value); err != nil {
			panic(err)
		}
	}
	if w.FillN > 0 {
		r := hlib.NewRand(w.FillSeed)
		for i := 0; i < w.FillN; i++ {
			addr := r.Bytes(20)
			v, _ := rlp.EncodeToBytes(&acctRLP{Nonce: big.NewInt(int64(r.Intn(1000))), Balance: new(big.Int).SetBytes(r.Bytes(r.Intn(12))),
				Root: common.BytesToHash(r.Bytes(32)), CodeHash: r.Bytes(32)})
			if err := bw.state.TryUpdate(crypto.Keccak256(addr), v); err != nil {
				panic(err)
			}
		}
	}
	bw.root = bw.state.Hash()
	return bw
}

func prove(t *trie.Trie, key []byte) [][]byte {
	var nl light.NodeList
	if err := t.Prove(key, 0, &nl); err != nil {
		panic(err)
	}
	out := make([][]byte, len(nl))
	for i, n := range nl {
		out[i] = append([]byte(nil), n...)
	}
	return out
}

// ----------------------------------------------------------------------------------------------------
// Running one spec on the real code
// ----------------------------------------------------------------------------------------------------

var cdc codec.BinaryCodec

func init() {
	reg := codectypes.NewInterfaceRegistry()
	clienttypes.RegisterInterfaces(reg)
	ethtypes.RegisterInterfaces(reg)
	bsctypes.RegisterInterfaces(reg)
	tmtypes.RegisterInterfaces(reg)
	cdc = codec.NewProtoCodec(reg)
}

func hx(b []byte) string { return hlib.Hex(b) }

func sptr(s string) *string { return &s }

func pathOf(sp *Spec) []byte {
	src, dst := string(hlib.UnHex(sp.Src)), string(hlib.UnHex(sp.Dst))
	if sp.Ack {
		return host.PacketAcknowledgementKey(src, dst, sp.Seq)
	}
	return host.PacketCommitmentKey(src, dst, sp.Seq)
}

var pad208 = common.LeftPadBytes(big.NewInt(208).Bytes(), 32)

func consBytes(c ConsSpec, worlds []*builtWorld, bsc bool, salt uint64) []byte {
	var root []byte
	switch c.Kind {
	case "world":
		root = worlds[c.World].root.Bytes()
	case "root":
		root = hlib.UnHex(c.Root)
	case "garbage":
		return hlib.NewRand(salt ^ c.H ^ c.Rev<<7).Bytes(1 + int(c.H%40))
	case "othertype":
		bz, err := clienttypes.MarshalConsensusState(cdc, &tmtypes.ConsensusState{Root: []byte("tendermint-root"), NextValidatorsHash: make([]byte, 32)})
		if err != nil {
			panic(err)
		}
		return bz
	default:
		panic("bad cons kind " + c.Kind)
	}
	var cs exported.ConsensusState
	h := clienttypes.NewHeight(c.Rev, c.H)
	if bsc {
		cs = &bsctypes.ConsensusState{Timestamp: 1, Height: h, Root: root}
	} else {
		cs = &ethtypes.ConsensusState{Timestamp: 1, Height: h, Root: root}
	}
	bz, err := clienttypes.MarshalConsensusState(cdc, cs)
	if err != nil {
		panic(err)
	}
	return bz
}

func mkStore(sp *Spec, worlds []*builtWorld, bsc bool) sdk.KVStore {
	st := dbadapter.Store{DB: dbm.NewMemDB()}
	for _, c := range sp.Store {
		st.Set(host.ConsensusStateKey(clienttypes.NewHeight(c.Rev, c.H)), consBytes(c, worlds, bsc, uint64(sp.ID)))
	}
	return st
}

func dumpStore(st sdk.KVStore, bsc bool) []StoreEnt {
	out := []StoreEnt{}
	it := st.Iterator(nil, nil)
	defer it.Close()
	for ; it.Valid(); it.Next() {
		e := StoreEnt{Key: hx(it.Key())}
		csI, err := clienttypes.UnmarshalConsensusState(cdc, it.Value())
		if err == nil {
			if bsc {
				if cs, ok := csI.(*bsctypes.ConsensusState); ok {
					e.Root = sptr(hx(cs.Root))
				}
			} else {
				if cs, ok := csI.(*ethtypes.ConsensusState); ok {
					e.Root = sptr(hx(cs.Root))
				}
			}
		}
		out = append(out, e)
	}
	return out
}

func strsHex(ss []string) []string {
	out := make([]string, len(ss))
	for i, s := range ss {
		out[i] = hx([]byte(s))
	}
	return out
}

func recOfEth(p *ethtypes.Proof) *ProofRec {
	r := &ProofRec{Address: hx([]byte(p.Address)), Balance: hx([]byte(p.Balance)), CodeHash: hx([]byte(p.CodeHash)), Nonce: hx([]byte(p.Nonce)),
		StorageHash: hx([]byte(p.StorageHash)), AccountProof: strsHex(p.AccountProof), StorageProof: []*SRRec{}}
	for _, s := range p.StorageProof {
		if s == nil {
			r.StorageProof = append(r.StorageProof, nil)
		} else {
			r.StorageProof = append(r.StorageProof, &SRRec{Key: hx([]byte(s.Key)), Value: hx([]byte(s.Value)), Proof: strsHex(s.Proof)})
		}
	}
	return r
}

func recOfBsc(p *bsctypes.Proof) *ProofRec {
	r := &ProofRec{Address: hx([]byte(p.Address)), Balance: hx([]byte(p.Balance)), CodeHash: hx([]byte(p.CodeHash)), Nonce: hx([]byte(p.Nonce)),
		StorageHash: hx([]byte(p.StorageHash)), AccountProof: strsHex(p.AccountProof), StorageProof: []*SRRec{}}
	for _, s := range p.StorageProof {
		if s == nil {
			r.StorageProof = append(r.StorageProof, nil)
		} else {
			r.StorageProof = append(r.StorageProof, &SRRec{Key: hx([]byte(s.Key)), Value: hx([]byte(s.Value)), Proof: strsHex(s.Proof)})
		}
	}
	return r
}

func classify(f func() error) (int, string) {
	var err error
	p, v := hlib.Catch(func() { err = f() })
	if p {
		return 2, "panic: " + v
	}
	if err != nil {
		s := err.Error()
		if len(s) > 200 {
			s = s[:200]
		}
		return 1, s
	}
	return 0, ""
}

func verifyProofOracle(root common.Hash, key []byte, nodes [][]byte) MptEnt {
	e := MptEnt{Root: hx(root.Bytes()), Key: hx(key), Nodes: []string{}}
	nl := new(light.NodeList)
	for _, n := range nodes {
		e.Nodes = append(e.Nodes, hx(n))
		_ = nl.Put(nil, n)
	}
	p, _ := hlib.Catch(func() {
		val, err := trie.VerifyProof(root, key, nl.NodeSet())
		if err == nil {
			e.Res = sptr(hx(val))
		}
	})
	e.Panic = p
	return e
}

func fromHexAll(ss []string) [][]byte {
	out := make([][]byte, len(ss))
	for i, s := range ss {
		out[i] = common.FromHex(s)
	}
	return out
}

func runSpec(sp Spec) Result {
	res := Result{Spec: sp, Keccak: [][2]string{}, Mpt: []MptEnt{}}
	worlds := make([]*builtWorld, len(sp.Worlds))
	for i, w := range sp.Worlds {
		worlds[i] = buildWorld(w)
	}
	contract := hlib.UnHex(sp.Contract)
	commitment := hlib.UnHex(sp.Commitment)
	src, dst := string(hlib.UnHex(sp.Src)), string(hlib.UnHex(sp.Dst))
	var proof []byte
	if sp.Proof != nil {
		proof = hlib.UnHex(*sp.Proof)
		if proof == nil {
			proof = []byte{}
		}
	}
	var height exported.Height
	if sp.Height != nil {
		height = clienttypes.NewHeight(sp.Height[0], sp.Height[1])
	}
	head := clienttypes.NewHeight(sp.Head[0], sp.Head[1])

	// --- the real code, ETH copy
	ethStore := mkStore(&sp, worlds, false)
	ethCS := ethtypes.ClientState{Header: ethtypes.Header{Height: head}, ContractAddress: contract, BlockDelay: sp.EthDelay}
	res.EthClass, res.EthErr = classify(func() error {
		if sp.Ack {
			return ethCS.VerifyPacketAcknowledgement(sdk.Context{}, ethStore, cdc, height, proof, src, dst, sp.Seq, commitment)
		}
		return ethCS.VerifyPacketCommitment(sdk.Context{}, ethStore, cdc, height, proof, src, dst, sp.Seq, commitment)
	})
	// --- the real code, BSC copy
	bscStore := mkStore(&sp, worlds, true)
	bscCS := bsctypes.ClientState{Header: bsctypes.Header{Height: head}, ContractAddress: contract, Validators: make([][]byte, sp.BscVals)}
	res.BscClass, res.BscErr = classify(func() error {
		if sp.Ack {
			return bscCS.VerifyPacketAcknowledgement(sdk.Context{}, bscStore, cdc, height, proof, src, dst, sp.Seq, commitment)
		}
		return bscCS.VerifyPacketCommitment(sdk.Context{}, bscStore, cdc, height, proof, src, dst, sp.Seq, commitment)
	})

	// --- oracle: consensus-state decoding of the store (both copies must agree)
	res.Store = dumpStore(ethStore, false)
	bscDump := dumpStore(bscStore, true)
	a, _ := json.Marshal(res.Store)
	b, _ := json.Marshal(bscDump)
	res.CopiesAgree = bytes.Equal(a, b)

	// --- oracle: encoding/json into the real Proof types (both copies must agree)
	var rec *ProofRec
	if proof != nil {
		var ep ethtypes.Proof
		var bp bsctypes.Proof
		e1 := json.Unmarshal(proof, &ep)
		e2 := json.Unmarshal(proof, &bp)
		if (e1 == nil) != (e2 == nil) {
			res.CopiesAgree = false
		}
		if e1 == nil {
			rec = recOfEth(&ep)
			if e2 == nil {
				x, _ := json.Marshal(rec)
				y, _ := json.Marshal(recOfBsc(&bp))
				if !bytes.Equal(x, y) {
					res.CopiesAgree = false
				}
			}
		}
		// keep the typed value for the tables below
		if e1 == nil {
			res.Decoded = rec
			fillTables(&res, &sp, &ep, contract)
		}
	}
	path := pathOf(&sp)
	slot := crypto.Keccak256(path, pad208)
	addKeccak(&res, append(append([]byte{}, path...), pad208...))
	addKeccak(&res, contract)
	addKeccak(&res, slot)

	// --- ground truth
	res.GT = groundTruth(&sp, worlds, res.Store, contract, path, slot)
	return res
}

func addKeccak(res *Result, pre []byte) {
	h := hx(pre)
	for _, e := range res.Keccak {
		if e[0] == h {
			return
		}
	}
	res.Keccak = append(res.Keccak, [2]string{h, hx(crypto.Keccak256(pre))})
}

func rootAt(sp *Spec, store []StoreEnt) ([]byte, bool) {
	if sp.Height == nil {
		return nil, false
	}
	k := hx(host.ConsensusStateKey(clienttypes.NewHeight(sp.Height[0], sp.Height[1])))
	for _, e := range store {
		if e.Key == k && e.Root != nil {
			return hlib.UnHex(*e.Root), true
		}
	}
	return nil, false
}

// fillTables tabulates Keccak256 and trie.VerifyProof on the arguments the model needs.  The arguments are
// derived here with go-ethereum's own helpers (common.FromHex / HexToHash / BytesToHash), independently of
// the client code under test.
func fillTables(res *Result, sp *Spec, p *ethtypes.Proof, contract []byte) {
	addr := common.FromHex(p.Address)
	addKeccak(res, addr)
	// Keccak of every proof node: the Gallina MPT verifier (Model/EvmProofMpt.v) is evaluated on the same node lists
	for _, n := range fromHexAll(p.AccountProof) {
		addKeccak(res, n)
	}
	for _, s := range p.StorageProof {
		if s != nil {
			for _, n := range fromHexAll(s.Proof) {
				addKeccak(res, n)
			}
		}
	}
	if rootBz, ok := rootAt(sp, res.Store); ok {
		root := common.BytesToHash(rootBz)
		res.Mpt = append(res.Mpt, verifyProofOracle(root, crypto.Keccak256(contract), fromHexAll(p.AccountProof)))
		if !bytes.Equal(addr, contract) {
			res.Mpt = append(res.Mpt, verifyProofOracle(root, crypto.Keccak256(addr), fromHexAll(p.AccountProof)))
		}
	}
	if len(p.StorageProof) >= 1 && p.StorageProof[0] != nil {
		s := p.StorageProof[0]
		k := common.HexToHash(s.Key).Bytes()
		addKeccak(res, k)
		res.Mpt = append(res.Mpt, verifyProofOracle(common.HexToHash(p.StorageHash), crypto.Keccak256(k), fromHexAll(s.Proof)))
	}
}

func groundTruth(sp *Spec, worlds []*builtWorld, store []StoreEnt, contract, path, slot []byte) GT {
	gt := GT{Slot: hx(slot), Path: hx(path)}
	rootBz, ok := rootAt(sp, store)
	if !ok {
		return gt
	}
	gt.HasCons = true
	root := common.BytesToHash(rootBz)
	for _, w := range worlds {
		if w.root != root {
			continue
		}
		gt.KnownWorld = true
		v, err := w.state.TryGet(crypto.Keccak256(contract))
		if err != nil || len(v) == 0 {
			return gt
		}
		gt.AcctRaw = sptr(hx(v))
		ba := w.accts[strings.ToLower(hx(contract))]
		if ba == nil || ba.spec.RawAcct != "" {
			return gt
		}
		gt.StorageRoot = sptr(hx(ba.root.Bytes()))
		sv, err := ba.storage.TryGet(crypto.Keccak256(slot))
		if err != nil || len(sv) == 0 {
			return gt
		}
		gt.SlotRaw = sptr(hx(sv))
		// what geth's state object reads: rlp.Split, then Hash.SetBytes (core/state/state_object.go GetCommittedState)
		if _, content, rest, err := rlp.Split(sv); err == nil && len(rest) == 0 {
			gt.SlotWord = sptr(hx(common.BytesToHash(content).Bytes()))
		}
		return gt
	}
	return gt
}

// ----------------------------------------------------------------------------------------------------
// Generator
// ----------------------------------------------------------------------------------------------------

type srJSON struct {
	Key   string   `json:"key"`
	Value string   `json:"value"`
	Proof []string `json:"proof"`
}

type proofJSON struct {
	Address      string    `json:"address"`
	Balance      string    `json:"balance"`
	CodeHash     string    `json:"code_hash"`
	Nonce        string    `json:"nonce"`
	StorageHash  string    `json:"storage_hash"`
	AccountProof []string  `json:"account_proof"`
	StorageProof []*srJSON `json:"storage_proof"`
}

// hexStyle renders bytes as a hex string in one of several spellings that common.FromHex reads identically.
func hexStyle(r *hlib.Rand, b []byte, style int) string {
	s := hx(b)
	switch style {
	case 0:
		return "0x" + s
	case 1:
		return s
	case 2:
		return "0X" + strings.ToUpper(s)
	case 3:
		return "0x" + strings.ToUpper(s)
	default:
		bs := []byte(s)
		for i := range bs {
			if r.Bool() {
				bs[i] = strings.ToUpper(string(bs[i]))[0]
			}
		}
		return "0x" + string(bs)
	}
}

// quantity renders a big integer the way eth_getProof does ("0x0", "0x1f") or in other equivalent spellings.
func quantity(r *hlib.Rand, v *big.Int, style int) string {
	switch style {
	case 0:
		return "0x" + v.Text(16)
	case 1:
		return "0x" + hx(common.LeftPadBytes(v.Bytes(), 32))
	case 2:
		if v.Sign() == 0 {
			return "0x"
		}
		return v.Text(16)
	case 3:
		if v.Sign() == 0 {
			return ""
		}
		return "0X" + strings.ToUpper(v.Text(16))
	default:
		return "0x00" + hx(v.Bytes())
	}
}

func randName(r *hlib.Rand) string {
	names := []string{"teleport", "eth", "bsc", "rinkeby", "a", "chain-x", "qa_1", "a/b", "", "x/sequences/1"}
	if r.Chance(1, 6) {
		return string(r.Bytes(1 + r.Intn(6)))
	}
	return names[r.Intn(len(names))]
}

func randSeq(r *hlib.Rand) uint64 {
	switch r.Intn(6) {
	case 0:
		return 0
	case 1:
		return 1
	case 2:
		return ^uint64(0)
	case 3:
		return r.U64()
	default:
		return uint64(1 + r.Intn(5000))
	}
}

func slotOf(ack bool, src, dst string, seq uint64) []byte {
	if ack {
		return crypto.Keccak256(host.PacketAcknowledgementKey(src, dst, seq), pad208)
	}
	return crypto.Keccak256(host.PacketCommitmentKey(src, dst, seq), pad208)
}

// wordWithZeros: a 32-byte word with exactly lz leading zero bytes (lz = 32: all zero)
func wordWithZeros(r *hlib.Rand, lz int) []byte {
	w := r.Bytes(32)
	for i := 0; i < lz && i < 32; i++ {
		w[i] = 0
	}
	if lz < 32 && w[lz] == 0 {
		w[lz] = byte(1 + r.Intn(255))
	}
	return w
}

func decStr(b []byte) string { return new(big.Int).SetBytes(b).String() }

func gen(r *hlib.Rand, id int) Spec {
	sp := Spec{ID: id}
	sp.Ack = r.Chance(1, 3)
	src, dst := randName(r), randName(r)
	seq := randSeq(r)
	sp.Src, sp.Dst, sp.Seq = hx([]byte(src)), hx([]byte(dst)), seq

	// value: 0..31 leading zero bytes, sometimes all zero
	lz := r.Intn(32)
	if r.Chance(1, 3) {
		lz = 0
	}
	word := wordWithZeros(r, lz)
	if r.Chance(1, 60) {
		word = make([]byte, 32)
	}
	sp.Commitment = hx(word)

	contract := r.Bytes(20)
	if r.Chance(1, 40) {
		contract = r.Bytes(r.Intn(33)) // unusual configured address lengths (incl. empty)
	}
	sp.Contract = hx(contract)

	slot := slotOf(sp.Ack, src, dst, seq)
	otherSlot := slotOf(!sp.Ack, src, dst, seq) // the ack slot of a commitment path and vice versa
	nextSlot := slotOf(sp.Ack, src, dst, seq+1)
	otherWord := wordWithZeros(r, r.Intn(8))

	// world 0: the contract with the target slot; world 1: same contract, target slot holds another value
	nonce := big.NewInt(int64(r.Intn(3)))
	if r.Chance(1, 5) {
		nonce = new(big.Int).SetUint64(r.U64())
	}
	balance := new(big.Int).SetBytes(r.Bytes(r.Intn(13)))
	if r.Chance(1, 30) {
		balance = new(big.Int).SetBytes(r.Bytes(32))
	}
	codeHash := r.Bytes(32)
	mkContract := func(w []byte) AcctSpec {
		a := AcctSpec{Addr: hx(contract), Nonce: nonce.String(), Balance: balance.String(), CodeHash: hx(codeHash)}
		if tw := trimZeros(w); len(tw) > 0 {
			a.Storage = append(a.Storage, SlotSpec{Key: hx(slot), Raw: hx(rlpBytes(tw))})
		}
		a.Storage = append(a.Storage, SlotSpec{Key: hx(otherSlot), Raw: hx(rlpBytes(trimZeros(otherWord)))})
		a.Storage = append(a.Storage, SlotSpec{Key: hx(nextSlot), Raw: hx(rlpBytes(trimZeros(wordWithZeros(r, 0))))})
		a.FillSeed = r.U64()
		switch r.Intn(5) {
		case 0:
			a.FillN = 0
		case 1:
			a.FillN = r.Intn(4)
		default:
			a.FillN = r.Intn(60)
		}
		return a
	}
	// another account whose storage holds, at the very same slot, a word the configured contract does NOT hold
	foreignWord := wordWithZeros(r, r.Intn(4))
	other := AcctSpec{Addr: hx(r.Bytes(20)), Nonce: "7", Balance: "12345", CodeHash: hx(r.Bytes(32)),
		Storage: []SlotSpec{{Key: hx(slot), Raw: hx(rlpBytes(trimZeros(foreignWord)))}}, FillSeed: r.U64(), FillN: r.Intn(5)}
	nFill := 0
	switch r.Intn(6) {
	case 0:
		nFill = 0
	case 1:
		nFill = r.Intn(3)
	case 2:
		nFill = 100 + r.Intn(99)
	default:
		nFill = r.Intn(40)
	}
	w0 := WorldSpec{Accounts: []AcctSpec{mkContract(word), other}, FillSeed: r.U64(), FillN: nFill}
	w1 := WorldSpec{Accounts: []AcctSpec{mkContract(otherWord), other}, FillSeed: w0.FillSeed, FillN: nFill}
	sp.Worlds = []WorldSpec{w0, w1}

	// heights
	delay := uint64(r.Intn(20))
	if r.Chance(1, 10) {
		delay = 0
	}
	sp.EthDelay = delay
	sp.BscVals = r.Intn(42)
	if r.Chance(1, 2) && delay >= 1 { // make both copies use the same delay
		sp.BscVals = int(2*(delay-1)) + r.Intn(2)
	}
	rev := uint64(0)
	if r.Chance(1, 8) {
		rev = uint64(1 + r.Intn(3))
	}
	headH := uint64(100 + r.Intn(100000))
	switch r.Intn(12) {
	case 0:
		headH = ^uint64(0) - uint64(r.Intn(3))
	case 1:
		headH = uint64(r.Intn(30))
	}
	sp.Head = [2]uint64{rev, headH}
	maxDelay := delay
	if d := uint64(sp.BscVals/2 + 1); d > maxDelay {
		maxDelay = d
	}
	back := maxDelay + uint64(r.Intn(50))
	if back > headH {
		back = headH
	}
	h := [2]uint64{rev, headH - back}
	sp.Height = &h

	sp.Family = "honest"
	sp.Honest = true

	// ---------- height / store mutations
	hm := r.Intn(100)
	switch {
	case hm < 62:
	case hm < 68: // exactly on / just inside / just outside the delay boundary of one copy
		d := delay
		if r.Bool() {
			d = uint64(sp.BscVals/2 + 1)
		}
		off := []int64{0, -1, 1}[r.Intn(3)]
		b := int64(d) + off
		if b < 0 {
			b = 0
		}
		if uint64(b) > headH {
			b = int64(headH)
		}
		h[1] = headH - uint64(b)
		sp.Family = "delay-boundary"
	case hm < 73: // above the head, same revision
		h[1] = headH + uint64(1+r.Intn(5))
		if h[1] < headH {
			h[1] = headH
		}
		sp.Family = "height-above-head"
	case hm < 80: // O2: lower revision number, revision height above the head
		sp.Head[0] = rev + uint64(1+r.Intn(2))
		h[0] = rev
		h[1] = headH + uint64(1+r.Intn(30))
		if h[1] < headH {
			h[1] = headH
			sp.Head[1] = headH - 5
		}
		sp.Family = "lower-revision-above-head"
	case hm < 84: // lower revision number, below the head
		sp.Head[0] = rev + 1
		sp.Family = "lower-revision-below-head"
	case hm < 88: // higher revision number than the head
		h[0] = rev + 1
		sp.Family = "higher-revision"
	case hm < 90:
		sp.Height = nil
		sp.Family = "nil-height"
	default:
	}

	// store: the proof height holds world 0 (usually), neighbours hold world 1 / other things
	cons := []ConsSpec{}
	kindAt := "world"
	worldAt := 0
	sm := r.Intn(100)
	switch {
	case sm < 70:
	case sm < 76:
		worldAt = 1
		sp.Family += "+other-root"
	case sm < 80:
		kindAt = "garbage"
		sp.Family += "+garbage-cons"
	case sm < 84:
		kindAt = "othertype"
		sp.Family += "+othertype-cons"
	case sm < 89:
		kindAt = "missing"
		sp.Family += "+missing-cons"
	case sm < 92:
		kindAt = "root"
		sp.Family += "+random-root"
	case sm < 96:
		kindAt = "padroot" // the stored Root field is not 32 bytes long: BytesToHash crops / pads
		sp.Family += "+odd-length-root"
	default:
		kindAt = "world-elsewhere" // the world's root is stored at another height / revision only
		sp.Family += "+root-at-other-height"
	}
	if sp.Height != nil {
		switch kindAt {
		case "world":
			cons = append(cons, ConsSpec{Rev: h[0], H: h[1], Kind: "world", World: worldAt})
		case "garbage", "othertype":
			cons = append(cons, ConsSpec{Rev: h[0], H: h[1], Kind: kindAt})
		case "root":
			cons = append(cons, ConsSpec{Rev: h[0], H: h[1], Kind: "root", Root: hx(r.Bytes(32))})
		case "padroot":
			cons = append(cons, ConsSpec{Rev: h[0], H: h[1], Kind: "root", Root: "@pad"})
		case "world-elsewhere":
			if r.Bool() {
				cons = append(cons, ConsSpec{Rev: h[0] + 1, H: h[1], Kind: "world", World: 0})
			} else {
				cons = append(cons, ConsSpec{Rev: h[0], H: h[1] + 1, Kind: "world", World: 0})
			}
			if r.Bool() {
				cons = append(cons, ConsSpec{Rev: h[0], H: h[1], Kind: "world", World: 1})
			}
		}
		for i, n := 0, r.Intn(4); i < n; i++ {
			cons = append(cons, ConsSpec{Rev: h[0], H: h[1] + uint64(2+i), Kind: "world", World: 1})
		}
	}
	sp.Store = cons

	// ---------- the proof
	bw0 := buildWorld(w0)
	bw1 := buildWorld(w1)
	for i := range sp.Store { // resolve @pad now that the root is known
		if sp.Store[i].Root == "@pad" {
			root := bw0.root.Bytes()
			switch r.Intn(3) {
			case 0:
				sp.Store[i].Root = hx(append(r.Bytes(1+r.Intn(4)), root...)) // longer: cropped from the left => same root
			case 1:
				sp.Store[i].Root = hx(root[:31]) // shorter: left padded => another root
			default:
				sp.Store[i].Root = hx(trimZeros(root))
			}
		}
	}
	ba := bw0.accts[strings.ToLower(hx(contract))]
	acctNodes := prove(bw0.state, crypto.Keccak256(contract))
	stNodes := prove(ba.storage, crypto.Keccak256(slot))
	st := r.Intn(5)
	if r.Chance(1, 2) {
		st = 0
	}
	hexList := func(ns [][]byte) []string {
		out := make([]string, len(ns))
		for i, n := range ns {
			out[i] = hexStyle(r, n, st)
		}
		return out
	}
	qs := r.Intn(5)
	if r.Chance(1, 2) {
		qs = 0
	}
	pj := proofJSON{
		Address:      hexStyle(r, contract, st),
		Balance:      quantity(r, balance, qs),
		Nonce:        quantity(r, nonce, qs),
		CodeHash:     hexStyle(r, codeHash, st),
		StorageHash:  hexStyle(r, ba.root.Bytes(), st),
		AccountProof: hexList(acctNodes),
		StorageProof: []*srJSON{{Key: hexStyle(r, slot, st), Value: "0x" + hx(trimZeros(word)), Proof: hexList(stNodes)}},
	}
	if r.Chance(1, 6) { // storage key with leading zeros stripped, as eth_getProof echoes a short key
		if ts := trimZeros(slot); len(ts) < 32 {
			pj.StorageProof[0].Key = "0x" + hx(ts)
		}
	}
	if st != 0 || qs != 0 {
		sp.Family += "+hex-spelling"
	}
	if len(trimZeros(word)) == 0 {
		sp.Honest = false // an all-zero word is not stored in an EVM trie; the proof below is an absence proof
		sp.Family += "+zero-word"
	}

	var raw []byte // if set, replaces the marshalled JSON
	nilProof := false

	mutNodes := func(ns []string, what int) []string {
		out := append([]string{}, ns...)
		switch what {
		case 0: // drop the last node
			if len(out) > 0 {
				out = out[:len(out)-1]
			}
		case 1: // drop the first node
			if len(out) > 0 {
				out = out[1:]
			}
		case 2: // drop a middle node
			if len(out) > 2 {
				i := 1 + r.Intn(len(out)-2)
				out = append(out[:i], out[i+1:]...)
			} else if len(out) > 0 {
				out = out[:len(out)-1]
			}
		case 3: // flip one byte of one node
			if len(out) > 0 {
				i := r.Intn(len(out))
				b := common.FromHex(out[i])
				if len(b) > 0 {
					b[r.Intn(len(b))] ^= byte(1 + r.Intn(255))
				}
				out[i] = "0x" + hx(b)
			}
		case 4: // empty list
			out = []string{}
		case 5: // truncate one node's bytes
			if len(out) > 0 {
				i := r.Intn(len(out))
				b := common.FromHex(out[i])
				if len(b) > 1 {
					b = b[:len(b)-1-r.Intn(len(b)-1)]
				}
				out[i] = "0x" + hx(b)
			}
		case 6: // pad one node's bytes
			if len(out) > 0 {
				i := r.Intn(len(out))
				out[i] = out[i] + hx(r.Bytes(1+r.Intn(3)))
			}
		}
		return out
	}
	benignNodes := func(ns []string, what int) []string {
		out := append([]string{}, ns...)
		switch what {
		case 0: // duplicate a node
			if len(out) > 0 {
				i := r.Intn(len(out))
				out = append(out, out[i])
			}
		case 1: // reverse the order
			for i, j := 0, len(out)-1; i < j; i, j = i+1, j-1 {
				out[i], out[j] = out[j], out[i]
			}
		case 2: // pad the list with unrelated nodes
			for i, n := 0, 1+r.Intn(3); i < n; i++ {
				junk := "0x" + hx(r.Bytes(1+r.Intn(80)))
				if r.Bool() {
					out = append(out, junk)
				} else {
					out = append([]string{junk}, out...)
				}
			}
		case 3: // pad with nodes of the other trie
			out = append(out, hexList(prove(bw1.state, crypto.Keccak256(contract)))...)
		}
		return out
	}

	nm := 0
	switch x := r.Intn(100); {
	case x < 38:
		nm = 0
	case x < 88:
		nm = 1
	default:
		nm = 2
	}
	for i := 0; i < nm; i++ {
		if len(pj.StorageProof) == 0 || pj.StorageProof[0] == nil {
			break // a previous mutation removed the storage proof; nothing left to vary
		}
		m := r.Intn(42) // 39..41: value-length-variant
		switch m {
		case 0, 1: // truncated / corrupted account proof
			pj.AccountProof = mutNodes(pj.AccountProof, r.Intn(7))
			sp.Family += "+acct-nodes-mutated"
			sp.Honest = false
		case 2, 3:
			pj.StorageProof[0].Proof = mutNodes(pj.StorageProof[0].Proof, r.Intn(7))
			sp.Family += "+storage-nodes-mutated"
			sp.Honest = false
		case 4, 5: // benign: duplicates / order / surplus nodes (the node list becomes a hash-keyed set)
			pj.AccountProof = benignNodes(pj.AccountProof, r.Intn(4))
			sp.Family += "+acct-nodes-padded"
		case 6, 7:
			pj.StorageProof[0].Proof = benignNodes(pj.StorageProof[0].Proof, r.Intn(3))
			sp.Family += "+storage-nodes-padded"
		case 8: // another contract: a fully honest proof for the OTHER account (which holds the same slot/value)
			oa := bw0.accts[strings.ToLower(other.Addr)]
			pj.Address = "0x" + other.Addr
			pj.Nonce, pj.Balance, pj.CodeHash = "0x7", "0x3039", "0x"+other.CodeHash
			pj.StorageHash = "0x" + hx(oa.root.Bytes())
			pj.AccountProof = hexList(prove(bw0.state, crypto.Keccak256(hlib.UnHex(other.Addr))))
			pj.StorageProof[0].Proof = hexList(prove(oa.storage, crypto.Keccak256(slot)))
			sp.Commitment = hx(foreignWord) // true of the other contract, false of the configured one
			sp.Family += "+other-contract"
			sp.Honest = false
		case 9: // configured address claimed, but the account proof / fields of the other account
			oa := bw0.accts[strings.ToLower(other.Addr)]
			pj.Nonce, pj.Balance, pj.CodeHash = "0x7", "0x3039", "0x"+other.CodeHash
			pj.StorageHash = "0x" + hx(oa.root.Bytes())
			pj.AccountProof = hexList(prove(bw0.state, crypto.Keccak256(hlib.UnHex(other.Addr))))
			pj.StorageProof[0].Proof = hexList(prove(oa.storage, crypto.Keccak256(slot)))
			if r.Bool() {
				sp.Commitment = hx(foreignWord)
			}
			sp.Family += "+other-account-proof"
			sp.Honest = false
		case 10: // address spelling that decodes differently
			switch r.Intn(4) {
			case 0:
				pj.Address = pj.Address + "00"
			case 1:
				pj.Address = "0x00" + hx(contract)
			case 2:
				b := append([]byte{}, contract...)
				if len(b) > 0 {
					b[r.Intn(len(b))] ^= 1
				}
				pj.Address = "0x" + hx(b)
			default:
				pj.Address = ""
			}
			sp.Family += "+address-changed"
			sp.Honest = false
		case 11: // address spelling with a non-hex tail: FromHex stops at the first bad digit pair
			pj.Address = "0x" + hx(contract) + "zz" + hx(r.Bytes(2))
			sp.Family += "+address-junk-tail"
		case 12, 13: // account field changed
			switch r.Intn(4) {
			case 0:
				pj.Nonce = quantity(r, new(big.Int).Add(nonce, big.NewInt(1)), 0)
			case 1:
				pj.Balance = quantity(r, new(big.Int).Add(balance, big.NewInt(1)), 0)
			case 2:
				b := append([]byte{}, codeHash...)
				b[r.Intn(32)] ^= 0x80
				pj.CodeHash = "0x" + hx(b)
			default:
				pj.StorageHash = "0x" + hx(bw1.accts[strings.ToLower(hx(contract))].root.Bytes())
			}
			sp.Family += "+account-field-changed"
			sp.Honest = false
		case 14: // storage hash + storage proof of world 1 (where the slot holds another value) under world 0's account proof
			b1 := bw1.accts[strings.ToLower(hx(contract))]
			pj.StorageHash = "0x" + hx(b1.root.Bytes())
			pj.StorageProof[0].Proof = hexList(prove(b1.storage, crypto.Keccak256(slot)))
			if r.Bool() {
				sp.Commitment = hx(otherWord) // what world 1 holds there; world 0 (stored at the height) does not
			}
			sp.Family += "+foreign-storage-root"
			sp.Honest = false
		case 15: // complete honest proof from world 1 (other root)
			b1 := bw1.accts[strings.ToLower(hx(contract))]
			pj.StorageHash = "0x" + hx(b1.root.Bytes())
			pj.AccountProof = hexList(prove(bw1.state, crypto.Keccak256(contract)))
			pj.StorageProof[0].Proof = hexList(prove(b1.storage, crypto.Keccak256(slot)))
			if r.Bool() {
				sp.Commitment = hx(otherWord)
			}
			sp.Family += "+proof-from-other-world"
			sp.Honest = false
		case 16: // no storage proof
			pj.StorageProof = []*srJSON{}
			sp.Family += "+zero-storage-proofs"
			sp.Honest = false
		case 17: // two storage proofs
			pj.StorageProof = append(pj.StorageProof, &srJSON{Key: "0x" + hx(otherSlot), Value: "0x1", Proof: hexList(prove(ba.storage, crypto.Keccak256(otherSlot)))})
			if r.Bool() {
				pj.StorageProof[0], pj.StorageProof[1] = pj.StorageProof[1], pj.StorageProof[0]
			}
			sp.Family += "+two-storage-proofs"
			sp.Honest = false
		case 18: // null storage proof element
			pj.StorageProof = []*srJSON{nil}
			sp.Family += "+null-storage-proof"
			sp.Honest = false
		case 19, 20: // another slot: honest proof of a DIFFERENT present slot (key says so)
			k := otherSlot
			if r.Bool() {
				k = nextSlot
			}
			pj.StorageProof[0].Key = "0x" + hx(k)
			pj.StorageProof[0].Proof = hexList(prove(ba.storage, crypto.Keccak256(k)))
			sp.Family += "+other-slot"
			sp.Honest = false
		case 21: // right key string, proof nodes of another slot
			pj.StorageProof[0].Proof = hexList(prove(ba.storage, crypto.Keccak256(nextSlot)))
			sp.Family += "+nodes-of-other-slot"
			sp.Honest = false
		case 22: // key string longer than 32 bytes whose last 32 bytes are the slot (HexToHash crops from the left)
			pj.StorageProof[0].Key = "0x" + hx(r.Bytes(1+r.Intn(3))) + hx(slot)
			sp.Family += "+overlong-key"
		case 23: // key string changed
			b := append([]byte{}, slot...)
			b[r.Intn(32)] ^= 4
			pj.StorageProof[0].Key = "0x" + hx(b)
			sp.Family += "+key-changed"
			sp.Honest = false
		case 24, 25: // another value claimed
			b := append([]byte{}, word...)
			switch r.Intn(5) {
			case 0:
				b[31] ^= 1
			case 1:
				b[r.Intn(32)] ^= byte(1 + r.Intn(255))
			case 2: // shifted: same significant bytes, other padding
				b = append(trimZeros(word), make([]byte, 32-len(trimZeros(word)))...)
				if bytes.Equal(b, word) {
					b[0] ^= 1
				}
			case 3:
				b = trimZeros(word) // not padded to 32
				if len(b) == 32 {
					b = b[1:]
				}
			default:
				b = append([]byte{0}, word...) // 33 bytes
			}
			sp.Commitment = hx(b)
			sp.Family += "+other-value"
			sp.Honest = false
		case 26: // absent key: sequence never written
			sp.Seq = seq + 2
			k := slotOf(sp.Ack, src, dst, sp.Seq)
			pj.StorageProof[0].Key = "0x" + hx(k)
			pj.StorageProof[0].Proof = hexList(prove(ba.storage, crypto.Keccak256(k)))
			sp.Family += "+absent-key"
			sp.Honest = false
		case 27: // call for the other kind of path (ack proof used for a commitment and vice versa)
			sp.Ack = !sp.Ack
			sp.Family += "+other-path-kind"
			sp.Honest = false
		case 28: // call for another sequence / chain pair with an unchanged proof
			if r.Bool() {
				sp.Seq = seq + 1
			} else {
				sp.Src = hx([]byte(src + "x"))
			}
			sp.Family += "+other-path"
			sp.Honest = false
		case 29: // non-canonical or odd RLP stored in the trie at the slot
			if len(sp.Worlds[0].Accounts) == 0 || sp.Worlds[0].Accounts[0].Addr != hx(contract) {
				continue // a previous mutation removed the contract account
			}
			tw := trimZeros(word)
			var rawv []byte
			switch r.Intn(6) {
			case 0: // leading zero inside the string
				rawv = rlpBytes(append([]byte{0}, tw...))
			case 1: // single byte < 0x80 in long form
				rawv = []byte{0x81, byte(r.Intn(0x80))}
				sp.Commitment = hx(common.LeftPadBytes(rawv[1:], 32))
			case 2: // trailing byte
				rawv = append(rlpBytes(tw), 0x01)
			case 3: // a list
				rawv = []byte{0xc2, 0x01, 0x02}
			case 4: // long-form length for a short string
				rawv = append([]byte{0xb8, byte(len(tw))}, tw...)
			default: // 33..40 byte string
				long := append(r.Bytes(1+r.Intn(8)), word...)
				long[0] |= 1
				rawv = rlpBytes(long)
				if r.Bool() {
					sp.Commitment = hx(long)
				}
			}
			a0 := &sp.Worlds[0].Accounts[0]
			for j := range a0.Storage {
				if a0.Storage[j].Key == hx(slot) {
					a0.Storage[j].Raw = hx(rawv)
				}
			}
			if len(tw) == 0 {
				a0.Storage = append(a0.Storage, SlotSpec{Key: hx(slot), Raw: hx(rawv)})
			}
			nb := buildWorld(sp.Worlds[0])
			na := nb.accts[strings.ToLower(hx(contract))]
			pj.StorageHash = "0x" + hx(na.root.Bytes())
			pj.AccountProof = hexList(prove(nb.state, crypto.Keccak256(contract)))
			pj.StorageProof[0].Proof = hexList(prove(na.storage, crypto.Keccak256(slot)))
			sp.Family += "+odd-rlp-value"
			sp.Honest = false
			bw0, ba = nb, na
		case 30: // JSON-level variations that still decode
			bz, _ := json.Marshal(pj)
			s := string(bz)
			switch r.Intn(5) {
			case 0:
				s = strings.Replace(s, `"address"`, `"ADDRESS"`, 1) // field names match case-insensitively
			case 1:
				s = strings.Replace(s, `{"address"`, `{"unknown":[1,{"a":null}],"address"`, 1)
			case 2:
				s = " \n" + s + "\t "
			case 3:
				s = strings.Replace(s, `"nonce":`, `"nonce":"0xdead","nonce":`, 1) // duplicate key: last wins
			default:
				s = strings.Replace(s, `"storage_hash"`, `"Storage_Hash"`, 1)
			}
			raw = []byte(s)
			sp.Family += "+json-variant"
		case 31: // JSON that decodes to something else
			bz, _ := json.Marshal(pj)
			s := string(bz)
			switch r.Intn(6) {
			case 0:
				s = strings.Replace(s, `"storage_hash"`, `"storageHash"`, 1) // eth_getProof's own spelling is NOT matched
			case 1:
				s = strings.Replace(s, `"account_proof"`, `"accountProof"`, 1)
			case 2:
				s = `{}`
			case 3:
				s = `null`
			case 4:
				s = strings.Replace(s, `"storage_proof":[`, `"storage_proof":[null,`, 1)
			default:
				s = strings.Replace(s, `"address":"`, `"address":"0x`, 1)
			}
			raw = []byte(s)
			sp.Family += "+json-decodes-differently"
			sp.Honest = false
		case 32, 33: // malformed JSON
			bz, _ := json.Marshal(pj)
			switch r.Intn(7) {
			case 0:
				raw = bz[:len(bz)-1-r.Intn(len(bz)/2)]
			case 1:
				raw = []byte{}
			case 2:
				raw = []byte(`[]`)
			case 3:
				raw = []byte(strings.Replace(string(bz), `"nonce":"`, `"nonce":5,"x":"`, 1))
			case 4:
				raw = r.Bytes(1 + r.Intn(50))
			case 5:
				raw = append(bz, '}')
			default:
				raw = []byte(strings.Replace(string(bz), `"account_proof":[`, `"account_proof":[7,`, 1))
			}
			sp.Family += "+malformed-json"
			sp.Honest = false
		case 34:
			nilProof = true
			sp.Family += "+nil-proof"
			sp.Honest = false
		case 35: // hex strings with odd digit counts / garbage inside nodes
			if len(pj.AccountProof) > 0 {
				i := r.Intn(len(pj.AccountProof))
				s := pj.AccountProof[i]
				switch r.Intn(3) {
				case 0:
					s = s[:len(s)-1] // odd number of digits: a "0" is prepended, all bytes shift
				case 1:
					s = s[:len(s)/2] + "g" + s[len(s)/2:]
				default:
					s = strings.TrimPrefix(strings.TrimPrefix(s, "0x"), "0X")
					s = "0x0x" + s
				}
				pj.AccountProof[i] = s
			}
			sp.Family += "+node-hex-garbled"
			sp.Honest = false
		case 36: // contract account missing from the world (absence proof of the account)
			if len(sp.Worlds[0].Accounts) == 0 || sp.Worlds[0].Accounts[0].Addr != hx(contract) {
				continue
			}
			sp.Worlds[0].Accounts = sp.Worlds[0].Accounts[1:]
			nb := buildWorld(sp.Worlds[0])
			pj.AccountProof = hexList(prove(nb.state, crypto.Keccak256(contract)))
			sp.Family += "+account-absent"
			sp.Honest = false
			bw0 = nb
		case 37: // state trie holds something that is not the account RLP the proof fields rebuild
			if len(sp.Worlds[0].Accounts) == 0 || sp.Worlds[0].Accounts[0].Addr != hx(contract) {
				continue
			}
			a0 := &sp.Worlds[0].Accounts[0]
			v, _ := rlp.EncodeToBytes(&acctRLP{Nonce: nonce, Balance: balance, Root: ba.root, CodeHash: codeHash[:31]})
			a0.RawAcct = hx(v)
			nb := buildWorld(sp.Worlds[0])
			pj.AccountProof = hexList(prove(nb.state, crypto.Keccak256(contract)))
			sp.Family += "+odd-account-value"
			sp.Honest = false
			bw0 = nb
		case 38: // hash fields in unusual but equivalent spellings (short / overlong)
			pj.CodeHash = "0x" + hx(r.Bytes(2)) + hx(codeHash)
			if ts := trimZeros(ba.root.Bytes()); len(ts) < 32 {
				pj.StorageHash = "0x" + hx(ts)
			}
			sp.Family += "+overlong-hash-field"
		default: // (39) the claimed value in another LENGTH: same significant bytes, not a 32-byte word
			tw := trimZeros(word)
			var b []byte
			switch r.Intn(5) {
			case 0:
				b = tw // zero-stripped (what the trie stores)
			case 1:
				b = append([]byte{0}, word...) // 33 bytes
			case 2:
				b = append(make([]byte, 1+r.Intn(4)), word...) // 33..36 bytes
			case 3:
				if len(tw) < 32 {
					b = word[1:] // 31 bytes, still left-padded
				} else {
					b = tw[:31]
				}
			default:
				b = append(append([]byte{}, word...), 0) // 33 bytes, zero appended
			}
			if !bytes.Equal(b, word) {
				sp.Commitment = hx(b)
				sp.Family += "+value-length-variant"
				sp.Honest = false
			}
		}
	}
	if raw == nil {
		bz, err := json.Marshal(pj)
		if err != nil {
			panic(err)
		}
		raw = bz
	}
	if !nilProof {
		sp.Proof = sptr(hx(raw))
	}
	// re-resolve world-referencing store entries if world 0 was rebuilt (roots are resolved at run time from the spec)
	_ = bw0
	return sp
}

// ----------------------------------------------------------------------------------------------------

func main() {
	seed := flag.Uint64("seed", 1, "PRNG seed")
	n := flag.Int("n", 100, "number of generated cases")
	in := flag.String("in", "", "replay the specs of this JSONL file instead of generating")
	out := flag.String("out", "out.jsonl", "output JSONL")
	mode := flag.String("mode", "verify", "verify: VerifyPacketCommitment/Acknowledgement cases; mpt: trie.VerifyProof cases; delay: GetDelayBlock/GetDelayTime sweep")
	flag.Parse()

	o := hlib.NewOut(*out)
	defer o.Close()
	switch *mode {
	case "mpt":
		if *in != "" { // replay recorded (root, key, nodes) inputs
			hlib.ReadLines(*in, func(line []byte) {
				var mc MCase
				if err := json.Unmarshal(line, &mc); err != nil {
					panic(err)
				}
				nodes := [][]byte{}
				for _, n := range mc.Nodes {
					b := hlib.UnHex(n)
					if b == nil {
						b = []byte{}
					}
					nodes = append(nodes, b)
				}
				o.Emit(runMpt(mc.ID, mc.Family, common.BytesToHash(hlib.UnHex(mc.Root)), hlib.UnHex(mc.Key), nodes))
			})
			return
		}
		for _, mc := range directedMpt() {
			o.Emit(mc)
		}
		root := hlib.NewRand(*seed ^ 0x6d7074)
		for i := 0; i < *n; i++ {
			r := root.Fork(uint64(i))
			switch {
			case i%2 == 0:
				o.Emit(genCrafted(r, i))
			case i%6 == 5:
				o.Emit(genFullDB(r, i))
			default:
				o.Emit(genGethTrie(r, i))
			}
		}
		return
	case "delay":
		if *in != "" {
			hlib.ReadLines(*in, func(line []byte) {
				var d DCase
				if err := json.Unmarshal(line, &d); err != nil {
					panic(err)
				}
				o.Emit(runDelay(d.NVals, d.BlockInterval, d.EthBlockDelay, d.EthTimeDelay))
			})
			return
		}
		delaySweep(hlib.NewRand(*seed^0x64656c), *n, func(d DCase) { o.Emit(d) })
		return
	}
	if *in != "" {
		hlib.ReadLines(*in, func(line []byte) {
			var sp Spec
			if err := json.Unmarshal(line, &sp); err != nil {
				panic(err)
			}
			o.Emit(runSpec(sp))
		})
		return
	}
	root := hlib.NewRand(*seed)
	fam := map[string]int{}
	for i := 0; i < *n; i++ {
		r := root.Fork(uint64(i))
		sp := gen(r, i)
		res := runSpec(sp)
		fam[fmt.Sprint(res.EthClass)]++
		o.Emit(res)
	}
	keys := []string{}
	for k := range fam {
		keys = append(keys, k)
	}
	sort.Strings(keys)
	for _, k := range keys {
		fmt.Printf("eth class %s: %d\n", k, fam[k])
	}
}
