// Scenario generators: block histories exercising the teleport message, hook and proposal types.
package main

import (
	"encoding/base64"
	"encoding/binary"
	"encoding/json"
	"fmt"
	"math/big"
	"strings"
	"time"

	abci "github.com/tendermint/tendermint/abci/types"

	sdk "github.com/cosmos/cosmos-sdk/types"
	banktypes "github.com/cosmos/cosmos-sdk/x/bank/types"
	govtypes "github.com/cosmos/cosmos-sdk/x/gov/types"
	proposaltypes "github.com/cosmos/cosmos-sdk/x/params/types/proposal"
	stakingtypes "github.com/cosmos/cosmos-sdk/x/staking/types"

	transfertypes "github.com/cosmos/ibc-go/v3/modules/apps/transfer/types"

	"github.com/ethereum/go-ethereum/common"
	"github.com/ethereum/go-ethereum/crypto"

	"github.com/tharsis/ethermint/crypto/ethsecp256k1"

	"github.com/teleport-network/teleport/syscontracts"
	erc20contracts "github.com/teleport-network/teleport/syscontracts/erc20"
	govcontract "github.com/teleport-network/teleport/syscontracts/gov"
	stakingcontract "github.com/teleport-network/teleport/syscontracts/staking"
	endpointcontract "github.com/teleport-network/teleport/syscontracts/xibc_endpoint"
	aggregatetypes "github.com/teleport-network/teleport/x/aggregate/types"
	rvtypes "github.com/teleport-network/teleport/x/rvesting/types"
	clienttypes "github.com/teleport-network/teleport/x/xibc/core/client/types"
	"github.com/teleport-network/teleport/x/xibc/core/host"
	packettypes "github.com/teleport-network/teleport/x/xibc/core/packet/types"

	"verifharness/hlib"
)

var zeroAddr = common.Address{}

// typedEventBytes extracts a bytes field of a typed event (JSON: a quoted base64 string) from raw ABCI events.
func typedEventBytes(evs []abci.Event, typeSuffix, field string) [][]byte {
	var out [][]byte
	for _, e := range evs {
		if !strings.HasSuffix(e.Type, typeSuffix) {
			continue
		}
		for _, a := range e.Attributes {
			if string(a.Key) != field {
				continue
			}
			var s string
			if json.Unmarshal(a.Value, &s) == nil {
				if b, err := base64.StdEncoding.DecodeString(s); err == nil {
					out = append(out, b)
				}
			}
		}
	}
	return out
}

// ---- governance ------------------------------------------------------------------------------------

// Propose submits a proposal with a sufficient deposit and votes yes with the bonded delegator (through a cosmos
// MsgVote or through the gov system contract -> adapter/gov hook). Returns the proposal id (0 if rejected).
func (c *Chain) Propose(tag string, content govtypes.Content, viaContract bool) uint64 {
	msg, err := govtypes.NewMsgSubmitProposal(content, sdk.NewCoins(sdk.NewCoin(bondDenom, sdk.NewInt(1000))), c.Acc)
	must(err)
	o := c.CosmosTx("gov-submit:"+tag, c.Key, TxOpt{}, msg)
	if o.Code != 0 {
		return 0
	}
	id, err := c.App.GovKeeper.GetProposalID(c.Ctx())
	must(err)
	id--
	if viaContract {
		data, err := govcontract.GovContract.ABI.Pack("vote", id, uint32(govtypes.OptionYes))
		must(err)
		to := common.HexToAddress(syscontracts.GovContractAddress)
		c.EthTx("evm:gov-contract-vote", c.Key, &to, nil, 500_000, data, 0)
	} else {
		c.CosmosTx("gov-vote", c.Key, TxOpt{}, govtypes.NewMsgVote(c.Acc, id, govtypes.OptionYes))
	}
	return id
}

// PassVotingPeriod: enough blocks for every open proposal to be tallied and executed (in EndBlock).
func (c *Chain) PassVotingPeriod() {
	c.EndCommit()
	c.Time = c.Time.Add(31 * time.Second)
	c.EndCommit()
	c.EndCommit()
}

func (c *Chain) proposalPassed(id uint64) bool {
	p, ok := c.App.GovKeeper.GetProposal(c.Ctx(), id)
	return ok && p.Status == govtypes.StatusPassed
}

// ---- EVM helpers -------------------------------------------------------------------------------------

func erc20Deploy(name, symbol string, decimals uint8) []byte {
	ctor, err := erc20contracts.ERC20MinterBurnerDecimalsContract.ABI.Pack("", name, symbol, decimals)
	must(err)
	return append(append([]byte{}, erc20contracts.ERC20MinterBurnerDecimalsContract.Bin...), ctor...)
}

func erc20Call(method string, args ...interface{}) []byte {
	d, err := erc20contracts.ERC20MinterBurnerDecimalsContract.ABI.Pack(method, args...)
	must(err)
	return d
}

// DeployERC20 deploys through a real Ethereum transaction; the deployer holds the minter role.
func (c *Chain) DeployERC20(key *ethsecp256k1.PrivKey) (common.Address, bool) {
	from := common.BytesToAddress(key.PubKey().Address())
	addr := crypto.CreateAddress(from, c.App.EvmKeeper.GetNonce(c.Ctx(), from))
	o := c.EthTx("evm:deploy-erc20", key, nil, nil, 3_000_000, erc20Deploy("tok", "TOK", 18), 0)
	return addr, o.Code == 0
}

// DeployERC20ByEndpoint: out-of-band deployment with the endpoint contract as deployer (= minter), as the
// repository's integration tests do for tokens minted by incoming transfers.
func (c *Chain) DeployERC20ByEndpoint() common.Address {
	ep := endpointcontract.EndpointContractAddress
	addr := crypto.CreateAddress(ep, c.App.EvmKeeper.GetNonce(c.Ctx(), ep))
	c.OOB("call_evm_with_data", ep.Bytes(), nil, erc20Deploy("name", "symbol", 18))
	return addr
}

// ---- single-chain activity ----------------------------------------------------------------------------

func (c *Chain) randomLocalActivity(r *hlib.Rand, st *localState) {
	switch r.Intn(16) {
	case 0: // bank send
		amt := sdk.NewCoins(sdk.NewCoin(bondDenom, sdk.NewInt(int64(1+r.Intn(1000)))))
		c.CosmosTx("bank-send", c.Key, TxOpt{}, banktypes.NewMsgSend(c.Acc, c.Acc2, amt))
	case 1: // plain value transfer through the EVM
		to := c.Addr2
		c.EthTx("evm:transfer", c.Key, &to, big.NewInt(int64(1+r.Intn(100000))), 21_000, nil, 0)
	case 2: // ERC-20 deployment
		if a, ok := c.DeployERC20(c.Key); ok {
			st.erc20s = append(st.erc20s, a)
		}
	case 3: // ERC-20 mint / transfer
		if len(st.erc20s) > 0 {
			t := st.erc20s[r.Intn(len(st.erc20s))]
			if r.Bool() {
				c.EthTx("evm:erc20-mint", c.Key, &t, nil, 300_000, erc20Call("mint", c.Addr, big.NewInt(int64(1000+r.Intn(100000)))), 0)
			} else {
				c.EthTx("evm:erc20-transfer", c.Key, &t, nil, 300_000, erc20Call("transfer", c.Addr2, big.NewInt(int64(r.Intn(2000)))), 0)
			}
		}
	case 4: // aggregate: register an ERC-20 (proposal), later converted
		if len(st.erc20s) > len(st.registered) {
			t := st.erc20s[len(st.registered)]
			id := c.Propose("aggregate-register-erc20", aggregatetypes.NewRegisterERC20Proposal("t", "d", t.Hex()), r.Bool())
			c.PassVotingPeriod()
			if id != 0 && c.proposalPassed(id) {
				st.registered = append(st.registered, t)
			} else {
				st.erc20s = append(st.erc20s[:len(st.registered)], st.erc20s[len(st.registered)+1:]...)
			}
		}
	case 5: // aggregate: convert ERC-20 -> coin and back
		if len(st.registered) > 0 {
			t := st.registered[r.Intn(len(st.registered))]
			if r.Bool() {
				c.CosmosTx("aggregate-convert-erc20", c.Key, TxOpt{}, aggregatetypes.NewMsgConvertERC20(sdk.NewInt(int64(1+r.Intn(500))), c.Acc2, t, c.Addr, ""))
			} else {
				coin := sdk.NewCoin(aggregatetypes.CreateDenom(t.Hex()), sdk.NewInt(int64(1+r.Intn(100))))
				c.CosmosTx("aggregate-convert-coin", c.Key2, TxOpt{}, aggregatetypes.NewMsgConvertCoin(coin, c.Addr, c.Acc2))
			}
		}
	case 6: // aggregate: register a native coin (proposal), then convert it
		if !st.coinRegistered {
			md := banktypes.Metadata{Description: "foo", Base: "ufoo", Display: "foo", Name: "foo", Symbol: "FOO",
				DenomUnits: []*banktypes.DenomUnit{{Denom: "ufoo", Exponent: 0}, {Denom: "foo", Exponent: 6}}}
			id := c.Propose("aggregate-register-coin", aggregatetypes.NewRegisterCoinProposal("t", "d", md), r.Bool())
			c.PassVotingPeriod()
			st.coinRegistered = id != 0 && c.proposalPassed(id)
		} else {
			c.CosmosTx("aggregate-convert-coin", c.Key, TxOpt{}, aggregatetypes.NewMsgConvertCoin(sdk.NewCoin("ufoo", sdk.NewInt(int64(1+r.Intn(1000)))), c.Addr2, c.Acc))
		}
	case 7: // rvesting parameters (params proposal; executed in EndBlock, used by every later BeginBlock)
		var ch []proposaltypes.ParamChange
		if r.Bool() {
			ch = append(ch, proposaltypes.NewParamChange(rvtypes.ModuleName, string(rvtypes.KeyEnableVesting), fmt.Sprint(r.Bool())))
		}
		if len(ch) == 0 || r.Bool() {
			rew := fmt.Sprintf(`[{"denom":"%s","amount":"%d"}]`, bondDenom, 1+r.Intn(50))
			if r.Chance(1, 4) {
				rew = fmt.Sprintf(`[{"denom":"%s","amount":"%d"},{"denom":"ufoo","amount":"%d"}]`, bondDenom, 1+r.Intn(50), 1+r.Intn(5))
			}
			if r.Chance(1, 6) {
				rew = `[{"denom":"stake","amount":"3"},{"denom":"stake","amount":"4"}]` // rejected by validation
			}
			ch = append(ch, proposaltypes.NewParamChange(rvtypes.ModuleName, string(rvtypes.KeyPerBlockReward), rew))
		}
		c.Propose("params-rvesting", proposaltypes.NewParameterChangeProposal("t", "d", ch), r.Bool())
		if r.Chance(1, 3) { // a module account is a blocked address (app.BlockedAddrs): refused on every node
			pool := c.App.AccountKeeper.GetModuleAddress(rvtypes.ModuleName)
			c.CosmosTx("bad:blocked-address", c.Key, TxOpt{}, banktypes.NewMsgSend(c.Acc, pool, sdk.NewCoins(sdk.NewCoin(bondDenom, sdk.NewInt(5)))))
		}
		c.PassVotingPeriod()
	case 8: // staking system contract -> adapter/staking hook -> MsgDelegate / MsgUndelegate / withdraw
		to := common.HexToAddress(syscontracts.StakingContractAddress)
		val := c.ValAddr.String()
		var data []byte
		var err error
		switch r.Intn(4) {
		case 0, 1:
			data, err = stakingcontract.StakingContract.ABI.Pack("delegate", val, big.NewInt(int64(1_000_000+r.Intn(1_000_000))))
		case 2:
			data, err = stakingcontract.StakingContract.ABI.Pack("undelegate", val, big.NewInt(int64(1+r.Intn(1000))))
		default:
			data, err = stakingcontract.StakingContract.ABI.Pack("withdraw", val)
		}
		must(err)
		k := c.Key
		if r.Chance(1, 3) {
			k = c.Key2
		}
		c.EthTx("evm:staking-contract", k, &to, nil, 800_000, data, 0)
	case 9: // cosmos staking message
		c.CosmosTx("staking-delegate", c.Key2, TxOpt{}, stakingtypes.NewMsgDelegate(c.Acc2, c.ValAddr, sdk.NewCoin(bondDenom, sdk.NewInt(int64(1_000_000+r.Intn(1000))))))
	case 10: // aggregate parameters
		key := string(aggregatetypes.ParamStoreKeyEnableAggregate)
		if r.Bool() {
			key = string(aggregatetypes.ParamStoreKeyEnableEVMHook)
		}
		c.Propose("params-aggregate", proposaltypes.NewParameterChangeProposal("t", "d",
			[]proposaltypes.ParamChange{proposaltypes.NewParamChange(aggregatetypes.ModuleName, key, fmt.Sprint(r.Chance(3, 4)))}), r.Bool())
		c.PassVotingPeriod()
	case 11: // malformed stream: wrong sequence / wrong chain id / tiny gas / failing EVM call
		switch r.Intn(4) {
		case 0:
			c.CosmosTx("bad:sequence", c.Key, TxOpt{SeqDelta: int64(1 + r.Intn(3))}, banktypes.NewMsgSend(c.Acc, c.Acc2, sdk.NewCoins(sdk.NewCoin(bondDenom, sdk.NewInt(1)))))
		case 1:
			c.CosmosTx("bad:chain-id", c.Key, TxOpt{WrongChain: true}, banktypes.NewMsgSend(c.Acc, c.Acc2, sdk.NewCoins(sdk.NewCoin(bondDenom, sdk.NewInt(1)))))
		case 2:
			c.CosmosTx("bad:out-of-gas", c.Key, TxOpt{Gas: uint64(30_000 + r.Intn(40_000))}, banktypes.NewMsgSend(c.Acc, c.Acc2, sdk.NewCoins(sdk.NewCoin(bondDenom, sdk.NewInt(1)))))
		default:
			if len(st.erc20s) > 0 {
				t := st.erc20s[0]
				c.EthTx("bad:evm-revert", c.Key2, &t, nil, 300_000, erc20Call("mint", c.Addr2, big.NewInt(5)), 0) // no minter role
			}
		}
	case 12: // aggregate: toggle relay of a registered pair
		if len(st.registered) > 0 {
			c.Propose("aggregate-toggle-relay", aggregatetypes.NewToggleTokenRelayProposal("t", "d", st.registered[0].Hex()), r.Bool())
			c.PassVotingPeriod()
		}
	case 13: // a proposal that fails in its handler (state must stay unchanged on every node)
		c.Propose("aggregate-register-erc20-bad", aggregatetypes.NewRegisterERC20Proposal("t", "d", common.BytesToAddress(r.Bytes(20)).Hex()), false)
		c.PassVotingPeriod()
	default:
		c.EndCommit()
		if r.Chance(1, 5) {
			c.Time = c.Time.Add(time.Duration(r.Intn(3600)) * time.Second)
		}
	}
	if r.Chance(1, 2) {
		c.EndCommit()
	}
}

// ibcHookRecv: one incoming ICS-20 transfer as the aggregate hook sees it (out-of-band keeper call; the typed event it
// emits is what the operation's events digest covers).  kind: 0 receiver that is not a 20-byte address (vouchers left
// unconverted), 1 malformed packet data, 2 amount that is not a number, 3 unregistered denomination.
func (c *Chain) ibcHookRecv(r *hlib.Rand, kind int, seq uint64) {
	receiver := c.Acc2.String()
	amount := fmt.Sprint(1 + r.Intn(100000))
	switch kind {
	case 0:
		receiver = sdk.AccAddress(r.Bytes(32)).String() // e.g. an interchain / module-style account
	case 2:
		amount = "12x"
	}
	data := transfertypes.NewFungibleTokenPacketData("uatom", amount, "cosmos1sender", receiver).GetBytes()
	if kind == 1 {
		data = append([]byte("{"), r.Bytes(5)...)
	}
	var sq [8]byte
	binary.BigEndian.PutUint64(sq[:], seq)
	c.OOB("aggregate_ibc_recv", data, sq[:], []byte(fmt.Sprintf("channel-%d", r.Intn(4))), []byte("channel-0"))
}

type localState struct {
	erc20s         []common.Address
	registered     []common.Address
	coinRegistered bool
}

func scenarioSingle(r *hlib.Rand, steps int) []*Chain {
	c := NewChain(r, "teleport_9000-10", 1+r.Intn(3))
	st := &localState{}
	// directed prelude (runs in every single-chain history): the branches of the ICS-20 hook, the non-EVM receiver first
	c.Begin()
	for i, k := range []int{0, 0, 3, 0, 1, 0, 2, 0} {
		c.ibcHookRecv(r, k, uint64(i+1))
	}
	c.EndCommit()
	for i := 0; i < steps; i++ {
		c.randomLocalActivity(r, st)
		if r.Chance(1, 8) {
			c.Begin()
			c.ibcHookRecv(r, r.Intn(4), uint64(100+i))
		}
	}
	c.EndCommit()
	return []*Chain{c}
}

// ---- two chains: clients, relayers, packets ----------------------------------------------------------------

type link struct {
	a, b *Chain
}

// setupClients creates the light clients of each other and registers the relayers — through governance
// proposals executed in EndBlock (viaGov) or through the out-of-band keeper calls of x/xibc/testing.
func setupClients(r *hlib.Rand, a, b *Chain, viaGov bool) bool {
	a.EndCommit()
	b.EndCommit()
	twoRelayers := r.Bool()
	for _, p := range [][2]*Chain{{a, b}, {b, a}} {
		c, o := p[0], p[1]
		cs, cons := TMClientStateOf(o)
		if viaGov {
			prop, err := clienttypes.NewCreateClientProposal("t", "d", o.ChainID, cs, cons)
			must(err)
			c.Propose("xibc-create-client", prop, r.Bool())
			c.Propose("xibc-register-relayer", clienttypes.NewRegisterRelayerProposal("t", "d", c.Acc.String(), []string{o.ChainID}, []string{o.Acc.String()}), r.Bool())
		} else {
			csAny, err := clienttypes.PackClientState(cs)
			must(err)
			consAny, err := clienttypes.PackConsensusState(cons)
			must(err)
			b1, _ := csAny.Marshal()
			b2, _ := consAny.Marshal()
			c.OOB("create_client", []byte(o.ChainID), b1, b2)
			c.OOB("register_relayer", []byte(c.Acc.String()), []byte(o.ChainID), []byte(o.Acc.String()))
		}
		// in half of the histories a SECOND teleport account registers the same address on the other chain: the
		// acknowledgement's fee goes to the relayer found for that address (GetRelayerAddressOnTeleport) — with two
		// candidates the choice has to be the same on every node
		if twoRelayers {
			if viaGov {
				c.Propose("xibc-register-relayer-same-foreign-address", clienttypes.NewRegisterRelayerProposal("t", "d", c.Acc2.String(), []string{o.ChainID}, []string{o.Acc.String()}), false)
			} else {
				c.OOB("register_relayer", []byte(c.Acc2.String()), []byte(o.ChainID), []byte(o.Acc.String()))
			}
		}
	}
	if viaGov {
		a.PassVotingPeriod()
		b.PassVotingPeriod()
	} else {
		a.EndCommit()
		b.EndCommit()
	}
	_, okA := a.App.XIBCKeeper.ClientKeeper.GetClientState(a.Ctx(), b.ChainID)
	_, okB := b.App.XIBCKeeper.ClientKeeper.GetClientState(b.Ctx(), a.ChainID)
	return okA && okB
}

// syncTime keeps the two clocks together (the light clients reject headers from the future).
func syncTime(a, b *Chain) {
	if a.Time.After(b.Time) {
		b.Time = a.Time
	} else {
		a.Time = b.Time
	}
}

// updateClient: c learns o's latest committed state (o commits one more block so that a header carrying the state exists).
func updateClient(c, o *Chain, key *ethsecp256k1.PrivKey) Obs {
	syncTime(c, o)
	o.EndCommit()
	o.EndCommit()
	syncTime(c, o)
	if c.inBlock && c.Cur.Time.Before(o.Cur.Time) && !c.Rand.Chance(1, 12) {
		c.EndCommit() // otherwise the header is "from the future" for the block in progress (kept, rarely, as a rejected update)
	}
	h := c.UpdateHeaderFor(o)
	if h == nil {
		return Obs{Code: 999}
	}
	msg, err := clienttypes.NewMsgUpdateClient(o.ChainID, h, sdk.AccAddress(key.PubKey().Address()))
	must(err)
	return c.CosmosTx("xibc-update-client", key, TxOpt{}, msg)
}

// sendPacket: user transaction on src calling the endpoint contract; returns the packet bytes from the emitted event.
func sendPacket(r *hlib.Rand, src, dst *Chain, token common.Address, amount int64, callAgent bool) []byte {
	data := packettypes.CrossChainData{
		DstChain: dst.ChainID, TokenAddress: token, Receiver: strings.ToLower(dst.Addr2.String()), Amount: big.NewInt(amount),
		ContractAddress: "", CallData: []byte{}, CallbackAddress: zeroAddr, FeeOption: 0,
	}
	fee := packettypes.Fee{TokenAddress: zeroAddr, Amount: big.NewInt(int64(r.Intn(200)))}
	value := new(big.Int).Set(fee.Amount)
	if token == zeroAddr {
		value.Add(value, data.Amount)
	}
	if callAgent { // a remote contract call riding on the packet (reverts on the destination unless the target exists: both outcomes are histories)
		data.ContractAddress = strings.ToLower(dst.Addr.String())
		data.CallData = r.Bytes(4 + r.Intn(40))
	}
	payload, err := endpointcontract.EndpointContract.ABI.Pack("crossChainCall", data, fee)
	must(err)
	to := endpointcontract.EndpointContractAddress
	o := src.EthTx("evm:cross-chain-call", src.Key, &to, value, 3_000_000, payload, 0)
	if o.Code != 0 {
		return nil
	}
	pk := typedEventBytes(src.lastEvents, "EventSendPacket", "packet")
	if len(pk) == 0 {
		return nil
	}
	return pk[len(pk)-1]
}

// relay: update dst's client, deliver the packet with its proof, then return the acknowledgement to src.
func relay(r *hlib.Rand, src, dst *Chain, packet []byte, st *pairStats) {
	var p packettypes.Packet
	if err := p.ABIDecode(packet); err != nil {
		return
	}
	if updateClient(dst, src, dst.Key).Code != 0 {
		return
	}
	proof, ph := src.QueryProof(host.PacketCommitmentKey(p.SrcChain, p.DstChain, p.Sequence))
	relayer := dst.Key
	if r.Chance(1, 8) {
		relayer = dst.Key2 // not a registered relayer: rejected
	}
	if r.Chance(1, 10) {
		proof = append([]byte{}, proof...)
		proof[len(proof)/2] ^= 0x40 // corrupted proof: rejected
	}
	o := dst.CosmosTx("xibc-recv-packet", relayer, TxOpt{}, packettypes.NewMsgRecvPacket(packet, proof, ph, sdk.AccAddress(relayer.PubKey().Address())))
	if o.Code != 0 {
		st.recvRejected++
		return
	}
	st.recvOK++
	acks := typedEventBytes(dst.lastEvents, "EventWriteAck", "ack")
	if r.Chance(1, 6) { // replayed delivery: must be rejected identically everywhere
		dst.CosmosTx("xibc-recv-packet-replayed", dst.Key, TxOpt{}, packettypes.NewMsgRecvPacket(packet, proof, ph, dst.Acc))
	}
	if len(acks) == 0 {
		return
	}
	ack := acks[len(acks)-1]
	if updateClient(src, dst, src.Key).Code != 0 {
		return
	}
	aproof, aph := dst.QueryProof(host.PacketAcknowledgementKey(p.SrcChain, p.DstChain, p.Sequence))
	o = src.CosmosTx("xibc-acknowledgement", src.Key, TxOpt{}, packettypes.NewMsgAcknowledgement(packet, ack, aproof, aph, src.Acc))
	if o.Code == 0 {
		st.ackOK++
	}
}

type pairStats struct{ recvOK, recvRejected, ackOK int }

func scenarioPair(r *hlib.Rand, steps int, viaGov bool) ([]*Chain, pairStats) {
	key := keyFrom(r)
	a := NewChainAt(r.Fork(1), "teleport_9000-10", 1+r.Intn(2), startTime, key)
	b := NewChainAt(r.Fork(2), "teleport_9000-11", 1+r.Intn(2), startTime, key)
	var st pairStats
	if !setupClients(r, a, b, viaGov) {
		return []*Chain{a, b}, st
	}
	// a token on b minted by incoming transfers of a's base coin
	tokB := b.DeployERC20ByEndpoint()
	b.EndCommit()
	b.Propose("aggregate-register-erc20-trace", aggregatetypes.NewRegisterERC20TraceProposal("t", "d", tokB.Hex(), strings.ToLower(zeroAddr.String()), a.ChainID, 0), r.Bool())
	b.PassVotingPeriod()
	la, lb := &localState{}, &localState{}
	for i := 0; i < steps; i++ {
		switch r.Intn(6) {
		case 0, 1, 2:
			src, dst := a, b
			if r.Chance(1, 4) {
				src, dst = b, a // no trace registered in this direction: the transfer is refused on arrival, the error ack travels back
			}
			pk := sendPacket(r, src, dst, zeroAddr, int64(1+r.Intn(1000)), r.Chance(1, 4))
			if pk != nil {
				relay(r, src, dst, pk, &st)
			}
		case 3:
			updateClient(a, b, a.Key)
		case 4:
			a.randomLocalActivity(r, la)
		default:
			b.randomLocalActivity(r, lb)
		}
	}
	a.EndCommit()
	b.EndCommit()
	return []*Chain{a, b}, st
}
