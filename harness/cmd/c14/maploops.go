// maploops: the real map-ranging functions on generated inputs, next to ONE enumeration of the ranged map (this
// program's own range = a fresh random order) and the oracle values the Coq transcription needs.
package main

import (
	"bytes"
	"sort"
	"strings"

	authtypes "github.com/cosmos/cosmos-sdk/x/auth/types"
	ethabi "github.com/ethereum/go-ethereum/accounts/abi"
	"github.com/ethereum/go-ethereum/common"

	adgov "github.com/teleport-network/teleport/adapter/gov"
	adstaking "github.com/teleport-network/teleport/adapter/staking"
	"github.com/teleport-network/teleport/app"
	govcontract "github.com/teleport-network/teleport/syscontracts/gov"
	stakingcontract "github.com/teleport-network/teleport/syscontracts/staking"
	bsctypes "github.com/teleport-network/teleport/x/xibc/clients/light-clients/bsc/types"

	"verifharness/hlib"
)

type MLCase struct {
	Kind string `json:"kind"` // validators | macc | handlers
	// validators
	Entries    []string `json:"entries,omitempty"` // hex; an enumeration of the map's keys
	Number     uint64   `json:"number,omitempty"`
	Validator  string   `json:"validator,omitempty"`
	RealSorted []string `json:"real_sorted,omitempty"`
	RealInturn int      `json:"real_inturn"` // 0 false 1 true 2 panic
	// macc
	Macc        [][3]string `json:"macc,omitempty"` // (module name, derived address, "1" if allowed to receive)
	RealMod     [][2]string `json:"real_mod,omitempty"`
	RealBlocked [][2]string `json:"real_blocked,omitempty"`
	RealCopy    []string    `json:"real_copy,omitempty"`
	// handlers
	Adapter      string      `json:"adapter,omitempty"`
	Events       [][2]string `json:"events,omitempty"` // (event name, event ID hex) in range order
	Known        []string    `json:"known,omitempty"`
	RealIDs      []string    `json:"real_ids,omitempty"`
	RealPanicked bool        `json:"real_panicked"`
	// recents: verifySeal's loop through CheckHeaderAndUpdateState
	Recents    [][2]string `json:"recents,omitempty"` // (height as 8 bytes hex, validator hex): the store's recent-signer entries
	Limit      uint64      `json:"limit,omitempty"`
	Pattern    int         `json:"pattern,omitempty"`
	RealRecent int         `json:"real_recent"` // 1 ErrRecentlySigned, 0 accepted, 3 another error, 2 panic
	// the real function called repeatedly on the SAME input gave different results (a direct witness of order dependence)
	Unstable string `json:"unstable,omitempty"`
}

func boolStr(b bool) string {
	if b {
		return "1"
	}
	return "0"
}

func dumpBoolMap(m map[string]bool) [][2]string {
	var out [][2]string
	for k, v := range m {
		out = append(out, [2]string{k, boolStr(v)})
	}
	sort.Slice(out, func(i, j int) bool { return out[i][0] < out[j][0] })
	return out
}

func maploops(seed uint64, n int, out string) {
	o := hlib.NewOut(out)
	defer o.Close()
	root := hlib.NewRand(seed)
	a := newApp()
	// ---- BSC verifySeal: the recently-signed loop. Directed shapes first (corpus: they run on every run), then random --
	nrec := 24 + n/10
	for i := 0; i < nrec; i++ {
		pattern := i % 6
		if i >= 24 {
			pattern = 6
		}
		o.Emit(recentsCase(root.Fork(uint64(1_000_000+i)), a, pattern))
	}
	// ---- BSC snapshot: validators() and inturn() -------------------------------------------------------
	for i := 0; i < n; i++ {
		r := root.Fork(uint64(i))
		k := r.Intn(9)
		if r.Chance(1, 10) {
			k = 10 + r.Intn(30) // more than one map bucket
		}
		var vals []common.Address
		for j := 0; j < k; j++ {
			var a common.Address
			switch r.Intn(4) {
			case 0: // shared prefixes: the byte-wise comparison has to look deep
				copy(a[:], bytes.Repeat([]byte{0xab}, 20))
				a[19] = byte(r.Intn(4))
				a[r.Intn(20)] = byte(r.Intn(3))
			case 1:
				a[0] = byte(r.Intn(256)) // bytes >= 0x80: unsigned comparison
			default:
				copy(a[:], r.Bytes(20))
			}
			vals = append(vals, a)
			if r.Chance(1, 6) {
				vals = append(vals, a) // duplicate in the slice, one entry in the map
			}
		}
		set := map[common.Address]struct{}{}
		for _, v := range vals {
			set[v] = struct{}{}
		}
		c := MLCase{Kind: "validators", Number: r.U64() >> uint(r.Intn(64))}
		if r.Chance(1, 20) {
			c.Number = ^uint64(0) // Number + 1 wraps
		}
		for v := range set {
			c.Entries = append(c.Entries, hlib.Hex(v[:]))
		}
		probe := common.Address{}
		if len(vals) > 0 && !r.Chance(1, 5) {
			probe = vals[r.Intn(len(vals))]
		}
		c.Validator = hlib.Hex(probe[:])
		for _, v := range bsctypes.VerifSnapshotValidators(vals) {
			c.RealSorted = append(c.RealSorted, hlib.Hex(v[:]))
		}
		inturn := func() int {
			var res bool
			if p, _ := hlib.Catch(func() { res = bsctypes.VerifSnapshotInturn(vals, c.Number, probe) }); p {
				return 2
			} else if res {
				return 1
			}
			return 0
		}
		c.RealInturn = inturn()
		for rep := 0; rep < 12 && c.Unstable == ""; rep++ {
			again := bsctypes.VerifSnapshotValidators(vals)
			for j, v := range again {
				if j >= len(c.RealSorted) || hlib.Hex(v[:]) != c.RealSorted[j] {
					c.Unstable = "snapshot.validators() returned different slices for the same validator set"
				}
			}
			if inturn() != c.RealInturn {
				c.Unstable = "snapshot.inturn() returned different verdicts for the same validator set, number and validator"
			}
		}
		o.Emit(c)
	}
	// ---- app.go: module account address maps (several calls = several iteration orders) ----------------------
	for i := 0; i < 8; i++ {
		c := MLCase{Kind: "macc"}
		perms := app.GetMaccPerms()
		blocked := a.BlockedAddrs()
		for name := range perms {
			addr := authtypes.NewModuleAddress(name).String()
			// allowedReceivingModAcc is unexported: its value for `name` is read back from the real BlockedAddrs result
			// only as an ORACLE for the model's tv (blocked = !allowed); the comparison of interest is the key set and
			// that every enumeration gives the same map
			c.Macc = append(c.Macc, [3]string{name, addr, boolStr(!blocked[addr])})
			c.RealCopy = append(c.RealCopy, name)
		}
		sort.Strings(c.RealCopy)
		c.RealMod = dumpBoolMap(a.ModuleAccountAddrs())
		c.RealBlocked = dumpBoolMap(blocked)
		o.Emit(c)
	}
	// ---- adapters: handler tables ---------------------------------------------------------------------------
	for i := 0; i < 4; i++ {
		for _, ad := range []string{"staking", "gov"} {
			c := MLCase{Kind: "handlers", Adapter: ad}
			var abiJSON string
			if ad == "staking" {
				abiJSON = stakingcontract.StakingMetaData.ABI
				c.Known = []string{"Delegated", "Undelegated", "Redelegated", "Withdrew"}
			} else {
				abiJSON = govcontract.GovMetaData.ABI
				c.Known = []string{"Voted", "VotedWeighted"}
			}
			parsed, err := ethabi.JSON(strings.NewReader(abiJSON))
			must(err)
			for name, ev := range parsed.Events {
				c.Events = append(c.Events, [2]string{name, hlib.Hex(ev.ID[:])})
			}
			var ids []common.Hash
			c.RealPanicked, _ = hlib.Catch(func() {
				if ad == "staking" {
					ids = adstaking.NewHookAdapter(&a.AccountKeeper, &a.StakingKeeper, a.EvmKeeper, a.MsgServiceRouter()).VerifHandlerIDs()
				} else {
					ids = adgov.NewHookAdapter(&a.AccountKeeper, a.EvmKeeper, a.MsgServiceRouter()).VerifHandlerIDs()
				}
			})
			for _, id := range ids {
				c.RealIDs = append(c.RealIDs, hlib.Hex(id[:]))
			}
			sort.Strings(c.RealIDs)
			o.Emit(c)
		}
	}
}
