package main

func maploops(seed uint64, n int, out string) {}
