// Recorded chain: a real teleport application driven ONLY through operations that are written down —
// ABCI requests (InitChain, BeginBlock, DeliverTx, EndBlock, Commit) plus a small set of explicit
// "out-of-band" keeper calls (the ones the repository's own test framework performs outside transactions).
// The recorded operation list is what the replay processes execute again on fresh application instances.
package main

import (
	"bytes"
	"crypto/sha256"
	"encoding/binary"
	"encoding/json"
	"fmt"
	"math/big"
	"os"
	"sort"
	"strings"
	"time"

	abci "github.com/tendermint/tendermint/abci/types"
	"github.com/tendermint/tendermint/crypto/tmhash"
	"github.com/tendermint/tendermint/libs/log"
	tmproto "github.com/tendermint/tendermint/proto/tendermint/types"
	tmprotoversion "github.com/tendermint/tendermint/proto/tendermint/version"
	tmtypes "github.com/tendermint/tendermint/types"
	"github.com/tendermint/tendermint/version"
	dbm "github.com/tendermint/tm-db"

	"github.com/cosmos/cosmos-sdk/baseapp"
	"github.com/cosmos/cosmos-sdk/client"
	codectypes "github.com/cosmos/cosmos-sdk/codec/types"
	cryptocodec "github.com/cosmos/cosmos-sdk/crypto/codec"
	"github.com/cosmos/cosmos-sdk/crypto/keys/ed25519"
	"github.com/cosmos/cosmos-sdk/simapp"
	sdk "github.com/cosmos/cosmos-sdk/types"
	"github.com/cosmos/cosmos-sdk/types/tx/signing"
	authsign "github.com/cosmos/cosmos-sdk/x/auth/signing"
	authtypes "github.com/cosmos/cosmos-sdk/x/auth/types"
	banktypes "github.com/cosmos/cosmos-sdk/x/bank/types"
	govtypes "github.com/cosmos/cosmos-sdk/x/gov/types"
	slashingtypes "github.com/cosmos/cosmos-sdk/x/slashing/types"
	stakingtypes "github.com/cosmos/cosmos-sdk/x/staking/types"

	transfertypes "github.com/cosmos/ibc-go/v3/modules/apps/transfer/types"
	ibcclienttypes "github.com/cosmos/ibc-go/v3/modules/core/02-client/types"
	channeltypes "github.com/cosmos/ibc-go/v3/modules/core/04-channel/types"

	"github.com/ethereum/go-ethereum/common"
	ethtypes "github.com/ethereum/go-ethereum/core/types"

	"github.com/tharsis/ethermint/crypto/ethsecp256k1"
	"github.com/tharsis/ethermint/encoding"
	"github.com/tharsis/ethermint/tests"
	evmtypes "github.com/tharsis/ethermint/x/evm/types"
	feemarkettypes "github.com/tharsis/ethermint/x/feemarket/types"

	"github.com/teleport-network/teleport/app"
	endpointcontract "github.com/teleport-network/teleport/syscontracts/xibc_endpoint"
	packetcontract "github.com/teleport-network/teleport/syscontracts/xibc_packet"
	teletypes "github.com/teleport-network/teleport/types"
	rvtypes "github.com/teleport-network/teleport/x/rvesting/types"
	xibctmtypes "github.com/teleport-network/teleport/x/xibc/clients/light-clients/tendermint/types"
	clienttypes "github.com/teleport-network/teleport/x/xibc/core/client/types"
	commitmenttypes "github.com/teleport-network/teleport/x/xibc/core/commitment/types"
	"github.com/teleport-network/teleport/x/xibc/core/host"
	packettypes "github.com/teleport-network/teleport/x/xibc/core/packet/types"
	"github.com/teleport-network/teleport/x/xibc/exported"
	"github.com/teleport-network/teleport/x/xibc/testing/mock"
	xibctypes "github.com/teleport-network/teleport/x/xibc/types"

	"verifharness/hlib"
)

// Op is one recorded operation.
type Op struct {
	T    string   `json:"t"`              // init | begin | tx | end | commit | oob
	Req  string   `json:"req,omitempty"`  // hex of the proto-encoded ABCI request (init, begin, end) or of the raw tx
	Kind string   `json:"kind,omitempty"` // oob: which keeper call
	Args []string `json:"args,omitempty"` // oob: hex arguments
	Tag  string   `json:"tag,omitempty"`  // what the generator meant (statistics only)
}

// Obs is what one operation produced — the part consensus (and the property) covers.
type Obs struct {
	T       string `json:"t"`
	Class   int    `json:"class"`              // 0 returned, 2 panicked (outside baseapp's recovery)
	Code    uint32 `json:"code"`               // DeliverTx code
	Space   string `json:"space,omitempty"`    // codespace
	GasW    int64  `json:"gas_wanted"`         //
	GasU    int64  `json:"gas_used"`           //
	Data    string `json:"data,omitempty"`     // sha256 of the response data
	Events  string `json:"events,omitempty"`   // sha256 of the events exactly as returned
	EventsC string `json:"events_c,omitempty"` // sha256 of the events with each event's attributes sorted
	NEvents int    `json:"n_events"`           //
	Extra   string `json:"extra,omitempty"`    // sha256 of validator updates / consensus param updates (end, init)
	Hash    string `json:"hash,omitempty"`     // commit: application hash
	Log     string `json:"log,omitempty"`      // sha256 of the log string (NOT covered by consensus; reported separately)
	LogText string `json:"logtext,omitempty"`  // first 160 bytes of the log of a failed tx (diagnostics)
	Panic   string `json:"panic,omitempty"`
}

func h256(b []byte) string {
	if len(b) == 0 {
		return ""
	}
	s := sha256.Sum256(b)
	return hlib.Hex(s[:])
}

// eventsDigest: sha256 of the events exactly as returned, and of the events with the attributes of each event
// sorted by (key, value) — the second is insensitive to the attribute order inside one event only.
func eventsDigest(evs []abci.Event) (string, string, int) {
	if len(evs) == 0 {
		return "", "", 0
	}
	one := func(canon bool) string {
		h := sha256.New()
		var lb [8]byte
		w := func(b []byte) {
			binary.BigEndian.PutUint64(lb[:], uint64(len(b)))
			h.Write(lb[:])
			h.Write(b)
		}
		for _, e := range evs {
			w([]byte(e.Type))
			binary.BigEndian.PutUint64(lb[:], uint64(len(e.Attributes)))
			h.Write(lb[:])
			attrs := e.Attributes
			if canon {
				attrs = append([]abci.EventAttribute{}, attrs...)
				sort.SliceStable(attrs, func(i, j int) bool {
					if c := bytes.Compare(attrs[i].Key, attrs[j].Key); c != 0 {
						return c < 0
					}
					return bytes.Compare(attrs[i].Value, attrs[j].Value) < 0
				})
			}
			for _, a := range attrs {
				w(a.Key)
				w(a.Value)
			}
		}
		return hlib.Hex(h.Sum(nil))
	}
	return one(false), one(true), len(evs)
}

// ---------------------------------------------------------------------------------------------------
// executing operations on an application (used by the generator AND by the replayer)
// ---------------------------------------------------------------------------------------------------

func newApp() *app.Teleport {
	sdk.DefaultPowerReduction = teletypes.PowerReduction
	db := dbm.NewMemDB()
	encCdc := encoding.MakeConfig(app.ModuleBasics)
	var opts []func(*baseapp.BaseApp)
	if os.Getenv("C14_DEBUG") != "" {
		opts = append(opts, baseapp.SetTrace(true))
	}
	return app.NewTeleport(log.NewNopLogger(), db, nil, true, map[int64]bool{}, "/nonexistent-teleport-home", 5, encCdc, simapp.EmptyAppOptions{}, opts...)
}

// Exec applies one operation to the application and returns the observation. cur is the header of the block
// in progress (needed by out-of-band calls, which run on the deliver state like x/xibc/testing does).
func Exec(a *app.Teleport, op Op, cur *tmproto.Header) (o Obs, evs []abci.Event) {
	o.T = op.T
	defer func() {
		if r := recover(); r != nil {
			o.Class = 2
			o.Panic = strings.SplitN(fmt.Sprint(r), "\n", 2)[0]
			if len(o.Panic) > 200 {
				o.Panic = o.Panic[:200]
			}
		}
	}()
	switch op.T {
	case "init":
		var req abci.RequestInitChain
		must(req.Unmarshal(hlib.UnHex(op.Req)))
		res := a.InitChain(req)
		bz, _ := res.Marshal()
		o.Extra = h256(bz)
	case "begin":
		var req abci.RequestBeginBlock
		must(req.Unmarshal(hlib.UnHex(op.Req)))
		*cur = req.Header
		res := a.BeginBlock(req)
		evs = res.Events
		o.Events, o.EventsC, o.NEvents = eventsDigest(res.Events)
	case "tx":
		res := a.DeliverTx(abci.RequestDeliverTx{Tx: hlib.UnHex(op.Req)})
		o.Code, o.Space, o.GasW, o.GasU = res.Code, res.Codespace, res.GasWanted, res.GasUsed
		o.Data = h256(res.Data)
		evs = res.Events
		o.Events, o.EventsC, o.NEvents = eventsDigest(res.Events)
		o.Log = h256([]byte(res.Log))
		if res.Code != 0 {
			o.LogText = res.Log
			if len(o.LogText) > 160 && os.Getenv("C14_DEBUG") == "" {
				o.LogText = o.LogText[:160]
			}
		}
	case "end":
		var req abci.RequestEndBlock
		must(req.Unmarshal(hlib.UnHex(op.Req)))
		res := a.EndBlock(req)
		evs = res.Events
		o.Events, o.EventsC, o.NEvents = eventsDigest(res.Events)
		x := []byte{}
		for _, vu := range res.ValidatorUpdates {
			bz, _ := vu.Marshal()
			x = append(x, bz...)
		}
		if res.ConsensusParamUpdates != nil {
			bz, _ := res.ConsensusParamUpdates.Marshal()
			x = append(x, bz...)
		}
		o.Extra = h256(x)
	case "commit":
		res := a.Commit()
		o.Hash = hlib.Hex(res.Data)
		if got := hlib.Hex(a.LastCommitID().Hash); got != o.Hash {
			panic("LastCommitID differs from the Commit response")
		}
	case "oob":
		ctx := a.BaseApp.NewContext(false, *cur)
		ctx = ctx.WithEventManager(sdk.NewEventManager())
		execOOB(a, ctx, op)
		o.Events, o.EventsC, o.NEvents = eventsDigest(ctx.EventManager().ABCIEvents())
	default:
		panic("unknown op " + op.T)
	}
	return o, evs
}

// execOOB: the keeper calls x/xibc/testing performs directly on the deliver state.
func execOOB(a *app.Teleport, ctx sdk.Context, op Op) {
	arg := func(i int) []byte { return hlib.UnHex(op.Args[i]) }
	switch op.Kind {
	case "packet_set_chain_name": // TestChain.SetPacketChainName
		if _, err := a.XIBCKeeper.PacketKeeper.CallEVM(ctx, packetcontract.PacketContract.ABI, packettypes.ModuleAddress,
			packetcontract.PacketContractAddress, "setChainName", a.XIBCKeeper.ClientKeeper.GetChainName(ctx)); err != nil {
			panic(err)
		}
	case "call_evm_with_data": // AggregateKeeper.CallEVMWithData(from, to|nil, data): contract deployment "by the endpoint"
		from := common.BytesToAddress(arg(0))
		var to *common.Address
		if len(arg(1)) > 0 {
			t := common.BytesToAddress(arg(1))
			to = &t
		}
		res, err := a.AggregateKeeper.CallEVMWithData(ctx, from, to, arg(2))
		if err != nil {
			panic(err)
		}
		if res.Failed() {
			panic("evm call failed: " + res.VmError)
		}
	case "create_client": // ClientKeeper.CreateClient(chainName, clientState, consensusState) as Endpoint.CreateClient does
		var csAny, consAny codectypes.Any
		must(csAny.Unmarshal(arg(1)))
		must(consAny.Unmarshal(arg(2)))
		var cs exported.ClientState
		var cons exported.ConsensusState
		must(a.InterfaceRegistry().UnpackAny(&csAny, &cs))
		must(a.InterfaceRegistry().UnpackAny(&consAny, &cons))
		if err := a.XIBCKeeper.ClientKeeper.CreateClient(ctx, string(arg(0)), cs, cons); err != nil {
			panic(err)
		}
	case "aggregate_ibc_recv": // AggregateKeeper.OnRecvPacket(packet, success ack): the aggregate module's ICS-20 hook, called
		// the way the transfer middleware stack calls it after the transfer module acknowledged the packet with success
		packet := channeltypes.NewPacket(arg(0), binary.BigEndian.Uint64(arg(1)), transfertypes.PortID, string(arg(2)),
			transfertypes.PortID, string(arg(3)), ibcclienttypes.NewHeight(0, 100), 0)
		if got := a.AggregateKeeper.OnRecvPacket(ctx, packet, channeltypes.NewResultAcknowledgement([]byte{1})); got == nil || !got.Success() {
			panic("the hook changed the acknowledgement")
		}
	case "register_relayer": // ClientKeeper.RegisterRelayers(address, chains, addresses)
		a.XIBCKeeper.ClientKeeper.RegisterRelayers(ctx, string(arg(0)), []string{string(arg(1))}, []string{string(arg(2))})
	default:
		panic("unknown oob kind " + op.Kind)
	}
}

func must(err error) {
	if err != nil {
		panic(err)
	}
}

// ---------------------------------------------------------------------------------------------------
// the generator's chain
// ---------------------------------------------------------------------------------------------------

type Chain struct {
	App     *app.Teleport
	ChainID string
	Vals    *tmtypes.ValidatorSet
	Signers []tmtypes.PrivValidator
	ValAddr sdk.ValAddress
	Key     *ethsecp256k1.PrivKey // the funded account: delegator of the validator, relayer, token holder
	Acc     sdk.AccAddress
	Addr    common.Address
	Key2    *ethsecp256k1.PrivKey // a second funded account
	Acc2    sdk.AccAddress
	Addr2   common.Address
	TxCfg   client.TxConfig

	Cur        tmproto.Header      // header of the block in progress
	LastHeader *xibctmtypes.Header // signed light-client header of the last committed block
	Time       time.Time
	inBlock    bool
	AppHash    []byte

	lastEvents []abci.Event

	Ops  []Op
	Obs  []Obs
	Rand *hlib.Rand
	Tags map[string]int
}

func (c *Chain) do(op Op) Obs {
	o, evs := Exec(c.App, op, &c.Cur)
	c.lastEvents = evs
	c.Ops = append(c.Ops, op)
	c.Obs = append(c.Obs, o)
	if op.Tag != "" {
		c.Tags[op.Tag]++
	}
	return o
}

const bondDenom = "stake"

var startTime = time.Date(2020, 1, 2, 0, 0, 0, 0, time.UTC)

func keyFrom(r *hlib.Rand) *ethsecp256k1.PrivKey {
	for {
		bz := r.Bytes(32)
		k := &ethsecp256k1.PrivKey{Key: bz}
		if _, err := k.ToECDSA(); err == nil {
			return k
		}
	}
}

// NewChain builds the genesis (as x/xibc/testing.SetupWithGenesisValSet does, with the native chain name in
// the xibc genesis, a 30 s governance voting period and larger balances), records InitChain and block 1.
func NewChain(r *hlib.Rand, chainID string, nVals int) *Chain {
	return NewChainAt(r, chainID, nVals, startTime, nil)
}

// NewChainAt: key (optional) is the funded account / relayer; the two chains of a pair share it, as the chains of
// x/xibc/testing.Coordinator do (the relayer registry matches acknowledgement relayers by address string).
func NewChainAt(r *hlib.Rand, chainID string, nVals int, start time.Time, key *ethsecp256k1.PrivKey) *Chain {
	sdk.DefaultPowerReduction = teletypes.PowerReduction
	c := &Chain{ChainID: chainID, Rand: r, Time: start, Tags: map[string]int{}}
	c.App = newApp()
	c.TxCfg = encoding.MakeConfig(app.ModuleBasics).TxConfig
	var vals []*tmtypes.Validator
	pvs := map[string]tmtypes.PrivValidator{}
	for i := 0; i < nVals; i++ {
		pv := mock.PV{PrivKey: ed25519.GenPrivKeyFromSecret(r.Bytes(32))}
		pk, _ := pv.GetPubKey()
		v := tmtypes.NewValidator(pk, 1)
		vals = append(vals, v)
		pvs[string(v.Address)] = pv
	}
	c.Vals = tmtypes.NewValidatorSet(vals)
	for _, v := range c.Vals.Validators { // signers in validator-set order
		c.Signers = append(c.Signers, pvs[string(v.Address)])
	}
	c.ValAddr = sdk.ValAddress(c.Vals.Validators[0].Address)
	c.Key, c.Key2 = keyFrom(r), keyFrom(r)
	if key != nil {
		c.Key = key
	}
	c.Acc, c.Acc2 = sdk.AccAddress(c.Key.PubKey().Address()), sdk.AccAddress(c.Key2.PubKey().Address())
	c.Addr, c.Addr2 = common.BytesToAddress(c.Acc), common.BytesToAddress(c.Acc2)

	cdc := c.App.AppCodec()
	gs := app.NewDefaultGenesisState()
	acc1 := authtypes.NewBaseAccount(c.Acc, c.Key.PubKey(), 0, 0)
	acc2 := authtypes.NewBaseAccount(c.Acc2, c.Key2.PubKey(), 1, 0)
	gs[authtypes.ModuleName] = cdc.MustMarshalJSON(authtypes.NewGenesisState(authtypes.DefaultParams(), []authtypes.GenesisAccount{acc1, acc2}))

	bondAmt := sdk.NewInt(1e16)
	var validators []stakingtypes.Validator
	var delegations []stakingtypes.Delegation
	for _, val := range c.Vals.Validators {
		pk, err := cryptocodec.FromTmPubKeyInterface(val.PubKey)
		must(err)
		pkAny, err := codectypes.NewAnyWithValue(pk)
		must(err)
		validators = append(validators, stakingtypes.Validator{
			OperatorAddress: sdk.ValAddress(val.Address).String(), ConsensusPubkey: pkAny, Status: stakingtypes.Bonded,
			Tokens: bondAmt, DelegatorShares: sdk.OneDec(), UnbondingTime: time.Unix(0, 0).UTC(),
			Commission:        stakingtypes.NewCommission(sdk.ZeroDec(), sdk.ZeroDec(), sdk.ZeroDec()),
			MinSelfDelegation: sdk.ZeroInt(),
		})
		delegations = append(delegations, stakingtypes.NewDelegation(c.Acc, val.Address.Bytes(), sdk.OneDec()))
	}
	gs[stakingtypes.ModuleName] = cdc.MustMarshalJSON(stakingtypes.NewGenesisState(stakingtypes.DefaultParams(), validators, delegations))
	// signing infos, so that BeginBlock can be given the votes of the previous block (slashing + distribution run as on a live chain)
	var infos []slashingtypes.SigningInfo
	for _, val := range c.Vals.Validators {
		ca := sdk.ConsAddress(val.Address)
		infos = append(infos, slashingtypes.SigningInfo{Address: ca.String(), ValidatorSigningInfo: slashingtypes.NewValidatorSigningInfo(ca, 0, 0, time.Unix(0, 0).UTC(), false, 0)})
	}
	gs[slashingtypes.ModuleName] = cdc.MustMarshalJSON(slashingtypes.NewGenesisState(slashingtypes.DefaultParams(), infos, nil))

	evmGen := evmtypes.DefaultGenesisState()
	evmGen.Params.EvmDenom = bondDenom
	gs[evmtypes.ModuleName] = cdc.MustMarshalJSON(evmGen)

	big1e27, _ := sdk.NewIntFromString("1000000000000000000000000000")
	bal := sdk.NewCoins(sdk.NewCoin(bondDenom, big1e27), sdk.NewCoin("ufoo", sdk.NewInt(1_000_000_000)))
	balances := []banktypes.Balance{{Address: c.Acc.String(), Coins: bal}, {Address: c.Acc2.String(), Coins: bal}}
	// the reward-vesting pool is funded at genesis (module accounts are blocked addresses afterwards); small, so it runs dry
	balances = append(balances, banktypes.Balance{Address: authtypes.NewModuleAddress(rvtypes.ModuleName).String(),
		Coins: sdk.NewCoins(sdk.NewCoin(bondDenom, sdk.NewInt(int64(100+r.Intn(400)))), sdk.NewCoin("ufoo", sdk.NewInt(7)))})
	total := sdk.NewCoins()
	for _, b := range balances {
		total = total.Add(b.Coins...)
	}
	bonded := sdk.NewCoin(bondDenom, bondAmt.MulRaw(int64(nVals)))
	total = total.Add(bonded)
	balances = append(balances, banktypes.Balance{Address: authtypes.NewModuleAddress(stakingtypes.BondedPoolName).String(), Coins: sdk.Coins{bonded}})
	gs[banktypes.ModuleName] = cdc.MustMarshalJSON(banktypes.NewGenesisState(banktypes.DefaultGenesisState().Params, balances, total, []banktypes.Metadata{}))

	fm := feemarkettypes.DefaultGenesisState()
	fm.Params.EnableHeight = 1
	fm.Params.NoBaseFee = false
	gs[feemarkettypes.ModuleName] = cdc.MustMarshalJSON(fm)

	gov := govtypes.DefaultGenesisState()
	gov.VotingParams.VotingPeriod = 30 * time.Second
	gov.DepositParams.MinDeposit = sdk.NewCoins(sdk.NewCoin(bondDenom, sdk.NewInt(1000)))
	gs[govtypes.ModuleName] = cdc.MustMarshalJSON(gov)

	xg := xibctypes.DefaultGenesisState()
	xg.ClientGenesis.NativeChainName = chainID
	gs[host.ModuleName] = cdc.MustMarshalJSON(xg)

	stateBytes, err := json.Marshal(gs)
	must(err)
	req := abci.RequestInitChain{Time: start, ChainId: chainID, ConsensusParams: app.DefaultConsensusParams,
		Validators: []abci.ValidatorUpdate{}, AppStateBytes: stateBytes, InitialHeight: 1}
	bz, err := req.Marshal()
	must(err)
	if o := c.do(Op{T: "init", Req: hlib.Hex(bz)}); o.Class != 0 {
		panic("InitChain panicked: " + o.Panic)
	}
	// block 1: the packet contract learns the chain name (TestChain.SetPacketChainName)
	c.Begin()
	c.OOB("packet_set_chain_name")
	c.EndCommit()
	return c
}

func (c *Chain) Begin() {
	if c.inBlock {
		return
	}
	h := tmproto.Header{
		ChainID: c.ChainID, Height: c.App.LastBlockHeight() + 1, Time: c.Time.UTC(), AppHash: c.App.LastCommitID().Hash,
		ValidatorsHash: c.Vals.Hash(), NextValidatorsHash: c.Vals.Hash(), ProposerAddress: c.Vals.Proposer.Address,
	}
	var votes []abci.VoteInfo
	for _, v := range c.Vals.Validators {
		votes = append(votes, abci.VoteInfo{Validator: abci.Validator{Address: v.Address, Power: v.VotingPower}, SignedLastBlock: true})
	}
	req := abci.RequestBeginBlock{Header: h, LastCommitInfo: abci.LastCommitInfo{Votes: votes}}
	if h.Height == 1 {
		req.LastCommitInfo = abci.LastCommitInfo{}
	}
	bz, err := req.Marshal()
	must(err)
	if o := c.do(Op{T: "begin", Req: hlib.Hex(bz)}); o.Class != 0 {
		panic("BeginBlock panicked: " + o.Panic)
	}
	c.inBlock = true
}

// EndCommit finishes the block, commits, signs the light-client header of the committed block and advances the clock.
func (c *Chain) EndCommit() {
	c.Begin()
	req := abci.RequestEndBlock{Height: c.Cur.Height}
	bz, _ := req.Marshal()
	if o := c.do(Op{T: "end", Req: hlib.Hex(bz)}); o.Class != 0 {
		panic("EndBlock panicked: " + o.Panic)
	}
	c.do(Op{T: "commit"})
	c.inBlock = false
	c.LastHeader = c.signedHeader()
	c.Time = c.Time.Add(5 * time.Second)
}

// Ctx: a context for READING the generator's chain — the deliver state inside a block, the committed state between blocks.
func (c *Chain) Ctx() sdk.Context { return c.App.BaseApp.NewContext(!c.inBlock, c.Cur) }

func (c *Chain) OOB(kind string, args ...[]byte) Obs {
	c.Begin()
	var as []string
	for _, a := range args {
		as = append(as, hlib.Hex(a))
	}
	o := c.do(Op{T: "oob", Kind: kind, Args: as, Tag: "oob:" + kind})
	return o
}

// signedHeader: x/xibc/testing CreateTMClientHeader for the block just committed (AppHash = state before it).
func (c *Chain) signedHeader() *xibctmtypes.Header {
	vh := c.Vals.Hash()
	th := tmtypes.Header{
		Version: tmprotoversion.Consensus{Block: version.BlockProtocol, App: 2}, ChainID: c.ChainID, Height: c.Cur.Height,
		Time: c.Cur.Time, LastBlockID: mkBlockID(make([]byte, tmhash.Size), 10_000, make([]byte, tmhash.Size)),
		LastCommitHash: c.App.LastCommitID().Hash, DataHash: tmhash.Sum([]byte("data_hash")), ValidatorsHash: vh,
		NextValidatorsHash: vh, ConsensusHash: tmhash.Sum([]byte("consensus_hash")), AppHash: c.Cur.AppHash,
		LastResultsHash: tmhash.Sum([]byte("last_results_hash")), EvidenceHash: tmhash.Sum([]byte("evidence_hash")),
		ProposerAddress: c.Vals.Proposer.Address,
	}
	blockID := mkBlockID(th.Hash(), 3, tmhash.Sum([]byte("part_set")))
	voteSet := tmtypes.NewVoteSet(c.ChainID, th.Height, 1, tmproto.PrecommitType, c.Vals)
	commit, err := tmtypes.MakeCommit(blockID, th.Height, 1, voteSet, c.Signers, th.Time)
	must(err)
	vs, err := c.Vals.ToProto()
	must(err)
	return &xibctmtypes.Header{SignedHeader: &tmproto.SignedHeader{Header: th.ToProto(), Commit: commit.ToProto()}, ValidatorSet: vs}
}

func mkBlockID(hash []byte, n uint32, ph []byte) tmtypes.BlockID {
	return tmtypes.BlockID{Hash: hash, PartSetHeader: tmtypes.PartSetHeader{Total: n, Hash: ph}}
}

// ---- transactions ----------------------------------------------------------------------------------

func (c *Chain) account(addr sdk.AccAddress) (num, seq uint64) {
	a := c.App.AccountKeeper.GetAccount(c.Ctx(), addr)
	if a == nil {
		return 0, 0
	}
	return a.GetAccountNumber(), a.GetSequence()
}

type TxOpt struct {
	SeqDelta   int64  // added to the correct sequence number (malformed stream)
	Gas        uint64 // 0 = default
	WrongChain bool
}

// CosmosTx signs msgs with key and delivers the transaction.
func (c *Chain) CosmosTx(tag string, key *ethsecp256k1.PrivKey, opt TxOpt, msgs ...sdk.Msg) Obs {
	c.Begin()
	num, seq := c.account(sdk.AccAddress(key.PubKey().Address()))
	seq = uint64(int64(seq) + opt.SeqDelta)
	gas := opt.Gas
	if gas == 0 {
		gas = 4_000_000
	}
	chainID := c.ChainID
	if opt.WrongChain {
		chainID = "teleport_9000-99"
	}
	b := c.TxCfg.NewTxBuilder()
	must(b.SetMsgs(msgs...))
	mode := c.TxCfg.SignModeHandler().DefaultMode()
	sig := signing.SignatureV2{PubKey: key.PubKey(), Data: &signing.SingleSignatureData{SignMode: mode}, Sequence: seq}
	must(b.SetSignatures(sig))
	b.SetMemo(fmt.Sprintf("m%d", c.Rand.Intn(1000)))
	b.SetFeeAmount(sdk.Coins{sdk.NewInt64Coin(bondDenom, int64(c.Rand.Intn(3)))})
	b.SetGasLimit(gas)
	sb, err := c.TxCfg.SignModeHandler().GetSignBytes(mode, authsign.SignerData{ChainID: chainID, AccountNumber: num, Sequence: seq}, b.GetTx())
	must(err)
	s, err := key.Sign(sb)
	must(err)
	sig.Data.(*signing.SingleSignatureData).Signature = s
	must(b.SetSignatures(sig))
	bz, err := c.TxCfg.TxEncoder()(b.GetTx())
	must(err)
	return c.do(Op{T: "tx", Req: hlib.Hex(bz), Tag: tag})
}

// EthTx signs and delivers an Ethereum transaction (to == nil: contract creation).
func (c *Chain) EthTx(tag string, key *ethsecp256k1.PrivKey, to *common.Address, value *big.Int, gasLimit uint64, data []byte, nonceDelta int64) Obs {
	c.Begin()
	from := common.BytesToAddress(key.PubKey().Address())
	chainID := c.App.EvmKeeper.ChainID()
	nonce := uint64(int64(c.App.EvmKeeper.GetNonce(c.Ctx(), from)) + nonceDelta)
	baseFee := c.App.FeeMarketKeeper.GetBaseFee(c.Ctx())
	feeCap := big.NewInt(0)
	if baseFee != nil {
		feeCap = new(big.Int).Mul(baseFee, big.NewInt(2))
	}
	if value == nil {
		value = big.NewInt(0)
	}
	msg := evmtypes.NewTx(chainID, nonce, to, value, gasLimit, nil, feeCap, big.NewInt(1), data, &ethtypes.AccessList{})
	msg.From = from.Hex()
	must(msg.Sign(ethtypes.LatestSignerForChainID(chainID), tests.NewSigner(key)))
	tx, err := msg.BuildTx(c.TxCfg.NewTxBuilder(), bondDenom)
	must(err)
	bz, err := c.TxCfg.TxEncoder()(tx)
	must(err)
	return c.do(Op{T: "tx", Req: hlib.Hex(bz), Tag: tag})
}

// ---- light-client relaying ---------------------------------------------------------------------------

// TMClientStateOf builds the Tendermint client state / consensus state describing chain o at its last header.
func TMClientStateOf(o *Chain) (exported.ClientState, exported.ConsensusState) {
	height := o.LastHeader.GetHeight().(clienttypes.Height)
	cs := xibctmtypes.NewClientState(o.ChainID, xibctmtypes.DefaultTrustLevel, 14*24*time.Hour, 21*24*time.Hour, 10*time.Second,
		height, commitmenttypes.GetSDKSpecs(), commitmenttypes.MerklePrefix{KeyPrefix: []byte("xibc")}, 0)
	return cs, o.LastHeader.ConsensusState()
}

// UpdateHeaderFor returns o's last signed header with the trusted fields c's client of o needs.
func (c *Chain) UpdateHeaderFor(o *Chain) *xibctmtypes.Header {
	cs, ok := c.App.XIBCKeeper.ClientKeeper.GetClientState(c.Ctx(), o.ChainID)
	if !ok {
		return nil
	}
	h := *o.LastHeader
	h.TrustedHeight = cs.GetLatestHeight().(clienttypes.Height)
	tv, err := o.Vals.ToProto()
	must(err)
	h.TrustedValidators = tv
	return &h
}

// QueryProof: merkle proof of key in the xibc store at the version the last signed header commits to.
func (c *Chain) QueryProof(key []byte) ([]byte, clienttypes.Height) {
	res := c.App.Query(abci.RequestQuery{Path: fmt.Sprintf("store/%s/key", host.StoreKey), Height: c.App.LastBlockHeight() - 1, Data: key, Prove: true})
	mp, err := commitmenttypes.ConvertProofs(res.ProofOps)
	must(err)
	proof, err := c.App.AppCodec().Marshal(&mp)
	must(err)
	return proof, clienttypes.NewHeight(clienttypes.ParseChainID(c.ChainID), uint64(res.Height)+1)
}

func sortedKeys(m map[string]int) []string {
	var ks []string
	for k := range m {
		ks = append(ks, k)
	}
	sort.Strings(ks)
	return ks
}

var _ = endpointcontract.EndpointContractAddress
