// c14: replay engine of property C14 (deterministic state machine).
//
//	c14 gen    -seed S -n K [-from i -to j] -steps N -repo /repo -outdir D   generate block histories on real applications
//	                                                                            (one file per chain history + index_<from>.jsonl)
//	c14 replay -in a.json,b.json -label X -out trace.jsonl                    re-execute recorded histories on FRESH applications
//	c14 ethprobe -repo /repo                                                   one main-net header through the ETH light client
//	c14 maploops -seed S -n K -out f.jsonl                                     the real map-ranging functions on generated inputs
//
// The replay mode is run by tools/py/props/c14.py in separate processes with different GOMAXPROCS and TMPDIR
// (one of them unusable); every process has its own map iteration seeds.
package main

import (
	"encoding/json"
	"flag"
	"fmt"
	"io/ioutil"
	"os"
	"path/filepath"
	"runtime"
	"strings"
	"time"

	tmproto "github.com/tendermint/tendermint/proto/tendermint/types"

	"verifharness/hlib"
)

type History struct {
	ID       string         `json:"id"`
	Scenario string         `json:"scenario"`
	Chain    string         `json:"chain"`
	Seed     uint64         `json:"seed"`
	Case     int            `json:"case"`
	Ops      []Op           `json:"ops"`
	GenObs   []Obs          `json:"gen_obs"`
	Tags     map[string]int `json:"tags"`
	Stats    map[string]int `json:"stats"`
}

type Trace struct {
	ID    string            `json:"id"`
	Label string            `json:"label"`
	Env   map[string]string `json:"env"`
	Obs   []Obs             `json:"obs"`
}

func envInfo() map[string]string {
	zone, _ := time.Now().Zone()
	e := map[string]string{"GOMAXPROCS": fmt.Sprint(runtime.GOMAXPROCS(0)), "TMPDIR": os.TempDir(), "pid": fmt.Sprint(os.Getpid()),
		"TZ": os.Getenv("TZ"), "local_zone": zone, "HOME": os.Getenv("HOME"), "LANG": os.Getenv("LANG")}
	d, err := ioutil.TempDir("", "c14probe")
	if err != nil {
		e["tmp_usable"] = "false"
	} else {
		os.RemoveAll(d)
		e["tmp_usable"] = "true"
	}
	return e
}

func main() {
	if len(os.Args) < 2 {
		fmt.Fprintln(os.Stderr, "usage: c14 gen|replay|ethprobe|maploops ...")
		os.Exit(2)
	}
	mode := os.Args[1]
	fs := flag.NewFlagSet(mode, flag.ExitOnError)
	seed := fs.Uint64("seed", 1, "")
	n := fs.Int("n", 15, "number of scenario cases")
	from := fs.Int("from", 0, "")
	to := fs.Int("to", -1, "")
	steps := fs.Int("steps", 10, "")
	repo := fs.String("repo", "/repo", "")
	outdir := fs.String("outdir", ".", "")
	in := fs.String("in", "", "")
	out := fs.String("out", "", "")
	label := fs.String("label", "", "")
	eth := fs.Int("eth", 1, "number of main-net headers in the eth scenario (each costs seconds)")
	fs.Parse(os.Args[2:])
	switch mode {
	case "gen":
		if *to < 0 || *to > *n {
			*to = *n
		}
		gen(*seed, *n, *from, *to, *steps, *repo, *outdir, *eth)
	case "replay":
		replay(strings.Split(*in, ","), *label, *out)
	case "ethprobe":
		ethprobe(*repo)
	case "maploops":
		maploops(*seed, *n, *out)
	default:
		fmt.Fprintln(os.Stderr, "unknown mode", mode)
		os.Exit(2)
	}
}

// scenario kinds by case index (fixed schedule so that every quick run contains every kind)
func scenarioOf(i int) string {
	switch i % 6 {
	case 0:
		return "pair-gov"
	case 1:
		return "single"
	case 2:
		return "pair-oob"
	case 3:
		return "bsc"
	case 4:
		return "single"
	default:
		return "pair-gov"
	}
}

func gen(seed uint64, n, from, to, steps int, repo, outdir string, ethHeaders int) {
	must(os.MkdirAll(outdir, 0o755))
	root := hlib.NewRand(seed)
	idx := hlib.NewOut(filepath.Join(outdir, fmt.Sprintf("index_%d.jsonl", from)))
	defer idx.Close()
	for i := from; i < to; i++ {
		r := root.Fork(uint64(i))
		sc := scenarioOf(i)
		if i == 2 {
			sc = "eth-mainnet" // the history with real proof-of-work headers (finding eth-ethash-tmpdir)
		}
		var chains []*Chain
		stats := map[string]int{}
		switch sc {
		case "single":
			chains = scenarioSingle(r, steps+steps/2)
		case "pair-gov", "pair-oob":
			var st pairStats
			chains, st = scenarioPair(r, steps, sc == "pair-gov")
			stats["recv_ok"], stats["recv_rejected"], stats["ack_ok"] = st.recvOK, st.recvRejected, st.ackOK
		case "bsc":
			chains = scenarioBsc(r, 3*steps)
		case "eth-mainnet":
			chains = scenarioEth(r, repo, ethHeaders)
		}
		for ci, c := range chains {
			h := History{ID: fmt.Sprintf("s%d-c%d-%s-%d", seed, i, sc, ci), Scenario: sc, Chain: c.ChainID, Seed: seed, Case: i,
				Ops: c.Ops, GenObs: c.Obs, Tags: c.Tags, Stats: stats}
			p := filepath.Join(outdir, h.ID+".json")
			bz, err := json.Marshal(h)
			must(err)
			must(os.WriteFile(p, bz, 0o644))
			ok, fail := 0, 0
			for _, o := range c.Obs {
				if o.T == "tx" {
					if o.Code == 0 {
						ok++
					} else {
						fail++
					}
				}
			}
			idx.Emit(map[string]interface{}{"id": h.ID, "file": p, "scenario": sc, "ops": len(c.Ops), "blocks": c.App.LastBlockHeight(),
				"tx_ok": ok, "tx_failed": fail, "tags": c.Tags, "stats": stats})
		}
	}
}

func loadHistory(path string) History {
	bz, err := os.ReadFile(path)
	must(err)
	var h History
	must(json.Unmarshal(bz, &h))
	return h
}

func replayOne(h History) []Obs {
	a := newApp()
	var cur tmproto.Header
	obs := make([]Obs, 0, len(h.Ops))
	for _, op := range h.Ops {
		o, _ := Exec(a, op, &cur)
		obs = append(obs, o)
	}
	return obs
}

func replay(files []string, label, out string) {
	o := hlib.NewOut(out)
	defer o.Close()
	env := envInfo()
	for _, f := range files {
		if f == "" {
			continue
		}
		h := loadHistory(f)
		o.Emit(Trace{ID: h.ID, Label: label, Env: env, Obs: replayOne(h)})
	}
}
