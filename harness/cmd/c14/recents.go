// recents: the "recently signed" loop of the BSC light client (verifySeal ranges over snap.Recents, a Go map, and
// RETURNS from inside the loop) driven through the public entry point ClientState.CheckHeaderAndUpdateState on a
// prepared client store.  The Recents map is whatever the store holds under recentSingers/<height> — in particular a
// store imported from a genesis file may hold SEVERAL entries of one validator, some inside and some outside the
// window of the last len(validators)/2+1 blocks; the verdict must not depend on which of them the map yields first.
//
// Every case: the same (client state, store contents, header) is verified `reps` times, each time on a fresh store
// (verification writes the new signer): differing verdicts are a concrete witness of order dependence.  The verdict
// is also compared, inside Coq, with Model/MapLoops.v: recents_loop run on one enumeration of the entries.
package main

import (
	"math/big"
	"time"

	"github.com/cosmos/cosmos-sdk/store/dbadapter"
	sdk "github.com/cosmos/cosmos-sdk/types"
	sdkerrors "github.com/cosmos/cosmos-sdk/types/errors"
	ethtypes "github.com/ethereum/go-ethereum/core/types"
	"github.com/tendermint/tendermint/libs/log"
	tmproto "github.com/tendermint/tendermint/proto/tendermint/types"
	dbm "github.com/tendermint/tm-db"

	"github.com/teleport-network/teleport/app"
	bsctypes "github.com/teleport-network/teleport/x/xibc/clients/light-clients/bsc/types"
	clienttypes "github.com/teleport-network/teleport/x/xibc/core/client/types"
	"github.com/teleport-network/teleport/x/xibc/core/host"

	"verifharness/hlib"
)

type recentEntry struct {
	Height uint64
	Val    int // index into the validator list
}

// recentsCase builds one case; pattern selects the directed shapes (0..5) or a random one (>= 6)
func recentsCase(r *hlib.Rand, a *app.Teleport, pattern int) MLCase {
	n := 3 + r.Intn(6) // validators
	vals := bscVals(r, n)
	limit := uint64(n/2 + 1)
	epoch := uint64(1000)
	number := uint64(20 + r.Intn(900)) // the header being verified; not an epoch block
	if number%epoch == 0 {
		number++
	}
	signerIx := r.Intn(n)
	var entries []recentEntry
	other := func() int { return (signerIx + 1 + r.Intn(n-1)) % n }
	inside := func() uint64 { return number - limit + 1 + uint64(r.Intn(int(limit)-1)) } // number-limit < h < number
	outside := func() uint64 { return number - limit - uint64(r.Intn(8)) }               // h <= number-limit
	switch pattern {
	case 0: // the signer has one entry outside and one inside the window: recently signed, whatever the order
		entries = []recentEntry{{outside(), signerIx}, {inside(), signerIx}}
	case 1: // the same with more entries of other validators around
		entries = []recentEntry{{outside(), signerIx}, {inside(), signerIx}, {number - 1, other()}, {outside() - 9, other()}}
	case 2: // only entries outside the window: not recent
		entries = []recentEntry{{outside(), signerIx}, {outside() - 10, signerIx}, {number - 1, other()}}
	case 3: // only one entry, inside
		entries = []recentEntry{{inside(), signerIx}}
	case 4: // low block number: number < limit, every entry of the signer counts (number-limit would wrap)
		number = 1 + uint64(r.Intn(int(limit)-1))
		entries = []recentEntry{{0, signerIx}}
		if r.Bool() {
			entries = []recentEntry{{0, other()}}
		}
	case 5: // three entries of the signer, exactly one inside
		entries = []recentEntry{{outside(), signerIx}, {outside() - 11, signerIx}, {inside(), signerIx}}
	default:
		k := r.Intn(7)
		for j := 0; j < k; j++ {
			e := recentEntry{Height: number - 1 - uint64(r.Intn(int(2*limit)+3)), Val: r.Intn(n)}
			entries = append(entries, e)
		}
	}
	// heights are map keys: keep the first entry of each height
	seen := map[uint64]bool{}
	var uniq []recentEntry
	for _, e := range entries {
		if !seen[e.Height] && e.Height < number {
			seen[e.Height] = true
			uniq = append(uniq, e)
		}
	}
	entries = uniq

	now := time.Unix(1_700_000_000, 0).UTC()
	mk := func(parent *bsctypes.Header, num uint64, signer bscVal, diff int64) bsctypes.Header {
		h := bsctypes.Header{
			UncleHash: ethtypes.EmptyUncleHash.Bytes(), Root: r.Bytes(32), TxHash: r.Bytes(32), ReceiptHash: r.Bytes(32),
			Bloom: make([]byte, 256), Difficulty: big.NewInt(diff).Bytes(), Height: clienttypes.NewHeight(0, num),
			GasLimit: 30_000_000, GasUsed: 1000, Time: uint64(now.Unix()) - 1000 + num*3,
			Extra: bscExtra(r, nil), MixDigest: make([]byte, 32), Nonce: make([]byte, 8),
		}
		if parent != nil {
			h.ParentHash = parent.Hash().Bytes()
		} else {
			h.ParentHash = r.Bytes(32)
		}
		bscSeal(&h, signer)
		return h
	}
	parent := mk(nil, number-1, vals[r.Intn(n)], 2)
	diff := int64(1)
	if int(number%uint64(n)) == signerIx { // snapshot.inturn: validators[(Number+1) % len] with Number = number-1
		diff = 2
	}
	header := mk(&parent, number, vals[signerIx], diff)
	var addrs [][]byte
	for _, v := range vals {
		addrs = append(addrs, v.addr.Bytes())
	}
	cs := bsctypes.ClientState{Header: parent, ChainId: bscChainID, Epoch: epoch, BlockInteval: 3, Validators: addrs,
		ContractAddress: r.Bytes(20), TrustingPeriod: 100000}
	cons := &bsctypes.ConsensusState{Timestamp: parent.Time, Height: parent.Height, Root: parent.Root}
	cdc := a.AppCodec()
	ctx := sdk.NewContext(nil, tmproto.Header{Time: now}, false, log.NewNopLogger())

	// verdict: 1 ErrRecentlySigned, 0 accepted, 3 another error, 2 panic
	once := func() int {
		store := dbadapter.Store{DB: dbm.NewMemDB()}
		store.Set(host.ConsensusStateKey(parent.Height), clienttypes.MustMarshalConsensusState(cdc, cons))
		for _, e := range entries {
			bsctypes.SetSigner(store, bsctypes.Signer{Height: clienttypes.NewHeight(0, e.Height), Validator: vals[e.Val].addr.Bytes()})
		}
		res := 0
		if p, _ := hlib.Catch(func() {
			hd := header
			_, _, err := cs.CheckHeaderAndUpdateState(ctx, cdc, store, &hd)
			switch {
			case err == nil:
			case sdkerrors.IsOf(err, bsctypes.ErrRecentlySigned):
				res = 1
			default:
				res = 3
			}
		}); p {
			res = 2
		}
		return res
	}
	c := MLCase{Kind: "recents", Number: number, Validator: hlib.Hex(vals[signerIx].addr[:]), Limit: limit, Pattern: pattern}
	for _, e := range entries {
		c.Recents = append(c.Recents, [2]string{hlib.Hex(big.NewInt(0).SetUint64(e.Height).FillBytes(make([]byte, 8))), hlib.Hex(vals[e.Val].addr[:])})
	}
	c.RealRecent = once()
	for rep := 0; rep < 24 && c.Unstable == ""; rep++ {
		if once() != c.RealRecent {
			c.Unstable = "verifySeal (through CheckHeaderAndUpdateState) returned different verdicts for the same client state, recent-signer entries and header"
		}
	}
	return c
}
