// The Ethereum main-net history: real proof-of-work headers (x/xibc/clients/light-clients/eth/types/testdata)
// through a client with ChainId 1, i.e. the path on which VerifyCascadingFields runs ethash.
package main

import (
	"encoding/json"
	"fmt"
	"os"
	"path/filepath"
	"time"

	sdk "github.com/cosmos/cosmos-sdk/types"

	xibcethtypes "github.com/teleport-network/teleport/x/xibc/clients/light-clients/eth/types"
	clienttypes "github.com/teleport-network/teleport/x/xibc/core/client/types"
	"github.com/teleport-network/teleport/x/xibc/exported"

	"verifharness/hlib"
)

func loadEthHeaders(repo string) []*xibcethtypes.EthHeader {
	bz, err := os.ReadFile(filepath.Join(repo, "x/xibc/clients/light-clients/eth/types/testdata/update_headers.json"))
	must(err)
	var hs []*xibcethtypes.EthHeader
	must(json.Unmarshal(bz, &hs))
	return hs
}

const ethChainName = "eth"

func scenarioEth(r *hlib.Rand, repo string, nHeaders int) []*Chain {
	hs := loadEthHeaders(repo)
	first := hs[0]
	c := NewChainAt(r, "teleport_9000-10", 1, time.Unix(int64(first.Time)+600, 0).UTC(), nil)
	h0 := first.ToHeader()
	var cs exported.ClientState = &xibcethtypes.ClientState{Header: h0, ChainId: 1, ContractAddress: []byte("0x00"),
		TrustingPeriod: 99999999, TimeDelay: 0, BlockDelay: 1}
	var cons exported.ConsensusState = &xibcethtypes.ConsensusState{Timestamp: first.Time, Height: clienttypes.NewHeight(0, first.Number.Uint64()), Root: first.Root[:]}
	prop, err := clienttypes.NewCreateClientProposal("t", "d", ethChainName, cs, cons)
	must(err)
	c.Propose("xibc-create-client-eth", prop, false)
	c.Propose("xibc-register-relayer", clienttypes.NewRegisterRelayerProposal("t", "d", c.Acc.String(), []string{ethChainName}, []string{"0x0000000000000000000000000000000000000001"}), false)
	c.PassVotingPeriod()
	for i := 1; i <= nHeaders && i < len(hs); i++ {
		ph := hs[i].ToHeader()
		msg, err := clienttypes.NewMsgUpdateClient(ethChainName, &ph, c.Acc)
		must(err)
		c.CosmosTx("xibc-update-client-eth-pow", c.Key, TxOpt{Gas: 20_000_000}, msg)
		c.EndCommit()
	}
	// a header whose seal is wrong (mix digest flipped): rejected by every node that can run ethash
	if nHeaders+1 < len(hs) {
		bad := hs[nHeaders+1].ToHeader()
		bad.MixDigest = append([]byte{}, bad.MixDigest...)
		bad.MixDigest[3] ^= 1
		msg, err := clienttypes.NewMsgUpdateClient(ethChainName, &bad, c.Acc)
		must(err)
		c.CosmosTx("xibc-update-client-eth-badseal", c.Key, TxOpt{Gas: 20_000_000}, msg)
	}
	c.EndCommit()
	return []*Chain{c}
}

// ethprobe: the smallest demonstration — one keeper-level UpdateClient with a genuine main-net header.
func ethprobe(repo string) {
	hs := loadEthHeaders(repo)
	r := hlib.NewRand(1)
	c := NewChainAt(r, "teleport_9000-10", 1, time.Unix(int64(hs[0].Time)+600, 0).UTC(), nil)
	c.Begin()
	ctx := c.Ctx()
	h0 := hs[0].ToHeader()
	cs := &xibcethtypes.ClientState{Header: h0, ChainId: 1, ContractAddress: []byte("0x00"), TrustingPeriod: 99999999, BlockDelay: 1}
	cons := &xibcethtypes.ConsensusState{Timestamp: hs[0].Time, Height: clienttypes.NewHeight(0, hs[0].Number.Uint64()), Root: hs[0].Root[:]}
	must(c.App.XIBCKeeper.ClientKeeper.CreateClient(ctx, ethChainName, cs, cons))
	h1 := hs[1].ToHeader()
	t0 := time.Now()
	err := c.App.XIBCKeeper.ClientKeeper.UpdateClient(ctx, ethChainName, &h1)
	env := envInfo()
	res := "accepted"
	if err != nil {
		res = "REJECTED: " + err.Error()
	}
	fmt.Printf("TMPDIR=%s tmp_usable=%s GOMAXPROCS=%s header=%d -> %s (%.1fs)\n", env["TMPDIR"], env["tmp_usable"], env["GOMAXPROCS"], hs[1].Number.Uint64(), res, time.Since(t0).Seconds())
	_ = sdk.AccAddress{}
}
