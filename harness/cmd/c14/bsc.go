// The BSC history: a parlia light client created by a governance proposal and fed locally sealed headers, so that the two
// proved BSC map loops (snapshot.validators via inturn, the Recents test of verifySeal) run inside replayed blocks —
// in-turn signers (accepted), out-of-turn signers (accepted with difficulty 1 or rejected as recently signed), wrong
// difficulty, epoch headers changing the validator set.
package main

import (
	"bytes"
	"crypto/ecdsa"
	"math/big"
	"sort"

	"github.com/ethereum/go-ethereum/common"
	ethtypes "github.com/ethereum/go-ethereum/core/types"
	"github.com/ethereum/go-ethereum/crypto"

	bsctypes "github.com/teleport-network/teleport/x/xibc/clients/light-clients/bsc/types"
	clienttypes "github.com/teleport-network/teleport/x/xibc/core/client/types"
	"github.com/teleport-network/teleport/x/xibc/exported"

	"verifharness/hlib"
)

const (
	bscChainName = "bsc"
	bscChainID   = 56
)

type bscVal struct {
	key  *ecdsa.PrivateKey
	addr common.Address
}

func bscVals(r *hlib.Rand, n int) []bscVal {
	var vs []bscVal
	for len(vs) < n {
		k, err := crypto.ToECDSA(r.Bytes(32))
		if err != nil {
			continue
		}
		vs = append(vs, bscVal{k, crypto.PubkeyToAddress(k.PublicKey)})
	}
	sort.Slice(vs, func(i, j int) bool { return bytes.Compare(vs[i].addr[:], vs[j].addr[:]) < 0 })
	return vs
}

func bscSeal(h *bsctypes.Header, v bscVal) {
	h.Coinbase = v.addr.Bytes()
	sig, err := crypto.Sign(bsctypes.VerifSealHash(*h, big.NewInt(bscChainID)).Bytes(), v.key)
	must(err)
	copy(h.Extra[len(h.Extra)-65:], sig)
}

func bscExtra(r *hlib.Rand, vals []bscVal) []byte {
	e := r.Bytes(32)
	for _, v := range vals {
		e = append(e, v.addr[:]...)
	}
	return append(e, make([]byte, 65)...)
}

func scenarioBsc(r *hlib.Rand, steps int) []*Chain {
	c := NewChain(r, "teleport_9000-10", 1)
	n := 3 + r.Intn(5)
	epoch := uint64(8 + r.Intn(8))
	vals := bscVals(r, n)
	number := epoch * uint64(2+r.Intn(5))
	mk := func(parent *bsctypes.Header, num uint64, signer bscVal, diff int64, withVals []bscVal) bsctypes.Header {
		h := bsctypes.Header{
			UncleHash: ethtypes.EmptyUncleHash.Bytes(), Root: r.Bytes(32), TxHash: r.Bytes(32), ReceiptHash: r.Bytes(32),
			Bloom: make([]byte, 256), Difficulty: big.NewInt(diff).Bytes(), Height: clienttypes.NewHeight(0, num),
			GasLimit: 30_000_000, GasUsed: uint64(r.Intn(1_000_000)), Time: uint64(c.Time.Unix()) - 1000 + num*3,
			Extra: bscExtra(r, withVals), MixDigest: make([]byte, 32), Nonce: make([]byte, 8),
		}
		if parent != nil {
			h.ParentHash = parent.Hash().Bytes()
		} else {
			h.ParentHash = r.Bytes(32)
		}
		bscSeal(&h, signer)
		return h
	}
	genesis := mk(nil, number, vals[int(number)%n], 2, vals)
	var addrs [][]byte
	for _, v := range vals {
		addrs = append(addrs, v.addr.Bytes())
	}
	var cs exported.ClientState = &bsctypes.ClientState{Header: genesis, ChainId: bscChainID, Epoch: epoch, BlockInteval: 3,
		Validators: addrs, ContractAddress: r.Bytes(20), TrustingPeriod: 100000}
	var cons exported.ConsensusState = &bsctypes.ConsensusState{Timestamp: genesis.Time, Height: genesis.Height, Root: genesis.Root}
	prop, err := clienttypes.NewCreateClientProposal("t", "d", bscChainName, cs, cons)
	must(err)
	c.Propose("xibc-create-client-bsc", prop, r.Bool())
	c.Propose("xibc-register-relayer", clienttypes.NewRegisterRelayerProposal("t", "d", c.Acc.String(), []string{bscChainName}, []string{"0x0000000000000000000000000000000000000001"}), false)
	c.PassVotingPeriod()

	cur := vals // the set the client currently checks against
	head := genesis
	for i := 0; i < steps; i++ {
		num := head.Height.RevisionHeight + 1
		// the validator set as the CLIENT sees it (it switches len/2 blocks after an epoch header)
		if st, ok := c.App.XIBCKeeper.ClientKeeper.GetClientState(c.Ctx(), bscChainName); ok {
			if b, ok := st.(*bsctypes.ClientState); ok {
				var now []bscVal
				for _, a := range b.Validators {
					for _, v := range vals {
						if bytes.Equal(v.addr[:], a) {
							now = append(now, v)
						}
					}
				}
				sort.Slice(now, func(i, j int) bool { return bytes.Compare(now[i].addr[:], now[j].addr[:]) < 0 })
				if len(now) > 0 {
					cur = now
				}
			}
		}
		signer, diff := cur[int(num%uint64(len(cur)))], int64(2)
		tag := "xibc-update-client-bsc-inturn"
		switch r.Intn(10) {
		case 0, 1: // out of turn: accepted with difficulty 1 unless the signer sealed one of the last len/2 blocks
			signer, diff = cur[int((num+1+uint64(r.Intn(len(cur)-1)))%uint64(len(cur)))], 1
			tag = "xibc-update-client-bsc-outofturn"
		case 2: // wrong difficulty for the turn
			diff = 1
			tag = "xibc-update-client-bsc-wrongdiff"
		}
		var announce []bscVal
		if num%epoch == 0 { // epoch header: announce a (possibly smaller) set drawn from the same keys
			announce = append(announce, vals...)
			if r.Bool() && len(announce) > 3 {
				announce = announce[:len(announce)-1-r.Intn(2)]
			}
		}
		h := mk(&head, num, signer, diff, announce)
		msg, err := clienttypes.NewMsgUpdateClient(bscChainName, &h, c.Acc)
		must(err)
		if o := c.CosmosTx(tag, c.Key, TxOpt{}, msg); o.Code == 0 {
			head = h
		}
		if r.Chance(1, 3) {
			c.EndCommit()
		}
	}
	c.EndCommit()
	return []*Chain{c}
}
