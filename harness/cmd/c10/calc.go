package main

// Function-level differential of the arithmetic the header rules are made of: the difficulty calculator
// (makeDifficultyCalculator(9700000), through the hook VerifCalcDifficulty), CalcBaseFee and VerifyGaslimit of the
// REAL code on generated (parent, time, gas limit) triples with boundary values, plus every (parent, child) pair of
// consecutive main-net headers of testdata/update_headers.json, where the child's real difficulty / base fee /
// gas limit are recorded as well.  Model/EthCheck.v compares each value with the model (kinds 31-33) and, on the
// main-net pairs, the CODE's values with the real chain data (monitor kinds 35-37: the code would refuse a real
// main-net header).  In a Rinkeby-mode client the difficulty comparison is ignored and outside Rinkeby a header
// only becomes observable through UpdateClient with a real proof of work, so the tree cases cannot see an error of
// the calculator; this file can.

import (
	"encoding/json"
	"io/ioutil"
	"math/big"

	ethtypes "github.com/teleport-network/teleport/x/xibc/clients/light-clients/eth/types"
	clienttypes "github.com/teleport-network/teleport/x/xibc/core/client/types"

	"verifharness/hlib"
)

type CalcCase struct {
	ID        int    `json:"id"`
	Tag       string `json:"tag"`
	PTime     uint64 `json:"ptime"`
	PNum      uint64 `json:"pnum"`
	PGasLimit uint64 `json:"pgaslimit"`
	PGasUsed  uint64 `json:"pgasused"`
	PUncle    string `json:"puncle"`
	PDiff     string `json:"pdiff"`
	PBaseFee  string `json:"pbasefee"`
	Time      uint64 `json:"time"`
	HGasLimit uint64 `json:"hgaslimit"`
	// observed on the real code
	DiffNeg  bool   `json:"diff_neg"`
	Diff     string `json:"diff"`     // hex digits of |VerifCalcDifficulty(time, parent)|
	BFClass  int    `json:"bf_class"` // 0 returned, 2 panicked
	BF       string `json:"bf"`       // hex digits of CalcBaseFee(parent)
	GLOk     bool   `json:"gl_ok"`    // VerifyGaslimit(parent limit, limit) == nil
	HasChild bool   `json:"has_child"`
	CDiff    string `json:"cdiff"` // real child's difficulty / base fee (hex digits)
	CBF      string `json:"cbf"`
}

func hexDigits(x *big.Int) string {
	if x == nil {
		return "0"
	}
	return new(big.Int).Abs(x).Text(16)
}

func evalCalc(c *CalcCase) {
	parent := ethtypes.Header{
		UncleHash: hlib.UnHex(c.PUncle), Difficulty: hlib.UnHex(c.PDiff), Height: clienttypes.NewHeight(0, c.PNum),
		GasLimit: c.PGasLimit, GasUsed: c.PGasUsed, Time: c.PTime, BaseFee: hlib.UnHex(c.PBaseFee),
	}
	d := ethtypes.VerifCalcDifficulty(c.Time, &parent)
	c.DiffNeg = d.Sign() < 0
	c.Diff = hexDigits(d)
	var bf *big.Int
	if panicked, _ := hlib.Catch(func() { bf = ethtypes.CalcBaseFee(&parent) }); panicked {
		c.BFClass, c.BF = 2, "0"
	} else {
		c.BFClass, c.BF = 0, hexDigits(bf)
	}
	c.GLOk = ethtypes.VerifyGaslimit(c.PGasLimit, c.HGasLimit) == nil
}

// block numbers: the bomb term is 2^((number-9699999)/100000 - 2), so realistic numbers only (2^40 gives a megabyte-sized
// difficulty, 2^63-1 never returns); numbers >= 2^63 are negative as int64 and switch the bomb off
var calcNums = []uint64{0, 1, 99999, 9199998, 9199999, 9200000, 9699997, 9699998, 9699999, 9700000, 9799998, 9799999, 9800000,
	9899998, 9899999, 9900000, 9999999, 10000000, 12965000, 13286181, 15537393, 29999999, 1 << 63, 1<<64 - 1}
var calcDts = []uint64{1, 2, 8, 9, 10, 17, 18, 19, 26, 27, 13, 880, 890, 891, 899, 900, 901, 908, 909, 910, 1000, 5000}

const emptyUncleHex = "1dcc4de8dec75d7aab85b567b6ccd41ad312451b948a7413f0a142fd40d49347"

func randomCalc(r *hlib.Rand, i int) CalcCase {
	c := CalcCase{Tag: "random"}
	c.PTime = t0 + uint64(r.Intn(100000))
	if r.Chance(3, 4) {
		c.PNum = calcNums[r.Intn(len(calcNums))]
	} else {
		c.PNum = 9000000 + uint64(r.Intn(7000000))
	}
	switch r.Intn(4) {
	case 0:
		c.PUncle = emptyUncleHex
	case 1:
		c.PUncle = hlib.Hex(r.Bytes(32))
	case 2:
		c.PUncle = ""
	default:
		c.PUncle = "ab" + emptyUncleHex // 33 bytes: BytesToHash keeps the last 32
	}
	switch r.Intn(6) {
	case 0:
		c.PDiff = ""
	case 1:
		c.PDiff = hlib.Hex(big.NewInt(int64(131072 + r.Intn(5000))).Bytes())
	case 2:
		c.PDiff = hlib.Hex(big.NewInt(int64(r.Intn(4096))).Bytes())
	case 3:
		c.PDiff = hlib.Hex(r.Bytes(1 + r.Intn(10)))
	case 4:
		c.PDiff = "00" + hlib.Hex(r.Bytes(7))
	default:
		c.PDiff = hlib.Hex(new(big.Int).SetUint64(9000000000000000 + r.U64()%1000000000000000).Bytes())
	}
	if r.Chance(1, 12) {
		// time at or before the parent's (verifyHeader never calls the calculator like this; the model is total)
		c.Time = c.PTime - uint64(r.Intn(30))
	} else if r.Chance(3, 4) {
		c.Time = c.PTime + calcDts[r.Intn(len(calcDts))]
	} else {
		c.Time = c.PTime + uint64(1+r.Intn(1200))
	}
	// gas numbers
	switch r.Intn(6) {
	case 0:
		c.PGasLimit = uint64(r.Intn(4)) // target 0: CalcBaseFee divides by zero unless gas used = 0
	case 1:
		c.PGasLimit = 1024 + uint64(r.Intn(3))
	case 2:
		c.PGasLimit = 5000 + uint64(r.Intn(200))
	case 3:
		c.PGasLimit = 1<<63 - 1 - uint64(r.Intn(3))
	case 4:
		c.PGasLimit = r.U64()
	default:
		c.PGasLimit = 30000000
	}
	target := c.PGasLimit / 2
	switch r.Intn(6) {
	case 0:
		c.PGasUsed = target
	case 1:
		c.PGasUsed = target + 1
	case 2:
		if target > 0 {
			c.PGasUsed = target - 1
		}
	case 3:
		c.PGasUsed = 0
	case 4:
		c.PGasUsed = c.PGasLimit
	default:
		if c.PGasLimit > 0 {
			c.PGasUsed = r.U64() % c.PGasLimit
		}
	}
	switch r.Intn(5) {
	case 0:
		c.PBaseFee = ""
	case 1:
		c.PBaseFee = hlib.Hex([]byte{byte(r.Intn(16))})
	case 2:
		c.PBaseFee = "3b9aca00"
	case 3:
		c.PBaseFee = hlib.Hex(r.Bytes(1 + r.Intn(12)))
	default:
		c.PBaseFee = "00" + hlib.Hex(r.Bytes(5))
	}
	bound := c.PGasLimit / 1024
	switch r.Intn(8) {
	case 0:
		c.HGasLimit = c.PGasLimit
	case 1:
		c.HGasLimit = c.PGasLimit + bound
	case 2:
		c.HGasLimit = c.PGasLimit + bound - 1
	case 3:
		c.HGasLimit = c.PGasLimit - bound
	case 4:
		c.HGasLimit = c.PGasLimit - bound + 1
	case 5:
		c.HGasLimit = 4999 + uint64(r.Intn(3))
	case 6:
		c.HGasLimit = r.U64()
	default:
		c.HGasLimit = c.PGasLimit + uint64(r.Intn(40)) - 20
	}
	return c
}

func fixtureCalc(path string) []CalcCase {
	bz, err := ioutil.ReadFile(path)
	if err != nil {
		return nil
	}
	var hdrs []*ethtypes.EthHeader
	if err := json.Unmarshal(bz, &hdrs); err != nil {
		return nil
	}
	var out []CalcCase
	for i := 0; i+1 < len(hdrs); i++ {
		p, h := hdrs[i].ToHeader(), hdrs[i+1].ToHeader()
		if h.Height.RevisionHeight != p.Height.RevisionHeight+1 {
			continue
		}
		out = append(out, CalcCase{Tag: "mainnet", PTime: p.Time, PNum: p.Height.RevisionHeight, PGasLimit: p.GasLimit, PGasUsed: p.GasUsed,
			PUncle: hlib.Hex(p.UncleHash), PDiff: hlib.Hex(p.Difficulty), PBaseFee: hlib.Hex(p.BaseFee), Time: h.Time, HGasLimit: h.GasLimit,
			HasChild: true, CDiff: hexDigits(new(big.Int).SetBytes(h.Difficulty)), CBF: hexDigits(new(big.Int).SetBytes(h.BaseFee))})
	}
	return out
}

func runCalc(r *hlib.Rand, n int, fixture, inPath, outPath string) {
	w := hlib.NewOut(outPath)
	defer w.Close()
	id := 0
	emit := func(c CalcCase) {
		c.ID = id
		id++
		evalCalc(&c)
		w.Emit(c)
	}
	if inPath != "" { // replay recorded inputs
		hlib.ReadLines(inPath, func(line []byte) {
			var c CalcCase
			if err := json.Unmarshal(line, &c); err != nil {
				panic(err)
			}
			emit(c)
		})
		return
	}
	for _, c := range fixtureCalc(fixture) {
		emit(c)
	}
	for i := 0; i < n; i++ {
		emit(randomCalc(r.Fork(uint64(7000000+i)), i))
	}
}
