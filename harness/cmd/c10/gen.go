package main

// Generators of the C10 harness: hand-written scenario corpus (first), random header trees with random
// submission orders / re-submissions / probes / mutated submissions, exhaustive submission orders of all small
// trees, single-field mutation sweeps, non-Rinkeby cases and the main-net fixture.

import (
	"encoding/binary"
	"encoding/json"
	"fmt"
	"io/ioutil"
	"math/big"

	ethtypes "github.com/teleport-network/teleport/x/xibc/clients/light-clients/eth/types"

	"verifharness/hlib"
)

const emptyUncle = "1dcc4de8dec75d7aab85b567b6ccd41ad312451b948a7413f0a142fd40d49347"
const t0 = uint64(1600000000)

// builder grows a plan and materialises it incrementally (the base fee of a child is the real CalcBaseFee of its
// parent, the difficulty of a non-Rinkeby child the real calculator's value).
type builder struct {
	sp     Spec
	hs     []ethtypes.Header
	hashes [][]byte
	serial uint64
	now    uint64 // block time of the last step
}

func rep(b byte, n int) string {
	out := make([]byte, n)
	for i := range out {
		out[i] = b
	}
	return hlib.Hex(out)
}

func (b *builder) freshRoot() string {
	b.serial++
	root := make([]byte, 32)
	root[0] = 0xD2
	binary.BigEndian.PutUint64(root[24:], b.serial)
	return hlib.Hex(root)
}

type genesisOpt struct {
	num, rev, gasLimit, gasUsed uint64
	baseFee                     []byte
	diff                        []byte
	bloomLen                    int
}

func newBuilder(tag, mode string, chainID, trust uint64, g genesisOpt) *builder {
	b := &builder{}
	b.sp = Spec{Mode: mode, ChainID: chainID, Trust: trust, Tag: tag}
	if g.gasLimit == 0 {
		g.gasLimit = 30000000
		g.gasUsed = 15000000
	}
	if g.baseFee == nil {
		g.baseFee = []byte{0x3b, 0x9a, 0xca, 0x00}
	}
	if g.diff == nil {
		g.diff = []byte{0x02, 0x00, 0x00}
	}
	n := Node{P: -1, PHex: rep(1, 32), Uncle: rep(2, 32), Coinbase: rep(3, 20), Root: b.freshRoot(), Tx: rep(5, 32), Receipt: rep(6, 32),
		Bloom: rep(7, g.bloomLen), Diff: hlib.Hex(g.diff), Rev: g.rev, Num: g.num, GasLimit: g.gasLimit, GasUsed: g.gasUsed, Time: t0,
		Extra: hlib.Hex([]byte("G")), Mix: rep(8, 32), Nonce: 0, BaseFee: hlib.Hex(g.baseFee), Label: "G"}
	b.add(n)
	b.sp.Cons = Cons{Time: n.Time, Rev: n.Rev, Num: n.Num, Root: n.Root}
	b.now = t0 + 10
	return b
}

func (b *builder) add(n Node) int {
	i := len(b.sp.Nodes)
	b.sp.Nodes = append(b.sp.Nodes, n)
	var parent []byte
	if n.P >= 0 && n.P < i {
		parent = modParent(b.hashes[n.P], n.PMod)
	} else {
		parent = hlib.UnHex(n.PHex)
	}
	h := toHeader(n, parent)
	b.hs = append(b.hs, h)
	b.hashes = append(b.hashes, safeHash(h))
	return i
}

type childOpt struct {
	dt       uint64 // time delta (0 = 1)
	gasLimit int    // 0 same, 1 up to the bound, 2 down to the bound, 3 random inside
	gasUsed  int    // 0 target, 1 zero, 2 full, 3 random
	r        *hlib.Rand
}

// child: a header verifyHeader accepts as a child of node p (in Rinkeby mode; for other chains the seal is fake).
func (b *builder) child(p int, label string, o childOpt) Node {
	ph := b.hs[p]
	pn := b.sp.Nodes[p]
	dt := o.dt
	if dt == 0 {
		dt = 1
	}
	gl := pn.GasLimit
	bound := pn.GasLimit / 1024
	switch o.gasLimit {
	case 1:
		if bound > 1 {
			gl = pn.GasLimit + bound - 1
		}
	case 2:
		if bound > 1 && pn.GasLimit-(bound-1) >= 5000 {
			gl = pn.GasLimit - (bound - 1)
		}
	case 3:
		if bound > 1 && o.r != nil {
			d := uint64(o.r.Intn(int(bound)))
			if o.r.Bool() {
				gl = pn.GasLimit + d
			} else if pn.GasLimit-d >= 5000 {
				gl = pn.GasLimit - d
			}
		}
	}
	if gl > 0x7fffffffffffffff {
		gl = pn.GasLimit
	}
	gu := gl / 2
	switch o.gasUsed {
	case 1:
		gu = 0
	case 2:
		gu = gl
	case 3:
		if o.r != nil {
			gu = o.r.U64() % (gl + 1)
		}
	}
	var baseFee []byte
	if pn.GasLimit >= 2 || pn.GasUsed == 0 {
		baseFee = ethtypes.CalcBaseFee(&ph).Bytes()
	}
	diff := []byte{0x01}
	if b.sp.ChainID != 4 {
		diff = ethtypes.VerifCalcDifficulty(pn.Time+dt, &ph).Bytes()
	}
	ex := []byte(label)
	if len(ex) > 32 {
		ex = ex[:32]
	}
	b.serial++
	return Node{P: p, Uncle: pn.Uncle, Coinbase: pn.Coinbase, Root: b.freshRoot(), Tx: pn.Tx, Receipt: pn.Receipt, Bloom: pn.Bloom,
		Diff: hlib.Hex(diff), Rev: pn.Rev, Num: pn.Num + 1, GasLimit: gl, GasUsed: gu, Time: pn.Time + dt, Extra: hlib.Hex(ex),
		Mix: pn.Mix, Nonce: b.serial, BaseFee: hlib.Hex(baseFee), Label: label}
}

func (b *builder) step(n int, bt uint64, probe bool) {
	if bt < b.now && !probe {
		bt = b.now
	}
	if !probe {
		b.now = bt
	}
	b.sp.Steps = append(b.sp.Steps, Step{BT: bt, N: n, Probe: probe})
}

// submit at a block time just late enough for the header's timestamp.
func (b *builder) submit(n int) {
	bt := b.now
	if t := b.sp.Nodes[n].Time; t > bt+15 {
		bt = t - 15
	}
	b.step(n, bt, false)
}

// ---------------------------------------------------------------------------------------------
// single-field mutations of an otherwise valid child
// ---------------------------------------------------------------------------------------------

var mutations = []string{
	"time=parent", "time=parent-1", "time=future", "time=future-edge", "gaslimit+bound", "gaslimit+bound-1", "gaslimit-bound",
	"gaslimit-bound+1", "gaslimit=2^63", "gasused>limit", "basefee+1", "basefee-1", "basefee-leading-zero", "basefee-empty",
	"parent-flip", "parent-prefix", "parent-trim", "parent-empty", "num+1", "num-1", "diff-empty", "diff=2^64", "diff=2^64+1", "diff+1",
	"extra33", "extra32", "bloom257", "bloom256", "rev+1", "uncle-empty", "root-short", "root-long", "nonce", "mix-short", "coinbase-long",
	"time+900", "gasused=0", "gasused=limit",
}

func bigBytes(x *big.Int) []byte { return x.Bytes() }

// mutate returns the node changed in one field; bt is the block time the header will be submitted at.
func (b *builder) mutate(n Node, m string, bt uint64) Node {
	pn := b.sp.Nodes[n.P]
	bound := pn.GasLimit / 1024
	bf := new(big.Int).SetBytes(hlib.UnHex(n.BaseFee))
	switch m {
	case "time=parent":
		n.Time = pn.Time
	case "time=parent-1":
		n.Time = pn.Time - 1
	case "time=future":
		n.Time = bt + 16
	case "time=future-edge":
		n.Time = bt + 15
	case "gaslimit+bound":
		n.GasLimit = pn.GasLimit + bound
	case "gaslimit+bound-1":
		n.GasLimit = pn.GasLimit + bound - 1
	case "gaslimit-bound":
		n.GasLimit = pn.GasLimit - bound
	case "gaslimit-bound+1":
		n.GasLimit = pn.GasLimit - bound + 1
	case "gaslimit=2^63":
		n.GasLimit = 1 << 63
	case "gasused>limit":
		n.GasUsed = n.GasLimit + 1
	case "basefee+1":
		n.BaseFee = hlib.Hex(bigBytes(new(big.Int).Add(bf, big.NewInt(1))))
	case "basefee-1":
		if bf.Sign() > 0 {
			n.BaseFee = hlib.Hex(bigBytes(new(big.Int).Sub(bf, big.NewInt(1))))
		} else {
			n.BaseFee = "01"
		}
	case "basefee-leading-zero":
		n.BaseFee = "00" + n.BaseFee
	case "basefee-empty":
		n.BaseFee = ""
	case "parent-flip":
		n.PMod = "flip"
	case "parent-prefix":
		n.PMod = "prefix"
	case "parent-trim":
		n.PMod = "trim"
	case "parent-empty":
		n.P, n.PHex = -1, ""
	case "num+1":
		n.Num++
	case "num-1":
		n.Num--
	case "diff-empty":
		n.Diff = ""
	case "diff=2^64":
		n.Diff = "010000000000000000"
	case "diff=2^64+1":
		n.Diff = "010000000000000001"
	case "diff+1":
		d := new(big.Int).SetBytes(hlib.UnHex(n.Diff))
		n.Diff = hlib.Hex(bigBytes(d.Add(d, big.NewInt(1))))
	case "extra33":
		n.Extra = rep(0x45, 33)
	case "extra32":
		n.Extra = rep(0x45, 32)
	case "bloom257":
		n.Bloom = rep(7, 257)
	case "bloom256":
		n.Bloom = rep(7, 256)
	case "rev+1":
		n.Rev++
	case "uncle-empty":
		n.Uncle = emptyUncle
	case "root-short":
		n.Root = n.Root[2:]
	case "root-long":
		n.Root = "ee" + n.Root
	case "nonce":
		n.Nonce ^= 0xffff
	case "mix-short":
		n.Mix = "08"
	case "coinbase-long":
		n.Coinbase = "aa" + n.Coinbase
	case "time+900":
		n.Time += 900
	case "gasused=0":
		n.GasUsed = 0
	case "gasused=limit":
		n.GasUsed = n.GasLimit
	}
	n.Label = n.Label + "~" + m
	return n
}

// ---------------------------------------------------------------------------------------------
// scenario corpus (runs first on every check)
// ---------------------------------------------------------------------------------------------

func corpus(emit func(Spec)) {
	huge := uint64(999999999)
	// D2 witness and its continuation (DESIGN 9.5): G; A1; B1; A2; A3; B2; B3; B4; A3; A1; B4; A4
	for _, mode := range []string{"keeper", "raw"} {
		b := newBuilder("corpus:d2-witness", mode, 4, huge, genesisOpt{num: 100})
		a1 := b.add(b.child(0, "A1", childOpt{}))
		b1 := b.add(b.child(0, "B1", childOpt{}))
		a2 := b.add(b.child(a1, "A2", childOpt{}))
		a3 := b.add(b.child(a2, "A3", childOpt{}))
		b2 := b.add(b.child(b1, "B2", childOpt{}))
		b3 := b.add(b.child(b2, "B3", childOpt{}))
		b4 := b.add(b.child(b3, "B4", childOpt{}))
		a4 := b.add(b.child(a3, "A4", childOpt{}))
		for _, n := range []int{a1, b1, a2, a3, b2, b3, b4, a3, a1, b4, a4} {
			b.submit(n)
		}
		emit(b.sp)
	}
	// minimal D2 witness
	{
		b := newBuilder("corpus:d2-minimal", "keeper", 4, huge, genesisOpt{num: 100})
		a1 := b.add(b.child(0, "A1", childOpt{}))
		b1 := b.add(b.child(0, "B1", childOpt{}))
		a2 := b.add(b.child(a1, "A2", childOpt{}))
		for _, n := range []int{a1, b1, a2} {
			b.submit(n)
		}
		emit(b.sp)
	}
	// deep re-organisations in both directions with a probe child of every stored header after each step
	{
		b := newBuilder("corpus:deep-reorg", "keeper", 4, huge, genesisOpt{num: 12965000})
		var as, bs []int
		pa, pb := 0, 0
		for i := 0; i < 5; i++ {
			pa = b.add(b.child(pa, fmt.Sprintf("A%d", i+1), childOpt{dt: 3}))
			as = append(as, pa)
		}
		for i := 0; i < 7; i++ {
			pb = b.add(b.child(pb, fmt.Sprintf("B%d", i+1), childOpt{dt: 2}))
			bs = append(bs, pb)
		}
		order := []int{as[0], as[1], as[2], bs[0], bs[1], as[3], bs[2], bs[3], bs[4], bs[5], as[4], bs[6], as[1], bs[2]}
		stored := []int{0}
		for _, n := range order {
			b.submit(n)
			stored = append(stored, n)
			for _, s := range stored {
				pr := b.add(b.child(s, "probe", childOpt{dt: 1}))
				b.step(pr, b.now+40, true)
			}
		}
		emit(b.sp)
	}
	// parent hash given with a junk byte in front (33 bytes): a valid child of the head that takes the RestrictChain path
	{
		b := newBuilder("corpus:parent-33-bytes", "keeper", 4, huge, genesisOpt{num: 7})
		a1 := b.add(b.child(0, "A1", childOpt{}))
		n := b.child(a1, "A2", childOpt{})
		n.PMod = "prefix"
		a2 := b.add(n)
		a3 := b.add(b.child(a2, "A3", childOpt{}))
		m := b.child(a1, "B2", childOpt{})
		m.PMod = "prefix"
		b2 := b.add(m)
		b3 := b.add(b.child(b2, "B3", childOpt{}))
		for _, n := range []int{a1, a2, a3, b2, b3, a3} {
			b.submit(n)
		}
		emit(b.sp)
	}
	// pruning: a chain advancing with the clock, the oldest state removed one per update; fork ABOVE the pruned prefix
	{
		b := newBuilder("corpus:prune-then-fork-above", "keeper", 4, 100, genesisOpt{num: 500})
		p := 0
		var chain []int
		for i := 0; i < 10; i++ {
			p = b.add(b.child(p, fmt.Sprintf("M%d", i+1), childOpt{dt: 20}))
			chain = append(chain, p)
			b.step(p, b.sp.Nodes[p].Time+5, false)
		}
		s := b.add(b.child(chain[7], "S9", childOpt{dt: 21}))
		b.step(s, b.now+1, false)
		s2 := b.add(b.child(s, "S10", childOpt{dt: 20}))
		b.step(s2, b.now+1, false)
		m11 := b.add(b.child(chain[9], "M11", childOpt{dt: 25}))
		b.step(m11, b.sp.Nodes[m11].Time+5, false)
		emit(b.sp)
	}
	// boundary block times of the two trusting-period comparisons (both are strict "<"): the earliest consensus state is
	// pruned only when time + trusting period < block time; the client is active while head time + trusting period >= block time
	for _, mode := range []string{"keeper", "raw"} {
		b := newBuilder("corpus:boundary-times", mode, 4, 100, genesisOpt{num: 500})
		a1 := b.add(b.child(0, "A1", childOpt{dt: 20}))
		b.step(a1, t0+25, false)
		a2 := b.add(b.child(a1, "A2", childOpt{dt: 20}))
		b.step(a2, t0+45, false)
		a3 := b.add(b.child(a2, "A3", childOpt{dt: 55}))  // time t0+95
		b.step(a3, t0+100, false)                         // G: t0 + 100 = block time: NOT pruned yet
		a4 := b.add(b.child(a3, "A4", childOpt{dt: 15}))  // time t0+110
		b.step(a4, t0+101, false)                         // G pruned now
		a5 := b.add(b.child(a4, "A5", childOpt{dt: 15}))  // time t0+125
		b.step(a5, t0+120, false)                         // A1: t0+20 + 100 = block time: NOT pruned
		a6 := b.add(b.child(a5, "A6", childOpt{dt: 105})) // time t0+230
		b.step(a6, t0+225, false)                         // head A5: t0+125 + 100 = block time: still active
		s6 := b.add(b.child(a5, "S6", childOpt{dt: 104}))
		b.step(s6, t0+230+100, true) // head A6: t0+230 + 100 = block time: still active (probe)
		b.step(s6, t0+230+101, true) // one second later: expired, refused
		emit(b.sp)
	}
	// FINDING candidates (each is the witness of a *_refuted theorem; see Refuted/C10_*.v)
	emit(witnessSameRoot())
	emit(witnessPrunedFork())
	emit(witnessExpiredReorg())
	emit(witnessRevisionWedge())
	emit(witnessRevisionPrune())
	emit(witnessRevisionStale())
}

// eth-sibling-same-root: G; M1; M2; S1 (sibling of M1); S2' (child of S1, same state root as M2); M3 (child of M2);
// N2 (child of S1): RestrictChain starts from S2' instead of the main-chain header M2.
func witnessSameRoot() Spec {
	b := newBuilder("witness:eth-sibling-same-root", "keeper", 4, 999999999, genesisOpt{num: 100})
	m1 := b.add(b.child(0, "M1", childOpt{}))
	m2 := b.add(b.child(m1, "M2", childOpt{}))
	s1 := b.add(b.child(0, "S1", childOpt{}))
	n := b.child(s1, "S2'", childOpt{})
	n.Root = b.sp.Nodes[m2].Root
	s2 := b.add(n)
	m3 := b.add(b.child(m2, "M3", childOpt{}))
	n2 := b.add(b.child(s1, "N2", childOpt{}))
	for _, x := range []int{m1, m2, s1, s2, m3, n2} {
		b.submit(x)
	}
	return b.sp
}

// eth-fork-below-pruned-prefix (O3): G; A1; B1 (sibling); A1' ... main chain continues on A; A1's height is pruned;
// then the valid child B2 of the still stored B1 is rejected.
func witnessPrunedFork() Spec {
	b := newBuilder("witness:eth-fork-below-pruned-prefix", "keeper", 4, 100, genesisOpt{num: 500})
	a1 := b.add(b.child(0, "A1", childOpt{dt: 20}))
	b1 := b.add(b.child(0, "B1", childOpt{dt: 21}))
	b.step(b1, b.sp.Nodes[b1].Time+5, false)
	b.step(a1, b.now, false)
	p := a1
	for i := 0; i < 9; i++ {
		p = b.add(b.child(p, fmt.Sprintf("A%d", i+2), childOpt{dt: 20}))
		b.step(p, b.sp.Nodes[p].Time+5, false)
	}
	b2 := b.add(b.child(b1, "B2", childOpt{dt: 150}))
	b.step(b2, b.now+1, false)
	return b.sp
}

// eth-reorg-to-expired-branch: G; A1..A6 (timestamps one second apart); the clock advances by the trusting period;
// a sibling S3 of A3 (parent A2, still stored) is a valid child of a stored header, is accepted, becomes head -- and
// its timestamp is older than the trusting period: the client is Expired, every later update is refused.
func witnessExpiredReorg() Spec {
	b := newBuilder("witness:eth-reorg-to-expired-branch", "keeper", 4, 1000, genesisOpt{num: 500})
	p := 0
	var chain []int
	for i := 0; i < 6; i++ {
		p = b.add(b.child(p, fmt.Sprintf("A%d", i+1), childOpt{dt: 1}))
		chain = append(chain, p)
		b.step(p, t0+10, false)
	}
	s := b.add(b.child(chain[1], "S3", childOpt{dt: 1}))
	b.step(s, t0+1004, false)
	a7 := b.add(b.child(chain[5], "A7", childOpt{dt: 1000}))
	b.step(a7, t0+1005, false)
	return b.sp
}

// eth-revision-prune-wedge: a client whose heights carry revision number 1; the stored header A1 is re-submitted with
// revision number 0.  The extra consensus state (0, h) sorts first, expires and is pruned together with A1's header
// and root-main entry; when the genuine state (1, h) expires its root-main entry is gone and the prune step fails:
// every later update is refused.
func witnessRevisionWedge() Spec {
	b := newBuilder("witness:eth-revision-prune-wedge", "keeper", 4, 100, genesisOpt{num: 500, rev: 1})
	a1 := b.add(b.child(0, "A1", childOpt{dt: 20}))
	b.step(a1, b.sp.Nodes[a1].Time+5, false)
	n := b.sp.Nodes[a1]
	n.Rev = 0
	n.Label = "A1@rev0"
	a1r := b.add(n)
	b.step(a1r, b.now+1, false)
	p := a1
	for i := 0; i < 8; i++ {
		p = b.add(b.child(p, fmt.Sprintf("A%d", i+2), childOpt{dt: 30}))
		b.step(p, b.sp.Nodes[p].Time+5, false)
	}
	return b.sp
}

// eth-revision-resubmission-prune: a stored header re-submitted with another revision number leaves a second
// consensus state for its height; when both expire the second prune fails for ever.
func witnessRevisionPrune() Spec {
	b := newBuilder("witness:eth-revision-prune", "keeper", 4, 100, genesisOpt{num: 500})
	a1 := b.add(b.child(0, "A1", childOpt{dt: 20}))
	b.step(a1, b.sp.Nodes[a1].Time+5, false)
	n := b.sp.Nodes[a1]
	n.Rev = 1
	n.Label = "A1@rev1"
	a1r := b.add(n)
	b.step(a1r, b.now+1, false)
	p := a1r
	for i := 0; i < 6; i++ {
		c := b.child(p, fmt.Sprintf("A%d", i+2), childOpt{dt: 30})
		c.Rev = 0
		p = b.add(c)
		b.step(p, b.sp.Nodes[p].Time+5, false)
	}
	return b.sp
}

// revision number of the new head differs from the stored states': RestrictChain reads/writes consensus states under
// the NEW header's revision number.
func witnessRevisionStale() Spec {
	b := newBuilder("witness:eth-revision-reorg", "keeper", 4, 999999999, genesisOpt{num: 100})
	a1 := b.add(b.child(0, "A1", childOpt{}))
	a2 := b.add(b.child(a1, "A2", childOpt{}))
	n := b.child(0, "B1@rev1", childOpt{})
	n.Rev = 1
	b1 := b.add(n)
	m := b.child(b1, "B2@rev1", childOpt{})
	m.Rev = 1
	b2 := b.add(m)
	a3 := b.add(b.child(a2, "A3", childOpt{}))
	for _, x := range []int{a1, a2, b1, b2, a3} {
		b.submit(x)
	}
	return b.sp
}

// ---------------------------------------------------------------------------------------------
// random trees
// ---------------------------------------------------------------------------------------------

var genesisNums = []uint64{0, 1, 100, 9699998, 9799990, 12965000, 15000000}

func randomTree(r *hlib.Rand, i int) Spec {
	mode := "keeper"
	if r.Chance(1, 5) {
		mode = "raw"
	}
	pruning := r.Chance(1, 3)
	trust := uint64(999999999)
	if pruning {
		trust = uint64(60 + r.Intn(200))
	}
	g := genesisOpt{num: genesisNums[r.Intn(len(genesisNums))]}
	if r.Chance(1, 6) {
		g.rev = uint64(1 + r.Intn(3))
	}
	switch r.Intn(5) {
	case 0:
		g.gasLimit, g.gasUsed = 5000+uint64(r.Intn(3000)), uint64(r.Intn(5000))
	case 1:
		g.gasLimit = 1<<62 + r.U64()%(1<<61)
		g.gasUsed = r.U64() % g.gasLimit
	case 2:
		g.gasLimit = 8000000 + uint64(r.Intn(30000000))
		g.gasUsed = r.U64() % g.gasLimit
	}
	switch r.Intn(4) {
	case 0:
		g.baseFee = []byte{}
	case 1:
		g.baseFee = []byte{byte(1 + r.Intn(20))}
	case 2:
		g.baseFee = r.Bytes(1 + r.Intn(12))
	}
	if r.Chance(1, 4) {
		g.bloomLen = []int{1, 8, 256}[r.Intn(3)]
	}
	tag := "tree"
	if pruning {
		tag = "tree-pruning"
	}
	b := newBuilder(tag, mode, 4, trust, g)
	stored := []int{0}
	kids := map[int]int{}
	steps := 6 + r.Intn(25)
	pick := func() int {
		for try := 0; try < 8; try++ {
			var p int
			if r.Bool() {
				k := 3
				if len(stored) < k {
					k = len(stored)
				}
				p = stored[len(stored)-1-r.Intn(k)]
			} else {
				p = stored[r.Intn(len(stored))]
			}
			if kids[p] < 3 && b.sp.Nodes[p].Num-g.num < 12 {
				return p
			}
		}
		return stored[len(stored)-1]
	}
	opt := func() childOpt {
		dt := uint64(1 + r.Intn(30))
		if r.Chance(1, 10) {
			dt = uint64(800 + r.Intn(400))
		}
		if pruning {
			dt = uint64(5 + r.Intn(40))
		}
		return childOpt{dt: dt, gasLimit: r.Intn(4), gasUsed: r.Intn(4), r: r}
	}
	maxTime := func() uint64 {
		m := uint64(0)
		for _, s := range stored {
			if t := b.sp.Nodes[s].Time; t > m {
				m = t
			}
		}
		return m
	}
	for s := 0; s < steps; s++ {
		k := r.Intn(100)
		var n int
		valid := true
		switch {
		case k < 12 && len(stored) > 1:
			n = stored[1+r.Intn(len(stored)-1)]
		case k < 27:
			p := pick()
			c := b.child(p, fmt.Sprintf("X%d", s), opt())
			n = b.add(b.mutate(c, mutations[r.Intn(len(mutations))], b.now+uint64(r.Intn(10))))
			valid = false
		default:
			p := pick()
			kids[p]++
			n = b.add(b.child(p, fmt.Sprintf("N%d", s), opt()))
		}
		bt := b.now + uint64(r.Intn(6))
		t := b.sp.Nodes[n].Time
		if valid && t > bt+15 {
			bt = t - 15 + uint64(r.Intn(4))
		}
		if pruning {
			// keep the clock near the newest stored header so that the head stays active and old states expire;
			// never submit a header that is itself older than the trusting period (that is the witness
			// eth-reorg-to-expired-branch, exercised by its own corpus case)
			if m := maxTime(); m > bt {
				bt = m
			}
			if valid && t+trust < bt {
				continue
			}
		}
		b.step(n, bt, false)
		if valid {
			seen := false
			for _, x := range stored {
				if x == n {
					seen = true
				}
			}
			if !seen {
				stored = append(stored, n)
			}
		}
		// probes: children of stored headers on a dropped branch
		for q := r.Intn(3); q > 0; q-- {
			p := stored[r.Intn(len(stored))]
			c := b.child(p, fmt.Sprintf("P%d", s), opt())
			if r.Chance(1, 4) {
				c = b.mutate(c, mutations[r.Intn(len(mutations))], b.now)
			}
			pt := b.now
			if c.Time > pt+15 && r.Chance(9, 10) {
				pt = c.Time - 15
			}
			if pruning && c.Time+trust < pt {
				continue
			}
			b.step(b.add(c), pt, true)
		}
	}
	return b.sp
}

// ---------------------------------------------------------------------------------------------
// all submission orders of all trees with k non-root nodes
// ---------------------------------------------------------------------------------------------

func permutations(k int) [][]int {
	if k == 0 {
		return [][]int{{}}
	}
	var out [][]int
	for _, p := range permutations(k - 1) {
		for pos := 0; pos <= len(p); pos++ {
			q := append(append(append([]int{}, p[:pos]...), k), p[pos:]...)
			out = append(out, q)
		}
	}
	return out
}

func allTrees(k int, emit func(Spec)) {
	parents := make([]int, k+1)
	var rec func(i int)
	perms := permutations(k)
	rec = func(i int) {
		if i > k {
			for _, order := range perms {
				b := newBuilder(fmt.Sprintf("perm%d", k), "keeper", 4, 999999999, genesisOpt{num: 100})
				for j := 1; j <= k; j++ {
					b.add(b.child(parents[j], fmt.Sprintf("T%d", j), childOpt{dt: uint64(j)}))
				}
				for _, n := range order {
					b.submit(n)
				}
				// finally every node once more in index order: whatever was rejected for a missing parent is accepted now
				for j := 1; j <= k; j++ {
					b.submit(j)
				}
				emit(b.sp)
			}
			return
		}
		for p := 0; p < i; p++ {
			parents[i] = p
			rec(i + 1)
		}
	}
	rec(1)
}

// ---------------------------------------------------------------------------------------------
// mutation sweeps: every single-field mutation of a valid child, at the head and on a side branch
// ---------------------------------------------------------------------------------------------

// mutations of a non-Rinkeby header that are refused before the (slow) seal check
var cheapMutations = []string{"diff+1", "diff-empty", "extra33", "bloom257", "parent-flip", "num+1", "time=future", "gaslimit=2^63", "gasused>limit", "diff=2^64"}

func mutationSweep(r *hlib.Rand, chainID uint64, variant int) Spec {
	g := genesisOpt{num: genesisNums[r.Intn(len(genesisNums))]}
	switch variant % 4 {
	case 1:
		g.gasLimit, g.gasUsed = 5003, 5003
	case 2:
		g.gasLimit, g.gasUsed = 0x7fffffffffffffff-1000, 12345
	case 3:
		g.gasLimit = 20000000 + uint64(r.Intn(1000000))
		g.gasUsed = r.U64() % g.gasLimit
		g.baseFee = r.Bytes(1 + r.Intn(9))
	}
	b := newBuilder(fmt.Sprintf("mutations-chain%d", chainID), "keeper", chainID, 999999999, g)
	o := func() childOpt {
		return childOpt{dt: uint64(1 + r.Intn(20)), gasLimit: r.Intn(4), gasUsed: r.Intn(4), r: r}
	}
	parentsOf := []int{0}
	if chainID == 4 {
		a1 := b.add(b.child(0, "A1", o()))
		a2 := b.add(b.child(a1, "A2", o()))
		b1 := b.add(b.child(0, "B1", o()))
		for _, n := range []int{a1, a2, b1, a2} {
			b.submit(n)
		}
		parentsOf = []int{a2, b1, a1}
	}
	muts := mutations
	if chainID != 4 && variant == 0 {
		muts = cheapMutations
	}
	for _, p := range parentsOf {
		if chainID == 4 {
			ok := b.add(b.child(p, "valid", o()))
			b.step(ok, b.now+25, true)
		}
		for _, m := range muts {
			c := b.mutate(b.child(p, "M", o()), m, b.now+25)
			b.step(b.add(c), b.now+25, true)
		}
	}
	return b.sp
}

// non-Rinkeby chain: the difficulty must equal the calculator's value, extra data at most 32 bytes, and the seal is
// checked by the real ethash (tabulated for every node: slow, so the case is small).
func ethashCase(r *hlib.Rand) Spec {
	b := newBuilder("ethash-fake-seal", "keeper", 1, 999999999, genesisOpt{num: uint64(1 + r.Intn(20000))})
	c1 := b.child(0, "fake-seal", childOpt{dt: uint64(1 + r.Intn(20))})
	b.step(b.add(c1), b.now+25, false)
	c2 := b.mutate(b.child(0, "E", childOpt{dt: 5}), "diff+1", b.now)
	b.step(b.add(c2), b.now+25, false)
	return b.sp
}

// ---------------------------------------------------------------------------------------------
// main-net fixture (real proof of work)
// ---------------------------------------------------------------------------------------------

func fixtureCase(path string) (Spec, bool) {
	bz, err := ioutil.ReadFile(path)
	if err != nil {
		return Spec{}, false
	}
	var hdrs []*ethtypes.EthHeader
	if err := json.Unmarshal(bz, &hdrs); err != nil || len(hdrs) < 3 {
		return Spec{}, false
	}
	sp := Spec{Mode: "keeper", ChainID: 1, Trust: 99999999, Tag: "fixture-mainnet"}
	for i, eh := range hdrs {
		if i >= 4 {
			break
		}
		h := eh.ToHeader()
		sp.Nodes = append(sp.Nodes, Node{P: -1, PHex: hlib.Hex(h.ParentHash), Uncle: hlib.Hex(h.UncleHash), Coinbase: hlib.Hex(h.Coinbase),
			Root: hlib.Hex(h.Root), Tx: hlib.Hex(h.TxHash), Receipt: hlib.Hex(h.ReceiptHash), Bloom: hlib.Hex(h.Bloom), Diff: hlib.Hex(h.Difficulty),
			Rev: 0, Num: h.Height.RevisionHeight, GasLimit: h.GasLimit, GasUsed: h.GasUsed, Time: h.Time, Extra: hlib.Hex(h.Extra),
			Mix: hlib.Hex(h.MixDigest), Nonce: h.Nonce, BaseFee: hlib.Hex(h.BaseFee), Label: fmt.Sprintf("mainnet-%d", h.Height.RevisionHeight)})
	}
	g := sp.Nodes[0]
	sp.Cons = Cons{Time: g.Time, Rev: 0, Num: g.Num, Root: g.Root}
	bt := sp.Nodes[len(sp.Nodes)-1].Time + 30
	for i := 1; i < len(sp.Nodes); i++ {
		sp.Steps = append(sp.Steps, Step{BT: bt, N: i})
	}
	// a header with a damaged seal (nonce changed) is refused by the real ethash
	bad := sp.Nodes[len(sp.Nodes)-1]
	bad.Nonce ^= 1
	bad.Label += "~nonce"
	sp.Nodes = append(sp.Nodes, bad)
	sp.Steps = append(sp.Steps, Step{BT: bt, N: len(sp.Nodes) - 1, Probe: true})
	return sp, true
}

// ---------------------------------------------------------------------------------------------

func generate(r *hlib.Rand, n, perms, muts int, fixture string, emit func(Spec)) {
	corpus(emit)
	for k := 1; k <= perms; k++ {
		allTrees(k, emit)
	}
	for i := 0; i < muts; i++ {
		emit(mutationSweep(r.Fork(uint64(1000000+i)), 4, i))
	}
	if muts > 0 {
		emit(mutationSweep(r.Fork(2000000), 1, 0))
		emit(ethashCase(r.Fork(2000001)))
	}
	for i := 0; i < n; i++ {
		emit(randomTree(r.Fork(uint64(i)), i))
	}
	if fixture != "" {
		if sp, ok := fixtureCase(fixture); ok {
			emit(sp)
		}
	}
}
