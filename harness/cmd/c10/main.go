// c10: drives the real Ethereum light client (ClientKeeper.CreateClient / UpdateClient on a real client store,
// or ClientState.CheckHeaderAndUpdateState directly) over generated header TREES and records the projected
// observables (result class, client state head, consensus states, header index, root-main index) together with
// the oracle table (real header hash; real ethash seal verdict where the code can reach it).
//
// A case is a PLAN: nodes (header field values + the index of the parent node whose real hash becomes the parent
// hash) and steps (block time, node to submit, probe flag).  The plan is materialised with the real hash
// function, so a plan replays and shrinks (dropping steps) deterministically.
package main

import (
	"bytes"
	"encoding/json"
	"flag"
	"fmt"
	"os"
	"strconv"
	"strings"
	"time"

	"github.com/cosmos/cosmos-sdk/codec"
	sdk "github.com/cosmos/cosmos-sdk/types"
	sdkerrors "github.com/cosmos/cosmos-sdk/types/errors"
	"github.com/ethereum/go-ethereum/common"
	tmproto "github.com/tendermint/tendermint/proto/tendermint/types"

	"github.com/teleport-network/teleport/app"
	ethtypes "github.com/teleport-network/teleport/x/xibc/clients/light-clients/eth/types"
	clientkeeper "github.com/teleport-network/teleport/x/xibc/core/client/keeper"
	clienttypes "github.com/teleport-network/teleport/x/xibc/core/client/types"
	"github.com/teleport-network/teleport/x/xibc/core/host"
	"github.com/teleport-network/teleport/x/xibc/exported"

	"verifharness/hlib"
)

// ---------------------------------------------------------------------------------------------
// JSON shapes
// ---------------------------------------------------------------------------------------------

// Node: one header of the plan.  Every field is explicit except the parent hash, which is the real hash of node
// P (modified as PMod says) unless P < 0, in which case PHex is used as it is.
type Node struct {
	P        int    `json:"p"`
	PHex     string `json:"phex,omitempty"`
	PMod     string `json:"pmod,omitempty"` // "": 32-byte hash; "prefix": junk byte in front (33 bytes); "flip": last bit flipped; "trim": leading byte dropped
	Uncle    string `json:"uncle"`
	Coinbase string `json:"coinbase"`
	Root     string `json:"root"`
	Tx       string `json:"tx"`
	Receipt  string `json:"receipt"`
	Bloom    string `json:"bloom"`
	Diff     string `json:"diff"`
	Rev      uint64 `json:"rev"`
	Num      uint64 `json:"num"`
	GasLimit uint64 `json:"gaslimit"`
	GasUsed  uint64 `json:"gasused"`
	Time     uint64 `json:"time"`
	Extra    string `json:"extra"`
	Mix      string `json:"mix"`
	Nonce    uint64 `json:"nonce"`
	BaseFee  string `json:"basefee"`
	Label    string `json:"label,omitempty"` // generator's description (evidence only)
}

type Step struct {
	BT    uint64 `json:"bt"`    // block time (unix seconds) of the transaction carrying the update
	N     int    `json:"n"`     // node submitted
	Probe bool   `json:"probe"` // run on a branch of the state that is dropped even when the update succeeds
}

type Cons struct {
	Time uint64 `json:"time"`
	Rev  uint64 `json:"rev"`
	Num  uint64 `json:"num"`
	Root string `json:"root"`
}

type Spec struct {
	ID      int    `json:"id"`
	Mode    string `json:"mode"` // "keeper": ClientKeeper.UpdateClient; "raw": CheckHeaderAndUpdateState + the keeper's two writes (no status gate)
	ChainID uint64 `json:"chain_id"`
	Trust   uint64 `json:"trust"`
	Nodes   []Node `json:"nodes"` // node 0 = header of the created client state
	Cons    Cons   `json:"cons"`  // consensus state of the creation proposal
	Steps   []Step `json:"steps"`
	Tag     string `json:"tag"`
}

type ConsObs struct {
	Rev  uint64 `json:"rev"`
	Num  uint64 `json:"num"`
	ID   int    `json:"id"` // >= 0: the value is (time, height, root) of that node; -2: the creation consensus state; -1: see the explicit fields
	Time uint64 `json:"time"`
	CRev uint64 `json:"crev"`
	CNum uint64 `json:"cnum"`
	Root string `json:"root"`
}

type Obs struct {
	Class    int       `json:"class"` // 0 ok, 1 error, 2 panic
	Err      string    `json:"err,omitempty"`
	Head     int       `json:"head"`      // node whose marshalled bytes equal the client state header; -1 none
	RestSame bool      `json:"rest_same"` // chain id, contract, trusting period, delays as created
	Cons     []ConsObs `json:"cons"`      // store iteration order
	Idx      []int     `json:"idx"`       // header index entries: node stored under the key (its hash, its height); -1 = anything else
	RMain    [][2]int  `json:"rmain"`     // root-main entries: [node giving the key (root, height), node giving the value (hash, height)]; -1 = no such node
	Other    int       `json:"other"`     // keys of the client store outside the four families
}

type Oracle struct {
	Hash   string `json:"hash"`
	Ethash int    `json:"ethash"` // 1 seal accepted, 0 rejected, 2 not evaluated
}

type Result struct {
	Spec    Spec     `json:"spec"`
	Parents []string `json:"parents"` // materialised raw parent hash bytes per node
	Oracle  []Oracle `json:"oracle"`
	Create  Obs      `json:"create"`
	Obs     []Obs    `json:"obs"`
}

// ---------------------------------------------------------------------------------------------
// materialisation
// ---------------------------------------------------------------------------------------------

func toHeader(n Node, parent []byte) ethtypes.Header {
	return ethtypes.Header{
		ParentHash: parent, UncleHash: hlib.UnHex(n.Uncle), Coinbase: hlib.UnHex(n.Coinbase), Root: hlib.UnHex(n.Root),
		TxHash: hlib.UnHex(n.Tx), ReceiptHash: hlib.UnHex(n.Receipt), Bloom: hlib.UnHex(n.Bloom), Difficulty: hlib.UnHex(n.Diff),
		Height: clienttypes.NewHeight(n.Rev, n.Num), GasLimit: n.GasLimit, GasUsed: n.GasUsed, Time: n.Time,
		Extra: hlib.UnHex(n.Extra), MixDigest: hlib.UnHex(n.Mix), Nonce: n.Nonce, BaseFee: hlib.UnHex(n.BaseFee),
	}
}

// safeHash: Header.Hash panics for a bloom longer than 256 bytes.
func safeHash(h ethtypes.Header) (out []byte) {
	defer func() {
		if r := recover(); r != nil {
			out = nil
		}
	}()
	x := h.Hash()
	return x.Bytes()
}

func modParent(hash []byte, mod string) []byte {
	out := append([]byte(nil), hash...)
	switch mod {
	case "prefix":
		return append([]byte{0xAB}, out...)
	case "flip":
		if len(out) > 0 {
			out[len(out)-1] ^= 1
		}
		return out
	case "trim":
		if len(out) > 0 {
			return out[1:]
		}
	}
	return out
}

// materialise computes every node's header with the real hash function (parents first: P < own index).
func materialise(sp Spec) ([]ethtypes.Header, [][]byte) {
	hs := make([]ethtypes.Header, len(sp.Nodes))
	hashes := make([][]byte, len(sp.Nodes))
	for i, n := range sp.Nodes {
		var parent []byte
		if n.P >= 0 && n.P < i {
			parent = modParent(hashes[n.P], n.PMod)
		} else {
			parent = hlib.UnHex(n.PHex)
		}
		hs[i] = toHeader(n, parent)
		hashes[i] = safeHash(hs[i])
	}
	return hs, hashes
}

// ---------------------------------------------------------------------------------------------
// running a case on the real code
// ---------------------------------------------------------------------------------------------

type env struct {
	k     clientkeeper.Keeper
	cdc   codec.BinaryCodec
	base  sdk.Context
	start time.Time
}

func newEnv() *env {
	teleport := app.Setup(false, nil)
	now := time.Unix(1700000000, 0)
	ctx := teleport.BaseApp.NewContext(false, tmproto.Header{Height: 3, Time: now})
	return &env{k: teleport.XIBCKeeper.ClientKeeper, cdc: teleport.AppCodec(), base: ctx, start: now}
}

var contractAddr = bytes.Repeat([]byte{9}, 20)

func errString(err error) string {
	s := err.Error()
	if len(s) > 160 {
		s = s[:160]
	}
	return s
}

func runCase(e *env, sp Spec) Result {
	hs, hashes := materialise(sp)
	res := Result{Spec: sp}
	marsh := make([][]byte, len(hs))
	for i := range hs {
		res.Parents = append(res.Parents, hlib.Hex(hs[i].ParentHash))
		res.Oracle = append(res.Oracle, Oracle{Hash: hlib.Hex(hashes[i]), Ethash: 2})
		h := hs[i]
		bz, err := e.cdc.MarshalInterface(&h)
		if err != nil {
			panic(err)
		}
		marsh[i] = bz
	}
	name := fmt.Sprintf("eth-verif-%d", sp.ID)
	ctx, _ := e.base.CacheContext() // the whole case runs on a branch that is never written back
	created := &ethtypes.ClientState{
		Header: hs[0], ChainId: sp.ChainID, ContractAddress: contractAddr, TrustingPeriod: sp.Trust, TimeDelay: 0, BlockDelay: 1,
	}
	cons := &ethtypes.ConsensusState{Timestamp: sp.Cons.Time, Height: clienttypes.NewHeight(sp.Cons.Rev, sp.Cons.Num), Root: hlib.UnHex(sp.Cons.Root)}
	ob := func(c sdk.Context) Obs { return observe(e, c, name, sp, hs, hashes, marsh) }

	var cerr error
	panicked, pv := hlib.Catch(func() { cerr = e.k.CreateClient(ctx, name, created, cons) })
	res.Create = ob(ctx)
	switch {
	case panicked:
		res.Create.Class, res.Create.Err = 2, pv
	case cerr != nil:
		res.Create.Class, res.Create.Err = 1, errString(cerr)
	}
	if res.Create.Class != 0 {
		return res
	}
	// The real seal check costs seconds (a fresh ethash cache per call), so it is tabulated only for the nodes whose
	// update was accepted or refused with the eth client's "header invalid" code (the code of a failed seal
	// check).  The Coq side reports it as a mismatch if the model consults an entry that was not tabulated.
	needSeal := func(i int, err error) {
		if sp.ChainID == 4 || res.Oracle[i].Ethash != 2 || len(hs[i].Bloom) > 256 {
			return
		}
		if err != nil {
			space, code, _ := sdkerrors.ABCIInfo(err, false)
			if !(space == ethtypes.ErrHeader.Codespace() && code == ethtypes.ErrHeader.ABCICode()) {
				return
			}
		}
		h := hs[i]
		v := 0
		hlib.Catch(func() {
			if ethtypes.VerifyCascadingFields(h) == nil {
				v = 1
			}
		})
		res.Oracle[i].Ethash = v
	}
	for _, st := range sp.Steps {
		if st.N < 0 || st.N >= len(hs) {
			res.Obs = append(res.Obs, Obs{Class: 1, Err: "no such node"})
			continue
		}
		cctx, write := ctx.CacheContext()
		cctx = cctx.WithBlockTime(time.Unix(int64(st.BT), 0))
		hdr := hs[st.N]
		var err error
		panicked, pv := hlib.Catch(func() {
			if sp.Mode == "raw" {
				err = rawUpdate(e, cctx, name, &hdr)
			} else {
				err = e.k.UpdateClient(cctx, name, &hdr)
			}
		})
		if !panicked {
			needSeal(st.N, err)
		}
		var o Obs
		switch {
		case panicked:
			o = ob(ctx)
			o.Class, o.Err = 2, pv
		case err != nil:
			o = ob(ctx) // the message handler's state branch is dropped
			o.Class, o.Err = 1, errString(err)
		case st.Probe:
			o = ob(cctx) // observed on the branch, then dropped
		default:
			write()
			o = ob(ctx)
		}
		res.Obs = append(res.Obs, o)
	}
	return res
}

// rawUpdate: CheckHeaderAndUpdateState on the client store followed by the two writes of the keeper
// (client state, consensus state at the header's height); no status gate.
func rawUpdate(e *env, ctx sdk.Context, name string, hdr *ethtypes.Header) error {
	cs, found := e.k.GetClientState(ctx, name)
	if !found {
		return fmt.Errorf("client not found")
	}
	ncs, ncons, err := cs.CheckHeaderAndUpdateState(ctx, e.cdc, e.k.ClientStore(ctx, name), hdr)
	if err != nil {
		return err
	}
	e.k.SetClientState(ctx, name, ncs)
	e.k.SetClientConsensusState(ctx, name, hdr.GetHeight(), ncons)
	return nil
}

func observe(e *env, ctx sdk.Context, name string, sp Spec, hs []ethtypes.Header, hashes [][]byte, marsh [][]byte) Obs {
	o := Obs{Head: -1, Cons: []ConsObs{}, Idx: []int{}, RMain: [][2]int{}}
	csI, found := e.k.GetClientState(ctx, name)
	if found {
		if cs, ok := csI.(*ethtypes.ClientState); ok {
			hd := cs.Header
			bz, err := e.cdc.MarshalInterface(&hd)
			if err == nil {
				for i := range marsh {
					if bytes.Equal(marsh[i], bz) {
						o.Head = i
						break
					}
				}
			}
			o.RestSame = cs.ChainId == sp.ChainID && bytes.Equal(cs.ContractAddress, contractAddr) && cs.TrustingPeriod == sp.Trust &&
				cs.TimeDelay == 0 && cs.BlockDelay == 1
		}
	}
	store := e.k.ClientStore(ctx, name)
	it := store.Iterator(nil, nil)
	defer it.Close()
	idxPrefix := []byte(ethtypes.KeyIndexEthHeaderPrefix + "/")
	rmPrefix := []byte(ethtypes.KeyMainRootPrefix + "/")
	consPrefix := []byte(host.KeyConsensusStatePrefix + "/")
	for ; it.Valid(); it.Next() {
		k, v := it.Key(), it.Value()
		switch {
		case bytes.Equal(k, []byte(host.KeyClientState)):
		case bytes.HasPrefix(k, idxPrefix):
			o.Idx = append(o.Idx, matchIdx(k[len(idxPrefix):], v, hs, hashes, marsh))
		case bytes.HasPrefix(k, rmPrefix):
			o.RMain = append(o.RMain, matchRMain(k[len(rmPrefix):], v, hs, hashes))
		case bytes.HasPrefix(k, consPrefix) && len(k) == len(consPrefix)+16:
			o.Cons = append(o.Cons, matchCons(e, k[len(consPrefix):], v, sp, hs))
		default:
			o.Other++
		}
	}
	return o
}

// parseHashHeight: "0x<64 hex digits><decimal height>"
func parseHashHeight(s []byte) ([]byte, uint64, bool) {
	if len(s) < 67 || s[0] != '0' || s[1] != 'x' {
		return nil, 0, false
	}
	h := common.FromHex(string(s[:66]))
	n, err := strconv.ParseUint(string(s[66:]), 10, 64)
	if err != nil || len(h) != 32 {
		return nil, 0, false
	}
	return h, n, true
}

func matchIdx(suffix, val []byte, hs []ethtypes.Header, hashes [][]byte, marsh [][]byte) int {
	hash, num, ok := parseHashHeight(suffix)
	if !ok {
		return -1
	}
	for i := range hs {
		if hashes[i] != nil && bytes.Equal(hashes[i], hash) && hs[i].Height.RevisionHeight == num && bytes.Equal(marsh[i], val) {
			return i
		}
	}
	return -1
}

func matchRMain(suffix, val []byte, hs []ethtypes.Header, hashes [][]byte) [2]int {
	out := [2]int{-1, -1}
	root, num, ok := parseHashHeight(suffix)
	if ok {
		for i := range hs {
			if bytes.Equal(common.BytesToHash(hs[i].Root).Bytes(), root) && hs[i].Height.RevisionHeight == num {
				out[0] = i
				break
			}
		}
	}
	pre := []byte(ethtypes.KeyIndexEthHeaderPrefix + "/")
	if bytes.HasPrefix(val, pre) {
		hash, vnum, ok2 := parseHashHeight(val[len(pre):])
		if ok2 {
			for i := range hs {
				if hashes[i] != nil && bytes.Equal(hashes[i], hash) && hs[i].Height.RevisionHeight == vnum {
					out[1] = i
					break
				}
			}
		}
	}
	return out
}

func matchCons(e *env, suffix, val []byte, sp Spec, hs []ethtypes.Header) ConsObs {
	c := ConsObs{Rev: sdk.BigEndianToUint64(suffix[:8]), Num: sdk.BigEndianToUint64(suffix[8:16]), ID: -1}
	var ci exported.ConsensusState
	if err := e.cdc.UnmarshalInterface(val, &ci); err != nil {
		c.Root = "unmarshal-error"
		return c
	}
	cs, ok := ci.(*ethtypes.ConsensusState)
	if !ok {
		c.Root = "wrong-type"
		return c
	}
	c.Time, c.CRev, c.CNum, c.Root = cs.Timestamp, cs.Height.RevisionNumber, cs.Height.RevisionHeight, hlib.Hex(cs.Root)
	for i := range hs {
		if hs[i].Time == cs.Timestamp && hs[i].Height.RevisionNumber == c.CRev && hs[i].Height.RevisionHeight == c.CNum && bytes.Equal(hs[i].Root, cs.Root) {
			c.ID = i
			c.Root = ""
			return c
		}
	}
	if sp.Cons.Time == c.Time && sp.Cons.Rev == c.CRev && sp.Cons.Num == c.CNum && strings.EqualFold(sp.Cons.Root, c.Root) {
		c.ID = -2
		c.Root = ""
	}
	return c
}

// ---------------------------------------------------------------------------------------------

func main() {
	seed := flag.Uint64("seed", 1, "PRNG seed")
	n := flag.Int("n", 50, "number of random tree cases")
	perms := flag.Int("perms", 4, "exhaustive submission orders for all trees with up to this many non-root nodes")
	muts := flag.Int("muts", 2, "number of single-field mutation sweeps")
	fixture := flag.String("fixture", "", "path of testdata/update_headers.json: adds the main-net case with the real ethash check")
	out := flag.String("out", "", "output JSONL")
	in := flag.String("in", "", "replay the specs of this JSONL file instead of generating")
	calc := flag.Int("calc", 0, "number of random (parent, time, gas limit) triples for the function-level differential")
	calcOut := flag.String("calcout", "", "output JSONL of the function-level differential (calc.go)")
	calcFixture := flag.String("calcfixture", "", "path of testdata/update_headers.json: consecutive main-net headers as (parent, child) pairs")
	calcIn := flag.String("calcin", "", "replay the function-level cases of this JSONL file")
	flag.Parse()
	if *calcOut != "" {
		runCalc(hlib.NewRand(*seed), *calc, *calcFixture, *calcIn, *calcOut)
		if *calcIn != "" {
			return
		}
	}
	if *out == "" {
		fmt.Fprintln(os.Stderr, "need -out")
		os.Exit(2)
	}
	e := newEnv()
	w := hlib.NewOut(*out)
	defer w.Close()
	if *in != "" {
		hlib.ReadLines(*in, func(line []byte) {
			var sp Spec
			if err := json.Unmarshal(line, &sp); err != nil {
				panic(err)
			}
			w.Emit(runCase(e, sp))
		})
		return
	}
	id := 0
	emit := func(sp Spec) {
		sp.ID = id
		id++
		w.Emit(runCase(e, sp))
	}
	generate(hlib.NewRand(*seed), *n, *perms, *muts, *fixture, emit)
}
