package main

import (
	"fmt"
	"strings"

	"verifharness/hlib"
)

var coinPool = []string{"acoin", "bcoin", "ccoin", "dcoin", "ecoin", "fcoin", "gcoin", "hcoin", "icoin", "jcoin"}

type tok struct {
	name, symbol string
	dec          int
}

// ERC20 shapes: mostly ("coin","CN",18) so that UpdateTokenPairERC20 finds matching metadata
var tokPool = []tok{
	{"coin", "CN", 18}, {"coin", "CN", 18}, {"coin", "CN", 18}, {"coin", "CN", 18}, {"coin", "CN", 6},
	{"coin token", "CN", 18}, {"Coin", "CN", 18}, {"foo", "FOO", 18}, {"zero", "ZR", 0}, {"ab", "AB", 18}, {"x y", "XY", 8}, {"coin", "", 18},
}

func unit(d string, e uint32) Unit { return Unit{D: d, E: e} }

// metadata of a coin that UpdateTokenPairERC20 can later move to a ("coin","CN",18) contract
func updatableMD(base, name string) *MD {
	return &MD{Base: base, Name: name, Symbol: "CN", Display: "coin", Desc: "@self", Units: []Unit{unit(base, 0), unit("coin", 18)}}
}

func simpleMD(base, name string) *MD {
	return &MD{Base: base, Name: name, Symbol: strings.ToUpper(base), Display: base, Desc: "the " + base + " coin", Units: []Unit{unit(base, 0)}}
}

func ibcDenom(r *hlib.Rand) string {
	return "ibc/" + strings.ToUpper(hlib.Hex(r.Bytes(32)))
}

type gen struct {
	r        *hlib.Rand
	ops      []Op
	nAddr    int      // addresses known so far (mirrors runner.addrs: deployed, module-deployed, referenced)
	deployed []int    // indices of deployed ERC20 contracts
	coinTok  []int    // deployed contracts of the ("coin","CN",18) shape
	reg      []int    // indices believed to be registered contracts
	used     []string // denominations believed to be registered
	free     []string // coin denominations not used yet
	disabled bool
}

func (g *gen) bogus() string {
	g.nAddr++
	return fmt.Sprintf("@%d", g.nAddr-1) // an address nobody deployed (the runner appends it to its list)
}

func (g *gen) spell(i int) string {
	s := fmt.Sprintf("@%d", i)
	switch g.r.Intn(16) {
	case 0:
		return s + "l"
	case 1:
		return s + "n"
	case 2:
		return s + "u"
	case 3:
		return s + "N"
	}
	return s
}

func (g *gen) regRef() string {
	if len(g.reg) > 0 && !g.r.Chance(1, 6) {
		return g.spell(g.reg[g.r.Intn(len(g.reg))])
	}
	return g.addrRef()
}

func (g *gen) addrRef() string {
	if g.nAddr == 0 || g.r.Chance(1, 14) {
		return g.bogus()
	}
	return g.spell(g.r.Intn(g.nAddr))
}

func (g *gen) special() string {
	n := g.nAddr
	if n == 0 {
		n = 1
	}
	switch g.r.Intn(4) {
	case 0:
		return fmt.Sprintf("@den%d", g.r.Intn(n))
	case 1:
		return fmt.Sprintf("@%dn", g.r.Intn(n)) // 40 hex digits: valid denomination when it starts with a letter
	case 2:
		return fmt.Sprintf("@%dN", g.r.Intn(n))
	}
	return "@evm"
}

// a denomination to look up / convert / toggle
func (g *gen) denom() string {
	if len(g.used) > 0 && g.r.Chance(2, 3) {
		return g.used[g.r.Intn(len(g.used))]
	}
	if g.r.Chance(1, 3) {
		return g.special()
	}
	return coinPool[g.r.Intn(len(coinPool))]
}

// a denomination to register
func (g *gen) newBase() string {
	switch {
	case g.r.Chance(1, 9):
		return g.special()
	case len(g.used) > 0 && g.r.Chance(1, 7):
		return g.used[g.r.Intn(len(g.used))]
	case len(g.free) > 0:
		i := g.r.Intn(len(g.free))
		d := g.free[i]
		g.free = append(g.free[:i:i], g.free[i+1:]...)
		return d
	}
	return coinPool[g.r.Intn(len(coinPool))]
}

func (g *gen) coinMD(updatable bool) *MD {
	base := g.newBase()
	name := base
	switch g.r.Intn(7) {
	case 0:
		name = coinPool[g.r.Intn(len(coinPool))] // the Name of another (possibly registered) denomination
	case 1:
		name = "Coin " + base
	}
	var md *MD
	if updatable {
		md = updatableMD(base, name)
	} else {
		md = simpleMD(base, name)
	}
	// malformed stream
	switch g.r.Intn(60) {
	case 0:
		md.Units = nil
	case 1:
		md.Base = "ab"
		md.Units[0].D = "ab"
	case 2:
		md.Units = append(md.Units, unit("zcoin", 30), unit("ycoin", 30))
	case 3:
		md.Name = "  "
	case 4:
		md.Symbol = ""
	case 5:
		md.Display = "nodisplay"
	case 6:
		md.Base = "a/b-c" // valid denomination, refused by validateIBC
		md.Units[0].D = md.Base
		if md.Display == base {
			md.Display = md.Base
		}
	case 7:
		b := ibcDenom(g.r)
		md = &MD{Base: b, Name: "channel-0 coin", Symbol: "ibcCN", Display: b, Desc: "ibc voucher", Units: []Unit{unit(b, 0)}}
	case 8:
		b := ibcDenom(g.r)
		md = &MD{Base: b, Name: "no chan", Symbol: "CN", Display: b, Desc: "ibc voucher", Units: []Unit{unit(b, 0)}}
	case 9:
		md.Units[0].E = 1
	case 10:
		md.Base = "ibc/zz"
		md.Units[0].D = md.Base
	case 11:
		md.Units = append(md.Units, unit(base, 40))
	}
	return md
}

func (g *gen) add(o Op) { g.ops = append(g.ops, o) }

func (g *gen) deploy(coin bool) int {
	t := tokPool[g.r.Intn(len(tokPool))]
	if coin {
		t = tokPool[0]
	}
	g.add(Op{K: "deploy", Name: t.name, Symbol: t.symbol, Decimals: t.dec})
	g.nAddr++
	g.deployed = append(g.deployed, g.nAddr-1)
	if t == tokPool[0] {
		g.coinTok = append(g.coinTok, g.nAddr-1)
	}
	return g.nAddr - 1
}

func (g *gen) genesis() {
	n := 1 + g.r.Intn(3)
	op := Op{K: "genesis"}
	for i := 0; i < n; i++ {
		p := GPair{Text: fmt.Sprintf("@%d", i), Enabled: !g.r.Chance(1, 5), Owner: 1 + g.r.Intn(2)}
		switch g.r.Intn(14) {
		case 0:
			p.Text += "l"
		case 1:
			p.Text += "n"
		case 2:
			if i > 0 {
				p.Text = fmt.Sprintf("@%dl", i-1) // the previous pair's contract, spelled differently
			}
		case 3:
			if i > 0 {
				p.Text = fmt.Sprintf("@%d", i-1)
			}
		case 4:
			p.Text = "0xnothex"
		}
		nd := 1 + g.r.Intn(3)
		for j := 0; j < nd && len(g.free) > 0; j++ {
			d := g.free[0]
			g.free = g.free[1:]
			switch g.r.Intn(36) {
			case 0:
				d = coinPool[g.r.Intn(len(coinPool))] // possibly a duplicate (of another pair, in any position)
			case 1:
				d = fmt.Sprintf("@%dn", i)
			case 2:
				d = "1bad"
			}
			p.Denoms = append(p.Denoms, d)
			g.used = append(g.used, d)
			if g.r.Chance(3, 4) {
				m := MD{Base: d, Name: d, Symbol: "CN", Display: "coin", Desc: fmt.Sprintf("@desc%d", i), Units: []Unit{unit(d, 0), unit("coin", 18)}}
				op.Metas = append(op.Metas, m)
			}
		}
		if g.r.Chance(1, 40) {
			p.Denoms = nil
		}
		op.Pairs = append(op.Pairs, p)
		g.reg = append(g.reg, i)
	}
	g.add(op)
	g.nAddr += n
}

func genSpec(r *hlib.Rand, id, steps int) Spec {
	g := &gen{r: r, free: append([]string{}, coinPool...)}
	if r.Chance(1, 4) {
		g.genesis()
	}
	n := 8 + r.Intn(steps)
	for len(g.ops) < n {
		switch x := r.Intn(100); {
		case x < 6:
			if len(g.deployed) < 6 {
				g.deploy(false)
			}
		case x < 20:
			md := g.coinMD(r.Chance(2, 3))
			if !r.Chance(1, 10) {
				g.add(Op{K: "supply", A: md.Base})
			}
			g.add(Op{K: "regcoin", MD: md})
			g.nAddr++ // the address the module (would have) deployed; the runner appends it in any case
			g.reg = append(g.reg, g.nAddr-1)
			g.used = append(g.used, md.Base)
		case x < 40:
			md := g.coinMD(false)
			md.Desc = "added coin"
			if !r.Chance(1, 10) {
				g.add(Op{K: "supply", A: md.Base})
			}
			c := g.regRef()
			if r.Chance(1, 40) {
				c = "nothex"
			}
			g.add(Op{K: "addcoin", MD: md, A: c})
			g.used = append(g.used, md.Base)
		case x < 52:
			var i int
			if len(g.deployed) == 0 || (r.Chance(1, 2) && len(g.deployed) < 6) {
				i = g.deploy(r.Chance(2, 3))
			} else {
				i = g.deployed[r.Intn(len(g.deployed))]
			}
			t := g.spell(i)
			if r.Chance(1, 10) {
				t = g.addrRef()
			}
			g.add(Op{K: "regerc20", A: t})
			g.reg = append(g.reg, i)
			g.used = append(g.used, fmt.Sprintf("@den%d", i))
		case x < 62:
			t := g.regRef()
			if r.Chance(1, 2) {
				t = g.denom()
			}
			g.add(Op{K: "toggle", A: t})
		case x < 80:
			if len(g.reg) > 0 && r.Chance(3, 4) && len(g.deployed) < 7 {
				j := g.deploy(!r.Chance(1, 6)) // a fresh contract to move to
				i := g.reg[r.Intn(len(g.reg))]
				g.add(Op{K: "update", A: g.spell(i), B: g.spell(j)})
				g.reg = append(g.reg, j)
			} else {
				g.add(Op{K: "update", A: g.regRef(), B: g.addrRef()})
			}
		case x < 87:
			g.add(Op{K: "convcoin", A: g.denom()})
		case x < 92:
			g.add(Op{K: "converc20", A: g.regRef(), B: g.denom()})
		case x < 94:
			g.disabled = !g.disabled
			g.add(Op{K: "enable", On: !g.disabled})
		case x < 95:
			// the aggregate proposals that do not concern the registry
			g.add(Op{K: []string{"trace", "limiton", "limitoff"}[r.Intn(3)], A: g.regRef(), Decimals: r.Intn(20)})
		case x < 98:
			if len(g.ops) > n/2 && len(g.reg) > 0 {
				g.add(Op{K: "destroy", A: g.regRef()})
				g.add(Op{K: "convcoin", A: g.denom()})
				g.add(Op{K: "converc20", A: g.regRef(), B: g.denom()})
			}
		default:
			if g.disabled {
				g.disabled = false
				g.add(Op{K: "enable", On: true})
			}
		}
	}
	return Spec{ID: id, Ops: g.ops}
}

// targeted sequences: the witnesses of every defect found so far (all repaired at /repo HEAD); they keep the
// check sensitive to a regression of each repair for every seed
func targeted() []Spec {
	coin := func(k string) Op { return Op{K: "deploy", Name: "coin", Symbol: "CN", Decimals: 18} }
	sup := func(d string) Op { return Op{K: "supply", A: d} }
	return append(directed(), []Spec{
		// D6: update of a multi-denomination pair
		{ID: -1, Ops: []Op{coin(""), coin(""), {K: "regerc20", A: "@0"}, sup("dcoin"), {K: "addcoin", A: "@0", MD: simpleMD("dcoin", "dcoin")},
			{K: "update", A: "@0", B: "@1"}, {K: "convcoin", A: "dcoin"}, {K: "toggle", A: "dcoin"}}},
		// D6 on a module-owned pair
		{ID: -2, Ops: []Op{sup("acoin"), {K: "regcoin", MD: updatableMD("acoin", "acoin")}, sup("bcoin"), {K: "addcoin", A: "@0", MD: simpleMD("bcoin", "bcoin")},
			sup("ccoin"), {K: "addcoin", A: "@0l", MD: simpleMD("ccoin", "ccoin")}, coin(""), {K: "update", A: "@0", B: "@1"}, {K: "convcoin", A: "ccoin"}}},
		// AGG1: update to an address that belongs to another pair
		{ID: -3, Ops: []Op{coin(""), coin(""), {K: "regerc20", A: "@0"}, {K: "regerc20", A: "@1"}, {K: "update", A: "@0", B: "@1"}, {K: "update", A: "@0", B: "@0"},
			{K: "converc20", A: "@1", B: "@den1"}}},
		// AGG2: the contract's own hex rendering as denomination
		{ID: -4, Ops: []Op{coin(""), {K: "regerc20", A: "@0"}, {K: "converc20", A: "@0", B: "@0n"}, {K: "convcoin", A: "@0n"}}},
		// AGG3: genesis with a denomination in two pairs / twice in one pair / no denomination
		{ID: -5, Ops: []Op{{K: "genesis", Pairs: []GPair{{Text: "@0", Denoms: []string{"acoin", "ccoin"}, Enabled: true, Owner: 1}, {Text: "@1", Denoms: []string{"bcoin", "ccoin"}, Enabled: true, Owner: 2}}}}},
		{ID: -6, Ops: []Op{{K: "genesis", Pairs: []GPair{{Text: "@0", Denoms: []string{"acoin", "bcoin", "bcoin"}, Enabled: true, Owner: 1}}}}},
		{ID: -7, Ops: []Op{{K: "genesis", Pairs: []GPair{{Text: "@0", Denoms: nil, Enabled: true, Owner: 1}}}}},
		// C12a: a coin whose base reads as the address of a registered contract
		{ID: -8, Ops: []Op{coin(""), {K: "regerc20", A: "@0"}, sup("@0n"), {K: "regcoin", MD: simpleMD("@0n", "hexcoin")}, {K: "toggle", A: "@0n"}, {K: "convcoin", A: "@0n"},
			sup("@0N"), {K: "addcoin", A: "@0", MD: simpleMD("@0N", "hexcoin2")}}},
		{ID: -9, Ops: []Op{{K: "genesis", Pairs: []GPair{{Text: "@0", Denoms: []string{"acoin", "@0n"}, Enabled: true, Owner: 1}}}}},
		// C12b: a genesis pair without bank metadata, then the same base under another name
		{ID: -10, Ops: []Op{{K: "genesis", Pairs: []GPair{{Text: "@0", Denoms: []string{"dcoin"}, Enabled: true, Owner: 1}, {Text: "@1", Denoms: []string{"ecoin"}, Enabled: true, Owner: 1}}},
			sup("dcoin"), {K: "regcoin", MD: simpleMD("dcoin", "Other name")}, {K: "addcoin", A: "@1", MD: simpleMD("dcoin", "Another")}, sup("fcoin"), {K: "regcoin", MD: simpleMD("fcoin", "dcoin")}}},
		// C12c: one contract spelled in two ways
		{ID: -11, Ops: []Op{{K: "genesis", Pairs: []GPair{{Text: "@0", Denoms: []string{"dcoin"}, Enabled: true, Owner: 1}, {Text: "@0l", Denoms: []string{"ecoin"}, Enabled: true, Owner: 1}}}}},
		{ID: -12, Ops: []Op{{K: "genesis", Pairs: []GPair{{Text: "@0n", Denoms: []string{"dcoin"}, Enabled: true, Owner: 1}, {Text: "@0u", Denoms: []string{"ecoin"}, Enabled: true, Owner: 2}}}}},
		// self-destruct clean-up through both conversion messages, pair with two denominations
		{ID: -13, Ops: []Op{coin(""), {K: "regerc20", A: "@0"}, sup("dcoin"), {K: "addcoin", A: "@0", MD: simpleMD("dcoin", "dcoin")}, {K: "destroy", A: "@0"}, {K: "convcoin", A: "dcoin"},
			coin(""), {K: "regerc20", A: "@1"}, {K: "destroy", A: "@1"}, {K: "converc20", A: "@1", B: "@den1"}}},
		// genesis pairs whose contract is NOT spelled in EIP-55 form (lower case, no prefix): ids hash the spelling as
		// written; the pairs stay reachable, can be toggled, extended and moved to a new contract
		{ID: -16, Ops: []Op{{K: "genesis", Pairs: []GPair{{Text: "@0l", Denoms: []string{"acoin", "bcoin"}, Enabled: true, Owner: 2}, {Text: "@1n", Denoms: []string{"ccoin"}, Enabled: true, Owner: 1}},
			Metas: []MD{{Base: "acoin", Name: "acoin", Symbol: "CN", Display: "coin", Desc: "@desc0", Units: []Unit{unit("acoin", 0), unit("coin", 18)}}}},
			{K: "toggle", A: "acoin"}, {K: "toggle", A: "@0"}, sup("dcoin"), {K: "addcoin", A: "@1u", MD: simpleMD("dcoin", "dcoin")},
			coin(""), {K: "update", A: "@0u", B: "@2"}, {K: "convcoin", A: "bcoin"}, {K: "converc20", A: "@2", B: "bcoin"}, {K: "convcoin", A: "ccoin"}}},
		// EqualMetadata's pointer comparison: after the clean-up the metadata of dcoin stays, so an identical
		// second registration (RegisterCoin and AddCoin) is refused by verifyMetadata
		{ID: -15, Ops: []Op{sup("dcoin"), {K: "regcoin", MD: simpleMD("dcoin", "dcoin")}, {K: "destroy", A: "@0"}, {K: "convcoin", A: "dcoin"},
			{K: "regcoin", MD: simpleMD("dcoin", "dcoin")}, coin(""), {K: "regerc20", A: "@2"}, {K: "addcoin", A: "@2", MD: simpleMD("dcoin", "dcoin")}}},
		// the masked Name test and the pointer comparison (same base twice: identical metadata, other name)
		{ID: -14, Ops: []Op{sup("dcoin"), sup("ecoin"), {K: "regcoin", MD: simpleMD("dcoin", "dcoin")}, {K: "regcoin", MD: simpleMD("dcoin", "dcoin")}, {K: "regcoin", MD: simpleMD("dcoin", "Other name")},
			{K: "regcoin", MD: simpleMD("ecoin", "dcoin")}, {K: "regcoin", MD: simpleMD("ecoin", "ecoin")}, {K: "enable", On: false}, {K: "toggle", A: "dcoin"}, {K: "convcoin", A: "dcoin"}, {K: "enable", On: true}}},
	}...)
}

// directed sequences for code paths that the witnesses above do not walk (they run first on every run, for every seed)
func directed() []Spec {
	coin := func() Op { return Op{K: "deploy", Name: "coin", Symbol: "CN", Decimals: 18} }
	sup := func(d string) Op { return Op{K: "supply", A: d} }
	ibcd := "ibc/27394FB092D2ECCD56123C74F36E4C1F926001CEADA9CA97EA622B25F41E5EB2"
	return []Spec{
		// metadata whose Name differs from its Base: the registry is keyed by the Base everywhere (RegisterCoin, AddCoin on an
		// external and on a module-owned pair), every denomination stays convertible, the contract resolves in every spelling
		{ID: -17, Ops: []Op{coin(), {K: "regerc20", A: "@0"}, sup("dcoin"), {K: "addcoin", A: "@0", MD: simpleMD("dcoin", "Coin dcoin")},
			sup("ecoin"), {K: "regcoin", MD: simpleMD("ecoin", "Coin ecoin")}, sup("fcoin"), {K: "addcoin", A: "@1n", MD: simpleMD("fcoin", "ecoin")},
			{K: "convcoin", A: "dcoin"}, {K: "converc20", A: "@1u", B: "fcoin"}, {K: "toggle", A: "@1N"}, {K: "toggle", A: "fcoin"}}},
		// genesis files that TokenPair.Validate must refuse: invalid denomination, text that is no hex address
		{ID: -18, Ops: []Op{{K: "genesis", Pairs: []GPair{{Text: "@0", Denoms: []string{"acoin", "1bad"}, Enabled: true, Owner: 1}}},
			{K: "genesis", Pairs: []GPair{{Text: "@0", Denoms: []string{"acoin"}, Enabled: true, Owner: 1}, {Text: "@1", Denoms: []string{"bcoin", "1bad"}, Enabled: false, Owner: 2}}},
			{K: "genesis", Pairs: []GPair{{Text: "@0", Denoms: []string{"acoin"}, Enabled: false, Owner: 1}, {Text: "@1", Denoms: []string{"@1n"}, Enabled: false, Owner: 2}}}}},
		{ID: -19, Ops: []Op{{K: "genesis", Pairs: []GPair{{Text: "@0", Denoms: []string{"acoin"}, Enabled: true, Owner: 1}, {Text: "0xnothex", Denoms: []string{"bcoin"}, Enabled: true, Owner: 2}}}}},
		// after X -> Y: Y counts as registered (RegisterERC20 Y and an update of another pair to Y are refused), X is free
		// in the address index (its old denomination keeps its metadata, so RegisterERC20 X is refused for THAT reason);
		// moving back Y -> X works and the pair keeps all its denominations
		{ID: -20, Ops: []Op{coin(), coin(), coin(), {K: "regerc20", A: "@0"}, {K: "regerc20", A: "@2"}, sup("dcoin"), {K: "addcoin", A: "@0l", MD: simpleMD("dcoin", "dcoin")},
			{K: "update", A: "@0", B: "@1"}, {K: "regerc20", A: "@1"}, {K: "regerc20", A: "@0"}, {K: "update", A: "@2", B: "@1l"}, {K: "update", A: "@1u", B: "@0n"},
			{K: "convcoin", A: "dcoin"}, {K: "converc20", A: "@0", B: "@den0"}, {K: "converc20", A: "@1", B: "dcoin"}}},
		// the three aggregate proposals that must not touch the registry, on registered / unregistered / malformed addresses
		{ID: -21, Ops: []Op{coin(), {K: "regerc20", A: "@0"}, {K: "trace", A: "@0", Decimals: 6}, {K: "limiton", A: "@0"}, {K: "limitoff", A: "@0"},
			{K: "trace", A: "@1", Decimals: 19}, {K: "limitoff", A: "nothex"}, {K: "convcoin", A: "@den0"}}},
		// a module-owned pair grows to four denominations, is disabled, moved, enabled again; clean-up removes all six entries
		{ID: -22, Ops: []Op{sup("acoin"), {K: "regcoin", MD: updatableMD("acoin", "acoin")}, sup("bcoin"), {K: "addcoin", A: "@0", MD: simpleMD("bcoin", "bcoin")},
			sup("ccoin"), {K: "addcoin", A: "@0", MD: simpleMD("ccoin", "ccoin")}, sup(ibcd),
			{K: "addcoin", A: "@0", MD: &MD{Base: ibcd, Name: "channel-0 atom", Symbol: "ibcATOM", Display: ibcd, Desc: "voucher", Units: []Unit{unit(ibcd, 0)}}},
			{K: "toggle", A: "ccoin"}, {K: "convcoin", A: "bcoin"}, {K: "converc20", A: "@0", B: "acoin"}, coin(), {K: "update", A: "@0", B: "@1"},
			{K: "convcoin", A: "ccoin"}, {K: "toggle", A: "@1"}, {K: "convcoin", A: ibcd},
			{K: "destroy", A: "@1"}, {K: "converc20", A: "@1", B: "bcoin"}}},
		// every refusal of UpdateTokenPairERC20's comparison of the stored metadata with the new contract (symbol, unit
		// exponent, description), the EVM denomination as base, and ValidateBasic refusals of malformed addresses / tokens
		{ID: -23, Ops: []Op{coin(), {K: "regerc20", A: "@0"}, {K: "deploy", Name: "coin", Symbol: "XX", Decimals: 18}, {K: "update", A: "@0", B: "@1"},
			{K: "deploy", Name: "coin", Symbol: "CN", Decimals: 6}, {K: "update", A: "@0", B: "@2"},
			sup("gcoin"), {K: "regcoin", MD: &MD{Base: "gcoin", Name: "gcoin", Symbol: "CN", Display: "coin", Desc: "wrong description", Units: []Unit{unit("gcoin", 0), unit("coin", 18)}}},
			coin(), {K: "update", A: "@3", B: "@4"},
			sup("@evm"), {K: "regcoin", MD: simpleMD("@evm", "@evm")}, {K: "addcoin", A: "@0", MD: simpleMD("@evm", "@evm")},
			{K: "regerc20", A: "nothex"}, {K: "toggle", A: "1x"}, {K: "update", A: "nothex", B: "@0"}, {K: "update", A: "@0", B: "zz"}, {K: "converc20", A: "nothex", B: "gcoin"},
			{K: "convcoin", A: "gcoin"}}},
		// a genesis pair that lists the voucher denomination of a contract it does not own, without bank metadata:
		// RegisterERC20 of that contract is refused by the denomination index (not by the metadata test)
		{ID: -24, Ops: []Op{coin(), {K: "genesis", Pairs: []GPair{{Text: "@1", Denoms: []string{"@den0", "acoin"}, Enabled: true, Owner: 2},
			{Text: "@2l", Denoms: []string{"bcoin", "ccoin"}, Enabled: false, Owner: 1}}}, {K: "regerc20", A: "@0"},
			{K: "convcoin", A: "@den0"}, {K: "toggle", A: "@0"}, {K: "toggle", A: "@1"}, {K: "convcoin", A: "ccoin"}, {K: "toggle", A: "ccoin"}, {K: "convcoin", A: "ccoin"}}},
		// genesis files with DISABLED pairs are validated and imported like any other: a disabled pair may not share its
		// contract (in another spelling) or a denomination with another pair
		{ID: -25, Ops: []Op{{K: "genesis", Pairs: []GPair{{Text: "@0", Denoms: []string{"acoin"}, Enabled: true, Owner: 1}, {Text: "@0u", Denoms: []string{"bcoin"}, Enabled: false, Owner: 2}}}}},
		{ID: -26, Ops: []Op{{K: "genesis", Pairs: []GPair{{Text: "@0", Denoms: []string{"acoin", "bcoin"}, Enabled: false, Owner: 1}, {Text: "@1", Denoms: []string{"ccoin", "bcoin"}, Enabled: false, Owner: 2}}}}},
	}
}
