package main

import "verifharness/hlib"

func genSpec(r *hlib.Rand, id, steps int) Spec {
	return Spec{ID: id}
}
