// c12: drives the REAL token-pair registry of x/aggregate — the governance proposal handler registered in
// the app's gov router (executed the way gov's EndBlocker does: ValidateBasic at submission, handler on a
// cache context written only on success), the conversion messages (msg server, on a cache context written
// only on success, as DeliverTx does), self-destructed contracts, the EnableAggregate parameter change and
// genesis Validate + InitGenesis — over generated operation sequences, and records after every step the raw
// contents of the three store prefixes, the bank metadata, and GetTokenPairID / MintingEnabled for every
// token of the universe.
package main

import (
	"crypto/sha256"
	"encoding/hex"
	"encoding/json"
	"flag"
	"fmt"
	"math/big"
	"sort"
	"strconv"
	"strings"
	"time"

	sdk "github.com/cosmos/cosmos-sdk/types"
	authtypes "github.com/cosmos/cosmos-sdk/x/auth/types"
	banktypes "github.com/cosmos/cosmos-sdk/x/bank/types"
	govtypes "github.com/cosmos/cosmos-sdk/x/gov/types"
	"github.com/cosmos/cosmos-sdk/x/params"
	proposaltypes "github.com/cosmos/cosmos-sdk/x/params/types/proposal"
	stakingtypes "github.com/cosmos/cosmos-sdk/x/staking/types"
	"github.com/ethereum/go-ethereum/common"
	"github.com/ethereum/go-ethereum/crypto"
	"github.com/tendermint/tendermint/crypto/tmhash"
	tmproto "github.com/tendermint/tendermint/proto/tendermint/types"
	tmversion "github.com/tendermint/tendermint/proto/tendermint/version"
	"github.com/tendermint/tendermint/version"
	"github.com/tharsis/ethermint/crypto/ethsecp256k1"
	ethermint "github.com/tharsis/ethermint/types"
	"github.com/tharsis/ethermint/x/evm/statedb"

	"github.com/teleport-network/teleport/app"
	erc20contracts "github.com/teleport-network/teleport/syscontracts/erc20"
	"github.com/teleport-network/teleport/x/aggregate"
	aggtypes "github.com/teleport-network/teleport/x/aggregate/types"

	"verifharness/hlib"
)

// ---------------------------------------------------------------------------------------------------
// specs

type Unit struct {
	D string `json:"d"`
	E uint32 `json:"e"`
}

type MD struct {
	Base    string `json:"base"`
	Name    string `json:"name"`
	Symbol  string `json:"symbol"`
	Display string `json:"display"`
	Desc    string `json:"desc"`
	Units   []Unit `json:"units"`
}

type GPair struct {
	Text    string   `json:"text"`
	Denoms  []string `json:"denoms"`
	Enabled bool     `json:"enabled"`
	Owner   int      `json:"owner"`
}

// Op kinds: deploy destroy supply regcoin addcoin regerc20 toggle update convcoin converc20 enable genesis
// trace limiton limitoff (the three aggregate proposals that do not concern the registry: it must stay untouched)
// Strings may contain symbolic references resolved at run time (see resolve): "@<i>" canonical text of the i-th
// known address, "@<i>l" lower case, "@<i>n" lower case without 0x, "@<i>N" check-summed without 0x,
// "@den<i>" CreateDenom, "@desc<i>" CreateDenomDescription, "@self" description of the address the module is
// about to deploy, "@evm" the EVM denomination of the running app (evm params EvmDenom).
type Op struct {
	K        string  `json:"k"`
	Name     string  `json:"name,omitempty"`
	Symbol   string  `json:"symbol,omitempty"`
	Decimals int     `json:"decimals,omitempty"`
	A        string  `json:"a,omitempty"`
	B        string  `json:"b,omitempty"`
	MD       *MD     `json:"md,omitempty"`
	On       bool    `json:"on,omitempty"`
	Pairs    []GPair `json:"pairs,omitempty"`
	Metas    []MD    `json:"metas,omitempty"` // genesis: bank metadata present before the import
}

type Spec struct {
	ID  int  `json:"id"`
	Ops []Op `json:"ops"`
}

// ---------------------------------------------------------------------------------------------------
// observations

type PairD struct {
	ID      string   `json:"id"`
	Text    string   `json:"text"`
	Denoms  []string `json:"denoms"`
	Enabled bool     `json:"enabled"`
	Owner   int      `json:"owner"`
}

type Q struct {
	ERC20   *Q20 `json:"erc20,omitempty"` // QueryERC20 of the address the op is about to query (nil: query fails)
	Queried bool `json:"queried"`
}

type Q20 struct {
	Name     string `json:"name"`
	Symbol   string `json:"symbol"`
	Decimals int    `json:"decimals"`
	SName    string `json:"sname"` // types.SanitizeERC20Name(name)
}

type StepObs struct {
	Op        Op          `json:"op"` // with every reference resolved
	Class     int         `json:"class"` // 0 ok, 1 error, 2 panic, 3 rejected by ValidateBasic
	Panic     string      `json:"panic,omitempty"`
	Addr      string      `json:"addr,omitempty"`   // deploy: address created; regcoin: address the module will create
	Supply    bool        `json:"supply"`           // regcoin/addcoin: bankKeeper.HasSupply(base) before the op
	Q20       *Q20        `json:"q20,omitempty"`    // regerc20/update: QueryERC20 of the (new) contract before the op
	Live      []string    `json:"live"`             // addresses (hex) of the universe whose account is a contract, before the op
	Enable    bool        `json:"enable"`           // params.EnableAggregate after the op
	Pairs     []PairD     `json:"pairs"`            // raw prefix 0x01, sorted by key
	Erc20     [][2]string `json:"erc20"`            // raw prefix 0x02: address hex -> id hex
	Denom     [][2]string `json:"denom"`            // raw prefix 0x03: denom -> id hex
	Other     int         `json:"other"`            // keys of the aggregate store outside the three prefixes
	Meta      []MD        `json:"meta"`             // bank denom metadata, sorted by base
	Toks      []string    `json:"toks"`             // universe of token strings queried
	Ids       []string    `json:"ids"`              // GetTokenPairID(tok) hex ("" = nil) per tok
	ME        [][3]int    `json:"me"`               // (token index, denom index, pair index) for which MintingEnabled succeeds
	MEBadPair int         `json:"me_bad_pair"`      // MintingEnabled returned a pair that is not stored under its id
	// ExportGenesis of the registry after the step: 0 = the exported genesis passes GenesisState.Validate and InitGenesis of
	// it into an empty registry reproduces the three prefixes byte for byte; 1 = Validate refuses it; 2 = panic;
	// 4 = the re-import differs; 5 = the exported pairs are not the raw contents of prefix 0x01 in key order
	Export    int         `json:"export"`
	ExportErr string      `json:"export_err,omitempty"`
}

type Result struct {
	Spec     Spec        `json:"spec"`
	EvmDenom string      `json:"evm_denom"`
	Obs      []StepObs   `json:"obs"`
	IdTab    [][3]string `json:"idtab"` // (text, denom, hex of TokenPair{text,[denom]}.GetID())
	Canon    [][2]string `json:"canon"` // (address hex, Address.Hex())
}

// ---------------------------------------------------------------------------------------------------
// environment

type env struct {
	a        *app.Teleport
	base     sdk.Context
	deployer common.Address
}

func newEnv() *env {
	a := app.Setup(false, nil)
	// consensus key / proposer: the EVM needs a bonded proposer to resolve the coinbase
	var priv *ethsecp256k1.PrivKey
	var deployer common.Address
	// deterministic deployer whose first two contract addresses start with a hex LETTER (so that the
	// 40-hex-digit rendering of those addresses is a valid bank denomination: observation O5)
	for i := 0; ; i++ {
		h := sha256.Sum256([]byte("verif-c12-deployer-" + strconv.Itoa(i)))
		priv = &ethsecp256k1.PrivKey{Key: h[:]}
		deployer = common.BytesToAddress(priv.PubKey().Address().Bytes())
		ok := true
		for n := uint64(0); n < 2; n++ {
			s := strings.ToLower(crypto.CreateAddress(deployer, n).Hex()[2:])
			if s[0] < 'a' || s[0] > 'f' {
				ok = false
			}
		}
		if ok {
			break
		}
	}
	ch := sha256.Sum256([]byte("verif-c12-cons"))
	cpriv := &ethsecp256k1.PrivKey{Key: ch[:]}
	consAddr := sdk.ConsAddress(cpriv.PubKey().Address())
	ctx := a.BaseApp.NewContext(false, tmproto.Header{
		Height: 1, ChainID: "teleport_9000-1", Time: time.Unix(1700000000, 0).UTC(), ProposerAddress: consAddr.Bytes(),
		Version:     tmversion.Consensus{Block: version.BlockProtocol},
		LastBlockId: tmproto.BlockID{Hash: tmhash.Sum([]byte("block_id")), PartSetHeader: tmproto.PartSetHeader{Total: 11, Hash: tmhash.Sum([]byte("partset_header"))}},
		AppHash:     tmhash.Sum([]byte("app")), DataHash: tmhash.Sum([]byte("data")), EvidenceHash: tmhash.Sum([]byte("evidence")),
		ValidatorsHash: tmhash.Sum([]byte("validators")), NextValidatorsHash: tmhash.Sum([]byte("next_validators")),
		ConsensusHash: tmhash.Sum([]byte("consensus")), LastResultsHash: tmhash.Sum([]byte("last_result")),
	})
	acc := &ethermint.EthAccount{
		BaseAccount: authtypes.NewBaseAccount(sdk.AccAddress(deployer.Bytes()), nil, 0, 0),
		CodeHash:    common.BytesToHash(crypto.Keccak256(nil)).String(),
	}
	acc.AccountNumber = a.AccountKeeper.GetNextAccountNumber(ctx)
	a.AccountKeeper.SetAccount(ctx, acc)
	valAddr := sdk.ValAddress(deployer.Bytes())
	validator, err := stakingtypes.NewValidator(valAddr, cpriv.PubKey(), stakingtypes.Description{})
	if err != nil {
		panic(err)
	}
	if err := a.StakingKeeper.SetValidatorByConsAddr(ctx, validator); err != nil {
		panic(err)
	}
	a.StakingKeeper.SetValidator(ctx, validator)
	return &env{a: a, base: ctx, deployer: deployer}
}

// ---------------------------------------------------------------------------------------------------
// running one spec

type runner struct {
	e     *env
	ctx   sdk.Context
	addrs []common.Address // known addresses, in order of appearance
	toks  []string         // universe of token strings
	tset  map[string]bool
	texts map[string]bool
	dens  map[string]bool
}

func (r *runner) addTok(s string) {
	if s == "" || r.tset[s] {
		return
	}
	r.tset[s] = true
	r.toks = append(r.toks, s)
}

func (r *runner) addAddr(a common.Address) {
	for _, x := range r.addrs {
		if x == a {
			return
		}
	}
	r.addrs = append(r.addrs, a)
}

func (r *runner) addr(i int) common.Address {
	if i < len(r.addrs) {
		return r.addrs[i]
	}
	// an address nobody deployed
	return common.BytesToAddress([]byte{0xde, 0xad, byte(i)})
}

func (r *runner) moduleNext() common.Address {
	nonce, err := r.e.a.AccountKeeper.GetSequence(r.ctx, aggtypes.ModuleAddress.Bytes())
	if err != nil {
		return common.Address{}
	}
	return crypto.CreateAddress(aggtypes.ModuleAddress, nonce)
}

func (r *runner) resolve(s string) string {
	if !strings.HasPrefix(s, "@") {
		return s
	}
	if s == "@self" {
		return aggtypes.CreateDenomDescription(r.moduleNext().String())
	}
	if s == "@evm" {
		return r.e.a.EvmKeeper.GetParams(r.ctx).EvmDenom
	}
	body := s[1:]
	kind := ""
	for _, k := range []string{"den", "desc"} {
		if strings.HasPrefix(body, k) {
			kind = k
			body = body[len(k):]
		}
	}
	suffix := ""
	if n := len(body); n > 0 && (body[n-1] < '0' || body[n-1] > '9') {
		suffix = body[n-1:]
		body = body[:n-1]
	}
	i, err := strconv.Atoi(body)
	if err != nil {
		return s
	}
	a := r.addr(i)
	switch kind {
	case "den":
		return aggtypes.CreateDenom(a.String())
	case "desc":
		return aggtypes.CreateDenomDescription(a.String())
	}
	switch suffix {
	case "l":
		return strings.ToLower(a.Hex())
	case "n":
		return strings.ToLower(a.Hex()[2:])
	case "N":
		return a.Hex()[2:]
	case "u":
		return "0X" + strings.ToUpper(a.Hex()[2:])
	}
	return a.Hex()
}

func (r *runner) resolveMD(m *MD) *MD {
	if m == nil {
		return nil
	}
	out := MD{Base: r.resolve(m.Base), Name: r.resolve(m.Name), Symbol: r.resolve(m.Symbol), Display: r.resolve(m.Display), Desc: r.resolve(m.Desc)}
	for _, u := range m.Units {
		out.Units = append(out.Units, Unit{D: r.resolve(u.D), E: u.E})
	}
	return &out
}

func toBank(m *MD) banktypes.Metadata {
	md := banktypes.Metadata{Description: m.Desc, Base: m.Base, Display: m.Display, Name: m.Name, Symbol: m.Symbol}
	for _, u := range m.Units {
		md.DenomUnits = append(md.DenomUnits, &banktypes.DenomUnit{Denom: u.D, Exponent: u.E})
	}
	return md
}

func fromBank(m banktypes.Metadata) MD {
	out := MD{Base: m.Base, Name: m.Name, Symbol: m.Symbol, Display: m.Display, Desc: m.Description, Units: []Unit{}}
	for _, u := range m.DenomUnits {
		out.Units = append(out.Units, Unit{D: u.Denom, E: u.Exponent})
	}
	return out
}

// gov executes a proposal content the way the gov module does: stateless validation at submission, then the
// routed handler on a cache context that is written only when the handler returns nil (x/gov EndBlocker).
func (r *runner) gov(content govtypes.Content) (int, string) {
	if err := content.ValidateBasic(); err != nil {
		return 3, ""
	}
	if !r.e.a.GovKeeper.Router().HasRoute(content.ProposalRoute()) {
		return 1, ""
	}
	handler := r.e.a.GovKeeper.Router().GetRoute(content.ProposalRoute())
	cctx, write := r.ctx.CacheContext()
	var err error
	p, val := hlib.Catch(func() { err = handler(cctx, content) })
	if p {
		return 2, val
	}
	if err != nil {
		return 1, ""
	}
	write()
	return 0, ""
}

func (r *runner) query20(a common.Address) *Q20 {
	cctx, _ := r.ctx.CacheContext()
	var out *Q20
	hlib.Catch(func() {
		d, err := r.e.a.AggregateKeeper.QueryERC20(cctx, a)
		if err == nil {
			out = &Q20{Name: d.Name, Symbol: d.Symbol, Decimals: int(d.Decimals), SName: aggtypes.SanitizeERC20Name(d.Name)}
		}
	})
	return out
}

func (r *runner) live() []string {
	out := []string{}
	for _, a := range r.addrs {
		acc := r.e.a.EvmKeeper.GetAccountWithoutBalance(r.ctx, a)
		if acc != nil && acc.IsContract() {
			out = append(out, hex.EncodeToString(a.Bytes()))
		}
	}
	return out
}

func (r *runner) user() sdk.AccAddress { return sdk.AccAddress(r.e.deployer.Bytes()) }

func (r *runner) step(op Op) StepObs {
	a := r.e.a
	o := StepObs{}
	c := Op{K: op.K, Name: op.Name, Symbol: op.Symbol, Decimals: op.Decimals, A: r.resolve(op.A), B: r.resolve(op.B), MD: r.resolveMD(op.MD), On: op.On}
	for _, gp := range op.Pairs {
		g := GPair{Text: r.resolve(gp.Text), Enabled: gp.Enabled, Owner: gp.Owner, Denoms: []string{}}
		for _, d := range gp.Denoms {
			g.Denoms = append(g.Denoms, r.resolve(d))
		}
		c.Pairs = append(c.Pairs, g)
	}
	for i := range op.Metas {
		c.Metas = append(c.Metas, *r.resolveMD(&op.Metas[i]))
	}
	// universe bookkeeping
	for _, s := range []string{c.A, c.B} {
		if s != "" && c.K != "deploy" {
			r.addTok(s)
			if common.IsHexAddress(s) {
				r.addAddr(common.HexToAddress(s))
				r.texts[s] = true
			}
		}
	}
	if c.MD != nil {
		r.addTok(c.MD.Base)
		r.addTok(c.MD.Name)
		r.dens[c.MD.Base] = true
	}
	for _, g := range c.Pairs {
		if common.IsHexAddress(g.Text) {
			r.addAddr(common.HexToAddress(g.Text))
		}
		r.texts[g.Text] = true
		r.addTok(g.Text)
		for _, d := range g.Denoms {
			r.addTok(d)
			r.dens[d] = true
		}
	}
	o.Live = r.live()
	switch c.K {
	case "deploy":
		nonce, _ := a.AccountKeeper.GetSequence(r.ctx, r.e.deployer.Bytes())
		addr := crypto.CreateAddress(r.e.deployer, nonce)
		ctor, err := erc20contracts.ERC20MinterBurnerDecimalsContract.ABI.Pack("", c.Name, c.Symbol, uint8(c.Decimals))
		if err != nil {
			panic(err)
		}
		data := append(append([]byte{}, erc20contracts.ERC20MinterBurnerDecimalsContract.Bin...), ctor...)
		cctx, write := r.ctx.CacheContext()
		var cerr error
		p, val := hlib.Catch(func() { _, cerr = a.AggregateKeeper.CallEVMWithData(cctx, r.e.deployer, nil, data) })
		switch {
		case p:
			o.Class, o.Panic = 2, val
		case cerr != nil:
			o.Class = 1
		default:
			write()
			// give the deployer some tokens so that conversions can move something
			hlib.Catch(func() {
				a.AggregateKeeper.CallEVM(r.ctx, erc20contracts.ERC20MinterBurnerDecimalsContract.ABI, r.e.deployer, addr, "mint", r.e.deployer, big.NewInt(1000))
			})
		}
		r.addAddr(addr)
		o.Addr = hex.EncodeToString(addr.Bytes())
		r.addTok(addr.Hex())
		r.addTok(strings.ToLower(addr.Hex()[2:]))
		r.texts[addr.Hex()] = true
	case "destroy":
		addr := common.HexToAddress(c.A)
		p, val := hlib.Catch(func() {
			sdb := statedb.New(r.ctx, a.EvmKeeper, statedb.NewEmptyTxConfig(common.BytesToHash(r.ctx.HeaderHash().Bytes())))
			if !sdb.Suicide(addr) {
				o.Class = 1
				return
			}
			if err := sdb.Commit(); err != nil {
				o.Class = 1
			}
		})
		if p {
			o.Class, o.Panic = 2, val
		}
	case "supply":
		// make HasSupply(denom) true (mint to the user)
		p, _ := hlib.Catch(func() {
			cs := sdk.Coins{sdk.Coin{Denom: c.A, Amount: sdk.NewInt(1000)}}
			if err := cs.Validate(); err != nil {
				o.Class = 1
				return
			}
			if err := a.BankKeeper.MintCoins(r.ctx, aggtypes.ModuleName, cs); err != nil {
				o.Class = 1
				return
			}
			if err := a.BankKeeper.SendCoinsFromModuleToAccount(r.ctx, aggtypes.ModuleName, r.user(), cs); err != nil {
				o.Class = 1
			}
		})
		if p {
			o.Class = 2
		}
	case "regcoin":
		next := r.moduleNext()
		o.Addr = hex.EncodeToString(next.Bytes())
		hlib.Catch(func() { o.Supply = a.BankKeeper.HasSupply(r.ctx, c.MD.Base) })
		o.Class, o.Panic = r.gov(aggtypes.NewRegisterCoinProposal("t", "d", toBank(c.MD)))
		// (appended whether or not the registration succeeds, so that the generator can count addresses)
		r.addAddr(next)
		r.addTok(next.Hex())
		r.texts[next.Hex()] = true
	case "addcoin":
		hlib.Catch(func() { o.Supply = a.BankKeeper.HasSupply(r.ctx, c.MD.Base) })
		o.Class, o.Panic = r.gov(aggtypes.NewAddCoinProposal("t", "d", toBank(c.MD), c.A))
	case "regerc20":
		if common.IsHexAddress(c.A) {
			o.Q20 = r.query20(common.HexToAddress(c.A))
			r.addTok(aggtypes.CreateDenom(common.HexToAddress(c.A).String()))
		}
		o.Class, o.Panic = r.gov(aggtypes.NewRegisterERC20Proposal("t", "d", c.A))
	case "toggle":
		o.Class, o.Panic = r.gov(aggtypes.NewToggleTokenRelayProposal("t", "d", c.A))
	case "update":
		if common.IsHexAddress(c.B) {
			o.Q20 = r.query20(common.HexToAddress(c.B))
		}
		o.Class, o.Panic = r.gov(aggtypes.NewUpdateTokenPairERC20Proposal("t", "d", c.A, c.B))
	case "enable":
		v := "false"
		if c.On {
			v = "true"
		}
		handler := params.NewParamChangeProposalHandler(a.ParamsKeeper)
		cctx, write := r.ctx.CacheContext()
		var err error
		p, val := hlib.Catch(func() {
			err = handler(cctx, proposaltypes.NewParameterChangeProposal("t", "d",
				[]proposaltypes.ParamChange{proposaltypes.NewParamChange(aggtypes.ModuleName, string(aggtypes.ParamStoreKeyEnableAggregate), v)}))
		})
		switch {
		case p:
			o.Class, o.Panic = 2, val
		case err != nil:
			o.Class = 1
		default:
			write()
		}
	case "convcoin":
		// MsgConvertCoin{Coin: 5 <A>} from the user to the user's EVM address
		msg := aggtypes.MsgConvertCoin{Coin: sdk.Coin{Denom: c.A, Amount: sdk.NewInt(5)}, Receiver: r.e.deployer.Hex(), Sender: r.user().String()}
		if err := msg.ValidateBasic(); err != nil {
			o.Class = 3
			break
		}
		// fund the sender when the bank accepts the denomination (not part of the registry)
		hlib.Catch(func() {
			cs := sdk.Coins{sdk.Coin{Denom: c.A, Amount: sdk.NewInt(5)}}
			if cs.Validate() == nil && a.BankKeeper.MintCoins(r.ctx, aggtypes.ModuleName, cs) == nil {
				a.BankKeeper.SendCoinsFromModuleToAccount(r.ctx, aggtypes.ModuleName, r.user(), cs)
			}
		})
		cctx, write := r.ctx.CacheContext()
		var err error
		p, val := hlib.Catch(func() { _, err = a.AggregateKeeper.ConvertCoin(sdk.WrapSDKContext(cctx), &msg) })
		switch {
		case p:
			o.Class, o.Panic = 2, val
		case err != nil:
			o.Class = 1
		default:
			write()
		}
	case "converc20":
		msg := aggtypes.MsgConvertERC20{ContractAddress: c.A, Amount: sdk.NewInt(5), Receiver: r.user().String(), Sender: r.e.deployer.Hex(), Denom: c.B}
		if err := msg.ValidateBasic(); err != nil {
			o.Class = 3
			break
		}
		cctx, write := r.ctx.CacheContext()
		var err error
		p, val := hlib.Catch(func() { _, err = a.AggregateKeeper.ConvertERC20(sdk.WrapSDKContext(cctx), &msg) })
		switch {
		case p:
			o.Class, o.Panic = 2, val
		case err != nil:
			o.Class = 1
		default:
			write()
		}
	case "trace":
		o.Class, o.Panic = r.gov(aggtypes.NewRegisterERC20TraceProposal("t", "d", c.A, "origin-token", "origin-chain", uint64(c.Decimals)))
	case "limiton":
		o.Class, o.Panic = r.gov(aggtypes.NewEnableTimeBasedSupplyLimitProposal("t", "d", c.A, "3600", "1000", "100", "1"))
	case "limitoff":
		o.Class, o.Panic = r.gov(aggtypes.NewDisableTimeBasedSupplyLimitProposal("t", "d", c.A))
	case "genesis":
		// bank metadata that the (separately validated) bank genesis carries for the imported denominations
		for i := range c.Metas {
			md := toBank(&c.Metas[i])
			if md.Validate() == nil {
				a.BankKeeper.SetDenomMetaData(r.ctx, md)
			}
		}
		gs := aggtypes.GenesisState{Params: aggtypes.DefaultParams()}
		for _, g := range c.Pairs {
			gs.TokenPairs = append(gs.TokenPairs, aggtypes.TokenPair{ERC20Address: g.Text, Denoms: append([]string{}, g.Denoms...), Enabled: g.Enabled, ContractOwner: aggtypes.Owner(g.Owner)})
		}
		var err error
		p, val := hlib.Catch(func() { err = gs.Validate() })
		switch {
		case p:
			o.Class, o.Panic = 2, val
		case err != nil:
			o.Class = 1
		default:
			cctx, write := r.ctx.CacheContext()
			p2, val2 := hlib.Catch(func() { aggregate.InitGenesis(cctx, *a.AggregateKeeper, a.AccountKeeper, gs) })
			if p2 {
				o.Class, o.Panic = 2, val2
			} else {
				write()
			}
		}
	default:
		panic("unknown op kind " + c.K)
	}
	o.Op = c
	r.observe(&o)
	return o
}

// dump reads the whole aggregate store of ctx by raw iteration
func (r *runner) dump(ctx sdk.Context) (pairs []PairD, erc20, denom [][2]string, other int) {
	a := r.e.a
	store := ctx.KVStore(a.GetKey(aggtypes.StoreKey))
	it := store.Iterator(nil, nil)
	defer it.Close()
	pairs, erc20, denom = []PairD{}, [][2]string{}, [][2]string{}
	for ; it.Valid(); it.Next() {
		key, val := it.Key(), it.Value()
		switch {
		case len(key) > 0 && key[0] == aggtypes.KeyPrefixTokenPair[0]:
			var tp aggtypes.TokenPair
			a.AppCodec().MustUnmarshal(val, &tp)
			ds := tp.Denoms
			if ds == nil {
				ds = []string{}
			}
			pairs = append(pairs, PairD{ID: hex.EncodeToString(key[1:]), Text: tp.ERC20Address, Denoms: ds, Enabled: tp.Enabled, Owner: int(tp.ContractOwner)})
		case len(key) > 0 && key[0] == aggtypes.KeyPrefixTokenPairByERC20[0]:
			erc20 = append(erc20, [2]string{hex.EncodeToString(key[1:]), hex.EncodeToString(val)})
		case len(key) > 0 && key[0] == aggtypes.KeyPrefixTokenPairByDenom[0]:
			denom = append(denom, [2]string{string(key[1:]), hex.EncodeToString(val)})
		default:
			other++
		}
	}
	return
}

func samePair(a, b PairD) bool {
	return a.ID == b.ID && a.Text == b.Text && a.Enabled == b.Enabled && a.Owner == b.Owner && strings.Join(a.Denoms, "\x00") == strings.Join(b.Denoms, "\x00") && len(a.Denoms) == len(b.Denoms)
}

// exportCheck: ExportGenesis of the current registry must validate and re-import (into the empty registry of the base
// context) to exactly the same three prefixes
func (r *runner) exportCheck(o *StepObs) {
	a := r.e.a
	var gs *aggtypes.GenesisState
	if p, val := hlib.Catch(func() { gs = aggregate.ExportGenesis(r.ctx, *a.AggregateKeeper) }); p {
		o.Export, o.ExportErr = 2, val
		return
	}
	if len(gs.TokenPairs) != len(o.Pairs) {
		o.Export = 5
		return
	}
	for i, tp := range gs.TokenPairs {
		ds := tp.Denoms
		if ds == nil {
			ds = []string{}
		}
		if !samePair(PairD{ID: o.Pairs[i].ID, Text: tp.ERC20Address, Denoms: ds, Enabled: tp.Enabled, Owner: int(tp.ContractOwner)}, o.Pairs[i]) {
			o.Export = 5
			return
		}
	}
	var err error
	if p, val := hlib.Catch(func() { err = gs.Validate() }); p {
		o.Export, o.ExportErr = 2, val
		return
	}
	if err != nil {
		o.Export, o.ExportErr = 1, err.Error()
		return
	}
	fresh, _ := r.e.base.CacheContext()
	if p, val := hlib.Catch(func() { aggregate.InitGenesis(fresh, *a.AggregateKeeper, a.AccountKeeper, *gs) }); p {
		o.Export, o.ExportErr = 2, val
		return
	}
	pairs, erc20, denom, other := r.dump(fresh)
	same := other == o.Other && len(pairs) == len(o.Pairs) && len(erc20) == len(o.Erc20) && len(denom) == len(o.Denom)
	for i := 0; same && i < len(pairs); i++ {
		same = samePair(pairs[i], o.Pairs[i])
	}
	for i := 0; same && i < len(erc20); i++ {
		same = erc20[i] == o.Erc20[i]
	}
	for i := 0; same && i < len(denom); i++ {
		same = denom[i] == o.Denom[i]
	}
	if !same {
		o.Export = 4
	}
}

func (r *runner) observe(o *StepObs) {
	a := r.e.a
	k := a.AggregateKeeper
	o.Enable = k.GetParams(r.ctx).EnableAggregate
	o.Meta = []MD{}
	idIndex := map[string]int{}
	o.Pairs, o.Erc20, o.Denom, o.Other = r.dump(r.ctx)
	for i, pd := range o.Pairs {
		idIndex[pd.ID] = i
		r.texts[pd.Text] = true
		r.addTok(pd.Text)
		if common.IsHexAddress(pd.Text) {
			r.addAddr(common.HexToAddress(pd.Text))
		}
		for _, d := range pd.Denoms {
			r.dens[d] = true
			r.addTok(d)
		}
	}
	for _, kv := range o.Denom {
		r.addTok(kv[0])
	}
	r.exportCheck(o)
	a.BankKeeper.IterateAllDenomMetaData(r.ctx, func(m banktypes.Metadata) bool {
		o.Meta = append(o.Meta, fromBank(m))
		return false
	})
	sort.Slice(o.Meta, func(i, j int) bool { return o.Meta[i].Base < o.Meta[j].Base })
	// queries
	o.Toks = append([]string{}, r.toks...)
	o.Ids = make([]string, len(o.Toks))
	for i, t := range o.Toks {
		o.Ids[i] = hex.EncodeToString(k.GetTokenPairID(r.ctx, t))
	}
	o.ME = [][3]int{}
	u := r.user()
	for i, t := range o.Toks {
		for j, d := range o.Toks {
			var pair aggtypes.TokenPair
			var err error
			p, _ := hlib.Catch(func() { pair, err = k.MintingEnabled(r.ctx, u, u, t, d) })
			if p || err != nil {
				continue
			}
			ix, ok := idIndex[hex.EncodeToString(pair.GetID())]
			if !ok || o.Pairs[ix].Text != pair.ERC20Address || strings.Join(o.Pairs[ix].Denoms, ",") != strings.Join(pair.Denoms, ",") {
				o.MEBadPair++
				ix = -1
			}
			o.ME = append(o.ME, [3]int{i, j, ix})
		}
	}
}

func runSpec(e *env, s Spec) (res Result) {
	ctx, _ := e.base.CacheContext()
	r := &runner{e: e, ctx: ctx, tset: map[string]bool{}, texts: map[string]bool{}, dens: map[string]bool{}}
	res = Result{Spec: s, EvmDenom: e.a.EvmKeeper.GetParams(ctx).EvmDenom, Obs: []StepObs{}, IdTab: [][3]string{}, Canon: [][2]string{}}
	r.addTok(res.EvmDenom)
	for _, op := range s.Ops {
		o := r.step(op)
		res.Obs = append(res.Obs, o)
		if o.Class == 2 && op.K != "convcoin" && op.K != "converc20" {
			break // a panic in a proposal handler / genesis import is not recovered by the chain
		}
	}
	// oracle tables: the REAL GetID for every (text, denomination) and the REAL Address.Hex() for every address
	texts := []string{}
	for _, a := range r.addrs {
		r.texts[a.Hex()] = true
	}
	for t := range r.texts {
		texts = append(texts, t)
	}
	sort.Strings(texts)
	dens := []string{}
	for _, a := range r.addrs {
		r.dens[aggtypes.CreateDenom(a.String())] = true
	}
	for d := range r.dens {
		dens = append(dens, d)
	}
	sort.Strings(dens)
	for _, t := range texts {
		for _, d := range dens {
			id := aggtypes.TokenPair{ERC20Address: t, Denoms: []string{d}}.GetID()
			res.IdTab = append(res.IdTab, [3]string{t, d, hex.EncodeToString(id)})
		}
	}
	for _, a := range r.addrs {
		res.Canon = append(res.Canon, [2]string{hex.EncodeToString(a.Bytes()), a.Hex()})
	}
	return res
}

func main() {
	seed := flag.Uint64("seed", 1, "PRNG seed")
	n := flag.Int("n", 20, "number of generated sequences")
	steps := flag.Int("steps", 14, "max extra ops per sequence")
	in := flag.String("in", "", "replay: file of specs (JSON lines) instead of generating")
	out := flag.String("out", "/dev/stdout", "output file (JSON lines)")
	flag.Parse()

	e := newEnv()
	var specs []Spec
	if *in != "" {
		hlib.ReadLines(*in, func(line []byte) {
			var wrap struct {
				Spec *Spec `json:"spec"`
			}
			if err := json.Unmarshal(line, &wrap); err == nil && wrap.Spec != nil {
				specs = append(specs, *wrap.Spec)
				return
			}
			var s Spec
			if err := json.Unmarshal(line, &s); err != nil {
				panic(err)
			}
			specs = append(specs, s)
		})
	} else {
		root := hlib.NewRand(*seed)
		specs = append(specs, targeted()...)
		for i := 0; i < *n; i++ {
			specs = append(specs, genSpec(root.Fork(uint64(i)), i, *steps))
		}
	}
	w := hlib.NewOut(*out)
	defer w.Close()
	for _, s := range specs {
		w.Emit(runSpec(e, s))
	}
	_ = fmt.Sprint
}
