// c13: genesis export / import round trip of the xibc, aggregate and rvesting modules on the REAL code.
//
// A case is either
//   - a HISTORY: operations executed on a real two-chain set-up (x/xibc/testing): Tendermint clients
//     created and updated with real headers, packets sent / received / acknowledged with real proofs,
//     BSC / ETH / TSS / Tendermint clients created, updated, upgraded and toggled through the governance
//     proposal handlers, relayer registrations, token-pair registry operations through the aggregate
//     proposal handlers, parameter changes, plus consensus states written directly at heights drawn from
//     byte patterns (0x2F, 0x00, 0xFF in every position, revision numbers > 0); or
//   - a GENESIS INPUT: a generated aggregate / xibc genesis (valid and nearly valid) which is validated
//     and, when accepted, imported into a fresh app to produce the state.
//
// Then: dump of the xibc and aggregate stores and of the parameters (pre) -> real ExportGenesis (module
// by module, and through app.ExportAppStateAndValidators) -> JSON -> the modules' ValidateGenesis ->
// InitChain of a FRESH app with the three sections replaced -> dump (post) -> second export.
// Every observable is written as hex; decoding tables (client / consensus state type and validity,
// relayers, token pairs, sha256, HexToAddress) are tabulated from the real functions.
package main

import (
	"encoding/json"
	"flag"
	"fmt"
	"os"
	"time"

	"verifharness/hlib"
)

type Result struct {
	Spec   Spec     `json:"spec"`
	Ops    []OpObs  `json:"ops"`              // outcome class of every operation of the history
	Fatal  string   `json:"fatal,omitempty"`  // the harness itself failed (set-up); the case carries no observation
	InVal  *ValObs  `json:"in_validate,omitempty"` // genesis-input cases: the real Validate on the INPUT genesis
	InGen  *GenProj `json:"in_genesis,omitempty"`  // genesis-input cases: projection of the input
	InInit int      `json:"in_init"`          // genesis-input cases: 0 imported, 2 InitGenesis panicked, 9 not imported
	Pre    *Dump    `json:"pre,omitempty"`
	Export *GenProj `json:"export,omitempty"` // projection of the exported (and JSON round-tripped) genesis
	ExportClass int `json:"export_class"`     // 0 ok, 2 ExportGenesis panicked
	AppPathEqual bool `json:"app_path_equal"` // app.ExportAppStateAndValidators gives the same three JSON sections
	Validate *ValObs `json:"validate,omitempty"`
	InitClass int    `json:"init_class"`      // InitChain of the fresh app: 0 ok, 2 panic
	Post    *Dump    `json:"post,omitempty"`
	Export2 *GenProj `json:"export2,omitempty"`
	Export2Class int `json:"export2_class"`
	Tables  *Tables  `json:"tables,omitempty"`
	Millis  int64    `json:"ms"`
	Panic   string   `json:"panic,omitempty"`
}

func main() {
	seed := flag.Uint64("seed", 1, "PRNG seed")
	n := flag.Int("n", 40, "number of generated cases (after the corpus)")
	out := flag.String("out", "", "output JSONL")
	in := flag.String("in", "", "replay specs from this JSONL instead of generating")
	from := flag.Int("from", 0, "first case index (sharding)")
	to := flag.Int("to", -1, "one past the last case index (sharding); -1 = all")
	flag.Parse()
	if *out == "" {
		fmt.Fprintln(os.Stderr, "usage: c13 -seed N -n K -out f.jsonl | -in specs.jsonl -out f.jsonl")
		os.Exit(2)
	}
	var specs []Spec
	if *in != "" {
		hlib.ReadLines(*in, func(line []byte) {
			var s Spec
			if err := json.Unmarshal(line, &s); err != nil {
				panic(err)
			}
			specs = append(specs, s)
		})
	} else {
		specs = generate(*seed, *n)
	}
	o := hlib.NewOut(*out)
	defer o.Close()
	for i, s := range specs {
		if i < *from || (*to >= 0 && i >= *to) {
			continue
		}
		t0 := time.Now()
		res := runSpec(s)
		res.Millis = time.Since(t0).Milliseconds()
		o.Emit(res)
	}
}

func runSpec(s Spec) (res Result) {
	res.Spec = s
	res.InInit = 9
	p, val := hlib.Catch(func() {
		if s.Kind == "genesis" {
			runGenesisInput(&res)
		} else {
			runHistory(&res)
		}
	})
	if p {
		res.Fatal = "harness panic: " + val
	}
	return res
}
