package main

import (
	"github.com/teleport-network/teleport/app"
	aggtypes "github.com/teleport-network/teleport/x/aggregate/types"
	rvtypes "github.com/teleport-network/teleport/x/rvesting/types"
	xibctypes "github.com/teleport-network/teleport/x/xibc/types"
)

// A generated genesis is validated by the modules' own ValidateGenesis; when it is accepted it is imported into a
// fresh app (InitChain) and the resulting state is the pre-state of the usual round trip.
func runGenesisInput(res *Result) {
	probe := app.Setup(false, nil) // only for its codec
	cdc := probe.AppCodec()
	g := res.Spec.Gen
	ag := aggtypes.GenesisState{Params: aggtypes.Params{EnableAggregate: g.AggParams[0], EnableEVMHook: g.AggParams[1]}}
	for _, p := range g.Pairs {
		ag.TokenPairs = append(ag.TokenPairs, aggtypes.TokenPair{ERC20Address: p.Erc20, Denoms: p.Denoms, Enabled: p.Enabled, ContractOwner: aggtypes.Owner(p.Owner)})
	}
	secs := Sections{
		Xibc: cdc.MustMarshalJSON(xibctypes.DefaultGenesisState()),
		Agg:  cdc.MustMarshalJSON(&ag),
		Rv:   cdc.MustMarshalJSON(rvtypes.DefaultGenesisState()),
	}
	t := newTabler(probe)
	d, err := decodeSections(probe, secs)
	if err != nil {
		res.Fatal = "generated genesis does not decode: " + err.Error()
		return
	}
	res.InGen = t.project(d)
	res.InVal = validateSections(probe, secs)
	if res.InVal.Xibc != 0 || res.InVal.Agg != 0 || res.InVal.Rv != 0 {
		res.Tables = t.tables()
		return
	}
	a, class, pval := freshApp(secs)
	res.InInit = class
	if class != 0 {
		res.Panic = pval
		res.Tables = t.tables()
		return
	}
	roundTrip(res, a, freshCtx(a), false, nil, nil)
	// keep the rows of the input as well
	tb := t.tables()
	merge(res.Tables, tb)
}

func merge(dst, src *Tables) {
	if dst == nil || src == nil {
		return
	}
	have := map[string]bool{}
	for _, r := range dst.TP {
		have[r.Value] = true
	}
	for _, r := range src.TP {
		if !have[r.Value] {
			dst.TP = append(dst.TP, r)
		}
	}
	add := func(d *[][2]string, s [][2]string) {
		h := map[string]bool{}
		for _, r := range *d {
			h[r[0]] = true
		}
		for _, r := range s {
			if !h[r[0]] {
				*d = append(*d, r)
			}
		}
	}
	add(&dst.Sha, src.Sha)
	add(&dst.Addr, src.Addr)
	add(&dst.Hex, src.Hex)
	add(&dst.Den, src.Den)
	add(&dst.Name, src.Name)
}
