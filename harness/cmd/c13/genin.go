package main

import (
	"github.com/teleport-network/teleport/app"
	bsctypes "github.com/teleport-network/teleport/x/xibc/clients/light-clients/bsc/types"
	ethtypes "github.com/teleport-network/teleport/x/xibc/clients/light-clients/eth/types"
	tmtypes "github.com/teleport-network/teleport/x/xibc/clients/light-clients/tendermint/types"
	tsstypes "github.com/teleport-network/teleport/x/xibc/clients/tss-client/types"
	clienttypes "github.com/teleport-network/teleport/x/xibc/core/client/types"
	packettypes "github.com/teleport-network/teleport/x/xibc/core/packet/types"
	"github.com/teleport-network/teleport/x/xibc/exported"

	aggtypes "github.com/teleport-network/teleport/x/aggregate/types"
	rvtypes "github.com/teleport-network/teleport/x/rvesting/types"
	xibctypes "github.com/teleport-network/teleport/x/xibc/types"
	"verifharness/hlib"
)

// A generated genesis is validated by the modules' own ValidateGenesis; when it is accepted it is imported into a
// fresh app (InitChain) and the resulting state is the pre-state of the usual round trip.
func runGenesisInput(res *Result) {
	probe := app.Setup(false, nil) // only for its codec
	cdc := probe.AppCodec()
	g := res.Spec.Gen
	ag := aggtypes.GenesisState{Params: aggtypes.Params{EnableAggregate: g.AggParams[0], EnableEVMHook: g.AggParams[1]}}
	for _, p := range g.Pairs {
		ag.TokenPairs = append(ag.TokenPairs, aggtypes.TokenPair{ERC20Address: p.Erc20, Denoms: p.Denoms, Enabled: p.Enabled, ContractOwner: aggtypes.Owner(p.Owner)})
	}
	xg := xibctypes.DefaultGenesisState()
	if g.Xibc != nil {
		xg = buildXibc(g.Xibc)
	}
	secs := Sections{
		Xibc: cdc.MustMarshalJSON(xg),
		Agg:  cdc.MustMarshalJSON(&ag),
		Rv:   cdc.MustMarshalJSON(rvtypes.DefaultGenesisState()),
	}
	t := newTabler(probe)
	d, err := decodeSections(probe, secs)
	if err != nil {
		res.Fatal = "generated genesis does not decode: " + err.Error()
		return
	}
	res.InGen = t.project(d)
	res.InVal = validateSections(probe, secs)
	if res.InVal.Xibc != 0 || res.InVal.Agg != 0 || res.InVal.Rv != 0 {
		res.Tables = t.tables()
		return
	}
	a, class, pval := freshApp(secs)
	res.InInit = class
	if class != 0 {
		res.Panic = pval
		res.Tables = t.tables()
		return
	}
	roundTrip(res, a, freshCtx(a), false, nil, nil)
	// keep the rows of the input as well
	tb := t.tables()
	merge(res.Tables, tb)
}

func merge(dst, src *Tables) {
	if dst == nil || src == nil {
		return
	}
	have := map[string]bool{}
	for _, r := range dst.TP {
		have[r.Value] = true
	}
	for _, r := range src.TP {
		if !have[r.Value] {
			dst.TP = append(dst.TP, r)
		}
	}
	add := func(d *[][2]string, s [][2]string) {
		h := map[string]bool{}
		for _, r := range *d {
			h[r[0]] = true
		}
		for _, r := range s {
			if !h[r[0]] {
				*d = append(*d, r)
			}
		}
	}
	add(&dst.Sha, src.Sha)
	add(&dst.Addr, src.Addr)
	add(&dst.Hex, src.Hex)
	add(&dst.Den, src.Den)
	add(&dst.Name, src.Name)
	add(&dst.Acc, src.Acc)
	haveS := func(rows []StateRow) map[string]bool {
		h := map[string]bool{}
		for _, r := range rows {
			h[r.Value] = true
		}
		return h
	}
	hc := haveS(dst.CS)
	for _, r := range src.CS {
		if !hc[r.Value] {
			dst.CS = append(dst.CS, r)
		}
	}
	hn := haveS(dst.Cons)
	for _, r := range src.Cons {
		if !hn[r.Value] {
			dst.Cons = append(dst.Cons, r)
		}
	}
	hr := map[string]bool{}
	for _, r := range dst.Rel {
		hr[r.Value] = true
	}
	for _, r := range src.Rel {
		if !hr[r.Value] {
			dst.Rel = append(dst.Rel, r)
		}
	}
}

// the xibc genesis a spec describes (client / consensus states of the four types built the way the histories build them)
func buildXibc(x *XibcIn) *xibctypes.GenesisState {
	w := newWorld()
	cg := clienttypes.GenesisState{Clients: []clienttypes.IdentifiedClientState{}, ClientsConsensus: clienttypes.ClientsConsensusStates{},
		ClientsMetadata: []clienttypes.IdentifiedGenesisMetadata{}, NativeChainName: x.Native}
	for _, c := range x.Clients {
		cs, _, _ := w.mkStates(Op{T: c.T, Rev: c.Rev, H: c.H, N: c.N, Epoch: c.Epoch, Vals: c.Vals})
		if c.Bad {
			cs = badClientState(cs)
		}
		cg.Clients = append(cg.Clients, clienttypes.NewIdentifiedClientState(c.Name, cs))
	}
	for _, grp := range x.Consensus {
		ccs := clienttypes.ClientConsensusStates{ChainName: grp.Name}
		for _, st := range grp.States {
			rev, h := u64(st.Rev), u64(st.H)
			typ := st.T
			if typ == tTM {
				typ = exported.Tendermint
			}
			cons := w.consOf(typ, rev, h, byte(st.Salt))
			if st.Bad {
				cons = badConsState(cons)
			}
			ccs.ConsensusStates = append(ccs.ConsensusStates, clienttypes.NewConsensusStateWithHeight(clienttypes.NewHeight(rev, h), cons))
		}
		cg.ClientsConsensus = append(cg.ClientsConsensus, ccs)
	}
	for _, m := range x.Metadata {
		igm := clienttypes.IdentifiedGenesisMetadata{ChainName: m.Name}
		for _, kv := range m.KVs {
			igm.Metadata = append(igm.Metadata, clienttypes.GenesisMetadata{Key: unhexNil(kv[0]), Value: unhexNil(kv[1])})
		}
		cg.ClientsMetadata = append(cg.ClientsMetadata, igm)
	}
	for _, r := range x.Relayers {
		cg.Relayers = append(cg.Relayers, clienttypes.IdentifiedRelayer{Address: r.Address, Chains: r.Chains, Addresses: r.Addresses})
	}
	pkts := func(in []PktIn) []packettypes.PacketState {
		out := []packettypes.PacketState{}
		for _, p := range in {
			out = append(out, packettypes.PacketState{SrcChain: p.Src, DstChain: p.Dst, Sequence: u64(p.Seq), Data: unhexNil(p.Data)})
		}
		return out
	}
	pg := packettypes.GenesisState{Acknowledgements: pkts(x.Acks), Commitments: pkts(x.Commitments), Receipts: pkts(x.Receipts), SendSequences: []packettypes.PacketSequence{}}
	for _, p := range x.SendSeqs {
		pg.SendSequences = append(pg.SendSequences, packettypes.PacketSequence{SrcChain: p.Src, DstChain: p.Dst, Sequence: u64(p.Seq)})
	}
	return &xibctypes.GenesisState{ClientGenesis: cg, PacketGenesis: pg}
}

func unhexNil(s string) []byte {
	if s == "" {
		return nil
	}
	return hlib.UnHex(s)
}

// a client state of the same type that its own Validate refuses
func badClientState(cs exported.ClientState) exported.ClientState {
	switch c := cs.(type) {
	case *tmtypes.ClientState:
		c.ChainId = ""
	case *bsctypes.ClientState:
		c.Epoch = 0
	case *ethtypes.ClientState:
		c.Header.Bloom = rep(7, 257)
	case *tsstypes.ClientState:
		c.TssAddress = ""
	}
	return cs
}

// a consensus state of the same type that its own ValidateBasic refuses
func badConsState(cs exported.ConsensusState) exported.ConsensusState {
	switch c := cs.(type) {
	case *tmtypes.ConsensusState:
		c.Root = nil
	case *bsctypes.ConsensusState:
		c.Root = nil
	case *ethtypes.ConsensusState:
		c.Root = nil
	}
	return cs
}
