package main

import (
	"bytes"
	"crypto/ecdsa"
	"crypto/sha256"
	"math/big"
	"testing"
	"time"

	abci "github.com/tendermint/tendermint/abci/types"
	tmproto "github.com/tendermint/tendermint/proto/tendermint/types"

	"github.com/cosmos/cosmos-sdk/simapp/helpers"
	sdk "github.com/cosmos/cosmos-sdk/types"
	govtypes "github.com/cosmos/cosmos-sdk/x/gov/types"

	"github.com/ethereum/go-ethereum/common"
	ethcoretypes "github.com/ethereum/go-ethereum/core/types"
	"github.com/ethereum/go-ethereum/crypto"
	"github.com/ethereum/go-ethereum/rlp"

	bsctypes "github.com/teleport-network/teleport/x/xibc/clients/light-clients/bsc/types"
	ethtypes "github.com/teleport-network/teleport/x/xibc/clients/light-clients/eth/types"
	tmtypes "github.com/teleport-network/teleport/x/xibc/clients/light-clients/tendermint/types"
	tsstypes "github.com/teleport-network/teleport/x/xibc/clients/tss-client/types"
	clienttypes "github.com/teleport-network/teleport/x/xibc/core/client/types"
	commitmenttypes "github.com/teleport-network/teleport/x/xibc/core/commitment/types"
	packettypes "github.com/teleport-network/teleport/x/xibc/core/packet/types"
	"github.com/teleport-network/teleport/x/xibc/exported"
	xibctesting "github.com/teleport-network/teleport/x/xibc/testing"

	"verifharness/hlib"
)

func tmHeader(h int64) tmproto.Header {
	return tmproto.Header{Height: h, ChainID: "teleport_9000-1", Time: time.Date(2020, 1, 2, 1, 0, 0, 0, time.UTC)}
}

// what the harness remembers about a client it created through a proposal
type cinfo struct {
	typ     string
	bsc     *bsctypes.Header // latest accepted BSC header
	bscCS   *bsctypes.ClientState
	eth     *ethtypes.Header
	ethCS   *ethtypes.ClientState
	serial  uint64
}

type World struct {
	coord   *xibctesting.Coordinator
	A, B    *xibctesting.TestChain
	path    *xibctesting.Path
	tmReady bool
	tmGone  bool // ResetStates removed the clients of the two-chain path
	key     *ecdsa.PrivateKey
	clients map[string]*cinfo
	pendAB  []packettypes.Packet // sent A -> B, not yet relayed
	deployed []common.Address
	regBases []string
	pairAddrs []string
	serial  int
	seenCS   []exported.ClientState
	seenCons []exported.ConsensusState
}

func newWorld() *World {
	coord := xibctesting.NewCoordinator(&testing.T{}, 2)
	w := &World{coord: coord, A: coord.GetChain(xibctesting.GetChainID(0)), B: coord.GetChain(xibctesting.GetChainID(1)), clients: map[string]*cinfo{}}
	w.path = xibctesting.NewPath(w.A, w.B)
	h := sha256.Sum256([]byte("verif-c13-bsc-sealer"))
	k, err := crypto.ToECDSA(h[:])
	if err != nil {
		panic(err)
	}
	w.key = k
	return w
}

func (w *World) ctx() sdk.Context { return w.A.GetContext() }

// close the open block of c and open the next one (BeginBlock once)
func (w *World) commit(c *xibctesting.TestChain) {
	c.App.EndBlock(abci.RequestEndBlock{Height: c.CurrentHeader.Height})
	c.App.Commit()
	w.coord.CurrentTime = w.coord.CurrentTime.Add(xibctesting.TimeIncrement).UTC()
	c.CurrentHeader.Time = w.coord.CurrentTime
	c.NextBlock()
}

// gov executes a proposal the way x/gov's EndBlocker does: ValidateBasic at submission, the routed handler on a
// cache context that is written only when the handler returns nil.  0 executed, 1 handler error, 2 panic, 3 rejected at submission
func (w *World) gov(content govtypes.Content) (int, string) {
	if err := content.ValidateBasic(); err != nil {
		return 3, short(err.Error())
	}
	a := w.A.App
	if !a.GovKeeper.Router().HasRoute(content.ProposalRoute()) {
		return 1, "no route"
	}
	handler := a.GovKeeper.Router().GetRoute(content.ProposalRoute())
	cctx, write := w.ctx().CacheContext()
	var err error
	p, val := hlib.Catch(func() { err = handler(cctx, content) })
	if p {
		return 2, val
	}
	if err != nil {
		return 1, short(err.Error())
	}
	write()
	return 0, ""
}

func short(s string) string {
	if len(s) > 160 {
		return s[:160]
	}
	return s
}

// ---------------------------------------------------------------------------------------------
// client states of the four types

func rep(b byte, n int) []byte { return bytes.Repeat([]byte{b}, n) }

func (w *World) blockUnix() uint64 { return uint64(w.ctx().BlockTime().Unix()) }

func (w *World) sealBsc(h *bsctypes.Header, chainID uint64) {
	bz, err := rlp.EncodeToBytes([]interface{}{
		new(big.Int).SetUint64(chainID), h.ParentHash, h.UncleHash, h.Coinbase, h.Root, h.TxHash, h.ReceiptHash, h.Bloom, h.Difficulty,
		h.Height.RevisionHeight, h.GasLimit, h.GasUsed, h.Time, h.Extra[:len(h.Extra)-65], h.MixDigest, h.Nonce,
	})
	if err != nil {
		panic(err)
	}
	sig, err := crypto.Sign(crypto.Keccak256(bz), w.key)
	if err != nil {
		panic(err)
	}
	copy(h.Extra[len(h.Extra)-65:], sig)
}

const bscChainID = 56

// a header sealed by the harness key; on an epoch block the extra data carries nvals copies of distinct validators
// (the sealer first), nvals = 0 gives an epoch header WITHOUT validators
func (w *World) bscHeader(rev, height uint64, parent []byte, epoch uint64, nvals int, t uint64, root byte) bsctypes.Header {
	validator := crypto.PubkeyToAddress(w.key.PublicKey)
	extra := make([]byte, 32)
	if epoch != 0 && height%epoch == 0 {
		for i := 0; i < nvals; i++ {
			if i == 0 {
				extra = append(extra, validator.Bytes()...)
			} else {
				extra = append(extra, rep(byte(0x40+i), 20)...)
			}
		}
	}
	extra = append(extra, make([]byte, 65)...)
	h := bsctypes.Header{
		ParentHash: parent, UncleHash: ethcoretypes.CalcUncleHash(nil).Bytes(), Coinbase: validator.Bytes(),
		Root: rep(root, 32), TxHash: rep(5, 32), ReceiptHash: rep(6, 32), Bloom: rep(7, 256), Difficulty: []byte{2},
		Height: clienttypes.NewHeight(rev, height), GasLimit: 30000000, GasUsed: 100, Time: t, Extra: extra,
		MixDigest: make([]byte, 32), Nonce: make([]byte, 8),
	}
	w.sealBsc(&h, bscChainID)
	return h
}

func (w *World) bscState(rev, height, epoch uint64, nvals int) (*bsctypes.ClientState, *bsctypes.ConsensusState) {
	h := w.bscHeader(rev, height, rep(1, 32), epoch, nvals, w.blockUnix()-1000, 4)
	return &bsctypes.ClientState{Header: h, ChainId: bscChainID, Epoch: epoch, BlockInteval: 3,
			Validators: [][]byte{crypto.PubkeyToAddress(w.key.PublicKey).Bytes()}, ContractAddress: rep(9, 20), TrustingPeriod: 999999999},
		&bsctypes.ConsensusState{Timestamp: h.Time, Height: h.Height, Root: h.Root}
}

func (w *World) ethState(rev, height uint64) (*ethtypes.ClientState, *ethtypes.ConsensusState) {
	diff := []byte{0x02, 0x00, 0x00}
	h := ethtypes.Header{
		ParentHash: rep(1, 32), UncleHash: rep(2, 32), Coinbase: rep(3, 20), Root: rep(4, 32), TxHash: rep(5, 32), ReceiptHash: rep(6, 32),
		Bloom: rep(7, 256), Difficulty: diff, Height: clienttypes.NewHeight(rev, height), GasLimit: 30000000, GasUsed: 15000000,
		Time: w.blockUnix() - 1000, Extra: []byte("G"), MixDigest: rep(8, 32), Nonce: 0, BaseFee: []byte{0x3b, 0x9a, 0xca, 0x00},
	}
	return &ethtypes.ClientState{Header: h, ChainId: 4, ContractAddress: rep(9, 20), TrustingPeriod: 999999999, TimeDelay: 0, BlockDelay: 1},
		&ethtypes.ConsensusState{Timestamp: h.Time, Height: h.Height, Root: h.Root}
}

func (w *World) ethChild(p *ethtypes.Header, serial uint64) ethtypes.Header {
	c := *p
	c.ParentHash = p.Hash().Bytes()
	c.Height = clienttypes.NewHeight(p.Height.RevisionNumber, p.Height.RevisionHeight+1)
	c.Time = p.Time + 1
	c.Difficulty = []byte{0x01}
	c.Root = rep(byte(0x10+serial%200), 32)
	c.Nonce = serial
	c.Extra = []byte("C")
	pc := *p
	c.BaseFee = ethtypes.CalcBaseFee(&pc).Bytes()
	return c
}

func (w *World) tmState(chainID string, rev, height uint64) (*tmtypes.ClientState, *tmtypes.ConsensusState) {
	cs := tmtypes.NewClientState(chainID, tmtypes.DefaultTrustLevel, time.Hour*24*14, time.Hour*24*21, time.Second*10,
		clienttypes.NewHeight(rev, height), commitmenttypes.GetSDKSpecs(), commitmenttypes.MerklePrefix{KeyPrefix: []byte("xibc")}, 0)
	return cs, tmtypes.NewConsensusState(w.ctx().BlockTime().Add(-time.Minute), []byte("apphash-"+chainID), rep(byte(height), 32))
}

func tssAddr(i int) string {
	return sdk.AccAddress(append(make([]byte, 19), byte(i+1))).String()
}

func (w *World) tssState(i int) (*tsstypes.ClientState, *tsstypes.ConsensusState) {
	return &tsstypes.ClientState{TssAddress: tssAddr(i), Pubkey: []byte{byte(i + 1)}, PartPubkeys: [][]byte{{byte(i + 1)}}, Threshold: 1}, &tsstypes.ConsensusState{}
}

// a consensus state of the given type for a directly written height
func (w *World) consOf(typ string, rev, height uint64, salt byte) exported.ConsensusState {
	switch typ {
	case exported.Tendermint:
		return tmtypes.NewConsensusState(w.ctx().BlockTime().Add(-time.Duration(salt)*time.Second), []byte("hash"), rep(salt|1, 32))
	case exported.BSC:
		return &bsctypes.ConsensusState{Timestamp: w.blockUnix() - uint64(salt), Height: clienttypes.NewHeight(rev, height), Root: rep(salt|1, 32)}
	case exported.ETH:
		return &ethtypes.ConsensusState{Timestamp: w.blockUnix() - uint64(salt), Height: clienttypes.NewHeight(rev, height), Root: rep(salt|1, 32)}
	}
	return &tsstypes.ConsensusState{}
}

// deliver signs msgs with the chain's sender key and runs them through BaseApp.Deliver in the open block, then
// commits the block (no testing.T assertions: a rejected transaction is an error value)
func (w *World) deliver(c *xibctesting.TestChain, msgs ...sdk.Msg) (*sdk.Result, error) {
	acc := c.App.AccountKeeper.GetAccount(c.GetContext(), c.SenderAcc)
	tx, err := helpers.GenTx(c.TxConfig, msgs, sdk.Coins{sdk.NewInt64Coin(sdk.DefaultBondDenom, 0)}, helpers.DefaultGenTxGas*4, c.ChainID,
		[]uint64{acc.GetAccountNumber()}, []uint64{acc.GetSequence()}, c.SenderPrivKey)
	if err != nil {
		return nil, err
	}
	_, res, err := c.App.BaseApp.Deliver(c.TxConfig.TxEncoder(), tx)
	w.commit(c)
	if err != nil {
		return nil, err
	}
	return res, nil
}
